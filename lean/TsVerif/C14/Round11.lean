import TsVerif.C14.Sep
import TsVerif.C14.LexLemmas
/-!
# C14 round 11 — the separator-aware scan is "skip the extras, then `lexScan`" when no token can begin
# with an extras character

`NoExtraStart toks isExtra`: the derivative of every token's regex by every extras character is the
(syntactically) empty regex — the condition the driver evaluates (`overlapsExtras`, negated) to decide
which model a token set is lexed with.  Under it

* `lexOneSep_eq_skip_lexScan` — for every token list, valid predicate and input, one lexing step of the
  separator-aware automaton (`lexOneSep` = `sepScan` from the initial state) returns exactly
  `(i, d, d + n)` where `d` is the number of leading extras and `(i, n)` the answer of `lexScan` (with
  `validAt … d`, i.e. immediate tokens dropped after skipped extras) on the input after the extras;
* `sepAtEof_eq` — the end-of-input test of the automaton is "only extras remain";
* `tokenizeSep_eq_tokenizeAux` — hence the two tokenizers agree for every fuel and position.
-/
namespace TsVerif.C14
open Regex

/-- no token can begin with an extras character (syntactic emptiness of the derivative, as evaluated
by the driver) -/
def NoExtraStart (toks : List Token) (isExtra : Nat → Bool) : Prop :=
  ∀ i, i < toks.length → ∀ c, isExtra c = true → (deriv c (tokAt toks i).re).isEmpty = true

/-- a `lexScan` answer relative to the input after `d` skipped extras, as `(token, start, end)` -/
def liftC (d : Nat) : Option Cand → Option (Nat × Nat × Nat)
  | none => none
  | some (i, n) => some (i, d, d + n)

theorem isEmpty_eq {r : Regex} (h : r.isEmpty = true) : r = .empty := by
  cases r <;> simp [isEmpty] at h ⊢

theorem getD_map_deriv (B : List Regex) (c i : Nat) :
    (B.map (deriv c)).getD i .empty = deriv c (B.getD i .empty) := by
  simp only [List.getD_eq_getElem?_getD, List.getElem?_map]
  cases B[i]? <;> simp [deriv]

theorem sepBase_getD (toks : List Token) (st : SepSt) (i : Nat) (hi : i < toks.length) :
    (sepBase toks st).getD i .empty =
      (if st.sep && (st.k == 0 || !(tokAt toks i).immediate) then mkAlt (st.rs.getD i .empty) (tokAt toks i).re
       else st.rs.getD i .empty) := by
  simp [sepBase, List.getD_eq_getElem?_getD, List.getElem?_map, List.getElem?_range hi]

theorem sepBase_length (toks : List Token) (st : SepSt) : (sepBase toks st).length = toks.length := by
  simp [sepBase]

/-- the threads of the separator-aware scan (`B`, valid set `valid`) and of `scan` (`L`, valid set `valid'`)
carry the same live tokens -/
def SimRel (toks : List Token) (valid valid' : Nat → Bool) (B L : List Regex) : Prop :=
  ∀ i, i < toks.length →
    (valid' i = true → valid i = true ∧ B.getD i .empty = L.getD i .empty) ∧
    (valid' i = false → valid i = false ∨ B.getD i .empty = .empty)

theorem SimRel.deriv {toks : List Token} {valid valid' : Nat → Bool} {B L : List Regex}
    (h : SimRel toks valid valid' B L) (c : Nat) : SimRel toks valid valid' (B.map (deriv c)) (L.map (deriv c)) := by
  intro i hi
  obtain ⟨h1, h2⟩ := h i hi
  rw [getD_map_deriv, getD_map_deriv]
  refine ⟨fun hv => ⟨(h1 hv).1, by rw [(h1 hv).2]⟩, fun hv => ?_⟩
  rcases h2 hv with h | h
  · exact Or.inl h
  · exact Or.inr (by rw [h]; rfl)

theorem aliveIdx_sim {toks : List Token} {valid valid' : Nat → Bool} {B L : List Regex}
    (h : SimRel toks valid valid' B L) : aliveIdx toks valid B = aliveIdx toks valid' L := by
  unfold aliveIdx
  apply List.filter_congr
  intro i hi
  obtain ⟨h1, h2⟩ := h i (List.mem_range.1 hi)
  cases hv : valid' i with
  | true => obtain ⟨a, b⟩ := h1 hv; simp only [a, b]
  | false =>
    rcases h2 hv with h | h
    · simp only [h, Bool.false_and]
    · simp only [h, isEmpty, Bool.not_true, Bool.and_false, Bool.false_and]

theorem comps_sim {toks : List Token} {valid valid' : Nat → Bool} {B L : List Regex}
    (h : SimRel toks valid valid' B L) :
    (aliveIdx toks valid' L).filter (fun i => nullable (B.getD i .empty)) =
      (aliveIdx toks valid' L).filter (fun i => nullable (L.getD i .empty)) := by
  apply List.filter_congr
  intro i hi
  unfold aliveIdx at hi
  rw [List.mem_filter] at hi
  have hv : valid' i = true := by
    have := hi.2; simp only [Bool.and_eq_true] at this; exact this.1
  rw [((h i (List.mem_range.1 hi.1)).1 hv).2]

theorem maxPrec_cons_some (toks : List Token) (a : Nat) (as : List Nat) : ∃ m, maxPrec toks (a :: as) = some m := by
  cases h : maxPrec toks as <;> simp [maxPrec, h]

/-- candidates of one length: the winner does not depend on the length -/
theorem foldl_best_len (toks : List Token) (a b : Nat) : ∀ (cs : List Nat) (i0 : Nat),
    (cs.map (fun i => (i, a))).foldl (fun acc d => if Better (keyOf toks acc) (keyOf toks d) then acc else d) (i0, a) =
      (((cs.map (fun i => (i, b))).foldl (fun acc d => if Better (keyOf toks acc) (keyOf toks d) then acc else d) (i0, b)).1, a) := by
  intro cs
  induction cs with
  | nil => intro i0; rfl
  | cons j cs ih =>
    intro i0
    simp only [List.map_cons, List.foldl_cons]
    have hB : Better (keyOf toks (i0, a)) (keyOf toks (j, a)) ↔ Better (keyOf toks (i0, b)) (keyOf toks (j, b)) := by
      simp [Better, keyOf]
    by_cases hb : Better (keyOf toks (i0, b)) (keyOf toks (j, b))
    · rw [if_pos hb, if_pos (hB.2 hb)]; exact ih i0
    · rw [if_neg hb, if_neg (fun x => hb (hB.1 x))]; exact ih j

theorem bestOf_len (toks : List Token) (a b : Nat) (cs : List Nat) :
    bestOf toks (cs.map (fun i => (i, a))) = (bestOf toks (cs.map (fun i => (i, b)))).map (fun x => (x.1, a)) := by
  cases cs with
  | nil => rfl
  | cons j cs => simp only [List.map_cons, bestOf, Option.map_some, foldl_best_len toks a b cs j]

/-! ## phase 2: from the first non-extra character on, `sepScan` is `scan` -/

theorem sepScan_sim (toks : List Token) (valid valid' : Nat → Bool) (isExtra : Nat → Bool) (d : Nat) :
    ∀ (rest : List Nat) (st : SepSt) (L : List Regex) (kl : Nat) (cur : Option Int) (last : Option Cand),
      SimRel toks valid valid' (sepBase toks st) L →
      (st.sep = false ∨ (st.cur = none ∧ ∀ c r, rest = c :: r → isExtra c = false)) →
      st.k = d + kl → st.start = d → st.cur.map (·.1) = cur → st.last = liftC d last →
      sepScan toks valid isExtra rest st = liftC d (scan toks valid' rest L kl cur last) := by
  intro rest
  induction rest with
  | nil => intro st L kl cur last _ _ _ _ _ hl; simp [sepScan, scan, hl]
  | cons c rest ih =>
    intro st L kl cur last hR hC hk hs hcur hl
    have hsepC : (st.sep && isExtra c) = false := by
      rcases hC with h | ⟨_, h⟩
      · simp [h]
      · simp [h c rest rfl]
    have hR' := hR.deriv c
    have hal := aliveIdx_sim hR'
    have hco := comps_sim hR'
    simp only [sepScan, scan]
    cases hA : aliveIdx toks valid' (L.map (deriv c)) with
    | nil =>
      simp [sepStep, hal, hA, hsepC, maxPrec, hl]
    | cons a as =>
      obtain ⟨m, hm⟩ := maxPrec_cons_some toks a as
      rw [hA] at hco
      have hstep : sepStep toks valid isExtra c st =
          (if cut cur m then SepOut.stop else
            match bestOf toks (((a :: as).filter (fun i => nullable ((L.map (deriv c)).getD i .empty))).map (fun i => (i, st.k + 1))) with
            | some b => .go { sep := false, rs := (sepBase toks st).map (deriv c), k := st.k + 1, start := st.start,
                              cur := some ((tokAt toks b.1).prec, b.1), last := some (b.1, st.start, st.k + 1), eofOk := false }
            | none => .go { sep := false, rs := (sepBase toks st).map (deriv c), k := st.k + 1, start := st.start,
                            cur := none, last := st.last, eofOk := false }) := by
        cases hsc : st.cur with
        | none =>
          have hcn : cur = none := by rw [← hcur, hsc]; rfl
          simp only [sepStep, hal, hA, hsepC, hsc, hcn, cut, List.isEmpty_cons, Bool.false_and, Bool.false_eq_true,
            if_false, Bool.and_false, hco]
          generalize bestOf toks _ = ob
          cases ob <;> rfl
        | some pc =>
          obtain ⟨P, c0⟩ := pc
          have hsf : st.sep = false := by
            rcases hC with h | ⟨h, _⟩
            · exact h
            · rw [hsc] at h; cases h
          have hcn : cur = some P := by rw [← hcur, hsc]; rfl
          simp only [sepStep, hal, hA, hm, hsc, hcn, cut, hsf, List.isEmpty_cons, Bool.false_and, Bool.false_eq_true,
            if_false, Bool.and_false, hco, Bool.or_false]
          generalize bestOf toks _ = ob
          by_cases hmp : m < P
          · simp only [hmp, decide_true, if_true]
          · simp only [hmp, decide_false, Bool.false_eq_true, if_false]
            cases ob <;> rfl
      rw [hstep, hm]
      by_cases hc : cut cur m = true
      · simp [hc, hl]
      · simp only [hc, Bool.false_eq_true, if_false]
        rw [bestOf_len toks (st.k + 1) (kl + 1)]
        -- the relation for the next state (sep = false: its base threads are its own threads)
        have hRn : ∀ (st' : SepSt), st'.sep = false → st'.rs = (sepBase toks st).map (deriv c) →
            SimRel toks valid valid' (sepBase toks st') (L.map (deriv c)) := by
          intro st' hs' hr' i hi
          have := hR' i hi
          rw [sepBase_getD toks st' i hi, hs', hr']
          simpa using this
        cases hb : bestOf toks (((a :: as).filter (fun i => nullable ((L.map (deriv c)).getD i .empty))).map (fun i => (i, kl + 1))) with
        | none =>
          simp only [Option.map_none]
          exact ih _ _ _ _ _ (hRn _ rfl rfl) (Or.inl rfl) (by simp only; omega) hs rfl hl
        | some b =>
          simp only [Option.map_some]
          refine ih _ _ _ _ _ (hRn _ rfl rfl) (Or.inl rfl) (by simp only; omega) hs rfl ?_
          obtain ⟨bi, bn⟩ := b
          have hbn : bn = kl + 1 := by
            have := (bestOf_spec toks _).2 _ hb |>.1
            simp only [List.mem_map] at this
            obtain ⟨_, _, h⟩ := this
            exact (Prod.mk.inj h).2.symm
          simp [liftC, hs, hk, hbn]; omega

/-! ## phase 1: leading extras are pure separator transitions -/

structure SkipInv (st : SepSt) : Prop where
  sep : st.sep = true
  rs : ∀ i, st.rs.getD i .empty = .empty
  cur : st.cur = none
  last : st.last = none
  start : st.start = st.k
  eof : st.eofOk = true

theorem SkipInv.init : SkipInv ({} : SepSt) :=
  ⟨rfl, fun i => by simp, rfl, rfl, rfl, rfl⟩

theorem mkAlt_empty_left (b : Regex) : mkAlt .empty b = b := by
  cases b <;> rfl

theorem skip_threads_dead {toks : List Token} {isExtra : Nat → Bool} (hN : NoExtraStart toks isExtra)
    {st : SepSt} (inv : SkipInv st) {c : Nat} (hx : isExtra c = true) :
    ∀ i, ((sepBase toks st).map (deriv c)).getD i .empty = .empty := by
  intro i
  by_cases hi : i < toks.length
  · rw [getD_map_deriv, sepBase_getD toks st i hi, inv.rs i, inv.sep]
    by_cases hc : (true && (st.k == 0 || !(tokAt toks i).immediate)) = true
    · rw [if_pos hc, mkAlt_empty_left]; exact isEmpty_eq (hN i hi c hx)
    · rw [if_neg hc]; rfl
  · exact getD_out _ i (by simpa [sepBase] using hi)

theorem skip_step {toks : List Token} (valid : Nat → Bool) {isExtra : Nat → Bool} (hN : NoExtraStart toks isExtra)
    {st : SepSt} (inv : SkipInv st) {c : Nat} (hx : isExtra c = true) :
    ∃ st', sepStep toks valid isExtra c st = .go st' ∧ SkipInv st' ∧ st'.k = st.k + 1 := by
  have hE := skip_threads_dead hN inv hx
  have hdead : aliveIdx toks valid ((sepBase toks st).map (deriv c)) = [] := by
    unfold aliveIdx
    rw [List.filter_eq_nil_iff]
    intro i _
    rw [hE i]; simp [isEmpty]
  unfold sepStep
  simp only [hdead, List.isEmpty_nil, inv.sep, hx, Bool.and_self, Bool.not_true, Bool.and_false, Bool.false_eq_true,
    if_false, inv.cur, List.filter_nil, List.map_nil, bestOf, if_true]
  exact ⟨_, rfl, ⟨rfl, hE, rfl, inv.last, rfl, by simp [inv.eof]⟩, rfl⟩

theorem tokre_getD (toks : List Token) (i : Nat) (hi : i < toks.length) :
    (toks.map (·.re)).getD i .empty = (tokAt toks i).re := by
  simp [tokAt, List.getD_eq_getElem?_getD, List.getElem?_eq_getElem hi]

theorem skip_simrel (toks : List Token) (valid : Nat → Bool) {st : SepSt} (inv : SkipInv st) :
    SimRel toks valid (validAt toks valid st.k) (sepBase toks st) (toks.map (·.re)) := by
  intro i hi
  rw [sepBase_getD toks st i hi, inv.rs i, inv.sep, tokre_getD toks i hi, mkAlt_empty_left]
  cases hv : valid i <;> cases hc : (st.k == 0 || !(tokAt toks i).immediate) <;> simp [validAt, hv, hc]

theorem skipExtras_cons_extra {isExtra : Nat → Bool} {c : Nat} (rest : List Nat) (hx : isExtra c = true) :
    skipExtras isExtra (c :: rest) = skipExtras isExtra rest := by simp [skipExtras, hx]

theorem skipExtras_cons_non {isExtra : Nat → Bool} {c : Nat} (rest : List Nat) (hx : ¬ isExtra c = true) :
    skipExtras isExtra (c :: rest) = c :: rest := by simp [skipExtras, hx]

/-- from a state that has only skipped extras: the scan is "skip the extras, then `lexScan`" -/
theorem sepScan_skip {toks : List Token} (valid : Nat → Bool) {isExtra : Nat → Bool} (hN : NoExtraStart toks isExtra) :
    ∀ (input : List Nat) (st : SepSt), SkipInv st →
      sepScan toks valid isExtra input st =
        liftC (st.k + (input.length - (skipExtras isExtra input).length))
          (lexScan toks (validAt toks valid (st.k + (input.length - (skipExtras isExtra input).length)))
            (skipExtras isExtra input)) := by
  intro input
  induction input with
  | nil => intro st inv; simp [sepScan, skipExtras, lexScan, scan, liftC, inv.last]
  | cons c rest ih =>
    intro st inv
    by_cases hx : isExtra c = true
    · obtain ⟨st', hgo, inv', hk'⟩ := skip_step valid hN inv hx
      have hle := skipExtras_length_le isExtra rest
      have harith : st.k + ((c :: rest).length - (skipExtras isExtra rest).length) =
          st'.k + (rest.length - (skipExtras isExtra rest).length) := by
        simp only [List.length_cons]; omega
      simp only [sepScan, hgo]
      rw [skipExtras_cons_extra rest hx, harith]
      exact ih st' inv'
    · rw [skipExtras_cons_non rest hx]
      simp only [Nat.sub_self, Nat.add_zero, lexScan]
      refine sepScan_sim toks valid (validAt toks valid st.k) isExtra st.k (c :: rest) st _ 0 none none
        (skip_simrel toks valid inv) (Or.inr ⟨inv.cur, ?_⟩) rfl inv.start (by rw [inv.cur]; rfl) (by rw [inv.last]; rfl)
      intro c' r h
      have : c' = c := (List.cons.inj h).1.symm
      rw [this]; simpa using hx

/-- **One lexing step.**  For every token list in which no token can begin with an extras character,
every valid predicate and every input: the separator-aware automaton returns `(i, d, d + n)` where `d`
is the number of leading extras and `(i, n)` is what `lexScan` (immediate tokens dropped when `d > 0`)
returns on the input after them — and nothing when `lexScan` returns nothing. -/
theorem lexOneSep_eq_skip_lexScan (toks : List Token) (valid : Nat → Bool) (isExtra : Nat → Bool)
    (hN : NoExtraStart toks isExtra) (input : List Nat) :
    lexOneSep toks valid isExtra input =
      liftC (input.length - (skipExtras isExtra input).length)
        (lexScan toks (validAt toks valid (input.length - (skipExtras isExtra input).length)) (skipExtras isExtra input)) := by
  have := sepScan_skip valid hN input {} SkipInv.init
  simpa [lexOneSep] using this

/-! ## end of input -/

theorem sepStep_shape (toks : List Token) (valid isExtra : Nat → Bool) (c : Nat) (st : SepSt) :
    sepStep toks valid isExtra c st = .stop ∨
    ∃ s, sepStep toks valid isExtra c st = .go s ∧
      s.eofOk = (st.eofOk && (aliveIdx toks valid ((sepBase toks st).map (deriv c))).isEmpty) ∧
      ¬ ((aliveIdx toks valid ((sepBase toks st).map (deriv c))).isEmpty && !(st.sep && isExtra c)) = true := by
  unfold sepStep
  simp only
  repeat' split
  all_goals first
    | (left; rfl)
    | exact Or.inr ⟨_, rfl, rfl, by assumption⟩

theorem sepStep_go_eof {toks : List Token} {valid isExtra : Nat → Bool} {c : Nat} {st st' : SepSt}
    (h : sepStep toks valid isExtra c st = .go st') (he : st'.eofOk = true) :
    st.eofOk = true ∧ (st.sep && isExtra c) = true := by
  rcases sepStep_shape toks valid isExtra c st with h0 | ⟨s, h1, h2, h3⟩
  · rw [h0] at h; cases h
  · rw [h1] at h
    cases h
    rw [h2] at he
    simp only [Bool.and_eq_true] at he
    refine ⟨he.1, ?_⟩
    rw [he.2] at h3
    simpa using h3

theorem sepAtEof_false {toks : List Token} {valid isExtra : Nat → Bool} :
    ∀ (input : List Nat) (st : SepSt), st.eofOk = false → sepAtEof toks valid isExtra input st = false := by
  intro input
  induction input with
  | nil => intro st h; simpa [sepAtEof] using h
  | cons c rest ih =>
    intro st h
    simp only [sepAtEof]
    cases hs : sepStep toks valid isExtra c st with
    | stop => rfl
    | go st' =>
      simp only
      apply ih
      cases he : st'.eofOk with
      | false => rfl
      | true => have := (sepStep_go_eof hs he).1; rw [h] at this; cases this

/-- the end of input is accepted exactly when only extras remain -/
theorem sepAtEof_skip {toks : List Token} (valid : Nat → Bool) {isExtra : Nat → Bool} (hN : NoExtraStart toks isExtra) :
    ∀ (input : List Nat) (st : SepSt), SkipInv st →
      sepAtEof toks valid isExtra input st = (skipExtras isExtra input).isEmpty := by
  intro input
  induction input with
  | nil => intro st inv; simp [sepAtEof, skipExtras, inv.eof]
  | cons c rest ih =>
    intro st inv
    by_cases hx : isExtra c = true
    · obtain ⟨st', hgo, inv', _⟩ := skip_step valid hN inv hx
      simp only [sepAtEof, hgo]
      rw [skipExtras_cons_extra rest hx]
      exact ih st' inv'
    · rw [skipExtras_cons_non rest hx]
      simp only [sepAtEof, List.isEmpty_cons]
      cases hs : sepStep toks valid isExtra c st with
      | stop => rfl
      | go st' =>
        simp only
        apply sepAtEof_false
        cases he : st'.eofOk with
        | false => rfl
        | true =>
          have := (sepStep_go_eof hs he).2
          simp only [Bool.and_eq_true] at this
          exact absurd this.2 hx

theorem sepAtEof_eq (toks : List Token) (valid : Nat → Bool) (isExtra : Nat → Bool)
    (hN : NoExtraStart toks isExtra) (input : List Nat) :
    sepAtEof toks valid isExtra input {} = (skipExtras isExtra input).isEmpty :=
  sepAtEof_skip valid hN input {} SkipInv.init

/-! ## the tokenizers -/

theorem skipExtras_eq_drop (isExtra : Nat → Bool) : ∀ input : List Nat,
    skipExtras isExtra input = input.drop (input.length - (skipExtras isExtra input).length)
  | [] => by simp [skipExtras]
  | c :: rest => by
    by_cases hx : isExtra c = true
    · rw [skipExtras_cons_extra rest hx]
      have hle := skipExtras_length_le isExtra rest
      have h1 : (c :: rest).length - (skipExtras isExtra rest).length =
          (rest.length - (skipExtras isExtra rest).length) + 1 := by simp only [List.length_cons]; omega
      rw [h1, List.drop_succ_cons]; exact skipExtras_eq_drop isExtra rest
    · rw [skipExtras_cons_non rest hx]; simp

/-- **The tokenizers agree.**  For every token list in which no token can begin with an extras character,
every valid predicate, fuel, position and input, the separator-aware tokenizer `tokenizeSep` returns
exactly what the reference tokenizer (`skipExtras`, then `lexScan` with immediate tokens dropped after
skipped extras) returns — the same tokens with the same extents, and an error in the same cases. -/
theorem tokenizeSep_eq_tokenizeAux (toks : List Token) (valid : Nat → Bool) (isExtra : Nat → Bool)
    (hN : NoExtraStart toks isExtra) :
    ∀ (f pos : Nat) (input : List Nat),
      tokenizeSep toks valid isExtra f pos input =
        tokenizeAux (fun off => lexScan toks (validAt toks valid off)) isExtra f pos input := by
  intro f
  induction f with
  | zero => intro pos input; rfl
  | succ f ih =>
    intro pos input
    simp only [tokenizeSep, tokenizeAux, lexOne]
    rw [lexOneSep_eq_skip_lexScan toks valid isExtra hN input, sepAtEof_eq toks valid isExtra hN input]
    have hdr := skipExtras_eq_drop isExtra input
    generalize hd : input.length - (skipExtras isExtra input).length = d at hdr ⊢
    by_cases hE : (skipExtras isExtra input).isEmpty = true
    · have h0 : skipExtras isExtra input = [] := List.isEmpty_iff.1 hE
      simp [h0, lexScan, scan, liftC]
    · rw [if_neg hE]
      cases hl : lexScan toks (validAt toks valid d) (skipExtras isExtra input) with
      | none => simp [liftC, hE]
      | some b =>
        obtain ⟨i, n⟩ := b
        have hn : 1 ≤ n := (lexScan_ok _ _ _ _ hl).1.2.2.1
        have hdrop : input.drop (d + n) = (skipExtras isExtra input).drop n := by
          rw [hdr, List.drop_drop]
        have h1 : ¬(d + n = 0 ∨ d + n < d) := by omega
        have h2 : ¬ n = 0 := by omega
        simp only [liftC, h1, h2, if_false, hdrop, ih, Nat.add_assoc]
        rw [if_neg hE]
        cases tokenizeAux (fun off => lexScan toks (validAt toks valid off)) isExtra f (pos + (d + n))
          (List.drop n (skipExtras isExtra input)) <;> rfl

/-- the form the driver evaluates: `tokenizeSep` with fuel `|input| + 2` against `refTokenize` (fuel `|input| + 1`) -/
theorem tokenizeSep_eq_refTokenize (toks : List Token) (valid : Nat → Bool) (isExtra : Nat → Bool)
    (hN : NoExtraStart toks isExtra) (input : List Nat) :
    tokenizeSep toks valid isExtra (input.length + 1) 0 input =
      refTokenize (fun off => lexScan toks (validAt toks valid off)) isExtra input :=
  tokenizeSep_eq_tokenizeAux toks valid isExtra hN _ _ _

/-! ## the hypothesis as the driver evaluates it, non-vacuity, and why it is needed -/

/-- the Bool the driver computes (`!overlapsExtras`): over the finite list of extras characters -/
def noExtraStartB (toks : List Token) (xs : List Nat) : Bool :=
  toks.all (fun t => xs.all (fun c => (deriv c t.re).isEmpty))

theorem noExtraStartB_sound (toks : List Token) (xs : List Nat) (isExtra : Nat → Bool)
    (h : noExtraStartB toks xs = true) (hx : ∀ c, isExtra c = true → c ∈ xs) : NoExtraStart toks isExtra := by
  intro i hi c hc
  have hmem : tokAt toks i ∈ toks := by
    simp [tokAt, List.getD_eq_getElem?_getD, List.getElem?_eq_getElem hi]
  simp only [noExtraStartB, List.all_eq_true] at h
  exact h _ hmem c (hx c hc)

/-- the token set of the zoo grammar `arith` (zoo/arith/grammar.js): number /[0-9]+/, ident /[a-z_][a-z0-9_]*/,
comment /#[^\n]*/ and the literals `+ - * / ^ ( ) , ;`; extras /\s/ -/
def arithToks : List Token :=
  [ Token.mk4 (plus (.cls [(48, 57)] false)) 0 false false,
    Token.mk4 (.seq (.cls [(97, 122), (95, 95)] false) (.star (.cls [(97, 122), (48, 57), (95, 95)] false))) 0 false false,
    Token.mk4 (.seq (chr 35) (.star (.cls [(10, 10)] true))) 0 false false,
    Token.mk4 (lit [43]) 0 true false, Token.mk4 (lit [45]) 0 true false, Token.mk4 (lit [42]) 0 true false,
    Token.mk4 (lit [47]) 0 true false, Token.mk4 (lit [94]) 0 true false, Token.mk4 (lit [40]) 0 true false,
    Token.mk4 (lit [41]) 0 true false, Token.mk4 (lit [44]) 0 true false, Token.mk4 (lit [59]) 0 true false ]

def isWs (c : Nat) : Bool := (decide (9 ≤ c) && decide (c ≤ 13)) || c == 32

/-- non-vacuity: the hypothesis holds for a real token set (the negated class of `comment` included) … -/
theorem arith_noExtraStart : NoExtraStart arithToks isWs := by
  refine noExtraStartB_sound arithToks [9, 10, 11, 12, 13, 32] isWs (by decide) ?_
  intro c hc
  simp only [isWs, Bool.or_eq_true, Bool.and_eq_true, decide_eq_true_eq, beq_iff_eq] at hc
  simp only [List.mem_cons, List.not_mem_nil, or_false]
  omega

/-- … and the common answer is not trivial: `x1 + 42;` → ident 0..2, `+` 3..4, number 5..7, `;` 7..8 -/
example : tokenizeSep arithToks (fun _ => true) isWs 9 0 [120, 49, 32, 43, 32, 52, 50, 59] =
    some [(1, 0, 2), (3, 3, 4), (0, 5, 7), (11, 7, 8)] := by decide
example : tokenizeSep arithToks (fun _ => true) isWs 9 0 [120, 49, 32, 43, 32, 52, 50, 59] =
    refTokenize (fun off => lexScan arithToks (validAt arithToks (fun _ => true) off)) isWs [120, 49, 32, 43, 32, 52, 50, 59] :=
  tokenizeSep_eq_refTokenize arithToks (fun _ => true) isWs arith_noExtraStart [120, 49, 32, 43, 32, 52, 50, 59]

/-- the hypothesis is needed: tokens /b+/ and `"  "` (two blanks) with extras /[ \n]/ (known finding
`C14-trailing-extras-rejected-after-partial-token`): the hypothesis fails, and on `b␣` the separator-aware
tokenizer reports an error where the reference tokenizer returns the token `b` -/
def sepeofToks : List Token := [ Token.mk4 (plus (chr 98)) 0 false false, Token.mk4 (lit [32, 32]) 0 true false ]
def isBlankNl (c : Nat) : Bool := c == 32 || c == 10

example : ¬ NoExtraStart sepeofToks isBlankNl := by
  intro h
  have := h 1 (by decide) 32 (by decide)
  revert this
  decide

example : tokenizeSep sepeofToks (fun _ => true) isBlankNl 3 0 [98, 32] = none ∧
    tokenizeAux (fun off => lexScan sepeofToks (validAt sepeofToks (fun _ => true) off)) isBlankNl 3 0 [98, 32] =
      some [(0, 0, 1)] := by decide

/-- and one lexing step already differs in the token's extent (`sepabsorb`): in `b␣b` after the first `b` the
automaton's second token starts at the blank -/
example : lexOneSep sepeofToks (fun _ => true) isBlankNl [32, 98] = some (0, 0, 2) ∧
    liftC 1 (lexScan sepeofToks (fun _ => true) [98]) = some (0, 1, 2) := by decide

end TsVerif.C14
