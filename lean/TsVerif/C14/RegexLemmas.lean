import TsVerif.C14.Regex
/-!
# C14 — correctness of the derivative matcher
-/
namespace TsVerif.C14.Regex

theorem matches_empty_false {w : List Nat} : ¬ Matches .empty w := by
  intro h; cases h

theorem matches_eps_iff {w : List Nat} : Matches .eps w ↔ w = [] := by
  constructor
  · intro h; cases h; rfl
  · rintro rfl; exact .eps

theorem matches_mkSeq {a b : Regex} {w : List Nat} : Matches (mkSeq a b) w ↔ Matches (.seq a b) w := by
  unfold mkSeq
  split
  · constructor
    · intro h; exact absurd h matches_empty_false
    · intro h; cases h with | seq h1 _ => exact absurd h1 matches_empty_false
  · constructor
    · intro h; exact absurd h matches_empty_false
    · intro h; cases h with | seq _ h2 => exact absurd h2 matches_empty_false
  · constructor
    · intro h; simpa using Matches.seq .eps h
    · intro h
      cases h with
      | seq h1 h2 => cases h1; simpa using h2
  · exact Iff.rfl

theorem matches_alt_iff {a b : Regex} {w : List Nat} : Matches (.alt a b) w ↔ Matches a w ∨ Matches b w := by
  constructor
  · intro h; cases h with
    | altL h => exact Or.inl h
    | altR h => exact Or.inr h
  · rintro (h | h)
    · exact .altL h
    · exact .altR h

theorem matches_mkAlt {a b : Regex} {w : List Nat} : Matches (mkAlt a b) w ↔ Matches (.alt a b) w := by
  unfold mkAlt
  split
  · rw [matches_alt_iff]; constructor
    · intro h; exact Or.inr h
    · rintro (h | h); exact absurd h matches_empty_false; exact h
  · rw [matches_alt_iff]; constructor
    · intro h; exact Or.inl h
    · rintro (h | h); exact h; exact absurd h matches_empty_false
  · split
    · rename_i heq; subst heq
      rw [matches_alt_iff]; constructor
      · intro h; exact Or.inl h
      · rintro (h | h) <;> exact h
    · exact Iff.rfl

theorem nullable_iff (r : Regex) : nullable r = true ↔ Matches r [] := by
  induction r with
  | empty => simp [nullable]; exact matches_empty_false
  | eps => simp [nullable]; exact .eps
  | cls rs neg => simp [nullable]; intro h; cases h
  | seq a b iha ihb =>
    simp only [nullable, Bool.and_eq_true, iha, ihb]
    constructor
    · rintro ⟨h1, h2⟩; simpa using Matches.seq h1 h2
    · intro h
      generalize hw : ([] : List Nat) = w at h
      cases h with
      | seq h1 h2 =>
        rename_i u v
        obtain ⟨hu, hv⟩ := List.append_eq_nil_iff.1 hw.symm
        subst hu; subst hv; exact ⟨h1, h2⟩
  | alt a b iha ihb => simp only [nullable, Bool.or_eq_true, iha, ihb, matches_alt_iff]
  | star a _ => simp [nullable]; exact .starNil

/-- a non-empty word of `a*` starts with a non-empty word of `a` -/
theorem star_cons_split {a : Regex} {w : List Nat} (h : Matches (.star a) w) :
    ∀ c rest, w = c :: rest → ∃ u v, rest = u ++ v ∧ Matches a (c :: u) ∧ Matches (.star a) v := by
  generalize hr : Regex.star a = r at h
  induction h with
  | eps => cases hr
  | cls _ => cases hr
  | seq _ _ => cases hr
  | altL _ => cases hr
  | altR _ => cases hr
  | starNil => intro c rest h; cases h
  | @starCons a' u v h1 h2 _ ih2 =>
    cases hr
    intro c rest hw
    cases u with
    | nil => exact ih2 rfl c rest (by simpa using hw)
    | cons d u' =>
      simp only [List.cons_append, List.cons.injEq] at hw
      obtain ⟨rfl, rfl⟩ := hw
      exact ⟨u', v, rfl, h1, h2⟩

theorem deriv_iff (c : Nat) (r : Regex) : ∀ w, Matches (deriv c r) w ↔ Matches r (c :: w) := by
  induction r with
  | empty => intro w; simp only [deriv]; constructor <;> (intro h; cases h)
  | eps => intro w; simp only [deriv]; constructor <;> (intro h; cases h)
  | cls rs neg =>
    intro w
    simp only [deriv]
    split
    · rename_i hc
      rw [matches_eps_iff]
      constructor
      · rintro rfl; exact .cls hc
      · intro h; cases h; rfl
    · rename_i hc
      constructor
      · intro h; cases h
      · intro h; cases h with | cls h' => exact absurd h' hc
  | seq a b iha ihb =>
    intro w
    have key : Matches (.seq a b) (c :: w) ↔
        (∃ u v, w = u ++ v ∧ Matches a (c :: u) ∧ Matches b v) ∨ (Matches a [] ∧ Matches b (c :: w)) := by
      constructor
      · intro h
        generalize hx : c :: w = x at h
        cases h with
        | seq h1 h2 =>
          rename_i u v
          cases u with
          | nil => right; simp at hx; subst hx; exact ⟨h1, h2⟩
          | cons d u' =>
            simp only [List.cons_append, List.cons.injEq] at hx
            obtain ⟨rfl, rfl⟩ := hx
            left; exact ⟨u', v, rfl, h1, h2⟩
      · rintro (⟨u, v, rfl, h1, h2⟩ | ⟨h1, h2⟩)
        · simpa using Matches.seq h1 h2
        · simpa using Matches.seq h1 h2
    have hseq : Matches (mkSeq (deriv c a) b) w ↔ ∃ u v, w = u ++ v ∧ Matches a (c :: u) ∧ Matches b v := by
      rw [matches_mkSeq]
      constructor
      · intro h; cases h with
        | seq h1 h2 => exact ⟨_, _, rfl, (iha _).1 h1, h2⟩
      · rintro ⟨u, v, rfl, h1, h2⟩; exact .seq ((iha _).2 h1) h2
    simp only [deriv]
    split
    · rename_i hn
      rw [matches_mkAlt, matches_alt_iff, hseq, ihb, key]
      have := (nullable_iff a).1 hn
      constructor
      · rintro (h | h); exact Or.inl h; exact Or.inr ⟨this, h⟩
      · rintro (h | ⟨_, h⟩); exact Or.inl h; exact Or.inr h
    · rename_i hn
      rw [hseq, key]
      constructor
      · intro h; exact Or.inl h
      · rintro (h | ⟨h, _⟩)
        · exact h
        · exact absurd ((nullable_iff a).2 h) hn
  | alt a b iha ihb =>
    intro w
    simp only [deriv]
    rw [matches_mkAlt, matches_alt_iff, matches_alt_iff, iha, ihb]
  | star a iha =>
    intro w
    simp only [deriv]
    rw [matches_mkSeq]
    constructor
    · intro h; cases h with
      | seq h1 h2 =>
        have := Matches.starCons ((iha _).1 h1) h2
        simpa using this
    · intro h
      obtain ⟨u, v, rfl, h1, h2⟩ := star_cons_split h c w rfl
      exact .seq ((iha _).2 h1) h2

theorem derivs_iff (r : Regex) (u : List Nat) : ∀ w, Matches (derivs r u) w ↔ Matches r (u ++ w) := by
  induction u generalizing r with
  | nil => intro w; simp [derivs]
  | cons c u ih =>
    intro w
    simp only [derivs, List.foldl_cons, List.cons_append]
    have := ih (deriv c r) w
    simp only [derivs] at this
    rw [this, deriv_iff]

/-- `deriv_correct`: the derivative matcher decides the denotational semantics -/
theorem deriv_correct (r : Regex) (w : List Nat) : matchesB r w = true ↔ Matches r w := by
  unfold matchesB
  rw [nullable_iff, derivs_iff]
  simp

end TsVerif.C14.Regex
