import TsVerif.C14.Lex
/-!
# C14 round 11b — precedences NESTED inside a token: `seq(x, choice(a, prec(2, b)), c)`

`Token.alts` / `scanP` (Lex.lean) can only say "alternative j of a top-level choice has precedence p_j".  A `prec` on an
INNER part of a token (one branch of a choice / optional / repeat that rejoins a common continuation) needs the
precedence PER CHARACTER POSITION: in `expand_tokens` every NFA `Advance` state gets the top of the precedence stack at
the place where its character set stands.  `PRe` is a regular expression whose leaves carry that precedence; `step` is its
derivative, `tprec c` the maximum precedence among the leaves that consume `c` (what `NfaCursor::group_transitions` puts
on the merged transition for `c`), `scanN` the cut-off scan of `populate_state` / `prefer_transition` over it.
-/
namespace TsVerif.C14
open Regex

/-- a regular expression whose leaves carry the lexical precedence in force where they stand -/
inductive PRe where
  | leaf (p : Int) (r : Regex)
  | seq (a b : PRe)
  | alt (a b : PRe)
  | star (a : PRe)
  | dead
  deriving Repr, Inhabited

namespace PRe

/-- the plain regular expression (precedences forgotten) -/
def erase : PRe → Regex
  | leaf _ r => r
  | seq a b => .seq a.erase b.erase
  | alt a b => .alt a.erase b.erase
  | star a => .star a.erase
  | dead => .empty

def nullable : PRe → Bool
  | leaf _ r => Regex.nullable r
  | seq a b => a.nullable && b.nullable
  | alt a b => a.nullable || b.nullable
  | star _ => true
  | dead => false

def mkSeq (a b : PRe) : PRe :=
  match a, b with
  | dead, _ => dead
  | _, dead => dead
  | a, b => seq a b

def mkAlt (a b : PRe) : PRe :=
  match a, b with
  | dead, b => b
  | a, dead => a
  | a, b => alt a b

def leafOf (p : Int) (r : Regex) : PRe := if r.isEmpty then dead else leaf p r

/-- derivative -/
def step (c : Nat) : PRe → PRe
  | leaf p r => leafOf p (Regex.deriv c r)
  | seq a b => if a.nullable then mkAlt (mkSeq (step c a) b) (step c b) else mkSeq (step c a) b
  | alt a b => mkAlt (step c a) (step c b)
  | star a => mkSeq (step c a) (star a)
  | dead => dead

def omax : Option Int → Option Int → Option Int
  | none, b => b
  | a, none => a
  | some a, some b => some (max a b)

/-- the maximum precedence among the leaves that consume `c` (`none`: no leaf does) -/
def tprec (c : Nat) : PRe → Option Int
  | leaf p r => if (Regex.deriv c r).isEmpty then none else some p
  | seq a b => if a.nullable then omax (tprec c a) (tprec c b) else tprec c a
  | alt a b => omax (tprec c a) (tprec c b)
  | star a => tprec c a
  | dead => none

end PRe

/-- the cut-off scan over tokens given as `PRe` (`toks` supplies the completion precedence and the tie-break keys) -/
def scanN (toks : List Token) (valid : Nat → Bool) :
    (input : List Nat) → (rs : List PRe) → (k : Nat) → (cur : Option Int) → (last : Option Cand) → Option Cand
  | [], _, _, _, last => last
  | c :: rest, rs, k, cur, last =>
    let precs := (List.range toks.length).filterMap (fun i => if valid i then PRe.tprec c (rs.getD i .dead) else none)
    match maxInt precs with
    | none => last
    | some m =>
      if cut cur m then last
      else
        let rs' := rs.map (PRe.step c)
        let comps := (List.range toks.length).filter (fun i => valid i && (rs'.getD i .dead).nullable)
        match bestOf toks (comps.map (fun i => (i, k + 1))) with
        | some b => scanN toks valid rest rs' (k + 1) (some (tokAt toks b.1).prec) (some b)
        | none => scanN toks valid rest rs' (k + 1) none last

def lexScanN (toks : List Token) (pres : List PRe) (valid : Nat → Bool) (input : List Nat) : Option Cand :=
  scanN toks valid input pres 0 none none

/-- the seed shape: `x`(1) against `seq(x, choice(a, prec(2, b)), c)`(0): the prec-2 branch survives the cut, the other
branch does not -/
private def demoToks : List Token :=
  [Token.mk4 (lit [120]) 1 true false,
   Token.mk4 (.seq (lit [120]) (.seq (.alt (lit [97]) (lit [98])) (lit [99]))) 0 false false]
private def demoPres : List PRe :=
  [.leaf 1 (lit [120]),
   .seq (.leaf 0 (lit [120])) (.seq (.alt (.leaf 0 (lit [97])) (.leaf 2 (lit [98]))) (.leaf 0 (lit [99])))]
example : lexScanN demoToks demoPres (fun _ => true) [120, 98, 99] = some (1, 3) := by decide
example : lexScanN demoToks demoPres (fun _ => true) [120, 97, 99] = some (0, 1) := by decide

end TsVerif.C14
