import TsVerif.C14.Regex
/-!
# C14 — tokens, the documented choice `refToken`, the cut-off scan `lexScan`, tokenizing with extras
# and the keyword rule
-/
namespace TsVerif.C14
open Regex

structure Token where
  re : Regex
  prec : Int            -- lexical precedence: `token(prec(p, …))`
  isString : Bool       -- specified as a String (true) or a RegExp (false)
  immediate : Bool := false   -- `token.immediate(…)`: recognised only when no extras precede it
  /-- precedence INSIDE the token: `token(prec(p0, choice(prec(p1, r1), r2, …)))` as the list of
  alternatives with the precedence of their characters (empty = the whole token has precedence `prec`);
  `re` is then the alternation of the `r_j`, `prec` = `p0` is the precedence of the completed token -/
  alts : List (Int × Regex) := []
  deriving Repr, Inhabited

/-- a token without inner precedences -/
def Token.mk4 (re : Regex) (prec : Int) (isString immediate : Bool) : Token :=
  { re := re, prec := prec, isString := isString, immediate := immediate }

/-- a candidate: token index (= position of the rule in the grammar) and match length (≥ 1) -/
abbrev Cand := Nat × Nat

def tokAt (toks : List Token) (i : Nat) : Token := toks.getD i default

/-- all lengths `n ≥ 1` such that the first `n` characters of the input match `r`
(`k` = characters already consumed) -/
def matchLensAux : Regex → List Nat → Nat → List Nat
  | _, [], _ => []
  | r, c :: rest, k =>
    let r' := deriv c r
    (if nullable r' then [k + 1] else []) ++ matchLensAux r' rest (k + 1)

def matchLens (r : Regex) (input : List Nat) : List Nat := matchLensAux r input 0

/-- `IsCand`: token `i` is valid here and matches the first `n ≥ 1` characters -/
def IsCand (toks : List Token) (valid : Nat → Bool) (input : List Nat) (c : Cand) : Prop :=
  c.1 < toks.length ∧ valid c.1 = true ∧ 1 ≤ c.2 ∧ c.2 ≤ input.length ∧ Matches (tokAt toks c.1).re (input.take c.2)

/-- every candidate, token by token -/
def candidates (toks : List Token) (valid : Nat → Bool) (input : List Nat) : List Cand :=
  (List.range toks.length).flatMap (fun i =>
    if valid i then (matchLens (tokAt toks i).re input).map (fun n => (i, n)) else [])

/-- the documented order as a key: precedence, then length, then String over RegExp, then earlier rule -/
structure Key where
  p : Int
  n : Nat
  s : Nat
  i : Nat
  deriving Repr, DecidableEq

def keyOf (toks : List Token) (c : Cand) : Key :=
  { p := (tokAt toks c.1).prec, n := c.2,
    -- the generator's implicit precedence: String 2, RegExp 0, +1 for `token.immediate`
    s := (if (tokAt toks c.1).isString then 2 else 0) + (if (tokAt toks c.1).immediate then 1 else 0), i := c.1 }

/-- `a` is at least as good as `b` in the documented order -/
def Better (a b : Key) : Prop :=
  a.p > b.p ∨ (a.p = b.p ∧ (a.n > b.n ∨ (a.n = b.n ∧ (a.s > b.s ∨ (a.s = b.s ∧ a.i ≤ b.i)))))

instance (a b : Key) : Decidable (Better a b) := by unfold Better; exact inferInstance

/-- fold keeping the better element -/
def bestOf (toks : List Token) : List Cand → Option Cand
  | [] => none
  | c :: cs => some (cs.foldl (fun acc d => if Better (keyOf toks acc) (keyOf toks d) then acc else d) c)

/-- the token the documented rules choose at the start of `input` -/
def refToken (toks : List Token) (valid : Nat → Bool) (input : List Nat) : Option Cand :=
  bestOf toks (candidates toks valid input)

/-! ## the implementation's scan: maximal munch with the precedence cut-off of `build_lex_table`

All live tokens advance together on a character (one merged DFA transition whose precedence is the
maximum over the tokens taking part); if the state reached so far completes a token of precedence
`P`, the scan continues only when that maximum is ≥ `P`.  The result is the last completion seen. -/

def aliveIdx (toks : List Token) (valid : Nat → Bool) (rs : List Regex) : List Nat :=
  (List.range toks.length).filter (fun i => valid i && !(rs.getD i .empty).isEmpty)

def maxPrec (toks : List Token) : List Nat → Option Int
  | [] => none
  | i :: is => match maxPrec toks is with
    | none => some (tokAt toks i).prec
    | some m => some (max m (tokAt toks i).prec)

/-- the cut-off of `prefer_transition`: the completed token's precedence exceeds every advancing one -/
def cut (cur : Option Int) (m : Int) : Bool :=
  match cur with
  | some P => decide (m < P)
  | none => false

def scan (toks : List Token) (valid : Nat → Bool) :
    (input : List Nat) → (rs : List Regex) → (k : Nat) → (cur : Option Int) → (last : Option Cand) → Option Cand
  | [], _, _, _, last => last
  | c :: rest, rs, k, cur, last =>
    let rs' := rs.map (deriv c)
    let alive := aliveIdx toks valid rs'
    match maxPrec toks alive with
    | none => last
    | some m =>
      if cut cur m then last
      else
        let comps := alive.filter (fun i => nullable (rs'.getD i .empty))
        match bestOf toks (comps.map (fun i => (i, k + 1))) with
        | some b => scan toks valid rest rs' (k + 1) (some (tokAt toks b.1).prec) (some b)
        | none => scan toks valid rest rs' (k + 1) none last

def lexScan (toks : List Token) (valid : Nat → Bool) (input : List Nat) : Option Cand :=
  scan toks valid input (toks.map (·.re)) 0 none none

/-! ## the scan with precedences inside tokens

The transitions of a token's alternative carry that alternative's precedence; the completed token has the
token's own precedence.  For tokens without inner precedences this is `scan` (alternatives = the token). -/

def altsOf (t : Token) : List (Int × Regex) := if t.alts.isEmpty then [(t.prec, t.re)] else t.alts

/-- precedences of the live alternatives of the valid tokens -/
def alivePrecs (toks : List Token) (valid : Nat → Bool) (rs : List (List Regex)) : List Int :=
  (List.range toks.length).flatMap (fun i =>
    if valid i then
      ((altsOf (tokAt toks i)).zip (rs.getD i [])).filterMap (fun (a, r) => if r.isEmpty then none else some a.1)
    else [])

def maxInt : List Int → Option Int
  | [] => none
  | x :: xs => match maxInt xs with
    | none => some x
    | some m => some (max m x)

def scanP (toks : List Token) (valid : Nat → Bool) :
    (input : List Nat) → (rs : List (List Regex)) → (k : Nat) → (cur : Option Int) → (last : Option Cand) → Option Cand
  | [], _, _, _, last => last
  | c :: rest, rs, k, cur, last =>
    let rs' := rs.map (fun alts => alts.map (deriv c))
    match maxInt (alivePrecs toks valid rs') with
    | none => last
    | some m =>
      if cut cur m then last
      else
        let comps := (List.range toks.length).filter (fun i => valid i && (rs'.getD i []).any nullable)
        match bestOf toks (comps.map (fun i => (i, k + 1))) with
        | some b => scanP toks valid rest rs' (k + 1) (some (tokAt toks b.1).prec) (some b)
        | none => scanP toks valid rest rs' (k + 1) none last

def lexScanP (toks : List Token) (valid : Nat → Bool) (input : List Nat) : Option Cand :=
  scanP toks valid input (toks.map (fun t => (altsOf t).map (·.2))) 0 none none

/-! ## tokenizing with extras skipped -/

def skipExtras (isExtra : Nat → Bool) : List Nat → List Nat
  | [] => []
  | c :: rest => if isExtra c then skipExtras isExtra rest else c :: rest

/-- `token.immediate`: after `off > 0` skipped extras an immediate token is not a candidate -/
def validAt (toks : List Token) (valid : Nat → Bool) (off : Nat) : Nat → Bool :=
  fun i => valid i && (off == 0 || !(tokAt toks i).immediate)

/-- one lexing step at `input`; the chooser is told how many extras were skipped (immediate tokens):
(token, start offset, length, rest) -/
def lexOne (choose : Nat → List Nat → Option Cand) (isExtra : Nat → Bool) (input : List Nat) :
    Option (Nat × Nat × Nat × List Nat) :=
  let inp := skipExtras isExtra input
  match choose (input.length - inp.length) inp with
  | some (i, n) => some (i, input.length - inp.length, n, inp.drop n)
  | none => none

/-- `(token, start, end)` of every token, or `none` when no token matches somewhere
(the real parser then enters error recovery).  `fuel` ≥ input length suffices (progress theorem). -/
def tokenizeAux (choose : Nat → List Nat → Option Cand) (isExtra : Nat → Bool) :
    (fuel : Nat) → (pos : Nat) → (input : List Nat) → Option (List (Nat × Nat × Nat))
  | 0, _, _ => none
  | f + 1, pos, input =>
    if (skipExtras isExtra input).isEmpty then some []
    else match lexOne choose isExtra input with
      | none => none
      | some (i, off, n, rest) =>
        if n = 0 then none
        else match tokenizeAux choose isExtra f (pos + off + n) rest with
          | some ts => some ((i, pos + off, pos + off + n) :: ts)
          | none => none

def refTokenize (choose : Nat → List Nat → Option Cand) (isExtra : Nat → Bool) (input : List Nat) :
    Option (List (Nat × Nat × Nat)) :=
  tokenizeAux choose isExtra (input.length + 1) 0 input

/-! ## keyword rule -/

/-- With a word token `word`, the keyword tokens are taken out of the main lexer (`main` runs without
them).  When the main lexer returns the word token, the keyword lexer `kw` (the same kind of lexer
over the keyword tokens only) is run from the same start; its answer replaces the word token only
when it ends exactly where the word ends — the WHOLE word is the keyword. -/
def withKeywords (main kw : List Nat → Option Cand) (word : Nat) (input : List Nat) : Option Cand :=
  match main input with
  | some (i, n) =>
    if i = word then
      match kw input with
      | some (k, m) => if m = n then some (k, n) else some (i, n)
      | none => some (i, n)
    else some (i, n)
  | none => none

/-- Keyword extraction in a parse state where not every keyword is valid: the keyword lexer `kw`
contains ALL keywords of the grammar; its answer replaces the word token when it covers the whole
word AND the keyword is acceptable in the state (`ok` = valid there, or a reserved word there).
A reserved keyword that is not valid is still returned — the parser then reports an error instead of
reading an identifier. -/
def withKeywordsIn (main kw : List Nat → Option Cand) (word : Nat) (ok : Nat → Bool) (input : List Nat) : Option Cand :=
  match main input with
  | some (i, n) =>
    if i = word then
      match kw input with
      | some (k, m) => if m = n ∧ ok k = true then some (k, n) else some (i, n)
      | none => some (i, n)
    else some (i, n)
  | none => none

end TsVerif.C14
