import TsVerif.C14.Props
#print axioms TsVerif.C14.deriv_correct
#print axioms TsVerif.C14.refToken_spec
#print axioms TsVerif.C14.refToken_none
#print axioms TsVerif.C14.refToken_rules
#print axioms TsVerif.C14.lexScan_sound
#print axioms TsVerif.C14.lexScan_flat
#print axioms TsVerif.C14.lexScan_vs_refToken
#print axioms TsVerif.C14.lexScan_none_iff
#print axioms TsVerif.C14.lexScan_eq_refToken_iff
#print axioms TsVerif.C14.lexScan_eq_refToken_of_longest
#print axioms TsVerif.C14.refTokenize_progress
#print axioms TsVerif.C14.tokenize_increasing
#print axioms TsVerif.C14.keyword_whole_word
#print axioms TsVerif.C14.keyword_matches_word
#print axioms TsVerif.C14.overtake_witness
