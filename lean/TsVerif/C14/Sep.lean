import TsVerif.C14.Lex
/-!
# C14 — tokens that begin with characters that are also extras

Every token's NFA is `separator* token` (`expand_tokens`), and the lexer runs ONE automaton for
"skip the extras, then match a token".  As long as no token can begin with an extra character this
is the same as `skipExtras` followed by `lexScan` (what `lexOne` does).  When a token CAN begin with
an extra character (a line-break token `/\n/` with `/\s/` among the extras) the two interleave, and
`build_lex_table::populate_state` + `TokenConflictMap::prefer_transition` decide:

* in a state that has completed a token of precedence `P`, the merged transition on the next
  character (precedence = maximum over everything that can take it, separator loop = 0) is dropped when
  its precedence is below `P`; on a tie it is dropped when it is a PURE separator transition (rule A: a
  completed token is returned before more extras are skipped), and, if the separator loop is still
  alive in the state, when it neither continues the separator loop nor the completed token (rule B);
* a pure separator transition is a `SKIP` (the token start moves), every other one an `ADVANCE`.

`sepScan` is that automaton on threads of Brzozowski derivatives (one union of live threads per
token, a flag for the separator loop).  It is compared with the real lexer on every token set in
which some token can begin with an extra character (correspondence), and `sepScan_cut_pure_separator`
/ `sepStep_skip` state rules A and the SKIP rule.
-/
namespace TsVerif.C14
open Regex

structure SepSt where
  /-- the separator loop is alive: every character consumed so far was taken by it as well -/
  sep : Bool := true
  /-- per token: the union of its live threads (a thread starts wherever the separator loop is) -/
  rs : List Regex := []
  /-- characters consumed -/
  k : Nat := 0
  /-- start of the token: after the last pure separator transition -/
  start : Nat := 0
  /-- completion of the current state: precedence and token -/
  cur : Option (Int × Nat) := none
  /-- last accepted token: index, start, end -/
  last : Option (Nat × Nat × Nat) := none
  /-- the end of input is acceptable here: only pure separator transitions so far
  (`add_state(transition.states, eof_valid && transition.is_separator)`) -/
  eofOk : Bool := true
  deriving Inhabited

/-- the threads before a character is read: a fresh thread of every token where the separator loop
is (immediate tokens have no separator prefix: only at the very beginning) -/
def sepBase (toks : List Token) (st : SepSt) : List Regex :=
  (List.range toks.length).map (fun i =>
    let r := st.rs.getD i .empty
    if st.sep && (st.k == 0 || !(tokAt toks i).immediate) then mkAlt r (tokAt toks i).re else r)

inductive SepOut where
  | stop
  | go (st : SepSt)

/-- one character -/
def sepStep (toks : List Token) (valid : Nat → Bool) (isExtra : Nat → Bool) (c : Nat) (st : SepSt) : SepOut :=
  let rs' := (sepBase toks st).map (deriv c)
  let alive := aliveIdx toks valid rs'
  let sepC := st.sep && isExtra c
  if alive.isEmpty && !sepC then .stop
  else
    let m : Int := match maxPrec toks alive with
      | some m => if sepC then max m 0 else m
      | none => 0
    let sepOnly := alive.isEmpty
    let cutNow := match st.cur with
      | some (P, c0) => decide (m < P) || (m == P && (sepOnly || (st.sep && !(sepC || alive.contains c0))))
      | none => false
    if cutNow then .stop
    else
      let start' := if sepOnly then st.k + 1 else st.start
      let comps := alive.filter (fun i => nullable (rs'.getD i .empty))
      match bestOf toks (comps.map (fun i => (i, st.k + 1))) with
      | some b => .go { sep := sepC, rs := rs', k := st.k + 1, start := start',
                        cur := some ((tokAt toks b.1).prec, b.1), last := some (b.1, start', st.k + 1), eofOk := st.eofOk && sepOnly }
      | none => .go { sep := sepC, rs := rs', k := st.k + 1, start := start', cur := none, last := st.last, eofOk := st.eofOk && sepOnly }

def sepScan (toks : List Token) (valid : Nat → Bool) (isExtra : Nat → Bool) : List Nat → SepSt → Option (Nat × Nat × Nat)
  | [], st => st.last
  | c :: rest, st =>
    match sepStep toks valid isExtra c st with
    | .stop => st.last
    | .go st' => sepScan toks valid isExtra rest st'

/-- no token: is the end of input reached in a state that accepts it?  (After a transition that some
token thread took part in, the end of input is no longer acceptable: a lone blank before the end of
input is an ERROR when some token begins with two blanks — observed, and what the real lexer does.) -/
def sepAtEof (toks : List Token) (valid : Nat → Bool) (isExtra : Nat → Bool) : List Nat → SepSt → Bool
  | [], st => st.eofOk
  | c :: rest, st =>
    match sepStep toks valid isExtra c st with
    | .stop => false
    | .go st' => sepAtEof toks valid isExtra rest st'

/-- one lexing step from the current position: (token, start, end) relative to `input` -/
def lexOneSep (toks : List Token) (valid : Nat → Bool) (isExtra : Nat → Bool) (input : List Nat) : Option (Nat × Nat × Nat) :=
  sepScan toks valid isExtra input {}

/-- tokenize: `(token, start, end)` with absolute positions; `none` = some position has no token -/
def tokenizeSep (toks : List Token) (valid : Nat → Bool) (isExtra : Nat → Bool) :
    (fuel pos : Nat) → (input : List Nat) → Option (List (Nat × Nat × Nat))
  | 0, _, _ => none
  | f + 1, pos, input =>
    match lexOneSep toks valid isExtra input with
    | none => if sepAtEof toks valid isExtra input {} then some [] else none
    | some (i, s, e) =>
      if e = 0 ∨ e < s then none
      else match tokenizeSep toks valid isExtra f (pos + e) (input.drop e) with
        | some ts => some ((i, pos + s, pos + e) :: ts)
        | none => none

/-! ## the two rules, stated -/

/-- rule A: in a state that has completed a token whose precedence is at least the separators' (0),
a character that only the separator loop can take ends the scan — the completed token is returned,
no further extras are skipped. -/
theorem sepStep_cut_pure_separator (toks : List Token) (valid : Nat → Bool) (isExtra : Nat → Bool) (c : Nat)
    (st : SepSt) (P : Int) (c0 : Nat) (hcur : st.cur = some (P, c0)) (hP : 0 ≤ P)
    (hdead : aliveIdx toks valid ((sepBase toks st).map (deriv c)) = []) :
    sepStep toks valid isExtra c st = .stop := by
  unfold sepStep
  simp only [hdead, List.isEmpty_nil, Bool.true_and, maxPrec, hcur]
  by_cases hs : (st.sep && isExtra c) = true
  · simp only [hs, Bool.not_true, Bool.false_eq_true, if_false]
    have : (decide ((0 : Int) < P) || ((0 : Int) == P && (true || (st.sep && !(true || ([] : List Nat).contains c0))))) = true := by
      by_cases h0 : (0 : Int) < P
      · simp [h0]
      · have : (0 : Int) = P := by omega
        simp [this]
    simp only [this, if_true]
  · simp only [Bool.not_eq_true] at hs
    simp only [hs, Bool.not_false, if_true]

/-- so the scan returns the token accepted so far -/
theorem sepScan_cut_pure_separator (toks : List Token) (valid : Nat → Bool) (isExtra : Nat → Bool) (c : Nat)
    (rest : List Nat) (st : SepSt) (P : Int) (c0 : Nat) (hcur : st.cur = some (P, c0)) (hP : 0 ≤ P)
    (hdead : aliveIdx toks valid ((sepBase toks st).map (deriv c)) = []) :
    sepScan toks valid isExtra (c :: rest) st = st.last := by
  simp only [sepScan, sepStep_cut_pure_separator toks valid isExtra c st P c0 hcur hP hdead]

/-- the SKIP rule: a transition that only the separator loop takes moves the token start past it -/
theorem sepStep_skip (toks : List Token) (valid : Nat → Bool) (isExtra : Nat → Bool) (c : Nat) (st : SepSt)
    (hcur : st.cur = none) (hsep : st.sep = true) (hx : isExtra c = true)
    (hdead : aliveIdx toks valid ((sepBase toks st).map (deriv c)) = []) :
    ∃ st', sepStep toks valid isExtra c st = .go st' ∧ st'.start = st.k + 1 ∧ st'.k = st.k + 1 ∧ st'.sep = true ∧
      st'.last = st.last ∧ st'.eofOk = st.eofOk := by
  unfold sepStep
  simp only [hdead, List.isEmpty_nil, hsep, hx, Bool.and_self, Bool.not_true, Bool.and_false, Bool.false_eq_true,
    if_false, hcur, List.filter_nil, List.map_nil, bestOf, if_true]
  exact ⟨_, rfl, rfl, rfl, rfl, rfl, by simp⟩

end TsVerif.C14
