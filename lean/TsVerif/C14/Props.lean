import TsVerif.C14.LexLemmas
import TsVerif.C14.Sep
/-!
# C14 — The generated lexer implements the documented token disambiguation rules

Property text: "At each position the generated lexer returns the token chosen by the documented
rules among the tokens valid in the current parse state: higher lexical precedence first, then the
longest match of the token's regular expression, then string literals over patterns, then earlier
definition in the grammar. With a word token declared, a keyword is recognised only when the whole
word equals it, and extras are skipped between tokens."

Clause map — each phrase of the property text → theorems, with the status
  [P]  proved for the model, for ALL token sets / valid sets / inputs (no hypothesis)
  [Ph] proved under a hypothesis that is stated and, where decidable, evaluated by the check
  [T]  tie: the model function is compared with the REAL generated lexer (correspondence, sampled token sets × inputs)
  [J]  judged only: a Lean judge evaluates the clause on real outputs, no ∀-theorem about the implementation

1. "the token's regular expression" (what a match is)
   [P] `deriv_correct` — `matchesB r w ↔ Matches r w`: the derivative matcher decides the denotational semantics
       (classes incl. negated, concatenation, alternation, `*`, derived `+ ? {m,n}`, literals).
   [T] Unicode property classes, case-insensitive flags and large character sets are expanded by the explorer into
       ranges with the generator's own tables before they reach the model (harness/src/bin/c14.rs); trusted, see notes.
2. "the token chosen by the documented rules … higher lexical precedence first, then the longest match …, then string
   literals over patterns, then earlier definition"
   [P] `refToken_spec` — the documented choice is a valid matching candidate, at least as good as every candidate in the
       order `Better`, and the ONLY such candidate; `refToken_rules` — the four rules one by one (plus the undocumented
       immediate-token tie-break, DIFFERENCE 3); `refToken_none` — no token iff no valid token matches a non-empty prefix.
3. "At each position the generated lexer returns [that token]"
   [P] `lexScan_sound` — whatever the model of the generated lexer's scan returns is a valid matching candidate and the
       documented choice among the candidates of the same length.
   [P] `lexScan_vs_refToken` — for ARBITRARY precedences: the scan returns the documented choice OR a strictly longer token
       of strictly lower precedence (DIFFERENCE 1, the only possible deviation); `lexScan_none_iff`;
       `lexScan_eq_refToken_iff`; `lexScan_eq_refToken_of_longest`.
   [Ph] `lexScan_flat` — hypothesis `FlatPrec` (all valid tokens share one precedence): `lexScan = refToken` everywhere.
   [P] `lexScanP_eq_lexScan` — precedences INSIDE a token (`Token.alts`, `scanP`): without them `lexScanP` is `lexScan`;
       with them the documentation is silent, such sets are only tied [T], not judged against `refToken`.
   [T] real lexer = `lexScan` / `lexScanP` on every token of every sampled input (leaf sequences of real parses; keyword
       sets through `withKeywordsIn`); [J] real lexer vs `refToken` with every difference classified — two classes are
       KNOWN FINDINGS (lower-precedence overtake = DIFFERENCE 1; merged-lex-state continuation leak = DIFFERENCE 4).
   NOT proved: the generated C lexer / `build_lex_table` itself is not modelled; 3 is about the model `lexScan` and tied by [T].
4. "among the tokens valid in the current parse state"
   [P] every theorem is parametric in `valid : Nat → Bool`; `validAt` removes immediate tokens after skipped extras.
   [J] two-mode grammars: per lexing step the valid set is read from the REAL look-ahead iterator of the real parse state
       (parse log), and the real token is judged against `refToken` with that set; known finding: through merged lex states
       a token that is not valid in the state can win (a repair was prototyped, fixes/proposed/C14-merged-lex-state-continuation.diff; not integrated: it changes the tables of existing grammars).
5. "extras are skipped between tokens"
   [P] `tokenize_spec` — the reference tokenization satisfies `Tokenized`: before every token exactly the maximal run of
       extras is skipped (the token starts at a non-extra character), the token is the chooser's answer at that position,
       is non-empty, and after the last token only extras remain; `tokenize_increasing`; `refTokenize_progress` (no fuel
       effects).  [T] real leaf positions = reference token positions.
   Tokens that can BEGIN with a character that is also an extra (a line-break token next to /\s/ extras; TsVerif/C14/Sep.lean):
   skipping and matching interleave in ONE automaton; `sepScan` is a code-shaped port of what `populate_state` /
   `prefer_transition` do with separator transitions.
   [P] `sepStep_cut_pure_separator` / `sepScan_cut_pure_separator` — rule A: in a state that has completed a token of
       precedence ≥ 0, a character only the separator loop can take ends the scan: the completed token is returned before
       further extras are skipped;  `sepStep_skip` — a pure separator transition moves the token start (SKIP).
   [T] real lexer = `tokenizeSep` on every string of every such set (10 sets / ~130 000 strings per quick run), and
       `tokenizeSep` = `skipExtras` + `lexScan` on every string of the sets WITHOUT such tokens (~296 000 strings per run).
   [Ph] the latter is now also a theorem (TsVerif/C14/Round11.lean), hypothesis `NoExtraStart` (the derivative of every token by
       every extras character is the empty regex — the Bool the driver evaluates, `noExtraStartB_sound`):
       `lexOneSep_eq_skip_lexScan` (one lexing step: same token, start = number of leading extras, same end),
       `sepAtEof_eq` (end of input accepted iff only extras remain), `tokenizeSep_eq_tokenizeAux` /
       `tokenizeSep_eq_refTokenize` (whole tokenizations, every fuel); non-vacuity `arith_noExtraStart` (zoo/arith token set);
       counter-example without the hypothesis: /b+/, `"  "`, input `b␣` (the `sepeof` finding).  [J] `skippedToken`: walking the REAL tokens, no skipped position is the start of a valid
       token; `overlapDeviation`: first deviation from the documented reading (skip extras up to the first position where
       a token matches) — two classes are KNOWN FINDINGS (`sepeof`: trailing extras rejected after a partial token;
       `sepabsorb`: a token's extent includes extras), anything else is a violation.
6. "With a word token declared, a keyword is recognised only when the whole word equals it"
   [P] `keyword_whole_word` (only-if: a keyword is returned only when the main lexer matched the word token and the keyword
       lexer matched exactly the same characters), `keyword_matches_word`, `keyword_recognised` (if), per parse state:
       `keyword_in_state`, `keyword_not_ok_stays_word` (reserved words / keywords not valid in the state).
   [T] keyword sets of the real language (accept sets of `ts_lex_keywords`, read tolerantly from parser.c) vs the model.
   [J] WHICH tokens the generator makes keywords is part of which token wins (`identify_keywords`); it is not modelled, the
       model takes the real keyword set as input.  Judged on it: `shadowedKeyword` — no keyword is shadowed by a String
       keyword that is preferred on a text both match (it could never be returned by the keyword lexer and must stay in the
       main lexer); and per failed parse `wholeWordRejected` — the lexer returned a token without an action in the state
       although a token with an action there matches exactly the whole word (reserved words excepted: that rejection is
       their documented meaning).

DIFFERENCES between the documented order and the generated lexer (written down as the brief asks;
the correspondence check compares the real lexer with `lexScan`, and counts how often `lexScan`
and `refToken` differ):
1. `build_lex_table::populate_state` builds ONE DFA for all valid tokens.  In a DFA state that
   completes a token of precedence `P`, an outgoing transition is kept iff its precedence — the
   MAXIMUM over all tokens that can take it (`NfaCursor::group_transitions`) — is ≥ `P`
   (`prefer_transition`).  So a longer match of a lower-precedence token is cut when nothing of
   precedence ≥ `P` can continue (this agrees with "higher precedence first"), but it SURVIVES when
   some token of precedence ≥ `P` can continue on the same character, even if that token never
   completes; the lexer then returns the longer lower-precedence token.  `overtake_witness` below
   is such an input: the documented order picks the precedence-1 token, the scan (and the real
   lexer) the longer precedence-0 token.
2. the cut-off uses the completion of the CURRENT DFA state only: after a state with no completion
   the scan goes on whatever was completed earlier.
3. implicit precedence: String 2, RegExp 0, and `token.immediate(…)` adds 1 (`get_implicit_precedence`):
   at equal precedence and length an immediate token beats a non-immediate one of the same kind even
   when it is defined later (undocumented; modelled in `keyOf`, spelled out in `refToken_rules`);
   "String over RegExp" is unaffected (3, 2 > 1, 0).
4. (context-aware lexing) every theorem is parametric in the valid-token predicate; the check
   instantiates it with the valid set of the real parse state (from the parse table) in two-mode
   grammars.  With merged lex states the generated lexer may return a token that is NOT valid in the
   current state.  When the input cannot be continued to a sentence anyway this is harmless and not
   judged; when a valid sentence is rejected because of it, it is a violation — two classes are known
   findings (through the overtake of DIFFERENCE 1, and `C14-merged-lex-state-continuation-leak`:
   `compute_conflict_status` does not see that a longer token of another state matches a continuation
   of a completed token that is itself still alive; a prototyped repair is in fixes/proposed/, not integrated).
5. only error-free parses are compared token by token; when the reference finds no token at some
   position the real parser must report an error, and vice versa.
-/
namespace TsVerif.C14
open Regex

/-- `deriv_correct` -/
theorem deriv_correct (r : Regex) (w : List Nat) : matchesB r w = true ↔ Matches r w :=
  Regex.deriv_correct r w

/-- `refToken_spec`: the chosen candidate is valid and matching, no candidate beats it in the
documented order, and it is the only candidate with that property. -/
theorem refToken_spec (toks : List Token) (valid : Nat → Bool) (input : List Nat) (b : Cand)
    (h : refToken toks valid input = some b) :
    IsCand toks valid input b ∧
    (∀ c, IsCand toks valid input c → Better (keyOf toks b) (keyOf toks c)) ∧
    (∀ b', IsCand toks valid input b' → (∀ c, IsCand toks valid input c → Better (keyOf toks b') (keyOf toks c)) → b' = b) := by
  obtain ⟨hm, hbest⟩ := (bestOf_spec toks _).2 b h
  have hcand := (mem_candidates toks valid input b).1 hm
  have hall : ∀ c, IsCand toks valid input c → Better (keyOf toks b) (keyOf toks c) :=
    fun c hc => hbest c ((mem_candidates toks valid input c).2 hc)
  refine ⟨hcand, hall, ?_⟩
  intro b' hb' hbest'
  exact keyOf_inj toks (Better.antisymm (hbest' b hcand) (hall b' hb'))

/-- no token is returned exactly when no valid token matches a non-empty prefix -/
theorem refToken_none (toks : List Token) (valid : Nat → Bool) (input : List Nat) :
    refToken toks valid input = none ↔ ∀ c, ¬ IsCand toks valid input c := by
  unfold refToken
  rw [(bestOf_spec toks _).1]
  constructor
  · intro h c hc
    have := (mem_candidates toks valid input c).2 hc
    rw [h] at this; cases this
  · intro h
    cases hcs : candidates toks valid input with
    | nil => rfl
    | cons c cs =>
      exact absurd ((mem_candidates toks valid input c).1 (by rw [hcs]; exact List.mem_cons_self)) (h c)

/-- `refToken_rules`: the four documented rules, one by one, against any other candidate `c`. -/
theorem refToken_rules (toks : List Token) (valid : Nat → Bool) (input : List Nat) (b c : Cand)
    (h : refToken toks valid input = some b) (hc : IsCand toks valid input c) :
    let tb := tokAt toks b.1; let tc := tokAt toks c.1
    tc.prec ≤ tb.prec ∧
    (tc.prec = tb.prec → c.2 ≤ b.2) ∧
    (tc.prec = tb.prec → c.2 = b.2 → tc.isString = true → tb.isString = true) ∧
    (tc.prec = tb.prec → c.2 = b.2 → tc.isString = tb.isString → tc.immediate = true → tb.immediate = true) ∧
    (tc.prec = tb.prec → c.2 = b.2 → tc.isString = tb.isString → tc.immediate = tb.immediate → b.1 ≤ c.1) := by
  have hb := (refToken_spec toks valid input b h).2.1 c hc
  simp only [Better, keyOf] at hb
  have ib : (if (tokAt toks b.1).immediate = true then 1 else 0 : Nat) ≤ 1 := by split <;> omega
  have ic : (if (tokAt toks c.1).immediate = true then 1 else 0 : Nat) ≤ 1 := by split <;> omega
  have sb : (if (tokAt toks b.1).isString = true then 2 else 0 : Nat) = 0 ∨ (if (tokAt toks b.1).isString = true then 2 else 0 : Nat) = 2 := by split <;> omega
  refine ⟨by omega, fun h1 => by omega, ?_, ?_, ?_⟩
  · intro h1 h2 h3
    rw [h3] at hb
    by_cases hs : (tokAt toks b.1).isString = true
    · exact hs
    · simp only [hs] at hb
      simp only [Bool.false_eq_true, if_false, if_true] at hb
      omega
  · intro h1 h2 h3 h4
    rw [h3, h4] at hb
    by_cases hs : (tokAt toks b.1).immediate = true
    · exact hs
    · simp only [hs] at hb
      simp only [Bool.false_eq_true, if_false, if_true] at hb
      omega
  · intro h1 h2 h3 h4
    rw [h3, h4] at hb
    omega

/-- `lexScan_sound`: the scan's answer is a valid, matching candidate and is the documented choice
among all candidates of the same length. -/
theorem lexScan_sound (toks : List Token) (valid : Nat → Bool) (input : List Nat) (c : Cand)
    (h : lexScan toks valid input = some c) :
    IsCand toks valid input c ∧
    ∀ j, IsCand toks valid input (j, c.2) → Better (keyOf toks c) (keyOf toks (j, c.2)) :=
  lexScan_ok toks valid input c h

/-- `lexScan_flat`: when all valid tokens have the same lexical precedence the cut-off can never
fire and the generated lexer's scan returns exactly the documented choice (longest match, then
String over RegExp, then rule order). -/
theorem lexScan_flat (toks : List Token) (valid : Nat → Bool) (input : List Nat) (p : Int)
    (hflat : FlatPrec toks valid p) : lexScan toks valid input = refToken toks valid input := by
  cases hr : refToken toks valid input with
  | none =>
    have hno := (refToken_none toks valid input).1 hr
    cases hs : lexScan toks valid input with
    | none => rfl
    | some c => exact absurd (lexScan_sound toks valid input c hs).1 (hno c)
  | some b =>
    obtain ⟨hb, hbest, _⟩ := refToken_spec toks valid input b hr
    have hreach := scan_flat toks valid input p hflat input (toks.map (·.re)) 0 none none (by simp) (Nat.zero_le _)
      (by simp [derivs]) (Or.inl rfl)
      (by intro c' hc' hle; have := hc'.2.2.1; omega) b hb
    obtain ⟨c, hc, hle⟩ := hreach
    have hcs : lexScan toks valid input = some c := hc
    obtain ⟨hcc, hsame⟩ := lexScan_sound toks valid input c hcs
    have hbc := hbest c hcc
    -- equal precedence: `b` at least as good as `c` forces `c.2 ≤ b.2`, so the lengths agree
    have hpb := hflat b.1 hb.1 hb.2.1
    have hpc := hflat c.1 hcc.1 hcc.2.1
    have hlen : b.2 = c.2 := by
      simp only [Better, keyOf] at hbc
      omega
    have hcb : Better (keyOf toks c) (keyOf toks b) := by
      have := hsame b.1 (by rw [← hlen]; exact hb)
      rw [← hlen] at this
      exact this
    rw [hcs, keyOf_inj toks (Better.antisymm hcb hbc)]

/-- `lexScan_vs_refToken`: for ANY precedences.  If the documented rules choose `b`, the scan returns
some `c`, and either `c = b` or `c` is STRICTLY LONGER and of STRICTLY LOWER precedence than `b`
(DIFFERENCE 1, "overtake") — no other kind of deviation exists.  Reason: the token of `b` has maximal
precedence among all candidates and stays alive up to `b`'s length, so the all-or-nothing cut-off
cannot fire before that length (`scan_reaches_top`); at that length the scan holds the documented
choice; afterwards its answer can only be replaced by longer completions (`scan_mono`). -/
theorem lexScan_vs_refToken (toks : List Token) (valid : Nat → Bool) (input : List Nat) (b : Cand)
    (h : refToken toks valid input = some b) :
    ∃ c, lexScan toks valid input = some c ∧
      (c = b ∨ (b.2 < c.2 ∧ (tokAt toks c.1).prec < (tokAt toks b.1).prec)) := by
  obtain ⟨hb, hbest, _⟩ := refToken_spec toks valid input b h
  have htop : ∀ c, IsCand toks valid input c → (tokAt toks c.1).prec ≤ (tokAt toks b.1).prec := by
    intro c hc
    have := hbest c hc
    simp only [Better, keyOf] at this
    omega
  obtain ⟨c, hc, hle⟩ := scan_reaches_top toks valid input b hb htop input (toks.map (·.re)) 0 none none
    (by simp) (by simp [derivs]) (by intro P hP; cases hP) (by intro c hc; cases hc)
    (by intro hle; have := hb.2.2.1; omega)
  have hcs : lexScan toks valid input = some c := hc
  refine ⟨c, hcs, ?_⟩
  obtain ⟨hcc, hsame⟩ := lexScan_sound toks valid input c hcs
  have hbc := hbest c hcc
  by_cases hlen : c.2 = b.2
  · left
    have hcb : Better (keyOf toks c) (keyOf toks b) := by
      have := hsame b.1 (by rw [hlen]; exact hb)
      rw [hlen] at this
      exact this
    exact keyOf_inj toks (Better.antisymm hcb hbc)
  · right
    simp only [Better, keyOf] at hbc
    constructor
    · omega
    · omega

/-- the scan finds a token exactly when the documented rules do -/
theorem lexScan_none_iff (toks : List Token) (valid : Nat → Bool) (input : List Nat) :
    lexScan toks valid input = none ↔ refToken toks valid input = none := by
  constructor
  · intro hs
    cases hr : refToken toks valid input with
    | none => rfl
    | some b =>
      obtain ⟨c, hc, _⟩ := lexScan_vs_refToken toks valid input b hr
      rw [hs] at hc; cases hc
  · intro hr
    have hno := (refToken_none toks valid input).1 hr
    cases hs : lexScan toks valid input with
    | none => rfl
    | some c => exact absurd (lexScan_sound toks valid input c hs).1 (hno c)

/-- `lexScan_eq_refToken_iff`: the generated lexer's scan and the documented rules agree on an input
exactly when the scan's answer is not longer than the documented choice. -/
theorem lexScan_eq_refToken_iff (toks : List Token) (valid : Nat → Bool) (input : List Nat) (b : Cand)
    (h : refToken toks valid input = some b) :
    lexScan toks valid input = some b ↔ ∀ c, lexScan toks valid input = some c → c.2 ≤ b.2 := by
  constructor
  · intro hs c hc; rw [hs] at hc; cases hc; exact Nat.le_refl _
  · intro hall
    obtain ⟨c, hc, hor⟩ := lexScan_vs_refToken toks valid input b h
    rcases hor with rfl | ⟨hlt, _⟩
    · exact hc
    · have := hall c hc; omega

/-- sufficient condition in terms of candidates only: when no candidate is longer than the documented
choice (in particular when all candidates have one precedence, or when the highest-precedence
candidate is also a longest one) the scan returns the documented choice. -/
theorem lexScan_eq_refToken_of_longest (toks : List Token) (valid : Nat → Bool) (input : List Nat) (b : Cand)
    (h : refToken toks valid input = some b) (hlong : ∀ c, IsCand toks valid input c → c.2 ≤ b.2) :
    lexScan toks valid input = some b := by
  obtain ⟨c, hc, hor⟩ := lexScan_vs_refToken toks valid input b h
  rcases hor with rfl | ⟨hlt, _⟩
  · exact hc
  · have := hlong c (lexScan_sound toks valid input c hc).1; omega

/-- `lexScanP_eq_lexScan`: the scan generalised to precedences INSIDE tokens (`scanP`: the transitions
of an alternative carry that alternative's precedence, the completed token its own) is the scan of all
the theorems above whenever no token has inner precedences — so those theorems describe `lexScanP`
on every ordinary token set, and `lexScanP` is what the check compares the real lexer with when a
set does contain `token(choice(prec(p1, …), prec(p2, …)))`. -/
theorem lexScanP_eq_lexScan (toks : List Token) (valid : Nat → Bool) (hU : ∀ i, (tokAt toks i).alts = [])
    (input : List Nat) : lexScanP toks valid input = lexScan toks valid input := by
  unfold lexScanP lexScan
  have hrs : toks.map (fun t => (altsOf t).map (·.2)) = (toks.map (·.re)).map (fun r => [r]) := by
    rw [List.map_map]
    apply List.map_congr_left
    intro t ht
    obtain ⟨i, hi, rfl⟩ := List.getElem_of_mem ht
    have := hU i
    simp only [tokAt, List.getD_eq_getElem?_getD, List.getElem?_eq_getElem hi, Option.getD_some] at this
    simp [altsOf, this]
  rw [hrs]
  exact scanP_eq_scan toks valid hU input _ 0 none none

/-- `refTokenize_progress`: any fuel above the input length gives the same answer, i.e. the
tokenizer never stops for lack of fuel (each step consumes at least one character). -/
theorem refTokenize_progress (choose : Nat → List Nat → Option Cand) (isExtra : Nat → Bool) (input : List Nat)
    (fuel : Nat) (h : input.length < fuel) :
    tokenizeAux choose isExtra fuel 0 input = refTokenize choose isExtra input :=
  tokenizeAux_fuel choose isExtra fuel (input.length + 1) 0 input h (Nat.lt_succ_self _)

/-- tokens are non-empty and in increasing order -/
def Increasing : Nat → List (Nat × Nat × Nat) → Prop
  | _, [] => True
  | pos, (_, s, e) :: rest => pos ≤ s ∧ s < e ∧ Increasing e rest

theorem tokenize_increasing (choose : Nat → List Nat → Option Cand) (isExtra : Nat → Bool) :
    ∀ (fuel pos : Nat) (input : List Nat) (ts : List (Nat × Nat × Nat)),
      tokenizeAux choose isExtra fuel pos input = some ts → Increasing pos ts := by
  intro fuel
  induction fuel with
  | zero => intro pos input ts h; simp [tokenizeAux] at h
  | succ f ih =>
    intro pos input ts h
    simp only [tokenizeAux] at h
    split at h
    · cases h; trivial
    · split at h
      · cases h
      · rename_i i off n rest _
        split at h
        · cases h
        · rename_i hn
          split at h
          · rename_i ts' hts
            cases h
            exact ⟨by omega, by omega, ih _ _ _ hts⟩
          · cases h

/-! ### "extras are skipped between tokens", declaratively -/

theorem skipExtras_split (isExtra : Nat → Bool) : ∀ l : List Nat,
    ∃ gap, l = gap ++ skipExtras isExtra l ∧ gap.all isExtra = true ∧
      (skipExtras isExtra l = [] ∨ ∃ c t, skipExtras isExtra l = c :: t ∧ isExtra c = false)
  | [] => ⟨[], rfl, rfl, Or.inl rfl⟩
  | c :: rest => by
    by_cases hc : isExtra c = true
    · obtain ⟨gap, h1, h2, h3⟩ := skipExtras_split isExtra rest
      refine ⟨c :: gap, ?_, ?_, ?_⟩
      · simp only [skipExtras, hc, if_true, List.cons_append]; rw [← h1]
      · simp only [List.all_cons, hc, h2, Bool.and_self]
      · simpa only [skipExtras, hc, if_true] using h3
    · refine ⟨[], ?_, rfl, Or.inr ⟨c, rest, ?_, by simpa using hc⟩⟩
      · simp only [skipExtras, hc, List.nil_append]; rfl
      · simp only [skipExtras, hc]; rfl

/-- what a correct tokenization of the remaining input `rem` (starting at absolute position `pos`)
is: before every token a (possibly empty) run of extras — ALL of them, the token starts at a
non-extra character —, the token is the chooser's answer at exactly that position (told how many
extras were skipped), it is non-empty, and the rest is tokenized from its end; after the last token
only extras remain. -/
def Tokenized (choose : Nat → List Nat → Option Cand) (isExtra : Nat → Bool) :
    List Nat → Nat → List (Nat × Nat × Nat) → Prop
  | rem, _, [] => rem.all isExtra = true
  | rem, pos, (i, s, e) :: rest =>
    ∃ gap tail, rem = gap ++ tail ∧ gap.all isExtra = true ∧ (∃ c t, tail = c :: t ∧ isExtra c = false) ∧
      s = pos + gap.length ∧ s < e ∧ choose gap.length tail = some (i, e - s) ∧
      Tokenized choose isExtra (tail.drop (e - s)) e rest

/-- `tokenize_spec`: whatever the reference tokenizer returns is a correct tokenization in the sense
of `Tokenized` — extras (and only extras) are skipped between tokens, and each token is the
chooser's (i.e. `refToken`'s / `lexScan`'s with the state's valid set) answer at its position. -/
theorem tokenize_spec (choose : Nat → List Nat → Option Cand) (isExtra : Nat → Bool) :
    ∀ (fuel pos : Nat) (input : List Nat) (ts : List (Nat × Nat × Nat)),
      tokenizeAux choose isExtra fuel pos input = some ts → Tokenized choose isExtra input pos ts := by
  intro fuel
  induction fuel with
  | zero => intro pos input ts h; simp [tokenizeAux] at h
  | succ f ih =>
    intro pos input ts h
    obtain ⟨gap, hsplit, hgap, htail⟩ := skipExtras_split isExtra input
    have hlen : input.length - (skipExtras isExtra input).length = gap.length := by
      have := congrArg List.length hsplit
      simp only [List.length_append] at this
      omega
    simp only [tokenizeAux] at h
    split at h
    · rename_i hemp
      cases h
      have : skipExtras isExtra input = [] := List.isEmpty_iff.1 hemp
      rw [this, List.append_nil] at hsplit
      show input.all isExtra = true
      rw [hsplit]; exact hgap
    · rename_i hne
      rcases htail with hnil | ⟨c, t, hct, hc⟩
      · rw [hnil] at hne; exact absurd rfl hne
      · unfold lexOne at h
        simp only [hlen] at h
        cases hch : choose gap.length (skipExtras isExtra input) with
        | none => simp [hch] at h
        | some cand =>
          obtain ⟨i, n⟩ := cand
          simp only [hch] at h
          split at h
          · cases h
          · rename_i hn
            split at h
            · rename_i ts' hts
              cases h
              refine ⟨gap, skipExtras isExtra input, hsplit, hgap, ⟨c, t, hct, hc⟩, rfl, by omega, ?_, ?_⟩
              · have : pos + gap.length + n - (pos + gap.length) = n := by omega
                rw [this]; exact hch
              · have : pos + gap.length + n - (pos + gap.length) = n := by omega
                rw [this]; exact ih _ _ _ hts
            · cases h

/-- and when the whole word equals a keyword (that is acceptable in the state), it IS recognised -/
theorem keyword_recognised (main kw : List Nat → Option Cand) (word : Nat) (ok : Nat → Bool) (input : List Nat)
    (n k : Nat) (hm : main input = some (word, n)) (hk : kw input = some (k, n)) (hok : ok k = true) :
    withKeywordsIn main kw word ok input = some (k, n) ∧ withKeywords main kw word input = some (k, n) := by
  simp [withKeywordsIn, withKeywords, hm, hk, hok]

/-- `keyword_whole_word`: with keyword extraction, a keyword `i` is returned only when the main lexer
matched the word token with some length `n` and the keyword lexer matched exactly those `n`
characters (the whole word); in every other case the main lexer's answer stands. -/
theorem keyword_whole_word (main kw : List Nat → Option Cand) (word : Nat) (input : List Nat) (i n : Nat)
    (h : withKeywords main kw word input = some (i, n)) :
    main input = some (i, n) ∨ (main input = some (word, n) ∧ kw input = some (i, n)) := by
  unfold withKeywords at h
  cases hm : main input with
  | none => simp [hm] at h
  | some c =>
    obtain ⟨j, m⟩ := c
    simp only [hm] at h
    by_cases hj : j = word
    · simp only [hj, if_true] at h
      cases hk : kw input with
      | none =>
        simp only [hk, Option.some.injEq, Prod.mk.injEq] at h
        obtain ⟨rfl, rfl⟩ := h
        exact Or.inl (by rw [hj])
      | some d =>
        obtain ⟨k, l⟩ := d
        simp only [hk] at h
        by_cases hl : l = m
        · simp only [hl, if_true, Option.some.injEq, Prod.mk.injEq] at h
          obtain ⟨rfl, rfl⟩ := h
          exact Or.inr ⟨by rw [hj], by rw [hl]⟩
        · simp only [hl, if_false, Option.some.injEq, Prod.mk.injEq] at h
          obtain ⟨rfl, rfl⟩ := h
          exact Or.inl (by rw [hj])
    · simp only [hj, if_false, Option.some.injEq, Prod.mk.injEq] at h
      obtain ⟨rfl, rfl⟩ := h
      exact Or.inl rfl

/-- with the scan as keyword lexer the returned keyword really matches the whole word -/
theorem keyword_matches_word (toks : List Token) (validKw : Nat → Bool) (main : List Nat → Option Cand)
    (word : Nat) (input : List Nat) (i n : Nat)
    (h : withKeywords main (lexScan toks validKw) word input = some (i, n)) (hne : main input ≠ some (i, n)) :
    main input = some (word, n) ∧ validKw i = true ∧ Matches (tokAt toks i).re (input.take n) := by
  rcases keyword_whole_word _ _ _ _ _ _ h with h1 | ⟨h1, h2⟩
  · exact absurd h1 hne
  · have := (lexScan_sound toks validKw input (i, n) h2).1
    exact ⟨h1, this.2.1, this.2.2.2.2⟩

/-- `keyword_in_state`: in a parse state, a keyword `i` replaces the word token only when the main lexer
returned the word token, the keyword lexer (all keywords) matched exactly the same `n` characters, and
the keyword is valid or reserved in that state (`ok`); otherwise the main lexer's answer stands.  In
particular a keyword that is neither valid nor reserved in the state is lexed as the word token. -/
theorem keyword_in_state (main kw : List Nat → Option Cand) (word : Nat) (ok : Nat → Bool) (input : List Nat)
    (i n : Nat) (h : withKeywordsIn main kw word ok input = some (i, n)) :
    main input = some (i, n) ∨ (main input = some (word, n) ∧ kw input = some (i, n) ∧ ok i = true) := by
  unfold withKeywordsIn at h
  cases hm : main input with
  | none => simp [hm] at h
  | some c =>
    obtain ⟨j, m⟩ := c
    simp only [hm] at h
    by_cases hj : j = word
    · simp only [hj, if_true] at h
      cases hk : kw input with
      | none =>
        simp only [hk, Option.some.injEq, Prod.mk.injEq] at h
        obtain ⟨rfl, rfl⟩ := h
        exact Or.inl (by rw [hj])
      | some d =>
        obtain ⟨k, l⟩ := d
        simp only [hk] at h
        by_cases hl : l = m ∧ ok k = true
        · simp only [hl, and_self, if_true, Option.some.injEq, Prod.mk.injEq] at h
          obtain ⟨rfl, rfl⟩ := h
          exact Or.inr ⟨by rw [hj], by rw [hl.1], hl.2⟩
        · rw [if_neg hl] at h
          simp only [Option.some.injEq, Prod.mk.injEq] at h
          obtain ⟨rfl, rfl⟩ := h
          exact Or.inl (by rw [hj])
    · simp only [hj, if_false, Option.some.injEq, Prod.mk.injEq] at h
      obtain ⟨rfl, rfl⟩ := h
      exact Or.inl rfl

/-- a keyword that is not acceptable in the state never replaces the word token -/
theorem keyword_not_ok_stays_word (main kw : List Nat → Option Cand) (word : Nat) (ok : Nat → Bool) (input : List Nat)
    (n k : Nat) (hm : main input = some (word, n)) (hk : kw input = some (k, n)) (hok : ok k = false) :
    withKeywordsIn main kw word ok input = some (word, n) := by
  simp [withKeywordsIn, hm, hk, hok]

/-! ## non-vacuity -/

/-- tokens over `a`=97 `b`=98: 0 = "a" (String), 1 = /a+/ , 2 = /[ab]+/ with precedence 0 -/
def exToks : List Token :=
  [ (Token.mk4 (lit [97]) 0 true false), (Token.mk4 (plus (chr 97)) 0 false false), (Token.mk4 (plus (.cls [(97, 98)] false)) 0 false false) ]

example : matchesB (rep (chr 97) 1 2) [97, 97] = true := by decide
example : Matches (plus (chr 97)) [97, 97] := (deriv_correct _ _).1 (by decide)
example : refToken exToks (fun _ => true) [97] = some (0, 1) := by decide        -- String over RegExp
example : refToken exToks (fun _ => true) [97, 97, 98] = some (2, 3) := by decide  -- longest match
example : refToken exToks (fun i => i != 2) [97, 97, 98] = some (1, 2) := by decide  -- only valid tokens
example : lexScan exToks (fun _ => true) [97, 97, 98] = some (2, 3) := by decide
example : FlatPrec exToks (fun _ => true) 0 := by
  intro i hi _
  have : i = 0 ∨ i = 1 ∨ i = 2 := by simp [exToks] at hi; omega
  rcases this with rfl | rfl | rfl <;> rfl
example : refTokenize (fun _ => refToken exToks (fun _ => true)) (fun c => c == 32) [97, 32, 97, 97, 32, 98] =
    some [(0, 0, 1), (1, 2, 4), (2, 5, 6)] := by decide

/-- immediate tokens: 0 = "a", 1 = immediate "b".  `ab` is two tokens, in `a b` the blank rules the
immediate token out, so no token is found after the blank. -/
def immToks : List Token := [ (Token.mk4 (lit [97]) 0 true false), (Token.mk4 (lit [98]) 0 true true) ]
example : refTokenize (fun off => refToken immToks (validAt immToks (fun _ => true) off)) (fun c => c == 32) [97, 98] =
    some [(0, 0, 1), (1, 1, 2)] := by decide
example : refTokenize (fun off => refToken immToks (validAt immToks (fun _ => true) off)) (fun c => c == 32) [97, 32, 98] =
    none := by decide

/-- DIFFERENCE 1 witness.  0 = "a" with precedence 1, 1 = "abX" with precedence 1 (X = `d`),
2 = /ab+/ with precedence 0; input `abb`.  The documented order takes the precedence-1 token "a";
the scan (like the generated lexer, see corpus/c14.txt) returns the longer precedence-0 token,
because the transition on `b` is shared with the precedence-1 token "abd". -/
def overtakeToks : List Token :=
  [ (Token.mk4 (lit [97]) 1 true false), (Token.mk4 (lit [97, 98, 100]) 1 true false), (Token.mk4 (.seq (chr 97) (plus (chr 98))) 0 false false) ]
theorem overtake_witness :
    refToken overtakeToks (fun _ => true) [97, 98, 98] = some (0, 1) ∧
    lexScan overtakeToks (fun _ => true) [97, 98, 98] = some (2, 3) := by decide

/-- word token 1 = /[a-z]+/ , keyword 0 = "if": `if ` gives the keyword, `ifx` the word -/
def kwToks : List Token := [ (Token.mk4 (lit [105, 102]) 0 true false), (Token.mk4 (plus (.cls [(97, 122)] false)) 0 false false) ]
example : withKeywords (lexScan kwToks (fun i => i == 1)) (lexScan kwToks (fun i => i == 0)) 1 [105, 102, 32] = some (0, 2) := by decide
example : withKeywords (lexScan kwToks (fun i => i == 1)) (lexScan kwToks (fun i => i == 0)) 1 [105, 102, 120] = some (1, 3) := by decide

end TsVerif.C14
