/-!
# C14 — `Model.Regex`: the regex subset the generator accepts, over code points

Literals, character classes (ranges, possibly negated), concatenation, alternation, `*`; `+ ? {m,n}`
are derived forms (`plus`, `opt`, `rep`) expanded into the core.  Executable matching is by Brzozowski
derivatives; the denotational semantics is the inductive `Matches`.
-/
namespace TsVerif.C14

inductive Regex where
  | empty                                    -- ∅
  | eps                                      -- ε
  | cls (ranges : List (Nat × Nat)) (neg : Bool)   -- one code point in (or not in) the ranges
  | seq (a b : Regex)
  | alt (a b : Regex)
  | star (a : Regex)
  deriving Repr, Inhabited, DecidableEq

namespace Regex

def inRanges (rs : List (Nat × Nat)) (c : Nat) : Bool := rs.any (fun r => decide (r.1 ≤ c) && decide (c ≤ r.2))

/-- does the class accept code point `c` -/
def clsHas (rs : List (Nat × Nat)) (neg : Bool) (c : Nat) : Bool := inRanges rs c != neg

def chr (c : Nat) : Regex := .cls [(c, c)] false
def plus (a : Regex) : Regex := .seq a (.star a)
def opt (a : Regex) : Regex := .alt a .eps
/-- `a{n}` -/
def pow (a : Regex) : Nat → Regex
  | 0 => .eps
  | n + 1 => .seq a (pow a n)
/-- `a{0,k}` -/
def upto (a : Regex) : Nat → Regex
  | 0 => .eps
  | k + 1 => .alt .eps (.seq a (upto a k))
/-- `a{m,n}` (n ≥ m) -/
def rep (a : Regex) (m n : Nat) : Regex := .seq (pow a m) (upto a (n - m))
/-- a string literal -/
def lit : List Nat → Regex
  | [] => .eps
  | c :: cs => .seq (chr c) (lit cs)

/-- denotational semantics: `Matches r w` iff `w ∈ ⟦r⟧` -/
inductive Matches : Regex → List Nat → Prop
  | eps : Matches .eps []
  | cls {rs neg c} : clsHas rs neg c = true → Matches (.cls rs neg) [c]
  | seq {a b u v} : Matches a u → Matches b v → Matches (.seq a b) (u ++ v)
  | altL {a b w} : Matches a w → Matches (.alt a b) w
  | altR {a b w} : Matches b w → Matches (.alt a b) w
  | starNil {a} : Matches (.star a) []
  | starCons {a u v} : Matches a u → Matches (.star a) v → Matches (.star a) (u ++ v)

def nullable : Regex → Bool
  | .empty => false
  | .eps => true
  | .cls _ _ => false
  | .seq a b => nullable a && nullable b
  | .alt a b => nullable a || nullable b
  | .star _ => true

/-- smart constructors (keep derivatives small; `isEmpty` then detects dead states) -/
def mkSeq (a b : Regex) : Regex :=
  match a, b with
  | .empty, _ => .empty
  | _, .empty => .empty
  | .eps, b => b
  | a, b => .seq a b

def mkAlt (a b : Regex) : Regex :=
  match a, b with
  | .empty, b => b
  | a, .empty => a
  | a, b => if a = b then a else .alt a b

/-- Brzozowski derivative -/
def deriv (c : Nat) : Regex → Regex
  | .empty => .empty
  | .eps => .empty
  | .cls rs neg => if clsHas rs neg c then .eps else .empty
  | .seq a b => if nullable a then mkAlt (mkSeq (deriv c a) b) (deriv c b) else mkSeq (deriv c a) b
  | .alt a b => mkAlt (deriv c a) (deriv c b)
  | .star a => mkSeq (deriv c a) (.star a)

def derivs (r : Regex) (w : List Nat) : Regex := w.foldl (fun r c => deriv c r) r

/-- executable matcher -/
def matchesB (r : Regex) (w : List Nat) : Bool := nullable (derivs r w)

def isEmpty : Regex → Bool
  | .empty => true
  | _ => false

end Regex
end TsVerif.C14
