import TsVerif.Common.Tree
import TsVerif.C03.Driver
import TsVerif.C03.Memo
import TsVerif.C03.Glr
import TsVerif.C03.Sound
import TsVerif.C03.Relate
import TsVerif.C03.Complete
import TsVerif.C03.Cover
import TsVerif.C03.Lang
import TsVerif.C03.Pratt
/-!
# C03 — judge and correspondence on the implementation's outputs

* correspondence: the model driver on the dumped table vs the real parser (accept/reject, tree);
* judge: `has_error = false ↔ string ∈ L(G)` (oracle `enumLang`), accepted ⇒ `checkDerivation`
  against the source grammar, operator grammars ⇒ the Pratt tree, `select_tree` decisions.
-/
namespace TsVerif.C03
open TsVerif

/-- A tree reduced to what both sides must agree on. -/
inductive STree where
  | mk (sym : Nat) (extra : Bool) (prodId : Nat) (dyn : Int) (kids : List STree)
  deriving Repr, Inhabited, BEq

namespace STree
def sym : STree → Nat | mk s _ _ _ _ => s
def kids : STree → List STree | mk _ _ _ _ k => k
end STree

mutual
  def ofPTree : PTree → STree
    | .leaf s e => .mk s e 0 0 []
    | .node s pid dp e ks => .mk s e pid dp (ofPTreeL ks)
  def ofPTreeL : List PTree → List STree
    | [] => []
    | t :: ts => ofPTree t :: ofPTreeL ts
end

mutual
  def ofDump : Tree → STree
    | .mk d ks => .mk d.symbol d.extra d.productionId d.dynamicPrecedence (ofDumpL ks)
  def ofDumpL : List Tree → List STree
    | [] => []
    | t :: ts => ofDump t :: ofDumpL ts
end

/-- an auxiliary (repeat) symbol: neither visible nor named -/
def isAux (tbl : Table) (s : Nat) : Bool :=
  let i := tbl.syms.getD s default
  !i.visible && !i.named && s ≥ tbl.tokenCount

mutual
  /-- splice children that repeat their parent's auxiliary symbol (the runtime re-balances such
  repeat chains after the parse; the flattened child sequence is what both must agree on) -/
  def flat (tbl : Table) : STree → STree
    | .mk s e p d ks => .mk s e p d (flatL tbl s ks)
  def flatL (tbl : Table) (parent : Nat) : List STree → List STree
    | [] => []
    | t :: ts =>
      let t' := flat tbl t
      (if isAux tbl parent && t'.sym == parent && !t'.kids.isEmpty then t'.kids else [t']) ++ flatL tbl parent ts
end

mutual
  def leavesOfDump (tbl : Table) : Tree → List Nat
    | .mk d ks => if ks.isEmpty then (if d.symbol < tbl.tokenCount then [d.symbol] else []) else leavesOfDumpL tbl ks
  def leavesOfDumpL (tbl : Table) : List Tree → List Nat
    | [] => []
    | t :: ts => leavesOfDump tbl t ++ leavesOfDumpL tbl ts
end

mutual
  /-- distinct productions used: (symbol, child symbols) of every inner node -/
  def prodsOf : STree → List (Nat × List Nat)
    | .mk s _ _ _ ks => (if ks.isEmpty then [] else [(s, ks.map STree.sym)]) ++ prodsOfL ks
  def prodsOfL : List STree → List (Nat × List Nat)
    | [] => []
    | t :: ts => prodsOf t ++ prodsOfL ts
end

/-- first difference between two normalised trees (path of child indices), `none` = equal -/
partial def diffS (a b : STree) (path : List Nat) : Option String :=
  match a, b with
  | .mk s e p d ks, .mk s' e' p' d' ks' =>
    if s != s' then some s!"sym {s}/{s'} at {path.reverse}"
    else if e != e' then some s!"extra {e}/{e'} at {path.reverse}"
    else if p != p' then some s!"production_id {p}/{p'} at {path.reverse}"
    else if d != d' then some s!"dynamic_precedence {d}/{d'} at {path.reverse}"
    else if ks.length != ks'.length then some s!"child_count {ks.length}/{ks'.length} at {path.reverse}"
    else
      let rec go (i : Nat) : List STree → List STree → Option String
        | x :: xs, y :: ys => match diffS x y (i :: path) with
          | some m => some m
          | none => go (i + 1) xs ys
        | _, _ => none
      go 0 ks ks'

/-! ## visible trees from the public API -/

structure VFrame where
  kind : String
  named : Bool
  extra : Bool
  field : Option String
  need : Nat
  acc : List VNode

def vClose : List VFrame → VNode → (List VFrame × Option VNode)
  | [], t => ([], some t)
  | f :: fs, t =>
    let acc := t :: f.acc
    if acc.length == f.need then vClose fs (.mk f.kind f.named f.extra f.field acc.reverse)
    else ({ f with acc := acc } :: fs, none)

def parseVLine (line : String) : Option (VFrame × Nat) :=
  match line.splitOn " " with
  | ["v", k, n, e, f, cc, fl] =>
    some ({ kind := unhexString k, named := n == "1", extra := e == "1",
            field := if f == "-" then none else some (unhexString f), need := natOf' cc, acc := [] }, natOf' fl)
  | _ => none

def buildV (lines : List String) : Option VNode :=
  let rec go (ls : List (VFrame × Nat)) (stack : List VFrame) (done : Option VNode) : Option VNode :=
    match ls with
    | [] => done
    | (f, _) :: rest =>
      if f.need == 0 then
        let (stack', r) := vClose stack (.mk f.kind f.named f.extra f.field [])
        go rest stack' (r <|> done)
      else go rest (f :: stack) done
  go (lines.filterMap parseVLine) [] none

partial def diffV (a b : VNode) (path : List Nat) : Option String :=
  match a, b with
  | .mk k n e f ks, .mk k' n' e' f' ks' =>
    if k != k' || n != n' then some s!"kind {k}/{k'} at {path.reverse}"
    else if e != e' then some s!"extra at {path.reverse}"
    else if f != f' then some s!"field {f}/{f'} at {path.reverse}"
    else if ks.length != ks'.length then some s!"child_count {ks.length}/{ks'.length} at {path.reverse}"
    else
      let rec go (i : Nat) : List VNode → List VNode → Option String
        | x :: xs, y :: ys => match diffV x y (i :: path) with
          | some m => some m
          | none => go (i + 1) xs ys
        | _, _ => none
      go 0 ks ks'

/-! ## diagnostic: would the table accept the string if every action of a cell were tried
(repetition-flagged shifts included)?  Used only to fingerprint membership failures. -/

def applyAction (tbl : Table) (c : Conf) (eoe : Bool) : Action → Option (Conf ⊕ Outcome)
  | .shift s' extra _ =>
    match c.toks with
    | [] => none
    | a :: rest =>
      let ns := if extra then topState c.stack else s'
      if ns = 0 ∨ tbl.stateCount ≤ ns then none
      else some (.inl { stack := (ns, PTree.leaf a extra) :: c.stack, toks := rest })
  | .reduce A n dp pid =>
    match reduce tbl c.stack A n dp pid eoe with
    | .ok st => some (.inl { c with stack := st })
    | .error _ => none
  | .accept =>
    match c.toks, acceptTree c.stack with
    | [], some t => some (.inr (.accepted t))
    | _, _ => none
  | .recover => none

def acceptsAny (tbl : Table) : Nat → Conf → Bool
  | 0, _ => false
  | f + 1, c =>
    let s := topState c.stack
    let eoe := tbl.lexEnd s
    let acts := if eoe then tbl.actions s 0 else tbl.actions s (c.toks.headD 0)
    acts.any fun a => match applyAction tbl c eoe a with
      | some (.inl c') => acceptsAny tbl f c'
      | some (.inr (.accepted _)) => true
      | _ => false

/-! ## `ts_parser__select_tree`: the decision part -/

structure Cand where
  errorCost : Nat
  dynPrec : Int
  deriving Repr, DecidableEq, Inhabited

/-- Port of the comparisons of `ts_parser__select_tree(left, right)` up to the structural tie-break:
`some true` = take `right`, `some false` = keep `left`, `none` = decided by `ts_subtree_compare`
(or, with errors on both sides, `right` is taken: reported as `some true`). -/
def selectTree (left right : Cand) : Option Bool :=
  if right.errorCost < left.errorCost then some true
  else if left.errorCost < right.errorCost then some false
  else if right.dynPrec > left.dynPrec then some true
  else if left.dynPrec > right.dynPrec then some false
  else if left.errorCost > 0 then some true
  else none

end TsVerif.C03
