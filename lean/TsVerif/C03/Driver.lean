import TsVerif.C03.Table
/-!
# C03/C15 — a single-version LR driver over the dumped table

Code-shaped port of the error-free, single-version path of `ts_parser__advance`,
`ts_parser__shift`, `ts_parser__reduce` (with `ts_stack_pop_count` counting only non-extra
entries and `ts_subtree_array_remove_trailing_extras`), and `ts_parser__accept` of
lib/src/parser.c.  The look-ahead tokens are *given* (symbol ids as the real lexer produced them).
Not modelled: several stack versions (a cell with more than one effective action stops the driver
with `glr`), error recovery (a cell without action stops with `rejected`), node reuse, external
scanner state, keyword→word-token switching (the token list already contains the final symbols).
-/
namespace TsVerif.C03

/-- The internal parse tree the driver builds (symbols are internal symbol ids). -/
inductive PTree where
  | leaf (sym : Nat) (extra : Bool)
  | node (sym : Nat) (prodId : Nat) (dynPrec : Int) (extra : Bool) (kids : List PTree)
  deriving Repr, Inhabited

namespace PTree
def isExtra : PTree → Bool
  | leaf _ e => e
  | node _ _ _ e _ => e
def sym : PTree → Nat
  | leaf s _ => s
  | node s _ _ _ _ => s
def dynPrec : PTree → Int
  | leaf _ _ => 0
  | node _ _ d _ _ => d
mutual
  /-- the token symbols at the leaves, left to right (extras and the EOF leaf included) -/
  def leaves : PTree → List Nat
    | leaf s _ => [s]
    | node _ _ _ _ ks => leavesL ks
  def leavesL : List PTree → List Nat
    | [] => []
    | t :: ts => leaves t ++ leavesL ts
end
end PTree

abbrev Stack := List (Nat × PTree)

/-- `ts_stack_state`: the state on top; the base of the stack is the start state 1. -/
def topState : Stack → Nat
  | [] => 1
  | (s, _) :: _ => s

/-- `ts_stack_pop_count`: pop entries until `n` non-extra ones have been popped (extras above and
between them come along, extras below the n-th stay).  Children are returned bottom first.
`none` = the stack ran out (the C code would then produce no slice at all). -/
def popN : Nat → Stack → Option (List PTree × Stack)
  | 0, st => some ([], st)
  | _ + 1, [] => none
  | n + 1, (_, t) :: rest =>
    match popN (if t.isExtra then n + 1 else n) rest with
    | some (ks, r) => some (ks ++ [t], r)
    | none => none

/-- `ts_subtree_array_remove_trailing_extras`: (children without the trailing extras, the trailing extras in order). -/
def splitTrailing (ks : List PTree) : List PTree × List PTree :=
  ((ks.reverse.dropWhile PTree.isExtra).reverse, (ks.reverse.takeWhile PTree.isExtra).reverse)

def sumDyn (ks : List PTree) : Int := (ks.map PTree.dynPrec).foldl (· + ·) 0

inductive Fault where
  | popBelowBase | noGoto | badState | shiftEof | noRoot | acceptNotEof
  deriving Repr, DecidableEq, Inhabited

/-- `ts_parser__reduce` on a single version.  `eoe` = `end_of_non_terminal_extra` (null look-ahead). -/
def reduce (tbl : Table) (st : Stack) (A n : Nat) (dp : Int) (pid : Nat) (eoe : Bool) : Except Fault Stack :=
  match popN n st with
  | none => .error .popBelowBase
  | some (kids, rest) =>
    let ks := (splitTrailing kids).1
    let trailing := (splitTrailing kids).2
    let p := topState rest
    let q := tbl.goto p A
    if q = 0 ∨ tbl.stateCount ≤ q then .error .noGoto
    else .ok ((trailing.reverse.map fun t => (q, t)) ++
              (q, PTree.node A pid (dp + sumDyn ks) (eoe && q == p) ks) :: rest)

/-- `ts_parser__accept`: push the (extra) EOF leaf, pop everything, splice the children of the last
non-extra tree in place; that tree's symbol and production id label the root; the part of its
dynamic precedence that came from its own reduce action (`own_dynamic_precedence`) is carried over
to the rebuilt root. -/
def acceptTree (st : Stack) : Option PTree :=
  let r := PTree.leaf 0 true :: st.map (·.2)      -- top first
  let after := (r.takeWhile PTree.isExtra).reverse
  match r.dropWhile PTree.isExtra with
  | PTree.node sym pid dp _ kids :: beforeRev =>
    let all := beforeRev.reverse ++ kids ++ after
    some (PTree.node sym pid (sumDyn all + (dp - sumDyn kids)) false all)
  | _ => none

structure Conf where
  stack : Stack
  toks : List Nat
  deriving Inhabited

inductive Outcome where
  | accepted (t : PTree)
  | rejected (remaining : Nat)
  | glr
  | fault (f : Fault)
  | fuelOut
  deriving Inhabited

/-- The runtime skips `repetition` shifts (`if (action.shift.repetition) break;`). -/
def isEffective : Action → Bool
  | .shift _ _ true => false
  | _ => true

def effective (as : List Action) : List Action := as.filter isEffective

/-- One iteration of the `for (;;)` loop of `ts_parser__advance` for a single stack version. -/
def step (tbl : Table) (c : Conf) : Conf ⊕ Outcome :=
  let s := topState c.stack
  if tbl.lexEnd s then
    match effective (tbl.actions s 0) with
    | [] => .inr (.rejected c.toks.length)
    | [.reduce A n dp pid] =>
      match reduce tbl c.stack A n dp pid true with
      | .ok st => .inl { c with stack := st }
      | .error f => .inr (.fault f)
    | _ => .inr .glr
  else
    match effective (tbl.actions s (c.toks.headD 0)) with
    | [] => .inr (.rejected c.toks.length)
    | [.shift s' extra _] =>
      match c.toks with
      | [] => .inr (.fault .shiftEof)
      | a :: rest =>
        let ns := if extra then s else s'
        if ns = 0 ∨ tbl.stateCount ≤ ns then .inr (.fault .badState)
        else .inl { stack := (ns, PTree.leaf a extra) :: c.stack, toks := rest }
    | [.reduce A n dp pid] =>
      match reduce tbl c.stack A n dp pid false with
      | .ok st => .inl { c with stack := st }
      | .error f => .inr (.fault f)
    | [.accept] =>
      match c.toks with
      | [] =>
        match acceptTree c.stack with
        | some t => .inr (.accepted t)
        | none => .inr (.fault .noRoot)
      | _ :: _ => .inr (.fault .acceptNotEof)   -- `ts_assert(ts_subtree_is_eof(lookahead))`
    | [.recover] => .inr (.rejected c.toks.length)
    | _ => .inr .glr

def runLoop (tbl : Table) : Nat → Conf → Outcome
  | 0, _ => .fuelOut
  | f + 1, c =>
    match step tbl c with
    | .inl c' => runLoop tbl f c'
    | .inr o => o

def fuelFor (toks : List Nat) : Nat := 64 * (toks.length + 8) + 512

/-- Parse a token string from the start state. -/
def run (tbl : Table) (toks : List Nat) : Outcome := runLoop tbl (fuelFor toks) { stack := [], toks := toks }

/-! ## The decidable well-formedness check of a table (`tableClosed`) -/

def shiftTargets (as : List Action) : List Nat :=
  as.filterMap fun a => match a with
    | .shift s false _ => some s
    | _ => none

def hasReduceOf (A : Nat) (as : List Action) : Bool :=
  as.any fun a => match a with
    | .reduce B _ _ _ => B == A
    | _ => false

/-- `A` is reduced somewhere with a real look-ahead (not only at the end of a non-terminal extra). -/
def plainReduced (tbl : Table) (A : Nat) : Bool :=
  (List.range tbl.stateCount).any fun s =>
    !tbl.lexEnd s && (tbl.acts.getD s []).any fun e => hasReduceOf A e.2

/-- There is a transition `p → q` that can push a *non-extra* entry. -/
def hasEdge (tbl : Table) (p q : Nat) : Bool :=
  ((tbl.acts.getD p []).any fun e => (shiftTargets e.2).contains q) ||
  ((tbl.gotos.getD p []).any fun e => e.2 == q && (p != q || plainReduced tbl e.1))

/-- some state shifts a (non-extra) token into `s` -/
def isShiftTarget (tbl : Table) (s : Nat) : Bool :=
  (List.range tbl.stateCount).any fun p => (tbl.acts.getD p []).any fun e => (shiftTargets e.2).contains s

def predsOf (tbl : Table) (q : Nat) : List Nat :=
  if q < tbl.stateCount then (List.range tbl.stateCount).filter fun p => p != 0 && hasEdge tbl p q else []

/-- `back pr s n`: the states from which `s` is reachable by exactly `n` non-extra transitions. -/
def back (pr : Nat → List Nat) (s : Nat) : Nat → List Nat
  | 0 => [s]
  | n + 1 => ((back pr s n).flatMap pr).eraseDups

def reduceOK (tbl : Table) (pr : Nat → List Nat) (s A n : Nat) : Bool :=
  ((List.range n).all fun k => !(back pr s k).contains 1) &&
  ((back pr s n).all fun p => tbl.goto p A != 0 && tbl.goto p A < tbl.stateCount)

def actionOK (tbl : Table) (pr : Nat → List Nat) (s a : Nat) : Action → Bool
  | .shift s' extra _ => a != 0 && (extra || (s' != 0 && s' < tbl.stateCount))
  | .reduce A n _ _ => reduceOK tbl pr s A n
  | .accept => a == 0 && s != 1 && !isShiftTarget tbl s
  | .recover => true

def closedWith (tbl : Table) (pr : Nat → List Nat) : Bool :=
  decide (1 < tbl.stateCount) &&
  (List.range tbl.stateCount).all fun s =>
    s == 0 || (tbl.acts.getD s []).all fun e => e.2.all (actionOK tbl pr s e.1)

/-- The predecessor lists of all states, computed once. -/
def predTable (tbl : Table) : Array (List Nat) := Array.ofFn (n := tbl.stateCount) fun q => predsOf tbl q.val

/-- The decidable premise of `driver_no_fault`. -/
def tableClosed (tbl : Table) : Bool :=
  let pt := predTable tbl
  closedWith tbl (fun q => pt.getD q [])

end TsVerif.C03
