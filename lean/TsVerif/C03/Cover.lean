import TsVerif.C03.Relate
import TsVerif.C03.Complete
/-!
# C03 — completeness, second half: every derivation of the source grammar is a tree over `P`

`Relate.lean` goes from the table to `grammar.json` (every production of the table is an instance of
the source rule of its left-hand side).  This file goes the other way.  `expand` is a canonical
flattening of a source rule into sequences of table symbols (choices multiplied out, a `REPEAT` replaced
by its auxiliary symbol or by nothing, inlined rules substituted, hidden rules kept as symbols — the
table may have removed their unit reductions, which `completeOK`'s unit-skip items validate).
`coverOK g tbl aux P start` is decidable: every sequence `expand` yields for the rule of a non-terminal
of the table is a production in `P`, an auxiliary symbol `R` for the rule `a` has `R → R R` and every
sequence of `a`, and the terminals carry distinct names.

`grammar_cover`: then every `DerivesTok` derivation from the start rule has a derivation tree over `P`
with the same token string, of the left-nested shape `auxAllow` describes.
`parser_complete`: with `completeOK` for that `P` (validated on the real table): every token string
(no extra tokens) the grammar derives is accepted by the driver — the converse of `parser_sound`.
-/
namespace TsVerif.C03

/-- the terminal of the table that carries this name (0 = none) -/
def tokId (tbl : Table) (t : Tok) : Nat :=
  ((List.range tbl.tokenCount).find? fun y => y != 0 && tokOf tbl y == t).getD 0

/-- the (non-auxiliary) non-terminal of the table that carries this name (0 = none) -/
def ntId (tbl : Table) (aux : AuxMap) (x : String) : Nat :=
  ((List.range tbl.symbolCount).find? fun y =>
    decide (tbl.tokenCount ≤ y) && (aux.lookup y).isNone && tbl.symName y == x).getD 0

/-- the auxiliary symbol that repeats this rule (0 = none) -/
def auxId (tbl : Table) (aux : AuxMap) (a : Rule) : Nat :=
  ((aux.find? fun e => e.2 == a && decide (tbl.tokenCount ≤ e.1) && decide (e.1 < tbl.symbolCount) && aux.lookup e.1 == some a).map (·.1)).getD 0

/-- The canonical flattening of a rule: the sequences of table symbols it stands for.  The symbol 0
(the end token, never part of a production) marks "not expressible": no fuel, a name without a symbol,
a construct outside the token-level semantics. -/
def expand (g : Grammar) (tbl : Table) (aux : AuxMap) : Nat → Rule → List (List Nat)
  | 0, _ => [[0]]
  | f + 1, r =>
    match r with
    | .blank => [[]]
    | .str s => [[tokId tbl ⟨s, false⟩]]
    | .sym x =>
      match g.body x with
      | none => [[0]]
      | some b =>
        if isTerminalBody b then [[tokId tbl ⟨x, true⟩]]
        else if g.inline.contains x then expand g tbl aux f b
        else [[ntId tbl aux x]]
    | .seq a b => (expand g tbl aux f a).flatMap fun u => (expand g tbl aux f b).map fun v => u ++ v
    | .choice a b => expand g tbl aux f a ++ expand g tbl aux f b
    | .rep a => [[], [auxId tbl aux a]]
    | .rep1 a => [[auxId tbl aux a]]
    | .field _ a => expand g tbl aux f a
    | .alias _ _ a => expand g tbl aux f a
    | .prec _ _ a => expand g tbl aux f a
    | _ => [[0]]

/-- the trees `grammar_cover` builds: repeats nest to the left (`R → R R` has a content production as
its second child) -/
def auxAllow (aux : AuxMap) : Allow := fun q i p =>
  !(decide (i > 0) && (aux.lookup q.1).isSome && p.1 == q.1 && p.2.1.contains p.1)

def hasProd (P : List Prod) (A : Nat) (syms : List Nat) : Bool := P.any fun p => p.1 == A && p.2.1 == syms

/-- distinct terminals carry distinct names -/
def tokInj (tbl : Table) : Bool :=
  (List.range tbl.tokenCount).all fun a => (List.range tbl.tokenCount).all fun b =>
    a == 0 || b == 0 || a == b || tokOf tbl a != tokOf tbl b

def ntCoverOK (g : Grammar) (tbl : Table) (aux : AuxMap) (P : List Prod) (y : Nat) : Bool :=
  match aux.lookup y with
  | some a =>
    hasProd P y [y, y] &&
    (expand g tbl aux (relFuel g) a).all fun syms => !syms.contains 0 && !syms.contains y && hasProd P y syms
  | none =>
    match g.body (tbl.symName y) with
    | some b => (expand g tbl aux (relFuel g) b).all fun syms => !syms.contains 0 && hasProd P y syms
    | none => false

/-- The decidable relation from the source grammar to the production set `P`. -/
def coverOK (g : Grammar) (tbl : Table) (aux : AuxMap) (P : List Prod) (start : Nat) : Bool :=
  start == ntId tbl aux g.start && start != 0 &&
  (match g.body g.start with
   | some b => !isTerminalBody b
   | none => false) &&
  tokInj tbl &&
  (List.range tbl.symbolCount).all fun y => decide (y < tbl.tokenCount) || ntCoverOK g tbl aux P y

/-! ## lookups -/

theorem tokId_spec (tbl : Table) (t : Tok) (h : tokId tbl t ≠ 0) :
    tokId tbl t < tbl.tokenCount ∧ tokOf tbl (tokId tbl t) = t := by
  unfold tokId at h ⊢
  cases hf : (List.range tbl.tokenCount).find? (fun y => y != 0 && tokOf tbl y == t) with
  | none => simp [hf] at h
  | some y =>
    simp only [Option.getD_some]
    have h1 := List.find?_some hf
    have h2 := List.mem_of_find?_eq_some hf
    simp only [Bool.and_eq_true, beq_iff_eq] at h1
    exact ⟨List.mem_range.mp h2, h1.2⟩

theorem ntId_spec (tbl : Table) (aux : AuxMap) (x : String) (h : ntId tbl aux x ≠ 0) :
    ntId tbl aux x < tbl.symbolCount ∧ tbl.tokenCount ≤ ntId tbl aux x ∧ aux.lookup (ntId tbl aux x) = none ∧
      tbl.symName (ntId tbl aux x) = x := by
  unfold ntId at h ⊢
  cases hf : (List.range tbl.symbolCount).find? (fun y =>
      decide (tbl.tokenCount ≤ y) && (aux.lookup y).isNone && tbl.symName y == x) with
  | none => simp [hf] at h
  | some y =>
    simp only [Option.getD_some]
    have h1 := List.find?_some hf
    have h2 := List.mem_of_find?_eq_some hf
    simp only [Bool.and_eq_true, decide_eq_true_eq, beq_iff_eq, Option.isNone_iff_eq_none] at h1
    exact ⟨List.mem_range.mp h2, h1.1.1, h1.1.2, h1.2⟩

theorem auxId_spec (tbl : Table) (aux : AuxMap) (a : Rule) (h : auxId tbl aux a ≠ 0) :
    tbl.tokenCount ≤ auxId tbl aux a ∧ auxId tbl aux a < tbl.symbolCount ∧ aux.lookup (auxId tbl aux a) = some a := by
  unfold auxId at h ⊢
  cases hf : aux.find? (fun e => e.2 == a && decide (tbl.tokenCount ≤ e.1) && decide (e.1 < tbl.symbolCount) && aux.lookup e.1 == some a) with
  | none => simp [hf] at h
  | some e =>
    simp only [Option.map_some, Option.getD_some]
    have h1 := List.find?_some hf
    simp only [Bool.and_eq_true, decide_eq_true_eq, beq_iff_eq] at h1
    exact ⟨h1.1.1.2, h1.1.2, h1.2⟩

theorem hasProd_mem (P : List Prod) (A : Nat) (syms : List Nat) (h : hasProd P A syms = true) :
    ∃ pid, (A, syms, pid) ∈ P := by
  unfold hasProd at h
  simp only [List.any_eq_true, Bool.and_eq_true, beq_iff_eq] at h
  obtain ⟨⟨A', s', pid⟩, hp, rfl, rfl⟩ := h
  exact ⟨pid, hp⟩

/-! ## what `coverOK` gives -/

structure CoverFacts (g : Grammar) (tbl : Table) (aux : AuxMap) (P : List Prod) : Prop where
  nt : ∀ y b, tbl.tokenCount ≤ y → y < tbl.symbolCount → aux.lookup y = none → g.body (tbl.symName y) = some b →
    ∀ syms, syms ∈ expand g tbl aux (relFuel g) b → 0 ∉ syms ∧ ∃ pid, (y, syms, pid) ∈ P
  auxRR : ∀ y a, tbl.tokenCount ≤ y → y < tbl.symbolCount → aux.lookup y = some a → ∃ pid, (y, [y, y], pid) ∈ P
  auxC : ∀ y a, tbl.tokenCount ≤ y → y < tbl.symbolCount → aux.lookup y = some a →
    ∀ syms, syms ∈ expand g tbl aux (relFuel g) a → 0 ∉ syms ∧ y ∉ syms ∧ ∃ pid, (y, syms, pid) ∈ P

theorem coverFacts_of (g : Grammar) (tbl : Table) (aux : AuxMap) (P : List Prod) (start : Nat)
    (h : coverOK g tbl aux P start = true) : CoverFacts g tbl aux P := by
  unfold coverOK at h
  simp only [Bool.and_eq_true, List.all_eq_true, List.mem_range, Bool.or_eq_true, decide_eq_true_eq] at h
  have hall := h.2
  refine ⟨?_, ?_, ?_⟩
  · intro y b hy hlt hl hb syms hs
    rcases hall y hlt with h1 | h1
    · omega
    · unfold ntCoverOK at h1
      simp only [hl, hb, List.all_eq_true, Bool.and_eq_true, Bool.not_eq_true'] at h1
      have := h1 syms hs
      exact ⟨by simpa using this.1, hasProd_mem P y syms this.2⟩
  · intro y a hy hlt hl
    rcases hall y hlt with h1 | h1
    · omega
    · unfold ntCoverOK at h1
      simp only [hl, Bool.and_eq_true] at h1
      exact hasProd_mem P y [y, y] h1.1
  · intro y a hy hlt hl syms hs
    rcases hall y hlt with h1 | h1
    · omega
    · unfold ntCoverOK at h1
      simp only [hl, List.all_eq_true, Bool.and_eq_true, Bool.not_eq_true'] at h1
      have := h1.2 syms hs
      exact ⟨by simpa using this.1.1, by simpa using this.1.2, hasProd_mem P y syms this.2⟩

/-! ## building the tree -/

theorem validL_of (tbl : Table) (P : List Prod) (allow : Allow) (q : Prod) : ∀ (ts : List DT) (i : Nat),
    (∀ t, t ∈ ts → t.Valid tbl P allow) → (∀ j t, t ∈ ts → allowedAt allow q j t = true) →
    DT.ValidL tbl P allow q i ts := by
  intro ts
  induction ts with
  | nil => intro i _ _; simp [DT.ValidL]
  | cons t ts ih =>
    intro i hv ha
    simp only [DT.ValidL]
    exact ⟨hv t (by simp), ha i t (by simp), ih (i + 1) (fun t' ht' => hv t' (by simp [ht'])) (fun j t' ht' => ha j t' (by simp [ht']))⟩

theorem allowed_nonaux (aux : AuxMap) (q : Prod) (h : aux.lookup q.1 = none) (j : Nat) (t : DT) :
    allowedAt (auxAllow aux) q j t = true := by
  unfold allowedAt
  cases t.prod? with
  | none => rfl
  | some p => simp [auxAllow, h]

theorem allowed_other (aux : AuxMap) (q : Prod) (j : Nat) (t : DT) (h : t.sym ≠ q.1) :
    allowedAt (auxAllow aux) q j t = true := by
  unfold allowedAt
  cases t with
  | leaf a => rfl
  | node A pid ks =>
    simp only [DT.prod?, auxAllow]
    simp only [DT.sym] at h
    simp [h]

theorem yieldL_append : ∀ (a b : List DT), DT.yieldL (a ++ b) = DT.yieldL a ++ DT.yieldL b := by
  intro a
  induction a with
  | nil => intro b; simp [DT.yieldL]
  | cons t ts ih => intro b; simp [DT.yieldL, ih]

/-- what the flattening of one derivation delivers: a symbol sequence of `expand`, and trees for it -/
def Flat (g : Grammar) (tbl : Table) (aux : AuxMap) (P : List Prod) (f : Nat) (r : Rule) (w : List Tok) : Prop :=
  ∃ syms, syms ∈ expand g tbl aux f r ∧ ∃ ts : List DT, ts.map DT.sym = syms ∧
    (0 ∉ syms → (∀ t, t ∈ ts → t.Valid tbl P (auxAllow aux)) ∧ (DT.yieldL ts).map (tokOf tbl) = w)

theorem flat_zero (g : Grammar) (tbl : Table) (aux : AuxMap) (P : List Prod) (r : Rule) (w : List Tok) :
    Flat g tbl aux P 0 r w :=
  ⟨[0], by simp [expand], [.leaf 0], by simp [DT.sym], by intro h; simp at h⟩

theorem flat_bad (g : Grammar) (tbl : Table) (aux : AuxMap) (P : List Prod) (f : Nat) (r : Rule) (w : List Tok)
    (h : [0] ∈ expand g tbl aux f r) : Flat g tbl aux P f r w :=
  ⟨[0], h, [.leaf 0], by simp [DT.sym], by intro h; simp at h⟩

/-- one leaf -/
theorem flat_tok (g : Grammar) (tbl : Table) (aux : AuxMap) (P : List Prod) (f : Nat) (r : Rule) (t : Tok)
    (h : [tokId tbl t] ∈ expand g tbl aux f r) : Flat g tbl aux P f r [t] := by
  refine ⟨_, h, [.leaf (tokId tbl t)], by simp [DT.sym], ?_⟩
  intro h0
  have hne : tokId tbl t ≠ 0 := by
    intro he; apply h0; simp [he]
  have := tokId_spec tbl t hne
  refine ⟨?_, ?_⟩
  · intro t' ht'
    simp only [List.mem_singleton] at ht'
    subst ht'
    simp only [DT.Valid]
    exact ⟨this.1, hne⟩
  · simp [DT.yieldL, DT.yield, this.2]

/-- the tree of an auxiliary symbol for one or more iterations -/
theorem rep_tree (g : Grammar) (tbl : Table) (aux : AuxMap) (P : List Prod) (cf : CoverFacts g tbl aux P)
    (a : Rule) (R : Nat) (hR : tbl.tokenCount ≤ R) (hRs : R < tbl.symbolCount) (hl : aux.lookup R = some a)
    (u v : List Tok) (tu : List DT) (hus : tu.map DT.sym = [] ∨ tu.map DT.sym = [R])
    (huv : ∀ t, t ∈ tu → t.Valid tbl P (auxAllow aux)) (huy : (DT.yieldL tu).map (tokOf tbl) = u)
    (hv : Flat g tbl aux P (relFuel g) a v) :
    ∃ t : DT, t.sym = R ∧ t.Valid tbl P (auxAllow aux) ∧ t.yield.map (tokOf tbl) = u ++ v := by
  obtain ⟨symsv, hsv, tv, htv, hgood⟩ := hv
  obtain ⟨h0, hnR, pidc, hpc⟩ := cf.auxC R a hR hRs hl symsv hsv
  obtain ⟨hvv, hvy⟩ := hgood h0
  have hcv : (DT.node R pidc tv).Valid tbl P (auxAllow aux) := by
    simp only [DT.Valid, htv]
    refine ⟨hpc, validL_of tbl P _ _ tv 0 hvv ?_⟩
    intro j t ht
    apply allowed_other
    intro he
    apply hnR
    rw [← htv]
    simp only [List.mem_map]
    exact ⟨t, ht, he⟩
  rcases hus with hnil | hone
  · have : tu = [] := by simpa using hnil
    subst this
    simp only [DT.yieldL, List.map_nil] at huy
    subst huy
    exact ⟨.node R pidc tv, rfl, hcv, by simpa [DT.yield] using hvy⟩
  · obtain ⟨pidr, hpr⟩ := cf.auxRR R a hR hRs hl
    match tu, hone, huv, huy with
    | [t1], hone, huv, huy =>
      simp only [List.map_cons, List.map_nil, List.cons.injEq, and_true] at hone
      refine ⟨.node R pidr [t1, .node R pidc tv], rfl, ?_, ?_⟩
      · simp only [DT.Valid, List.map_cons, List.map_nil, hone, show (DT.node R pidc tv).sym = R from rfl]
        refine ⟨hpr, ?_⟩
        simp only [DT.ValidL, and_true]
        refine ⟨huv t1 (by simp), ?_, by simpa [DT.Valid, htv] using hcv, ?_⟩
        · unfold allowedAt
          cases t1.prod? with
          | none => rfl
          | some p => simp [auxAllow]
        · simp only [allowedAt, DT.prod?, auxAllow, htv]
          simp only [Bool.not_eq_true', Bool.and_eq_false_iff]
          right
          simpa using hnR
      · simp only [DT.yield, DT.yieldL, List.append_nil, List.map_append]
        simp only [DT.yieldL, List.append_nil] at huy
        rw [huy, hvy]

/-- The flattening lemma: by induction on the derivation, for every fuel. -/
theorem flat_of_derives (g : Grammar) (tbl : Table) (aux : AuxMap) (P : List Prod) (cf : CoverFacts g tbl aux P)
    (r : Rule) (w : List Tok) (h : DerivesTok g r w) : ∀ f, Flat g tbl aux P f r w := by
  induction h with
  | blank =>
    intro f
    cases f with
    | zero => exact flat_zero ..
    | succ f => exact ⟨[], by simp [expand], [], rfl, fun _ => ⟨by simp, by simp [DT.yieldL]⟩⟩
  | @str s =>
    intro f
    cases f with
    | zero => exact flat_zero ..
    | succ f => exact flat_tok g tbl aux P _ _ _ (by simp [expand])
  | @symTok x b hb ht =>
    intro f
    cases f with
    | zero => exact flat_zero ..
    | succ f => exact flat_tok g tbl aux P _ _ _ (by simp [expand, hb, ht])
  | @symRule x b w hb hnt hd ih =>
    intro f
    cases f with
    | zero => exact flat_zero ..
    | succ f =>
      cases hin : g.inline.contains x with
      | true =>
        obtain ⟨syms, hs, rest⟩ := ih f
        exact ⟨syms, by simp only [expand, hb, hnt, hin]; simpa using hs, rest⟩
      | false =>
        have hex : expand g tbl aux (f + 1) (.sym x) = [[ntId tbl aux x]] := by
          simp only [expand, hb, hnt, hin, Bool.false_eq_true, if_false]
        obtain ⟨syms, hs, ts, hts, hgood⟩ := ih (relFuel g)
        refine ⟨[ntId tbl aux x], by simp [hex], ?_⟩
        cases Nat.decEq (ntId tbl aux x) 0 with
        | isTrue h0 => exact ⟨[.leaf 0], by simp [DT.sym, h0], by intro hn; simp [h0] at hn⟩
        | isFalse hne =>
          obtain ⟨hlt, hge, hl, hname⟩ := ntId_spec tbl aux x hne
          obtain ⟨h0, pid, hp⟩ := cf.nt _ b hge hlt hl (by rw [hname]; exact hb) syms hs
          obtain ⟨hv, hy⟩ := hgood h0
          refine ⟨[.node (ntId tbl aux x) pid ts], by simp [DT.sym], fun _ => ⟨?_, by simpa [DT.yieldL, DT.yield] using hy⟩⟩
          intro t ht
          simp only [List.mem_singleton] at ht
          subst ht
          simp only [DT.Valid, hts]
          exact ⟨hp, validL_of tbl P _ _ ts 0 hv (fun j t _ => allowed_nonaux aux _ hl j t)⟩
  | @seq a b u v _ _ iha ihb =>
    intro f
    cases f with
    | zero => exact flat_zero ..
    | succ f =>
      obtain ⟨sa, hsa, ta, hta, hga⟩ := iha f
      obtain ⟨sb, hsb, tb, htb, hgb⟩ := ihb f
      refine ⟨sa ++ sb, ?_, ta ++ tb, by simp [hta, htb], ?_⟩
      · simp only [expand, List.mem_flatMap, List.mem_map]
        exact ⟨sa, hsa, sb, hsb, rfl⟩
      · intro h0
        have h0a : 0 ∉ sa := fun h => h0 (by simp [h])
        have h0b : 0 ∉ sb := fun h => h0 (by simp [h])
        obtain ⟨hva, hya⟩ := hga h0a
        obtain ⟨hvb, hyb⟩ := hgb h0b
        refine ⟨?_, by rw [yieldL_append, List.map_append, hya, hyb]⟩
        intro t ht
        simp only [List.mem_append] at ht
        rcases ht with ht | ht
        · exact hva t ht
        · exact hvb t ht
  | @choiceL a b w _ ih =>
    intro f
    cases f with
    | zero => exact flat_zero ..
    | succ f =>
      obtain ⟨syms, hs, rest⟩ := ih f
      exact ⟨syms, by simp [expand, hs], rest⟩
  | @choiceR a b w _ ih =>
    intro f
    cases f with
    | zero => exact flat_zero ..
    | succ f =>
      obtain ⟨syms, hs, rest⟩ := ih f
      exact ⟨syms, by simp [expand, hs], rest⟩
  | @repNil a =>
    intro f
    cases f with
    | zero => exact flat_zero ..
    | succ f => exact ⟨[], by simp [expand], [], rfl, fun _ => ⟨by simp, by simp [DT.yieldL]⟩⟩
  | @repCons a u v _ _ ihu ihv =>
    intro f
    cases f with
    | zero => exact flat_zero ..
    | succ f =>
      refine ⟨[auxId tbl aux a], by simp [expand], ?_⟩
      cases Nat.decEq (auxId tbl aux a) 0 with
      | isTrue h0 => exact ⟨[.leaf 0], by simp [DT.sym, h0], by intro hn; simp [h0] at hn⟩
      | isFalse hne =>
        obtain ⟨hge, hlt, hl⟩ := auxId_spec tbl aux a hne
        obtain ⟨su, hsu, tu, htu, hgu⟩ := ihu 1
        simp only [expand, List.mem_cons, List.not_mem_nil, or_false] at hsu
        have h0u : 0 ∉ su := by
          rcases hsu with rfl | rfl
          · simp
          · simpa using fun h => hne h.symm
        obtain ⟨hvu, hyu⟩ := hgu h0u
        obtain ⟨t, hts, htv, hty⟩ := rep_tree g tbl aux P cf a _ hge hlt hl u v tu
          (by rcases hsu with rfl | rfl; exact .inl htu; exact .inr htu) hvu hyu (ihv (relFuel g))
        refine ⟨[t], by simp [hts], fun _ => ⟨?_, by simpa [DT.yieldL] using hty⟩⟩
        intro t' ht'
        simp only [List.mem_singleton] at ht'
        subst ht'
        exact htv
  | @rep1 a u v _ _ ihu ihv =>
    intro f
    cases f with
    | zero => exact flat_zero ..
    | succ f =>
      refine ⟨[auxId tbl aux a], by simp [expand], ?_⟩
      cases Nat.decEq (auxId tbl aux a) 0 with
      | isTrue h0 => exact ⟨[.leaf 0], by simp [DT.sym, h0], by intro hn; simp [h0] at hn⟩
      | isFalse hne =>
        obtain ⟨hge, hlt, hl⟩ := auxId_spec tbl aux a hne
        obtain ⟨su, hsu, tu, htu, hgu⟩ := ihu 1
        simp only [expand, List.mem_cons, List.not_mem_nil, or_false] at hsu
        have h0u : 0 ∉ su := by
          rcases hsu with rfl | rfl
          · simp
          · simpa using fun h => hne h.symm
        obtain ⟨hvu, hyu⟩ := hgu h0u
        obtain ⟨t, hts, htv, hty⟩ := rep_tree g tbl aux P cf a _ hge hlt hl u v tu
          (by rcases hsu with rfl | rfl; exact .inl htu; exact .inr htu) hvu hyu (ihv (relFuel g))
        refine ⟨[t], by simp [hts], fun _ => ⟨?_, by simpa [DT.yieldL] using hty⟩⟩
        intro t' ht'
        simp only [List.mem_singleton] at ht'
        subst ht'
        exact htv
  | @field n a w _ ih =>
    intro f
    cases f with
    | zero => exact flat_zero ..
    | succ f =>
      obtain ⟨syms, hs, rest⟩ := ih f
      exact ⟨syms, by simpa [expand] using hs, rest⟩
  | @alias v n a w _ ih =>
    intro f
    cases f with
    | zero => exact flat_zero ..
    | succ f =>
      obtain ⟨syms, hs, rest⟩ := ih f
      exact ⟨syms, by simpa [expand] using hs, rest⟩
  | @prec k v a w _ ih =>
    intro f
    cases f with
    | zero => exact flat_zero ..
    | succ f =>
      obtain ⟨syms, hs, rest⟩ := ih f
      exact ⟨syms, by simpa [expand] using hs, rest⟩

/-! ## the two theorems -/

/-- `grammar_cover`: every derivation of the start rule has a tree over `P` with the same token string. -/
theorem grammar_cover (g : Grammar) (tbl : Table) (aux : AuxMap) (P : List Prod) (start : Nat)
    (h : coverOK g tbl aux P start = true) (w : List Tok) (hd : DerivesTok g (.sym g.start) w) :
    ∃ pid ks, (DT.node start pid ks).Valid tbl P (auxAllow aux) ∧ (DT.node start pid ks).yield.map (tokOf tbl) = w := by
  have cf := coverFacts_of g tbl aux P start h
  unfold coverOK at h
  simp only [Bool.and_eq_true, beq_iff_eq, bne_iff_ne, ne_eq] at h
  obtain ⟨⟨⟨⟨hst, hne⟩, hbody⟩, _⟩, _⟩ := h
  rw [hst] at hne
  obtain ⟨hlt, hge, hl, hname⟩ := ntId_spec tbl aux g.start hne
  cases hd with
  | symTok hb ht => simp [hb, ht] at hbody
  | symRule hb hnt hd' =>
    obtain ⟨syms, hs, ts, hts, hgood⟩ := flat_of_derives g tbl aux P cf _ _ hd' (relFuel g)
    obtain ⟨h0, pid, hp⟩ := cf.nt _ _ hge hlt hl (by rw [hname]; exact hb) syms hs
    obtain ⟨hv, hy⟩ := hgood h0
    refine ⟨pid, ts, ?_, by simpa [DT.yield] using hy⟩
    rw [hst]
    simp only [DT.Valid, hts]
    exact ⟨hp, validL_of tbl P _ _ ts 0 hv (fun j t _ => allowed_nonaux aux _ hl j t)⟩

mutual
  theorem valid_yield (tbl : Table) (P : List Prod) (allow : Allow) :
      ∀ (t : DT), t.Valid tbl P allow → ∀ a, a ∈ t.yield → a < tbl.tokenCount ∧ a ≠ 0
    | .leaf b, h, a, ha => by
      simp only [DT.yield, List.mem_singleton] at ha
      subst ha
      simpa [DT.Valid] using h
    | .node A pid ks, h, a, ha => by
      simp only [DT.Valid] at h
      simp only [DT.yield] at ha
      exact validL_yield tbl P allow _ 0 ks h.2 a ha
  theorem validL_yield (tbl : Table) (P : List Prod) (allow : Allow) :
      ∀ (q : Prod) (i : Nat) (ts : List DT), DT.ValidL tbl P allow q i ts → ∀ a, a ∈ DT.yieldL ts → a < tbl.tokenCount ∧ a ≠ 0
    | _, _, [], _, a, ha => by simp [DT.yieldL] at ha
    | q, i, t :: ts, h, a, ha => by
      simp only [DT.ValidL] at h
      simp only [DT.yieldL, List.mem_append] at ha
      rcases ha with ha | ha
      · exact valid_yield tbl P allow t h.1 a ha
      · exact validL_yield tbl P allow q (i + 1) ts h.2.2 a ha
end

theorem map_tok_inj (tbl : Table) (hinj : tokInj tbl = true) : ∀ (xs ys : List Nat),
    (∀ a, a ∈ xs → a < tbl.tokenCount ∧ a ≠ 0) → (∀ a, a ∈ ys → a < tbl.tokenCount ∧ a ≠ 0) →
    xs.map (tokOf tbl) = ys.map (tokOf tbl) → xs = ys := by
  intro xs
  induction xs with
  | nil => intro ys _ _ h; cases ys with
    | nil => rfl
    | cons y ys => simp at h
  | cons x xs ih =>
    intro ys hx hy h
    cases ys with
    | nil => simp at h
    | cons y ys =>
      simp only [List.map_cons, List.cons.injEq] at h
      have hx0 := hx x (by simp)
      have hy0 := hy y (by simp)
      unfold tokInj at hinj
      simp only [List.all_eq_true, List.mem_range, Bool.or_eq_true, beq_iff_eq, bne_iff_ne, ne_eq] at hinj
      have hxy : x = y := by
        rcases hinj x hx0.1 y hy0.1 with ((h1 | h1) | h1) | h1
        · exact absurd h1 hx0.2
        · exact absurd h1 hy0.2
        · exact h1
        · exact absurd h.1 h1
      rw [hxy, ih ys (fun a ha => hx a (by simp [ha])) (fun a ha => hy a (by simp [ha])) h.2]

/-- `parser_complete`: the converse of `parser_sound`, per validated (grammar, table) pair and for ALL
token strings without extra tokens: if the grammar's start rule derives the string, the driver accepts
it.  `coverOK` relates `grammar.json` to the production set `P`; `completeOK` validates the real table
against `P`. -/
theorem parser_complete (g : Grammar) (tbl : Table) (aux : AuxMap) (P : List Prod) (ann : Ann) (start : Nat)
    (hcov : coverOK g tbl aux P start = true) (hok : completeOK tbl P (auxAllow aux) ann start = true)
    (toks : List Nat) (htoks : ∀ a, a ∈ toks → a < tbl.tokenCount ∧ a ≠ 0)
    (hd : DerivesTok g (.sym g.start) (toks.map (tokOf tbl))) :
    ∃ f pt, runLoop tbl f { stack := [], toks := toks } = .accepted pt := by
  obtain ⟨pid, ks, hv, hy⟩ := grammar_cover g tbl aux P start hcov _ hd
  have hinj : tokInj tbl = true := by
    unfold coverOK at hcov
    simp only [Bool.and_eq_true] at hcov
    exact hcov.1.2
  have := map_tok_inj tbl hinj _ _ (valid_yield tbl P _ _ hv) htoks hy
  rw [← this]
  exact table_complete tbl P _ ann start hok pid ks hv

end TsVerif.C03
