import TsVerif.C03.Derive
import Std.Data.HashSet
/-!
# C03 — the token-level language of a grammar and an independent bounded enumerator

`DerivesTok g r w`: the token string `w` is derived by rule `r`.  Terminals are anonymous strings
(`STRING`) and whole-rule tokens (a rule whose body is a single terminal).  Grammars with inline
`PATTERN`/`TOKEN` terminals are outside this oracle (`simpleTerminals`); the checks fall back to
tree-level judging for them.

`enumLang g L k` computes, by `k` rounds of a monotone one-step operator, sets of token strings of
length ≤ `L` per rule.  `enum_sound`: every enumerated string is derivable — so a claimed member is
a member.  (The oracle shares nothing with tree-sitter: no LR construction, no lexer.)
-/
namespace TsVerif.C03

structure Tok where
  name : String
  named : Bool
  deriving DecidableEq, Hashable, Repr, Inhabited

inductive DerivesTok (g : Grammar) : Rule → List Tok → Prop
  | blank : DerivesTok g .blank []
  | str {s} : DerivesTok g (.str s) [⟨s, false⟩]
  | symTok {x b} : g.body x = some b → isTerminalBody b = true → DerivesTok g (.sym x) [⟨x, true⟩]
  | symRule {x b w} : g.body x = some b → isTerminalBody b = false → DerivesTok g b w → DerivesTok g (.sym x) w
  | seq {a b u v} : DerivesTok g a u → DerivesTok g b v → DerivesTok g (.seq a b) (u ++ v)
  | choiceL {a b w} : DerivesTok g a w → DerivesTok g (.choice a b) w
  | choiceR {a b w} : DerivesTok g b w → DerivesTok g (.choice a b) w
  | repNil {a} : DerivesTok g (.rep a) []
  | repCons {a u v} : DerivesTok g (.rep a) u → DerivesTok g a v → DerivesTok g (.rep a) (u ++ v)
  | rep1 {a u v} : DerivesTok g (.rep a) u → DerivesTok g a v → DerivesTok g (.rep1 a) (u ++ v)
  | field {n a w} : DerivesTok g a w → DerivesTok g (.field n a) w
  | alias {v n a w} : DerivesTok g a w → DerivesTok g (.alias v n a) w
  | prec {k v a w} : DerivesTok g a w → DerivesTok g (.prec k v a) w

/-- Tokens that are terminal extras (e.g. a comment token): they may appear anywhere. -/
def extraToks (g : Grammar) : List Tok :=
  g.extras.filterMap fun e => match e with
    | .sym x => match g.body x with
      | some b => if isTerminalBody b then some ⟨x, true⟩ else none
      | none => none
    | .str s => some ⟨s, false⟩
    | _ => none

/-- Membership in the language of the grammar: terminal extras removed, the rest derives from the start rule. -/
def InLang (g : Grammar) (w : List Tok) : Prop :=
  DerivesTok g (.sym g.start) (w.filter fun t => !(extraToks g).contains t)

instance : LawfulBEq Tok where
  eq_of_beq {a b} h := by
    have : decide (a = b) = true := h
    exact of_decide_eq_true this
  rfl {a} := by
    show decide (a = a) = true
    exact decide_eq_true rfl

/-! ## The enumerator -/

abbrev Env := List (String × List (List Tok))

def Env.get (env : Env) (x : String) : List (List Tok) := (env.lookup x).getD []

/-- duplicate removal through a hash set; only `x ∈ dedupH l → x ∈ l` is needed of it -/
def dedupH (l : List (List Tok)) : List (List Tok) :=
  (l.foldl (fun (acc : Std.HashSet (List Tok) × List (List Tok)) x =>
      if acc.1.contains x then acc else (acc.1.insert x, x :: acc.2)) (∅, [])).2.reverse

def concatUpTo (L : Nat) (A B : List (List Tok)) : List (List Tok) :=
  A.flatMap fun u => B.filterMap fun v => if u.length + v.length ≤ L then some (u ++ v) else none

def repClose (L : Nat) (A : List (List Tok)) : Nat → List (List Tok)
  | 0 => [[]]
  | k + 1 => dedupH (repClose L A k ++ concatUpTo L (repClose L A k) A)

def evalRule (g : Grammar) (env : Env) (L : Nat) : Rule → List (List Tok)
  | .blank => [[]]
  | .str s => [[⟨s, false⟩]]
  | .sym x =>
    match g.body x with
    | some b => if isTerminalBody b then [[⟨x, true⟩]] else env.get x
    | none => []
  | .seq a b => dedupH (concatUpTo L (evalRule g env L a) (evalRule g env L b))
  | .choice a b => dedupH (evalRule g env L a ++ evalRule g env L b)
  | .rep a => repClose L (evalRule g env L a) L
  | .rep1 a => dedupH (concatUpTo L (repClose L (evalRule g env L a) L) (evalRule g env L a))
  | .field _ a => evalRule g env L a
  | .alias _ _ a => evalRule g env L a
  | .prec _ _ a => evalRule g env L a
  | _ => []

def enumStep (g : Grammar) (L : Nat) (env : Env) : Env :=
  g.rules.map fun (x, b) => (x, evalRule g env L b)

def enumLang (g : Grammar) (L : Nat) : Nat → Env
  | 0 => []
  | k + 1 => enumStep g L (enumLang g L k)

def envSize (env : Env) : Nat := (env.map fun e => e.2.length).foldl (· + ·) 0

/-- iterate until the total size stops growing (or the cap is hit); returns (env, reached fixpoint) -/
def enumFix (g : Grammar) (L : Nat) : Nat → Nat → Env → Env × Bool
  | 0, _, env => (env, false)
  | cap + 1, k, env =>
    let env' := enumStep g L env
    if envSize env' == envSize env && k > 0 then (env', true) else enumFix g L cap (k + 1) env'

/-- The oracle the driver uses: the strings (length ≤ L, extras removed) derivable from the start rule,
and whether the iteration reached a fixpoint. -/
def oracleList (g : Grammar) (L : Nat) : List (List Tok) × Bool :=
  let r := enumFix g L (6 * L + 2 * g.rules.length + 8) 0 []
  (r.1.get g.start, r.2)

def stripExtras (g : Grammar) (w : List Tok) : List Tok := w.filter fun t => !(extraToks g).contains t

/-! ## dynamic precedence of derivations (for grammars with declared conflicts)

What the generator does (flatten_grammar.rs, process_inlines.rs): every *production* carries ONE
dynamic precedence — among the `PREC_DYNAMIC` wrappers met while flattening the alternative the
first one of greatest magnitude (`comb`); when an inlined rule's production is substituted, its
value replaces the outer one only if its magnitude is strictly greater (the outer value is looked
at first).  Separate symbols — visible and hidden non-inlined rules, the auxiliary symbol of a
repeat (one production per iteration) — are separate productions; the runtime adds the values of
all reductions below a node.  `DerivesTokD g r w own inl e`: `w` is derived by `r`; `own` is the
value of the wrappers of the current production itself, `inl` the value coming from inlined rules
in it, `e` the sum over all completed productions below. -/

/-- the first value of greatest magnitude -/
def comb (a b : Int) : Int := if b.natAbs > a.natAbs then b else a

inductive DerivesTokD (g : Grammar) : Rule → List Tok → Int → Int → Int → Prop
  | blank : DerivesTokD g .blank [] 0 0 0
  | str {s} : DerivesTokD g (.str s) [⟨s, false⟩] 0 0 0
  | symTok {x b} : g.body x = some b → isTerminalBody b = true → DerivesTokD g (.sym x) [⟨x, true⟩] 0 0 0
  /-- a rule that is not inlined is a production of its own: its value is added below -/
  | symRule {x b w o i e} : g.body x = some b → isTerminalBody b = false → g.inline.contains x = false →
      DerivesTokD g b w o i e → DerivesTokD g (.sym x) w 0 0 (comb o i + e)
  /-- an inlined rule: its production's value competes with the outer production's own value -/
  | symInline {x b w o i e} : g.body x = some b → isTerminalBody b = false → g.inline.contains x = true →
      DerivesTokD g b w o i e → DerivesTokD g (.sym x) w 0 (comb o i) e
  | seq {a b u v o1 i1 e1 o2 i2 e2} : DerivesTokD g a u o1 i1 e1 → DerivesTokD g b v o2 i2 e2 →
      DerivesTokD g (.seq a b) (u ++ v) (comb o1 o2) (comb i1 i2) (e1 + e2)
  | choiceL {a b w o i e} : DerivesTokD g a w o i e → DerivesTokD g (.choice a b) w o i e
  | choiceR {a b w o i e} : DerivesTokD g b w o i e → DerivesTokD g (.choice a b) w o i e
  | repNil {a} : DerivesTokD g (.rep a) [] 0 0 0
  /-- every iteration of a repeat is a production of the repeat's auxiliary symbol -/
  | repCons {a u v e1 o i e2} : DerivesTokD g (.rep a) u 0 0 e1 → DerivesTokD g a v o i e2 →
      DerivesTokD g (.rep a) (u ++ v) 0 0 (e1 + (comb o i + e2))
  | rep1 {a u v e1 o i e2} : DerivesTokD g (.rep a) u 0 0 e1 → DerivesTokD g a v o i e2 →
      DerivesTokD g (.rep1 a) (u ++ v) 0 0 (e1 + (comb o i + e2))
  | field {n a w o i e} : DerivesTokD g a w o i e → DerivesTokD g (.field n a) w o i e
  | alias {v n a w o i e} : DerivesTokD g a w o i e → DerivesTokD g (.alias v n a) w o i e
  | precDyn {v a w o i e} : DerivesTokD g a w o i e → DerivesTokD g (.prec .dynamic v a) w (comb v o) i e
  | prec {k v a w o i e} : k ≠ .dynamic → DerivesTokD g a w o i e → DerivesTokD g (.prec k v a) w o i e

structure DItem where
  w : List Tok
  own : Int
  inl : Int
  e : Int
  deriving DecidableEq, Hashable, Repr, Inhabited

abbrev EnvD := List (String × List DItem)

def EnvD.get (env : EnvD) (x : String) : List DItem := (env.lookup x).getD []

def dedupD (l : List DItem) : List DItem :=
  (l.foldl (fun (acc : Std.HashSet DItem × List DItem) x =>
      if acc.1.contains x then acc else (acc.1.insert x, x :: acc.2)) (∅, [])).2.reverse

def concatD (L : Nat) (A B : List DItem) : List DItem :=
  A.flatMap fun u => B.filterMap fun v =>
    if u.w.length + v.w.length ≤ L then some ⟨u.w ++ v.w, comb u.own v.own, comb u.inl v.inl, u.e + v.e⟩ else none

/-- one more iteration of a repeat: the iteration's production value moves below -/
def concatRep (L : Nat) (R A : List DItem) : List DItem :=
  R.flatMap fun u => A.filterMap fun v =>
    if u.w.length + v.w.length ≤ L then some ⟨u.w ++ v.w, 0, 0, u.e + (comb v.own v.inl + v.e)⟩ else none

def repCloseD (L : Nat) (A : List DItem) : Nat → List DItem
  | 0 => [⟨[], 0, 0, 0⟩]
  | k + 1 => dedupD (repCloseD L A k ++ concatRep L (repCloseD L A k) A)

def evalRuleD (g : Grammar) (env : EnvD) (L : Nat) : Rule → List DItem
  | .blank => [⟨[], 0, 0, 0⟩]
  | .str s => [⟨[⟨s, false⟩], 0, 0, 0⟩]
  | .sym x =>
    match g.body x with
    | some b =>
      if isTerminalBody b then [⟨[⟨x, true⟩], 0, 0, 0⟩]
      else if g.inline.contains x then (env.get x).map fun d => ⟨d.w, 0, comb d.own d.inl, d.e⟩
      else (env.get x).map fun d => ⟨d.w, 0, 0, comb d.own d.inl + d.e⟩
    | none => []
  | .seq a b => dedupD (concatD L (evalRuleD g env L a) (evalRuleD g env L b))
  | .choice a b => dedupD (evalRuleD g env L a ++ evalRuleD g env L b)
  | .rep a => (repCloseD L (evalRuleD g env L a) L).filter fun d => d.own == 0 && d.inl == 0
  | .rep1 a => dedupD (concatRep L ((repCloseD L (evalRuleD g env L a) L).filter fun d => d.own == 0 && d.inl == 0) (evalRuleD g env L a))
  | .field _ a => evalRuleD g env L a
  | .alias _ _ a => evalRuleD g env L a
  | .prec k v a => if k = .dynamic then (evalRuleD g env L a).map fun d => ⟨d.w, comb v d.own, d.inl, d.e⟩ else evalRuleD g env L a
  | _ => []

def enumStepD (g : Grammar) (L : Nat) (env : EnvD) : EnvD :=
  g.rules.map fun (x, b) => (x, evalRuleD g env L b)

def envSizeD (env : EnvD) : Nat := (env.map fun e => e.2.length).foldl (· + ·) 0

def enumFixD (g : Grammar) (L : Nat) : Nat → Nat → EnvD → EnvD × Bool
  | 0, _, env => (env, false)
  | cap + 1, k, env =>
    let env' := enumStepD g L env
    if envSizeD env' == envSizeD env && k > 0 then (env', true) else enumFixD g L cap (k + 1) env'

/-- all derivations of the start rule's body (strings of length ≤ L) with their dynamic-precedence
bookkeeping.  The runtime rebuilds the ROOT node at acceptance from its children only
(`ts_parser__accept`), so what the root of a real tree carries is `e`, the sum below the start
rule's own production. -/
def dynOracle (g : Grammar) (L : Nat) : List DItem × Bool :=
  let r := enumFixD g L (6 * L + 2 * g.rules.length + 8) 0 []
  (r.1.get g.start, r.2)

/-- the greatest TOTAL (start production's own value + everything below) over all derivations of `w` -/
def maxTotal (o : List DItem) (w : List Tok) : Option Int :=
  (o.filter fun d => d.w == w).foldl (fun acc d =>
    let t := comb d.own d.inl + d.e
    match acc with
    | none => some t
    | some m => some (if t > m then t else m)) none

/-- the best total among the derivations of `w` whose TOTAL is the value `below` the root of the real
tree carries (the candidates the kept tree can be; since 6ed1862 the rebuilt root carries the start
production's own value too) -/
def keptTotal (o : List DItem) (w : List Tok) (below : Int) : Option Int :=
  maxTotal (o.filter fun d => comb d.own d.inl + d.e == below) w

/-- the greatest sum-below-the-root over all derivations of `w` -/
def maxDyn (o : List DItem) (w : List Tok) : Option Int :=
  (o.filter fun d => d.w == w).foldl (fun acc d => match acc with
    | none => some d.e
    | some m => some (if d.e > m then d.e else m)) none

def hasDynRule : Rule → Bool
  | .prec .dynamic _ _ => true
  | .prec _ _ a => hasDynRule a
  | .seq a b => hasDynRule a || hasDynRule b
  | .choice a b => hasDynRule a || hasDynRule b
  | .rep a => hasDynRule a
  | .rep1 a => hasDynRule a
  | .field _ a => hasDynRule a
  | .alias _ _ a => hasDynRule a
  | .token a => hasDynRule a
  | .immToken a => hasDynRule a
  | _ => false

def hasDyn (g : Grammar) : Bool := g.rules.any fun e => hasDynRule e.2

/-- every terminal of the grammar is an anonymous string or a whole-rule token -/
def simpleRule : Rule → Bool
  | .pat _ => false
  | .token _ => false
  | .immToken _ => false
  | .unknown _ => false
  | .seq a b => simpleRule a && simpleRule b
  | .choice a b => simpleRule a && simpleRule b
  | .rep a => simpleRule a
  | .rep1 a => simpleRule a
  | .field _ a => simpleRule a
  | .alias _ _ a => simpleRule a
  | .prec _ _ a => simpleRule a
  | _ => true

def simpleTerminals (g : Grammar) : Bool :=
  g.rules.all fun (_, b) => isTerminalBody b || simpleRule b

/-! ## which whole-rule terminals are tokens (`extract_tokens`' absorption rule)

`DerivesTok` reads a rule whose body is a single terminal as a token named after the rule.  The
generator does that (`extract_tokens`: "if a variable's entire rule was extracted as a token and that
token didn't appear within any other rule, then remove that variable from the syntax grammar, giving
its name to the token") only when the rule is not the start rule, its body is the bare terminal (no
PREC wrapper), the terminal is used nowhere else, and — for a string — the rule is not hidden
(`_`-prefixed).  Otherwise the rule stays a non-terminal with the single production `x → 'string'`.
`tokenView` rewrites exactly those rules to `seq(body, blank)`, so that `DerivesTok (tokenView g)`
reads them as rules: it is the token-level reading of grammar.json the drivers use (part of the
specification, like `DerivesTok` itself; it changes nothing for grammars without such rules).
An external token (a symbol of `externals` that is no rule) is read as a token named by the symbol. -/

/-- occurrences of the string `s` as a token of its own (not inside `token(…)`) -/
def strUses (s : String) : Rule → Nat
  | .str s' => if s' == s then 1 else 0
  | .seq a b => strUses s a + strUses s b
  | .choice a b => strUses s a + strUses s b
  | .rep a => strUses s a
  | .rep1 a => strUses s a
  | .field _ a => strUses s a
  | .alias _ _ a => strUses s a
  | .prec _ _ a => strUses s a
  | _ => 0

def Grammar.strCount (g : Grammar) (s : String) : Nat :=
  (g.rules.map fun e => strUses s e.2).foldl (· + ·) 0 + (g.externals.map (strUses s)).foldl (· + ·) 0

def absorbed (g : Grammar) (x : String) (b : Rule) : Bool :=
  x != g.start &&
  match b with
  | .str s => !(x.toList.head? == some '_') && g.strCount s == 1
  | .pat _ => true
  | .token _ => true
  | .immToken _ => true
  | _ => false

/-- external tokens that are not rules of the grammar: tokens named by their symbol -/
def externalNames (g : Grammar) : List String :=
  (g.externals.filterMap fun e => match e with
    | .sym x => if (g.body x).isNone then some x else none
    | _ => none).eraseDups

def tokenView (g : Grammar) : Grammar :=
  { g with rules := (g.rules.map fun e =>
      if isTerminalBody e.2 && !absorbed g e.1 e.2 then (e.1, .seq e.2 .blank) else e) ++
      -- an external token is read as a token rule of its own name
      (externalNames g).map fun x => (x, Rule.pat "<external>") }

end TsVerif.C03
