import TsVerif.C03.Derive
import Std.Data.HashSet
/-!
# C03 — the token-level language of a grammar and an independent bounded enumerator

`DerivesTok g r w`: the token string `w` is derived by rule `r`.  Terminals are anonymous strings
(`STRING`) and whole-rule tokens (a rule whose body is a single terminal).  Grammars with inline
`PATTERN`/`TOKEN` terminals are outside this oracle (`simpleTerminals`); the checks fall back to
tree-level judging for them.

`enumLang g L k` computes, by `k` rounds of a monotone one-step operator, sets of token strings of
length ≤ `L` per rule.  `enum_sound`: every enumerated string is derivable — so a claimed member is
a member.  (The oracle shares nothing with tree-sitter: no LR construction, no lexer.)
-/
namespace TsVerif.C03

structure Tok where
  name : String
  named : Bool
  deriving DecidableEq, Hashable, Repr, Inhabited

inductive DerivesTok (g : Grammar) : Rule → List Tok → Prop
  | blank : DerivesTok g .blank []
  | str {s} : DerivesTok g (.str s) [⟨s, false⟩]
  | symTok {x b} : g.body x = some b → isTerminalBody b = true → DerivesTok g (.sym x) [⟨x, true⟩]
  | symRule {x b w} : g.body x = some b → isTerminalBody b = false → DerivesTok g b w → DerivesTok g (.sym x) w
  | seq {a b u v} : DerivesTok g a u → DerivesTok g b v → DerivesTok g (.seq a b) (u ++ v)
  | choiceL {a b w} : DerivesTok g a w → DerivesTok g (.choice a b) w
  | choiceR {a b w} : DerivesTok g b w → DerivesTok g (.choice a b) w
  | repNil {a} : DerivesTok g (.rep a) []
  | repCons {a u v} : DerivesTok g (.rep a) u → DerivesTok g a v → DerivesTok g (.rep a) (u ++ v)
  | rep1 {a u v} : DerivesTok g (.rep a) u → DerivesTok g a v → DerivesTok g (.rep1 a) (u ++ v)
  | field {n a w} : DerivesTok g a w → DerivesTok g (.field n a) w
  | alias {v n a w} : DerivesTok g a w → DerivesTok g (.alias v n a) w
  | prec {k v a w} : DerivesTok g a w → DerivesTok g (.prec k v a) w

/-- Tokens that are terminal extras (e.g. a comment token): they may appear anywhere. -/
def extraToks (g : Grammar) : List Tok :=
  g.extras.filterMap fun e => match e with
    | .sym x => match g.body x with
      | some b => if isTerminalBody b then some ⟨x, true⟩ else none
      | none => none
    | .str s => some ⟨s, false⟩
    | _ => none

/-- Membership in the language of the grammar: terminal extras removed, the rest derives from the start rule. -/
def InLang (g : Grammar) (w : List Tok) : Prop :=
  DerivesTok g (.sym g.start) (w.filter fun t => !(extraToks g).contains t)

instance : LawfulBEq Tok where
  eq_of_beq {a b} h := by
    have : decide (a = b) = true := h
    exact of_decide_eq_true this
  rfl {a} := by
    show decide (a = a) = true
    exact decide_eq_true rfl

/-! ## The enumerator -/

abbrev Env := List (String × List (List Tok))

def Env.get (env : Env) (x : String) : List (List Tok) := (env.lookup x).getD []

/-- duplicate removal through a hash set; only `x ∈ dedupH l → x ∈ l` is needed of it -/
def dedupH (l : List (List Tok)) : List (List Tok) :=
  (l.foldl (fun (acc : Std.HashSet (List Tok) × List (List Tok)) x =>
      if acc.1.contains x then acc else (acc.1.insert x, x :: acc.2)) (∅, [])).2.reverse

def concatUpTo (L : Nat) (A B : List (List Tok)) : List (List Tok) :=
  A.flatMap fun u => B.filterMap fun v => if u.length + v.length ≤ L then some (u ++ v) else none

def repClose (L : Nat) (A : List (List Tok)) : Nat → List (List Tok)
  | 0 => [[]]
  | k + 1 => dedupH (repClose L A k ++ concatUpTo L (repClose L A k) A)

def evalRule (g : Grammar) (env : Env) (L : Nat) : Rule → List (List Tok)
  | .blank => [[]]
  | .str s => [[⟨s, false⟩]]
  | .sym x =>
    match g.body x with
    | some b => if isTerminalBody b then [[⟨x, true⟩]] else env.get x
    | none => []
  | .seq a b => dedupH (concatUpTo L (evalRule g env L a) (evalRule g env L b))
  | .choice a b => dedupH (evalRule g env L a ++ evalRule g env L b)
  | .rep a => repClose L (evalRule g env L a) L
  | .rep1 a => dedupH (concatUpTo L (repClose L (evalRule g env L a) L) (evalRule g env L a))
  | .field _ a => evalRule g env L a
  | .alias _ _ a => evalRule g env L a
  | .prec _ _ a => evalRule g env L a
  | _ => []

def enumStep (g : Grammar) (L : Nat) (env : Env) : Env :=
  g.rules.map fun (x, b) => (x, evalRule g env L b)

def enumLang (g : Grammar) (L : Nat) : Nat → Env
  | 0 => []
  | k + 1 => enumStep g L (enumLang g L k)

def envSize (env : Env) : Nat := (env.map fun e => e.2.length).foldl (· + ·) 0

/-- iterate until the total size stops growing (or the cap is hit); returns (env, reached fixpoint) -/
def enumFix (g : Grammar) (L : Nat) : Nat → Nat → Env → Env × Bool
  | 0, _, env => (env, false)
  | cap + 1, k, env =>
    let env' := enumStep g L env
    if envSize env' == envSize env && k > 0 then (env', true) else enumFix g L cap (k + 1) env'

/-- The oracle the driver uses: the strings (length ≤ L, extras removed) derivable from the start rule,
and whether the iteration reached a fixpoint. -/
def oracleList (g : Grammar) (L : Nat) : List (List Tok) × Bool :=
  let r := enumFix g L (6 * L + 2 * g.rules.length + 8) 0 []
  (r.1.get g.start, r.2)

def stripExtras (g : Grammar) (w : List Tok) : List Tok := w.filter fun t => !(extraToks g).contains t

/-! ## dynamic precedence of derivations (for grammars with declared conflicts)

`DerivesTokD g r w d`: `w` is derived by `r` through a derivation whose `PREC_DYNAMIC` values sum to
`d`.  `dynOracle` enumerates all (string, total) pairs up to length `L`; the judge compares the
dynamic precedence the runtime stored in the root of the real tree with the maximum over all
derivations of the same string. -/

inductive DerivesTokD (g : Grammar) : Rule → List Tok → Int → Prop
  | blank : DerivesTokD g .blank [] 0
  | str {s} : DerivesTokD g (.str s) [⟨s, false⟩] 0
  | symTok {x b} : g.body x = some b → isTerminalBody b = true → DerivesTokD g (.sym x) [⟨x, true⟩] 0
  | symRule {x b w d} : g.body x = some b → isTerminalBody b = false → DerivesTokD g b w d → DerivesTokD g (.sym x) w d
  | seq {a b u v d e} : DerivesTokD g a u d → DerivesTokD g b v e → DerivesTokD g (.seq a b) (u ++ v) (d + e)
  | choiceL {a b w d} : DerivesTokD g a w d → DerivesTokD g (.choice a b) w d
  | choiceR {a b w d} : DerivesTokD g b w d → DerivesTokD g (.choice a b) w d
  | repNil {a} : DerivesTokD g (.rep a) [] 0
  | repCons {a u v d e} : DerivesTokD g (.rep a) u d → DerivesTokD g a v e → DerivesTokD g (.rep a) (u ++ v) (d + e)
  | rep1 {a u v d e} : DerivesTokD g (.rep a) u d → DerivesTokD g a v e → DerivesTokD g (.rep1 a) (u ++ v) (d + e)
  | field {n a w d} : DerivesTokD g a w d → DerivesTokD g (.field n a) w d
  | alias {v n a w d} : DerivesTokD g a w d → DerivesTokD g (.alias v n a) w d
  | precDyn {v a w d} : DerivesTokD g a w d → DerivesTokD g (.prec .dynamic v a) w (d + v)
  | prec {k v a w d} : k ≠ .dynamic → DerivesTokD g a w d → DerivesTokD g (.prec k v a) w d

abbrev EnvD := List (String × List (List Tok × Int))

def EnvD.get (env : EnvD) (x : String) : List (List Tok × Int) := (env.lookup x).getD []

def dedupD (l : List (List Tok × Int)) : List (List Tok × Int) :=
  (l.foldl (fun (acc : Std.HashSet (List Tok × Int) × List (List Tok × Int)) x =>
      if acc.1.contains x then acc else (acc.1.insert x, x :: acc.2)) (∅, [])).2.reverse

def concatD (L : Nat) (A B : List (List Tok × Int)) : List (List Tok × Int) :=
  A.flatMap fun u => B.filterMap fun v => if u.1.length + v.1.length ≤ L then some (u.1 ++ v.1, u.2 + v.2) else none

def repCloseD (L : Nat) (A : List (List Tok × Int)) : Nat → List (List Tok × Int)
  | 0 => [([], 0)]
  | k + 1 => dedupD (repCloseD L A k ++ concatD L (repCloseD L A k) A)

def evalRuleD (g : Grammar) (env : EnvD) (L : Nat) : Rule → List (List Tok × Int)
  | .blank => [([], 0)]
  | .str s => [([⟨s, false⟩], 0)]
  | .sym x =>
    match g.body x with
    | some b => if isTerminalBody b then [([⟨x, true⟩], 0)] else env.get x
    | none => []
  | .seq a b => dedupD (concatD L (evalRuleD g env L a) (evalRuleD g env L b))
  | .choice a b => dedupD (evalRuleD g env L a ++ evalRuleD g env L b)
  | .rep a => repCloseD L (evalRuleD g env L a) L
  | .rep1 a => dedupD (concatD L (repCloseD L (evalRuleD g env L a) L) (evalRuleD g env L a))
  | .field _ a => evalRuleD g env L a
  | .alias _ _ a => evalRuleD g env L a
  | .prec k v a => if k = .dynamic then (evalRuleD g env L a).map fun e => (e.1, e.2 + v) else evalRuleD g env L a
  | _ => []

def enumStepD (g : Grammar) (L : Nat) (env : EnvD) : EnvD :=
  g.rules.map fun (x, b) => (x, evalRuleD g env L b)

def envSizeD (env : EnvD) : Nat := (env.map fun e => e.2.length).foldl (· + ·) 0

def enumFixD (g : Grammar) (L : Nat) : Nat → Nat → EnvD → EnvD × Bool
  | 0, _, env => (env, false)
  | cap + 1, k, env =>
    let env' := enumStepD g L env
    if envSizeD env' == envSizeD env && k > 0 then (env', true) else enumFixD g L cap (k + 1) env'

/-- all (string, total dynamic precedence) pairs of derivations from the start rule, strings of length ≤ L -/
def dynOracle (g : Grammar) (L : Nat) : List (List Tok × Int) × Bool :=
  let r := enumFixD g L (6 * L + 2 * g.rules.length + 8) 0 []
  (r.1.get g.start, r.2)

def maxDyn (o : List (List Tok × Int)) (w : List Tok) : Option Int :=
  (o.filter fun e => e.1 == w).foldl (fun acc e => match acc with
    | none => some e.2
    | some m => some (if e.2 > m then e.2 else m)) none

def hasDynRule : Rule → Bool
  | .prec .dynamic _ _ => true
  | .prec _ _ a => hasDynRule a
  | .seq a b => hasDynRule a || hasDynRule b
  | .choice a b => hasDynRule a || hasDynRule b
  | .rep a => hasDynRule a
  | .rep1 a => hasDynRule a
  | .field _ a => hasDynRule a
  | .alias _ _ a => hasDynRule a
  | .token a => hasDynRule a
  | .immToken a => hasDynRule a
  | _ => false

def hasDyn (g : Grammar) : Bool := g.rules.any fun e => hasDynRule e.2

/-- every terminal of the grammar is an anonymous string or a whole-rule token -/
def simpleRule : Rule → Bool
  | .pat _ => false
  | .token _ => false
  | .immToken _ => false
  | .unknown _ => false
  | .seq a b => simpleRule a && simpleRule b
  | .choice a b => simpleRule a && simpleRule b
  | .rep a => simpleRule a
  | .rep1 a => simpleRule a
  | .field _ a => simpleRule a
  | .alias _ _ a => simpleRule a
  | .prec _ _ a => simpleRule a
  | _ => true

def simpleTerminals (g : Grammar) : Bool :=
  g.rules.all fun (_, b) => isTerminalBody b || simpleRule b

end TsVerif.C03
