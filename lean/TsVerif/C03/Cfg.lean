import Lean.Data.Json
/-!
# C03 — the grammar DSL (grammar.json) as an inductive type

`Rule` mirrors the JSON rule tree of a tree-sitter grammar; n-ary SEQ/CHOICE are folded into
binary nodes (`SEQ []` = `BLANK`), which keeps `Rule` a plain (non-nested) inductive type.
-/
namespace TsVerif.C03

inductive PrecKind where
  | plain | left | right | dynamic | reserved
  deriving DecidableEq, Repr, Inhabited

inductive Rule where
  | blank
  | str (s : String)
  | pat (p : String)
  | sym (name : String)
  | seq (a b : Rule)
  | choice (a b : Rule)
  | rep (a : Rule)
  | rep1 (a : Rule)
  | field (name : String) (a : Rule)
  | alias (value : String) (named : Bool) (a : Rule)
  | token (a : Rule)
  | immToken (a : Rule)
  | prec (kind : PrecKind) (value : Int) (a : Rule)
  | unknown (ty : String)
  deriving DecidableEq, Repr, Inhabited

structure Grammar where
  name : String := ""
  rules : List (String × Rule) := []
  extras : List Rule := []
  inline : List String := []
  supertypes : List String := []
  externals : List Rule := []
  conflicts : List (List String) := []
  word : Option String := none
  /-- the `precedences` lists (names only) -/
  precedences : List (List String) := []
  deriving Repr, Inhabited

namespace Grammar
def body (g : Grammar) (x : String) : Option Rule := g.rules.lookup x
def start (g : Grammar) : String := (g.rules.head?.map (·.1)).getD ""
/-- Hidden rules never show up as nodes: `_`-prefixed, inlined, or supertypes. -/
def hidden (g : Grammar) (x : String) : Bool :=
  x.toList.head? == some '_' || g.inline.contains x || g.supertypes.contains x
end Grammar

def seqOf : List Rule → Rule
  | [] => .blank
  | [r] => r
  | r :: rs => .seq r (seqOf rs)

def choiceOf : List Rule → Rule
  | [] => .blank
  | [r] => r
  | r :: rs => .choice r (choiceOf rs)

/-- NAMED precedences of the generated operator grammars follow the convention `L<n>` / `Lm<n>` (level
`n` / `-n`); the driver checks that the grammar's `precedences` list orders these names by their
levels, so that the named grammar means what the integer table says.  Any other name reads as 0. -/
def levelOfName (s : String) : Int :=
  match s.toList with
  | 'L' :: 'm' :: ds => match (String.ofList ds).toNat? with
    | some n => -(n : Int)
    | none => 0
  | 'L' :: ds => match (String.ofList ds).toNat? with
    | some n => (n : Int)
    | none => 0
  | _ => 0

open Lean in
partial def ruleOfJson (j : Json) : Rule :=
  let ty := (j.getObjValAs? String "type").toOption.getD ""
  let content := fun (_ : Unit) => ruleOfJson ((j.getObjVal? "content").toOption.getD Json.null)
  let members := fun (_ : Unit) =>
    match (j.getObjVal? "members").toOption with
    | some (Json.arr a) => a.toList.map ruleOfJson
    | _ => []
  let strv := fun (k : String) => (j.getObjValAs? String k).toOption.getD ""
  let intv := fun (k : String) =>
    match (j.getObjVal? k).toOption with
    | some (Json.str nm) => levelOfName nm
    | some v => (v.getInt?).toOption.getD 0
    | none => 0
  match ty with
  | "BLANK" => .blank
  | "STRING" => .str (strv "value")
  | "PATTERN" => .pat (strv "value")
  | "SYMBOL" => .sym (strv "name")
  | "SEQ" => seqOf (members ())
  | "CHOICE" => choiceOf (members ())
  | "REPEAT" => .rep (content ())
  | "REPEAT1" => .rep1 (content ())
  | "FIELD" => .field (strv "name") (content ())
  | "ALIAS" => .alias (strv "value") ((j.getObjValAs? Bool "named").toOption.getD false) (content ())
  | "TOKEN" => .token (content ())
  | "IMMEDIATE_TOKEN" => .immToken (content ())
  | "PREC" => .prec .plain (intv "value") (content ())
  | "PREC_LEFT" => .prec .left (intv "value") (content ())
  | "PREC_RIGHT" => .prec .right (intv "value") (content ())
  | "PREC_DYNAMIC" => .prec .dynamic (intv "value") (content ())
  | "RESERVED" => .prec .reserved 0 (content ())
  | other => .unknown other

open Lean in
def grammarOfJson (j : Json) : Grammar :=
  let arr := fun (k : String) => match (j.getObjVal? k).toOption with
    | some (Json.arr a) => a.toList
    | _ => []
  let strs := fun (k : String) => (arr k).filterMap fun x => x.getStr?.toOption
  let rules := match (j.getObjVal? "rules").toOption with
    | some (Json.obj kvs) => kvs.toList.map fun (k, v) => (k, ruleOfJson v)
    | _ => []
  { name := (j.getObjValAs? String "name").toOption.getD ""
    rules := rules
    extras := (arr "extras").map ruleOfJson
    inline := strs "inline"
    supertypes := strs "supertypes"
    externals := (arr "externals").map ruleOfJson
    conflicts := (arr "conflicts").map fun c => match c with
      | Json.arr a => a.toList.filterMap fun x => x.getStr?.toOption
      | _ => []
    word := (j.getObjValAs? String "word").toOption
    precedences := (arr "precedences").map fun l => match l with
      | Json.arr a => a.toList.filterMap fun x => (x.getObjValAs? String "value").toOption <|> (x.getObjValAs? String "name").toOption
      | _ => [] }

def parseGrammar (s : String) : Option Grammar :=
  match Lean.Json.parse s with
  | .ok j => some (grammarOfJson j)
  | .error _ => none

end TsVerif.C03
