import TsVerif.C03.Sound
import TsVerif.C03.Lang
/-!
# C03 — the productions the table spells are instances of the source grammar's rules

`relOK g tbl aux` (decidable, evaluated per generated grammar): every production `(A → X₁ … Xₙ)` that
the table spells (`prodList`) is an instance of the source rule of `A` — the rule body of `A` in
grammar.json matches the symbol sequence with inlined/hidden rules expanded in place, repeats
standing for their auxiliary symbols (`aux` maps an auxiliary symbol to the repeated rule; found by
search, checked here), removed unit reductions tolerated.  `parser_sound`: then every tree the driver
accepts — for ALL token strings — has a yield that the grammar derives (`DerivesTok`), so
`has_error = false ⇒ string ∈ L(G)` holds as a theorem per validated grammar, not only per output.
-/
namespace TsVerif.C03

/-! ## facts about `REPEAT` in the token-level semantics -/

theorem rep_append (g : Grammar) (a : Rule) (u : List Tok) (hu : DerivesTok g (.rep a) u) :
    ∀ v, DerivesTok g (.rep a) v → DerivesTok g (.rep a) (u ++ v) := by
  intro v hv
  generalize hr : Rule.rep a = r at hv
  induction hv with
  | repNil => cases hr; simpa using hu
  | repCons h1 h2 ih1 _ =>
    cases hr
    rw [← List.append_assoc]
    exact .repCons (ih1 rfl) h2
  | _ => cases hr

theorem rep1_to_rep (g : Grammar) (a : Rule) (w : List Tok) (h : DerivesTok g (.rep1 a) w) : DerivesTok g (.rep a) w := by
  cases h with
  | rep1 h1 h2 => exact .repCons h1 h2

theorem rep1_of_one (g : Grammar) (a : Rule) (w : List Tok) (h : DerivesTok g a w) : DerivesTok g (.rep1 a) w := by
  simpa using DerivesTok.rep1 (a := a) .repNil h

theorem rep_of_one (g : Grammar) (a : Rule) (w : List Tok) (h : DerivesTok g a w) : DerivesTok g (.rep a) w := by
  simpa using DerivesTok.repCons (a := a) .repNil h

theorem rep1_append_rep (g : Grammar) (a : Rule) (u : List Tok) (hu : DerivesTok g (.rep1 a) u) :
    ∀ v, DerivesTok g (.rep a) v → DerivesTok g (.rep1 a) (u ++ v) := by
  intro v hv
  generalize hr : Rule.rep a = r at hv
  induction hv with
  | repNil => cases hr; simpa using hu
  | repCons h1 h2 ih1 _ =>
    cases hr
    rw [← List.append_assoc]
    exact .rep1 (rep1_to_rep g a _ (ih1 rfl)) h2
  | _ => cases hr

/-! ## words substituted for symbols -/

def tokOf (tbl : Table) (y : Nat) : Tok := ⟨tbl.symName y, (tbl.syms.getD y default).named⟩

abbrev AuxMap := List (Nat × Rule)

/-- the language of an internal symbol: a terminal stands for itself, an auxiliary symbol for one or
more iterations of the rule it repeats, any other non-terminal for the rule of its name -/
def SymLang (g : Grammar) (tbl : Table) (aux : AuxMap) (y : Nat) (w : List Tok) : Prop :=
  if y < tbl.tokenCount then w = [tokOf tbl y]
  else match aux.lookup y with
    | some a => DerivesTok g (.rep1 a) w
    | none => DerivesTok g (.sym (tbl.symName y)) w

inductive Subst (g : Grammar) (tbl : Table) (aux : AuxMap) : List Nat → List Tok → Prop
  | nil : Subst g tbl aux [] []
  | cons {y ys u v} : SymLang g tbl aux y u → Subst g tbl aux ys v → Subst g tbl aux (y :: ys) (u ++ v)

theorem subst_append (g : Grammar) (tbl : Table) (aux : AuxMap) : ∀ (xs ys : List Nat) (w : List Tok),
    Subst g tbl aux (xs ++ ys) w → ∃ u v, w = u ++ v ∧ Subst g tbl aux xs u ∧ Subst g tbl aux ys v := by
  intro xs
  induction xs with
  | nil => intro ys w h; exact ⟨[], w, rfl, .nil, h⟩
  | cons x xs ih =>
    intro ys w h
    cases h with
    | cons h1 h2 =>
      obtain ⟨u, v, rfl, hu, hv⟩ := ih ys _ h2
      exact ⟨_ ++ u, v, by simp, .cons h1 hu, hv⟩

theorem subst_nil (g : Grammar) (tbl : Table) (aux : AuxMap) (w : List Tok) (h : Subst g tbl aux [] w) : w = [] := by
  cases h; rfl

theorem subst_single (g : Grammar) (tbl : Table) (aux : AuxMap) (y : Nat) (w : List Tok)
    (h : Subst g tbl aux [y] w) : SymLang g tbl aux y w := by
  cases h with
  | cons h1 h2 => cases h2; simpa using h1

/-! ## matching a rule body against a sequence of internal symbols -/

def matchSyms (g : Grammar) (tbl : Table) (aux : AuxMap) : Nat → Rule → List Nat → List (List Nat)
  | 0, _, _ => []
  | f + 1, r, xs =>
    List.eraseDups <| match r with
    | .blank => [xs]
    | .str s =>
      match xs with
      | y :: rest => if y < tbl.tokenCount ∧ tokOf tbl y = ⟨s, false⟩ then [rest] else []
      | [] => []
    | .sym x =>
      match g.body x with
      | none => []
      | some b =>
        if isTerminalBody b then
          match xs with
          | y :: rest => if y < tbl.tokenCount ∧ tokOf tbl y = ⟨x, true⟩ then [rest] else []
          | [] => []
        else
          (match xs with
           | y :: rest =>
             if tbl.tokenCount ≤ y ∧ aux.lookup y = none ∧ tbl.symName y = x then [rest] else []
           | [] => []) ++
          -- a rule without a node of its own at this place: inlined, or hidden with its unit reduction removed
          (if g.hidden x then matchSyms g tbl aux f b xs else [])
    | .seq a b => (matchSyms g tbl aux f a xs).flatMap fun rem => matchSyms g tbl aux f b rem
    | .choice a b => matchSyms g tbl aux f a xs ++ matchSyms g tbl aux f b xs
    | .rep a =>
      xs ::
        ((match xs with
          | y :: rest => if tbl.tokenCount ≤ y ∧ aux.lookup y = some a then matchSyms g tbl aux f (.rep a) rest else []
          | [] => []) ++
         (matchSyms g tbl aux f a xs).flatMap fun rem =>
           if rem.length < xs.length then matchSyms g tbl aux f (.rep a) rem else [])
    | .rep1 a =>
      (match xs with
       | y :: rest => if tbl.tokenCount ≤ y ∧ aux.lookup y = some a then matchSyms g tbl aux f (.rep a) rest else []
       | [] => []) ++
      (matchSyms g tbl aux f a xs).flatMap fun rem => matchSyms g tbl aux f (.rep a) rem
    | .field _ a => matchSyms g tbl aux f a xs
    | .alias _ _ a => matchSyms g tbl aux f a xs
    | .prec _ _ a => matchSyms g tbl aux f a xs
    | _ => []

/-- soundness of `matchSyms` at one fuel level -/
def MatchSound (g : Grammar) (tbl : Table) (aux : AuxMap) (f : Nat) : Prop :=
  ∀ r xs rem, rem ∈ matchSyms g tbl aux f r xs →
    ∃ pre, xs = pre ++ rem ∧ ∀ w, Subst g tbl aux pre w → DerivesTok g r w

theorem symLang_tok (g : Grammar) (tbl : Table) (aux : AuxMap) (y : Nat) (w : List Tok) (hy : y < tbl.tokenCount)
    (h : SymLang g tbl aux y w) : w = [tokOf tbl y] := by
  unfold SymLang at h; simpa [hy] using h

theorem matchSyms_sound (g : Grammar) (tbl : Table) (aux : AuxMap) : ∀ f, MatchSound g tbl aux f := by
  intro f
  induction f with
  | zero => intro r xs rem h; simp [matchSyms] at h
  | succ f ih =>
    intro r xs rem h
    unfold matchSyms at h
    rw [List.mem_eraseDups] at h
    cases r with
    | blank =>
      simp only [List.mem_singleton] at h
      exact ⟨[], by simp [h], fun w hw => by rw [subst_nil g tbl aux w hw]; exact .blank⟩
    | str s =>
      cases xs with
      | nil => simp at h
      | cons y rest =>
        simp only at h
        split at h
        · next hc =>
          simp only [List.mem_singleton] at h
          subst h
          refine ⟨[y], rfl, ?_⟩
          intro w hw
          have := symLang_tok g tbl aux y w hc.1 (subst_single g tbl aux y w hw)
          rw [this, hc.2]
          exact .str
        · simp at h
    | sym x =>
      simp only at h
      split at h
      · simp at h
      · next b hb =>
        split at h
        · next ht =>
          cases xs with
          | nil => simp at h
          | cons y rest =>
            simp only at h
            split at h
            · next hc =>
              simp only [List.mem_singleton] at h
              subst h
              refine ⟨[y], rfl, ?_⟩
              intro w hw
              have := symLang_tok g tbl aux y w hc.1 (subst_single g tbl aux y w hw)
              rw [this, hc.2]
              exact .symTok hb ht
            · simp at h
        · next ht =>
          have ht' : isTerminalBody b = false := by simpa using ht
          rcases List.mem_append.mp h with h | h
          · cases xs with
            | nil => simp at h
            | cons y rest =>
              simp only at h
              split at h
              · next hc =>
                simp only [List.mem_singleton] at h
                subst h
                refine ⟨[y], rfl, ?_⟩
                intro w hw
                have hl := subst_single g tbl aux y w hw
                unfold SymLang at hl
                have hny : ¬ y < tbl.tokenCount := by omega
                simp only [hny, if_false, hc.2.1] at hl
                rw [hc.2.2] at hl
                exact hl
              · simp at h
          · split at h
            · obtain ⟨pre, hpre, hd⟩ := ih b xs rem h
              exact ⟨pre, hpre, fun w hw => .symRule hb ht' (hd w hw)⟩
            · simp at h
    | seq a b =>
      simp only [List.mem_flatMap] at h
      obtain ⟨r1, hr1, hr2⟩ := h
      obtain ⟨p1, hp1, hd1⟩ := ih a xs r1 hr1
      obtain ⟨p2, hp2, hd2⟩ := ih b r1 rem hr2
      refine ⟨p1 ++ p2, by rw [hp1, hp2, List.append_assoc], ?_⟩
      intro w hw
      obtain ⟨u, v, rfl, hu, hv⟩ := subst_append g tbl aux p1 p2 w hw
      exact .seq (hd1 u hu) (hd2 v hv)
    | choice a b =>
      rcases List.mem_append.mp h with h | h
      · obtain ⟨p, hp, hd⟩ := ih a xs rem h; exact ⟨p, hp, fun w hw => .choiceL (hd w hw)⟩
      · obtain ⟨p, hp, hd⟩ := ih b xs rem h; exact ⟨p, hp, fun w hw => .choiceR (hd w hw)⟩
    | rep a =>
      rcases List.mem_cons.mp h with rfl | h
      · exact ⟨[], rfl, fun w hw => by rw [subst_nil g tbl aux w hw]; exact .repNil⟩
      · rcases List.mem_append.mp h with h | h
        · cases xs with
          | nil => simp at h
          | cons y rest =>
            simp only at h
            split at h
            · next hc =>
              obtain ⟨p2, hp2, hd2⟩ := ih (.rep a) rest rem h
              refine ⟨y :: p2, by rw [hp2]; rfl, ?_⟩
              intro w hw
              cases hw with
              | cons h1 h2 =>
                unfold SymLang at h1
                have hny : ¬ y < tbl.tokenCount := by omega
                simp only [hny, if_false, hc.2] at h1
                exact rep_append g a _ (rep1_to_rep g a _ h1) _ (hd2 _ h2)
            · simp at h
        · simp only [List.mem_flatMap] at h
          obtain ⟨r1, hr1, hr2⟩ := h
          split at hr2
          · obtain ⟨p1, hp1, hd1⟩ := ih a xs r1 hr1
            obtain ⟨p2, hp2, hd2⟩ := ih (.rep a) r1 rem hr2
            refine ⟨p1 ++ p2, by rw [hp1, hp2, List.append_assoc], ?_⟩
            intro w hw
            obtain ⟨u, v, rfl, hu, hv⟩ := subst_append g tbl aux p1 p2 w hw
            exact rep_append g a _ (rep_of_one g a u (hd1 u hu)) _ (hd2 v hv)
          · simp at hr2
    | rep1 a =>
      rcases List.mem_append.mp h with h | h
      · cases xs with
        | nil => simp at h
        | cons y rest =>
          simp only at h
          split at h
          · next hc =>
            obtain ⟨p2, hp2, hd2⟩ := ih (.rep a) rest rem h
            refine ⟨y :: p2, by rw [hp2]; rfl, ?_⟩
            intro w hw
            cases hw with
            | cons h1 h2 =>
              unfold SymLang at h1
              have hny : ¬ y < tbl.tokenCount := by omega
              simp only [hny, if_false, hc.2] at h1
              exact rep1_append_rep g a _ h1 _ (hd2 _ h2)
          · simp at h
      · simp only [List.mem_flatMap] at h
        obtain ⟨r1, hr1, hr2⟩ := h
        obtain ⟨p1, hp1, hd1⟩ := ih a xs r1 hr1
        obtain ⟨p2, hp2, hd2⟩ := ih (.rep a) r1 rem hr2
        refine ⟨p1 ++ p2, by rw [hp1, hp2, List.append_assoc], ?_⟩
        intro w hw
        obtain ⟨u, v, rfl, hu, hv⟩ := subst_append g tbl aux p1 p2 w hw
        exact rep1_append_rep g a _ (rep1_of_one g a u (hd1 u hu)) _ (hd2 v hv)
    | field n a => obtain ⟨p, hp, hd⟩ := ih a xs rem h; exact ⟨p, hp, fun w hw => .field (hd w hw)⟩
    | «alias» v n a => obtain ⟨p, hp, hd⟩ := ih a xs rem h; exact ⟨p, hp, fun w hw => .alias (hd w hw)⟩
    | prec k v a => obtain ⟨p, hp, hd⟩ := ih a xs rem h; exact ⟨p, hp, fun w hw => .prec (hd w hw)⟩
    | pat p => simp at h
    | token a => simp at h
    | immToken a => simp at h
    | unknown t => simp at h

/-! ## the productions of a table, and the per-grammar check -/

def prodList (tbl : Table) : List (Nat × List Nat × Nat) :=
  ((List.range tbl.acts.size).flatMap fun s => (tbl.acts.getD s []).flatMap fun e =>
    (tbl.actions s e.1).flatMap fun a => match a with
      | .reduce A n _ pid => (pathsBack tbl s n).map fun p => (A, p.2, pid)
      | _ => []).eraseDups

theorem prodList_complete (tbl : Table) (A : Nat) (syms : List Nat) (pid : Nat) (h : IsProd tbl A syms pid) :
    (A, syms, pid) ∈ prodList tbl := by
  obtain ⟨s, a, n, dp, p, hact, hpath⟩ := h
  unfold prodList
  simp only [List.mem_eraseDups, List.mem_flatMap, List.mem_range]
  refine ⟨s, actions_state_lt tbl s a _ hact, (a, tbl.actions s a), actions_mem tbl s a _ hact, _, hact, ?_⟩
  simp only [List.mem_map]
  exact ⟨(p, syms), hpath, rfl⟩

def relFuel (g : Grammar) : Nat := 60 + 8 * g.rules.length

def prodOK (g : Grammar) (tbl : Table) (aux : AuxMap) (pr : Nat × List Nat × Nat) : Bool :=
  decide (tbl.tokenCount ≤ pr.1) &&
  match aux.lookup pr.1 with
  | some a =>
    -- a production of a repeat-auxiliary symbol: one or more iterations, each either the symbol
    -- itself (`aux → aux aux`) or an instance of the repeated rule (also after unit-reduction removal)
    (matchSyms g tbl aux (relFuel g) (.rep1 a) pr.2.1).any (fun r => r.isEmpty)
  | none =>
    match g.body (tbl.symName pr.1) with
    | some b => !isTerminalBody b && (matchSyms g tbl aux (relFuel g) b pr.2.1).any (fun r => r.isEmpty)
    | none => false

theorem prodOK_sound (g : Grammar) (tbl : Table) (aux : AuxMap) (A : Nat) (syms : List Nat) (pid : Nat)
    (h : prodOK g tbl aux (A, syms, pid) = true) : ∀ w, Subst g tbl aux syms w → SymLang g tbl aux A w := by
  unfold prodOK at h
  simp only [Bool.and_eq_true, decide_eq_true_eq] at h
  obtain ⟨hA, h⟩ := h
  have hnA : ¬ A < tbl.tokenCount := by omega
  intro w hw
  unfold SymLang
  simp only [hnA, if_false]
  cases hl : aux.lookup A with
  | some a =>
    simp only [hl, List.any_eq_true, List.isEmpty_iff] at h
    simp only
    obtain ⟨rem, hrem, hnil⟩ := h
    subst hnil
    obtain ⟨pre, hpre, hd⟩ := matchSyms_sound g tbl aux _ (.rep1 a) syms [] hrem
    simp only [List.append_nil] at hpre
    subst hpre
    exact hd w hw
  | none =>
    simp only [hl] at h
    simp only
    cases hb : g.body (tbl.symName A) with
    | none => simp [hb] at h
    | some b =>
      simp only [hb, Bool.and_eq_true, Bool.not_eq_true', List.any_eq_true, List.isEmpty_iff] at h
      obtain ⟨hnt, rem, hrem, hnil⟩ := h
      subst hnil
      obtain ⟨pre, hpre, hd⟩ := matchSyms_sound g tbl aux _ b syms [] hrem
      simp only [List.append_nil] at hpre
      subst hpre
      exact .symRule hb hnt (hd w hw)

def hasAccept (tbl : Table) (q : Nat) : Bool := (tbl.acts.getD q []).any fun e => e.2.contains Action.accept

/-- the symbol that leads from the start state into an accepting state is the grammar's start rule -/
def startOK (g : Grammar) (tbl : Table) (aux : AuxMap) : Bool :=
  (List.range tbl.stateCount).all fun q =>
    !hasAccept tbl q || (rowEdges tbl 1 q).all fun X =>
      decide (tbl.tokenCount ≤ X) && (aux.lookup X).isNone && tbl.symName X == g.start

/-- The decidable per-grammar relation between the table's productions and the source grammar. -/
def relOK (g : Grammar) (tbl : Table) (aux : AuxMap) : Bool :=
  (prodList tbl).all (prodOK g tbl aux) && startOK g tbl aux

/-! ## substitution: a tree over the table's productions yields a word of its symbol's language -/

mutual
  def yieldTok (tbl : Table) : PTree → List Tok
    | .leaf s e => if e then [] else [tokOf tbl s]
    | .node _ _ _ _ ks => yieldTokL tbl ks
  def yieldTokL (tbl : Table) : List PTree → List Tok
    | [] => []
    | t :: ts => yieldTok tbl t ++ yieldTokL tbl ts
end

theorem nonExtraSyms_cons (t : PTree) (ts : List PTree) :
    nonExtraSyms (t :: ts) = (if t.isExtra then [] else [t.sym]) ++ nonExtraSyms ts := by
  unfold nonExtraSyms
  cases h : t.isExtra <;> simp [List.filter, h]

mutual
  theorem tree_lang (g : Grammar) (tbl : Table) (aux : AuxMap) (hrel : ∀ pr, pr ∈ prodList tbl → prodOK g tbl aux pr = true) :
      ∀ (t : PTree), TreeOver tbl t → t.isExtra = false → SymLang g tbl aux t.sym (yieldTok tbl t)
    | .leaf s e, h, hx => by
      cases h with
      | leaf hl =>
        simp only [PTree.isExtra] at hx
        subst hx
        have := hl.2 rfl
        unfold SymLang
        simp [PTree.sym, yieldTok, this.2.1]
    | .node A pid dp e ks, h, _ => by
      cases h with
      | node he hprod hkids =>
        have hp := hrel _ (prodList_complete tbl A _ pid hprod)
        simp only [PTree.sym, yieldTok]
        exact prodOK_sound g tbl aux A _ pid hp _ (forest_lang g tbl aux hrel ks hkids)
  theorem forest_lang (g : Grammar) (tbl : Table) (aux : AuxMap) (hrel : ∀ pr, pr ∈ prodList tbl → prodOK g tbl aux pr = true) :
      ∀ (ks : List PTree), (∀ t, t ∈ ks → TreeOver tbl t) → Subst g tbl aux (nonExtraSyms ks) (yieldTokL tbl ks)
    | [], _ => by simp [nonExtraSyms, yieldTokL]; exact .nil
    | t :: ts, h => by
      have ht := h t List.mem_cons_self
      have hts := forest_lang g tbl aux hrel ts (fun x hx => h x (List.mem_cons_of_mem _ hx))
      rw [nonExtraSyms_cons]
      simp only [yieldTokL]
      cases hx : t.isExtra with
      | true =>
        -- an extra child is a leaf (extra nodes do not exist in a `TreeOver` tree) and yields nothing
        have : yieldTok tbl t = [] := by
          cases t with
          | leaf s e => simp only [PTree.isExtra] at hx; subst hx; simp [yieldTok]
          | node A pid dp e ks' =>
            cases ht with
            | node he _ _ => simp only [PTree.isExtra] at hx; rw [he] at hx; cases hx
        simpa [this] using hts
      | false =>
        simp only [Bool.false_eq_true, if_false, List.singleton_append]
        exact .cons (tree_lang g tbl aux hrel t ht hx) hts
end

/-- The decidable premises about the table alone. -/
def tableSafe (tbl : Table) : Bool :=
  decide (1 < tbl.stateCount) && rootSafe tbl && leafSafe tbl && noLexEnd tbl

theorem startOK_elim (g : Grammar) (tbl : Table) (aux : AuxMap) (h : startOK g tbl aux = true)
    (q a X : Nat) (hq : q < tbl.stateCount) (hacc : Action.accept ∈ tbl.actions q a) (he : symEdge tbl 1 X q = true) :
    tbl.tokenCount ≤ X ∧ aux.lookup X = none ∧ tbl.symName X = g.start := by
  unfold startOK at h
  simp only [List.all_eq_true, List.mem_range, Bool.or_eq_true, Bool.not_eq_true', Bool.and_eq_true,
    decide_eq_true_eq, Option.isNone_iff_eq_none, beq_iff_eq] at h
  rcases h q hq with hno | hall
  · exfalso
    have : hasAccept tbl q = true := by
      unfold hasAccept
      simp only [List.any_eq_true]
      exact ⟨(a, tbl.actions q a), actions_mem tbl q a _ hacc, by simpa using hacc⟩
    rw [this] at hno; cases hno
  · have := hall X (mem_rowEdges tbl 1 X q he)
    exact ⟨this.1.1, this.1.2, this.2⟩

/-- `parser_sound`: for a table that passes `tableSafe` and a grammar that passes `relOK` against
it, the yield of every tree the driver accepts — for ALL token strings — is derived by the grammar's
start rule. -/
theorem parser_sound_tree_fuel (g : Grammar) (tbl : Table) (aux : AuxMap) (hsafe : tableSafe tbl = true)
    (hrel : relOK g tbl aux = true) (toks : List Nat) (t : PTree) (f : Nat)
    (h : runLoop tbl f { stack := [], toks := toks } = .accepted t) :
    DerivesTok g (.sym g.start) (yieldTok tbl t) := by
  unfold tableSafe at hsafe
  simp only [Bool.and_eq_true, decide_eq_true_eq] at hsafe
  obtain ⟨⟨⟨h1, hroot⟩, hleaf⟩, hnle⟩ := hsafe
  unfold relOK at hrel
  simp only [Bool.and_eq_true, List.all_eq_true] at hrel
  obtain ⟨hover, sym, pid, dp, ks, q, a, rfl, hq, hacc, hedge⟩ :=
    runLoop_sound tbl h1 hroot hleaf hnle _ _ t (by simp [Spells]) h
  obtain ⟨hX, hauxn, hname⟩ := startOK_elim g tbl aux hrel.2 q a sym hq hacc hedge
  have := tree_lang g tbl aux hrel.1 _ hover rfl
  unfold SymLang at this
  have hn : ¬ sym < tbl.tokenCount := by omega
  simp only [PTree.sym, hn, if_false, hauxn] at this
  rw [hname] at this
  exact this

theorem parser_sound_tree (g : Grammar) (tbl : Table) (aux : AuxMap) (hsafe : tableSafe tbl = true)
    (hrel : relOK g tbl aux = true) (toks : List Nat) (t : PTree) (h : run tbl toks = .accepted t) :
    DerivesTok g (.sym g.start) (yieldTok tbl t) :=
  parser_sound_tree_fuel g tbl aux hsafe hrel toks t _ (by unfold run at h; exact h)

/-! ## the yield in terms of the token string -/

def keepTok (tbl : Table) (s : Nat) : Bool := s != 0 && !isExtraSym tbl s

mutual
  theorem yieldTok_eq (tbl : Table) : ∀ (t : PTree), TreeOver tbl t →
      yieldTok tbl t = (t.leaves.filter (keepTok tbl)).map (tokOf tbl)
    | .leaf s e, h => by
      cases h with
      | leaf hl =>
        cases e with
        | true =>
          rcases hl.1 rfl with hx | h0
          · simp [yieldTok, PTree.leaves, keepTok, hx]
          · simp [yieldTok, PTree.leaves, keepTok, h0]
        | false =>
          have := hl.2 rfl
          simp [yieldTok, PTree.leaves, keepTok, this.1, this.2.2]
    | .node A pid dp e ks, h => by
      cases h with
      | node _ _ hkids => simpa [yieldTok, PTree.leaves] using yieldTokL_eq tbl ks hkids
  theorem yieldTokL_eq (tbl : Table) : ∀ (ks : List PTree), (∀ t, t ∈ ks → TreeOver tbl t) →
      yieldTokL tbl ks = ((PTree.leavesL ks).filter (keepTok tbl)).map (tokOf tbl)
    | [], _ => by simp [yieldTokL, PTree.leavesL]
    | t :: ts, h => by
      simp only [yieldTokL, PTree.leavesL, List.filter_append, List.map_append]
      rw [yieldTok_eq tbl t (h t List.mem_cons_self),
        yieldTokL_eq tbl ts (fun x hx => h x (List.mem_cons_of_mem _ hx))]
end

/-- `parser_sound`: per validated (grammar, table) pair and for ALL token strings: if the driver
accepts `toks`, the grammar's start rule derives the token string with the table's extra tokens
removed. -/
theorem parser_sound_fuel (g : Grammar) (tbl : Table) (aux : AuxMap) (hsafe : tableSafe tbl = true)
    (hrel : relOK g tbl aux = true) (toks : List Nat) (hnz : ∀ a, a ∈ toks → a ≠ 0) (t : PTree) (f : Nat)
    (h : runLoop tbl f { stack := [], toks := toks } = .accepted t) :
    DerivesTok g (.sym g.start) ((toks.filter fun a => !isExtraSym tbl a).map (tokOf tbl)) := by
  have hd := parser_sound_tree_fuel g tbl aux hsafe hrel toks t f h
  have hsafe' := hsafe
  unfold tableSafe at hsafe'
  simp only [Bool.and_eq_true, decide_eq_true_eq] at hsafe'
  obtain ⟨⟨⟨h1, hroot⟩, hleaf⟩, hnle⟩ := hsafe'
  have hover := (runLoop_sound tbl h1 hroot hleaf hnle f { stack := [], toks := toks } t (by simp [Spells]) h).1
  rw [yieldTok_eq tbl t hover] at hd
  have hy : t.leaves = toks ++ [0] := by
    simpa [stackLeaves] using runLoop_yield tbl _ _ t h
  rw [hy] at hd
  have hf : (toks ++ [0]).filter (keepTok tbl) = toks.filter fun a => !isExtraSym tbl a := by
    rw [List.filter_append]
    have h0 : [0].filter (keepTok tbl) = [] := by simp [keepTok]
    rw [h0, List.append_nil]
    apply List.filter_congr
    intro a ha
    simp [keepTok, hnz a ha]
  rw [hf] at hd
  exact hd

theorem parser_sound (g : Grammar) (tbl : Table) (aux : AuxMap) (hsafe : tableSafe tbl = true)
    (hrel : relOK g tbl aux = true) (toks : List Nat) (hnz : ∀ a, a ∈ toks → a ≠ 0) (t : PTree)
    (h : run tbl toks = .accepted t) :
    DerivesTok g (.sym g.start) ((toks.filter fun a => !isExtraSym tbl a).map (tokOf tbl)) :=
  parser_sound_fuel g tbl aux hsafe hrel toks hnz t _ (by unfold run at h; exact h)

end TsVerif.C03
