import TsVerif.C03.Cover
import TsVerif.C03.Rename
import Std.Data.HashSet
/-!
# C03 — untrusted search procedures

Nothing here is trusted and no theorem talks about these functions: they compute candidates (the
auxiliary-symbol assignment, the canonical production set with the table's production ids, the LR
item annotation) that the decidable checks `relOK`, `coverOK`, `completeOK` validate.  Shared by
the C03 and C15 drivers.
-/
namespace TsVerif.C03

/-- all rules that occur under a REPEAT/REPEAT1 somewhere in the grammar (candidates for what an
auxiliary symbol repeats) -/
partial def repContents : Rule → List Rule
  | .rep a => a :: repContents a
  | .rep1 a => a :: repContents a
  | .seq a b => repContents a ++ repContents b
  | .choice a b => repContents a ++ repContents b
  | .field _ a => repContents a
  | .alias _ _ a => repContents a
  | .prec _ _ a => repContents a
  | _ => []

/-- search for the auxiliary-symbol assignment (untrusted: `relOK` checks the result) -/
def findAux (g : Grammar) (tbl : Table) (prods : List (Nat × List Nat × Nat)) : AuxMap :=
  let cands0 := (g.rules.flatMap fun e => repContents e.2)
  -- smaller rules first (an inner repeat's content also matches inside the outer one's)
  let cands := (cands0.toArray.qsort fun a b => (toString (repr a)).length < (toString (repr b)).length).toList
  let auxSyms := (List.range tbl.symbolCount).filter fun y =>
    y ≥ tbl.tokenCount && (g.body (tbl.symName y)).isNone
  let pass := fun (aux : AuxMap) =>
    auxSyms.foldl (fun aux R =>
      if (aux.lookup R).isSome then aux else
      match cands.find? (fun a => (prods.filter fun p => p.1 == R).all (prodOK g tbl ((R, a) :: aux))) with
      | some a => (R, a) :: aux
      | none => aux) aux
  let aux0 := (List.range (auxSyms.length + 1)).foldl (fun aux _ => pass aux) []
  -- repair: the smallest rule that fits an auxiliary symbol's own productions need not be the one its
  -- users mean (`repeat(seq('c','c'))` also reads as `repeat1('c')`); swap assignments while that
  -- lowers the number of productions that do not fit
  let badCount := fun (aux : AuxMap) => (prods.filter fun p => !prodOK g tbl aux p).length
  let repair := fun (aux : AuxMap) =>
    auxSyms.foldl (fun aux R =>
      if badCount aux == 0 then aux else
      let others := aux.filter fun e => e.1 != R
      cands.foldl (fun best a =>
        let aux' := (R, a) :: others
        if badCount aux' < badCount best then aux' else best) aux) aux
  if badCount aux0 == 0 then aux0 else (List.range 3).foldl (fun aux _ => repair aux) aux0


/-- a cheap bound on the size of `expand` (so that the checked `coverOK` is only run on small expansions) -/
def expandCount (g : Grammar) : Nat → Rule → Nat
  | 0, _ => 1
  | f + 1, r =>
    match r with
    | .sym x => match g.body x with
      | some b => if !isTerminalBody b && g.inline.contains x then expandCount g f b else 1
      | none => 1
    | .seq a b => min 1000000 (expandCount g f a * expandCount g f b)
    | .choice a b => min 1000000 (expandCount g f a + expandCount g f b)
    | .rep _ => 2
    | .field _ a => expandCount g f a
    | .alias _ _ a => expandCount g f a
    | .prec _ _ a => expandCount g f a
    | _ => 1

def expandSmall (g : Grammar) (tbl : Table) (aux : AuxMap) : Bool :=
  (List.range tbl.symbolCount).all fun y => y < tbl.tokenCount ||
    match aux.lookup y with
    | some a => expandCount g (relFuel g) a ≤ 2000
    | none => match g.body (tbl.symName y) with
      | some b => expandCount g (relFuel g) b ≤ 2000
      | none => true

/-- the canonical production set: the flattening of every rule, with the production ids the table uses
(untrusted: `coverOK` checks the sequences, `completeOK` the ids) -/
def canonP (g : Grammar) (tbl : Table) (aux : AuxMap) (prods : List Prod) : List Prod :=
  let pidFor := fun (A : Nat) (syms : List Nat) =>
    let cands := prods.filter fun p => p.1 == A && p.2.1.length == syms.length
    match cands.find? (fun p => p.2.1 == syms) with
    | some p => p.2.2
    | none =>
      match cands.find? (fun p => (p.2.1.zip syms).all fun ab => ab.1 == ab.2 || ab.2 ≥ tbl.tokenCount) with
      | some p => p.2.2
      | none => (cands.head?.map (·.2.2)).getD 0
  ((List.range tbl.symbolCount).flatMap fun y =>
    if y < tbl.tokenCount then [] else
    match aux.lookup y with
    | some a => (y, [y, y], pidFor y [y, y]) :: (expand g tbl aux (relFuel g) a).map fun sy => (y, sy, pidFor y sy)
    | none => match g.body (tbl.symName y) with
      | some b => (expand g tbl aux (relFuel g) b).map fun sy => (y, sy, pidFor y sy)
      | none => []).eraseDups

/-! untrusted computation of the LR annotation (validated by `completeOK`) -/

def startSymbol (tbl : Table) : Option Nat :=
  ((tbl.gotos.getD 1 []).find? fun e => effective (tbl.actions e.2 0) == [Action.accept]).map (·.1)

def computeFirst (tbl : Table) (P : List Prod) : List Nat × List (Nat × List Nat) :=
  let lhss := (P.map (·.1)).eraseDups
  let step := fun (st : List Nat × List (Nat × List Nat)) =>
    let ann : Ann := { nullable := st.1, first := st.2 }
    let nullable := lhss.filter fun A => P.any fun p => p.1 == A && p.2.1.all (nullOf tbl ann)
    let first := lhss.map fun A =>
      (A, ((P.filter fun p => p.1 == A).flatMap fun p =>
        let rec pref : List Nat → List Nat
          | [] => []
          | Y :: ys => firstOf tbl ann Y ++ (if nullOf tbl ann Y then pref ys else [])
        pref p.2.1).eraseDups)
    (nullable, first)
  (List.range (lhss.length + 3)).foldl (fun st _ => step st) ([], [])

partial def annLoop (tbl : Table) (P : List Prod) (allow : Allow) (ann0 : Ann) (sets : Array (Std.HashSet Item))
    (work : List (Nat × Item)) (budget : Nat) : Array (Std.HashSet Item) :=
  match work, budget with
  | [], _ => sets
  | _, 0 => sets
  | (s, it) :: rest, b + 1 =>
    let add := fun (acc : Array (Std.HashSet Item) × List (Nat × Item)) (q : Nat) (x : Item) =>
      if q < acc.1.size && !(acc.1[q]!.contains x) then (acc.1.modify q (·.insert x), (q, x) :: acc.2) else acc
    if it.dot ≥ it.rhs.length then annLoop tbl P allow ann0 sets rest b else
    match it.cur with
    | none => annLoop tbl P allow ann0 sets rest b
    | some X =>
      if X < tbl.tokenCount then
        match effective (tbl.actions s X) with
        | [.shift s' false _] =>
          let r := add (sets, rest) s' it.adv
          annLoop tbl P allow ann0 r.1 r.2 b
        | _ => annLoop tbl P allow ann0 sets rest b
      else
        let q := tbl.goto s X
        let r := if q != 0 then add (sets, rest) q it.adv else (sets, rest)
        let las := firstSeq tbl ann0 (it.rhs.drop (it.dot + 1)) it.la
        -- where does the single symbol of a unit production lead from here?
        let target := fun (Y : Nat) =>
          if Y < tbl.tokenCount then
            match effective (tbl.actions s Y) with
            | [.shift s' false _] => s'
            | _ => 0
          else tbl.goto s Y
        let r := (P.filter fun p => p.1 == X && allow it.ctx.1 it.ctx.2 p).foldl (fun acc p =>
          match p.2.1 with
          | [Y] =>
            -- unit reduction removed here: `Y` leads directly where the goto on `X` would
            if q != 0 && target Y == q && Y != X then add acc s { it with sub := some p }
            else las.foldl (fun acc x => add acc s ⟨X, p.2.1, p.2.2, 0, x, none⟩) acc
          | _ => las.foldl (fun acc x => add acc s ⟨X, p.2.1, p.2.2, 0, x, none⟩) acc) r
        annLoop tbl P allow ann0 r.1 r.2 b

def computeAnn (tbl : Table) (P : List Prod) (allow : Allow) (start : Nat) : Ann :=
  let fn := computeFirst tbl P
  let ann0 : Ann := { nullable := fn.1, first := fn.2 }
  let startItems := (P.filter fun p => p.1 == start).map fun p => (⟨start, p.2.1, p.2.2, 0, 0, none⟩ : Item)
  let sets0 : Array (Std.HashSet Item) := Array.replicate tbl.stateCount {}
  let sets0 := if 1 < sets0.size then sets0.modify 1 (fun s => startItems.foldl (·.insert ·) s) else sets0
  let sets := annLoop tbl P allow ann0 sets0 (startItems.map fun it => (1, it)) 400000
  { ann0 with items := sets.map (·.toList) }


/-- a rule without its FIELD / ALIAS / PREC wrappers -/
def coreRule : Rule → Rule
  | .field _ a => coreRule a
  | .alias _ _ a => coreRule a
  | .prec _ _ a => coreRule a
  | r => r

/-- the rules referenced under an alias of the value `v` -/
partial def aliasedRules (v : String) : Rule → List String
  | .alias v' _ a => (match coreRule a with | .sym y => if v' == v then [y] else [] | _ => []) ++ aliasedRules v a
  | .seq a b => aliasedRules v a ++ aliasedRules v b
  | .choice a b => aliasedRules v a ++ aliasedRules v b
  | .rep a => aliasedRules v a
  | .rep1 a => aliasedRules v a
  | .field _ a => aliasedRules v a
  | .prec _ _ a => aliasedRules v a
  | _ => []

/-- which rule a non-terminal of the table stands for when its name is not a rule's: a rule that is
referenced under an alias of that name (`extract_default_aliases` renamed it); untrusted — the
validations on `renameNT tbl (findRen g tbl)` decide -/
def findRen (g : Grammar) (tbl : Table) : List (Nat × String) :=
  let nts := (List.range tbl.symbolCount).filter fun y => y ≥ tbl.tokenCount
  let todo := nts.filter fun y => (g.body (tbl.symName y)).isNone
  let candsOf := fun (y : Nat) =>
    let n := tbl.symName y
    (g.rules.map (·.1)).filter fun x =>
      (g.rules.any fun e => (aliasedRules n e.2).contains x) &&
      match g.body x with
      | some b => !isTerminalBody b && !(nts.any fun z => tbl.symName z == x)
      | none => false
  -- symbols with a single remaining candidate first; an assigned rule is no candidate for another symbol
  let pass := fun (acc : List (Nat × String)) =>
    todo.foldl (fun acc y =>
      if (acc.lookup y).isSome then acc else
      match (candsOf y).filter fun x => !(acc.any fun e => e.2 == x) with
      | [x] => (y, x) :: acc
      | _ => acc) acc
  let forced := (List.range (todo.length + 1)).foldl (fun acc _ => pass acc) []
  -- the rest: several symbols of one name take the remaining candidates in symbol order
  todo.foldl (fun acc y =>
    if (acc.lookup y).isSome then acc else
    match (candsOf y).filter fun x => !(acc.any fun e => e.2 == x) with
    | x :: _ => (y, x) :: acc
    | [] => acc) forced

end TsVerif.C03
