import TsVerif.C03.Lang
/-!
# Soundness of the bounded language enumerator (`enum_sound`)
-/
namespace TsVerif.C03

theorem dedupH_fold_sub (l : List (List Tok)) :
    ∀ (acc : Std.HashSet (List Tok) × List (List Tok)) (x : List Tok),
      x ∈ (l.foldl (fun (acc : Std.HashSet (List Tok) × List (List Tok)) x =>
          if acc.1.contains x then acc else (acc.1.insert x, x :: acc.2)) acc).2 → x ∈ acc.2 ∨ x ∈ l := by
  induction l with
  | nil => intro acc x h; exact .inl h
  | cons y ys ih =>
    intro acc x h
    simp only [List.foldl] at h
    rcases ih _ x h with h' | h'
    · split at h'
      · exact .inl h'
      · rcases List.mem_cons.mp h' with rfl | h''
        · exact .inr List.mem_cons_self
        · exact .inl h''
    · exact .inr (List.mem_cons_of_mem _ h')

theorem dedupH_sub (l : List (List Tok)) (x : List Tok) (h : x ∈ dedupH l) : x ∈ l := by
  unfold dedupH at h
  rw [List.mem_reverse] at h
  rcases dedupH_fold_sub l _ x h with h' | h'
  · simp at h'
  · exact h'

theorem concatUpTo_mem (L : Nat) (A B : List (List Tok)) (w : List Tok) (h : w ∈ concatUpTo L A B) :
    ∃ u v, u ∈ A ∧ v ∈ B ∧ w = u ++ v := by
  unfold concatUpTo at h
  simp only [List.mem_flatMap, List.mem_filterMap] at h
  obtain ⟨u, hu, v, hv, hw⟩ := h
  split at hw
  · cases hw; exact ⟨u, v, hu, hv, rfl⟩
  · cases hw

theorem repClose_sound (g : Grammar) (a : Rule) (L : Nat) (A : List (List Tok))
    (hA : ∀ w, w ∈ A → DerivesTok g a w) : ∀ k w, w ∈ repClose L A k → DerivesTok g (.rep a) w := by
  intro k
  induction k with
  | zero => intro w h; simp [repClose] at h; subst h; exact .repNil
  | succ k ih =>
    intro w h
    simp only [repClose] at h
    have h := dedupH_sub _ _ h
    rcases List.mem_append.mp h with h | h
    · exact ih w h
    · obtain ⟨u, v, hu, hv, rfl⟩ := concatUpTo_mem _ _ _ _ h
      exact .repCons (ih u hu) (hA v hv)

/-- an environment all of whose entries are derivable -/
def EnvSound (g : Grammar) (env : Env) : Prop :=
  ∀ x w, w ∈ env.get x → ∀ b, g.body x = some b → isTerminalBody b = false → DerivesTok g b w

theorem evalRule_sound (g : Grammar) (env : Env) (L : Nat) (henv : EnvSound g env) :
    ∀ (r : Rule) (w : List Tok), w ∈ evalRule g env L r → DerivesTok g r w := by
  intro r
  induction r with
  | blank => intro w h; simp [evalRule] at h; subst h; exact .blank
  | str s => intro w h; simp [evalRule] at h; subst h; exact .str
  | pat p => intro w h; simp [evalRule] at h
  | sym x =>
    intro w h
    simp only [evalRule] at h
    split at h
    · next b hb =>
      split at h
      · next ht => simp at h; subst h; exact .symTok hb ht
      · next ht =>
        have ht' : isTerminalBody b = false := by simpa using ht
        exact .symRule hb ht' (henv x w h b hb ht')
    · simp at h
  | seq a b iha ihb =>
    intro w h
    simp only [evalRule] at h
    obtain ⟨u, v, hu, hv, rfl⟩ := concatUpTo_mem _ _ _ _ (dedupH_sub _ _ h)
    exact .seq (iha u hu) (ihb v hv)
  | choice a b iha ihb =>
    intro w h
    simp only [evalRule] at h
    rcases List.mem_append.mp (dedupH_sub _ _ h) with h | h
    · exact .choiceL (iha w h)
    · exact .choiceR (ihb w h)
  | rep a iha =>
    intro w h
    simp only [evalRule] at h
    exact repClose_sound g a L _ iha L w h
  | rep1 a iha =>
    intro w h
    simp only [evalRule] at h
    obtain ⟨u, v, hu, hv, rfl⟩ := concatUpTo_mem _ _ _ _ (dedupH_sub _ _ h)
    exact .rep1 (repClose_sound g a L _ iha L u hu) (iha v hv)
  | field n a iha => intro w h; simp only [evalRule] at h; exact .field (iha w h)
  | «alias» v n a iha => intro w h; simp only [evalRule] at h; exact .alias (iha w h)
  | token a _ => intro w h; simp [evalRule] at h
  | immToken a _ => intro w h; simp [evalRule] at h
  | prec k v a iha => intro w h; simp only [evalRule] at h; exact .prec (iha w h)
  | unknown ty => intro w h; simp [evalRule] at h

theorem lookup_map_mem {β γ : Type} (f : String × β → γ) :
    ∀ (l : List (String × β)) (x : String) (v : γ),
      (l.map fun e => (e.1, f e)).lookup x = some v → ∃ b, l.lookup x = some b ∧ v = f (x, b) := by
  intro l
  induction l with
  | nil => intro x v h; simp [List.lookup] at h
  | cons e es ih =>
    intro x v h
    obtain ⟨k, b⟩ := e
    simp only [List.map_cons, List.lookup] at h ⊢
    split at h
    · next heq =>
      have : x = k := by simpa using heq
      subst this
      cases h
      exact ⟨b, by simp, rfl⟩
    · next hne =>
      obtain ⟨b', hb', hv⟩ := ih x v h
      refine ⟨b', ?_, hv⟩
      simp [hne, hb']

theorem enumStep_sound (g : Grammar) (L : Nat) (env : Env) (henv : EnvSound g env) : EnvSound g (enumStep g L env) := by
  intro x w hw b hb _
  unfold Env.get enumStep at hw
  cases hl : (g.rules.map fun (x, b) => (x, evalRule g env L b)).lookup x with
  | none => rw [hl] at hw; simp at hw
  | some v =>
    rw [hl] at hw
    simp only [Option.getD_some] at hw
    obtain ⟨b', hb', hv⟩ := lookup_map_mem (fun e => evalRule g env L e.2) g.rules x v hl
    have : b' = b := by
      unfold Grammar.body at hb
      rw [hb'] at hb
      cases hb; rfl
    subst this hv
    exact evalRule_sound g env L henv b' w hw

theorem enumLang_sound (g : Grammar) (L : Nat) : ∀ k, EnvSound g (enumLang g L k) := by
  intro k
  induction k with
  | zero => intro x w hw; simp [enumLang, Env.get, List.lookup] at hw
  | succ k ih => exact enumStep_sound g L _ ih

theorem enumFix_sound (g : Grammar) (L : Nat) : ∀ (cap k : Nat) (env : Env), EnvSound g env →
    EnvSound g (enumFix g L cap k env).1 := by
  intro cap
  induction cap with
  | zero => intro k env h; simpa [enumFix] using h
  | succ cap ih =>
    intro k env h
    simp only [enumFix]
    split
    · exact enumStep_sound g L env h
    · exact ih _ _ (enumStep_sound g L env h)

end TsVerif.C03
