import TsVerif.C03.DriverLemmas
namespace TsVerif.C03

theorem accept_root (tbl : Table) (s : Nat) (hs1 : s ≠ 1) (hst : isShiftTarget tbl s = false) :
    ∀ (st : Stack), StackInv tbl st → topState st = s →
      ∃ sym pid dp e kids before, (st.map (·.2)).dropWhile PTree.isExtra = PTree.node sym pid dp e kids :: before := by
  intro st
  induction st with
  | nil => intro _ h; simp [topState] at h; exact absurd h.symm hs1
  | cons e tl ih =>
    intro hinv htop
    obtain ⟨s', t⟩ := e
    simp only [topState] at htop
    subst htop
    simp only [StackInv] at hinv
    obtain ⟨_, _, hlink, htl⟩ := hinv
    cases hx : t.isExtra with
    | true =>
      simp only [hx, if_true] at hlink
      obtain ⟨sym, pid, dp, e, kids, before, h⟩ := ih htl hlink.symm
      exact ⟨sym, pid, dp, e, kids, before, by simp [hx, h]⟩
    | false =>
      simp only [hx] at hlink
      simp only [Bool.false_eq_true, if_false] at hlink
      cases t with
      | leaf a ex =>
        have := hlink.2 rfl
        rw [hst] at this; cases this
      | node sym pid dp e kids =>
        exact ⟨sym, pid, dp, e, kids, tl.map (·.2), by simp [hx]⟩

theorem acceptTree_some (st : Stack) (sym pid : Nat) (dp : Int) (e : Bool) (kids before : List PTree)
    (h : (st.map (·.2)).dropWhile PTree.isExtra = PTree.node sym pid dp e kids :: before) :
    ∃ t, acceptTree st = some t := by
  unfold acceptTree
  simp only [List.dropWhile, PTree.isExtra, h]
  exact ⟨_, rfl⟩

macro "trivial_out" : tactic => `(tactic| exact ⟨(by intro c' h; cases h), (by intro f h; cases h)⟩)

theorem step_ok (tbl : Table) (hc : Closed tbl) (c : Conf) (hinv : StackInv tbl c.stack)
    (hnz : ∀ a, a ∈ c.toks → a ≠ 0) :
    (∀ c', step tbl c = .inl c' → StackInv tbl c'.stack) ∧ (∀ f, step tbl c ≠ .inr (.fault f)) := by
  obtain ⟨hs0, hsS⟩ := topState_ok tbl hc.one c.stack hinv
  unfold step
  simp only
  split
  · -- end of a non-terminal extra: the reduction stored in the EOF cell
    next hle =>
    split
    · trivial_out
    · next A n dp pid heff =>
      have hmem := effective_single _ _ heff
      have hok := hc.act _ _ _ hsS hs0 hmem
      obtain ⟨st', hr, hinv'⟩ := reduce_ok tbl hc c.stack hinv A n dp pid true hok (by intro h; cases h)
      rw [hr]
      exact ⟨(by intro c' h; cases h; exact hinv'), (by intro f h; cases h)⟩
    · trivial_out
  · next hle =>
    have hle' : tbl.lexEnd (topState c.stack) = false := by simpa using hle
    split
    · trivial_out
    · next s' extra rep heff =>
      have hmem := effective_single _ _ heff
      have hok := hc.act _ _ _ hsS hs0 hmem
      simp only [actionOK, Bool.and_eq_true, bne_iff_ne, ne_eq, Bool.or_eq_true, decide_eq_true_eq] at hok
      obtain ⟨ha0, hext⟩ := hok
      cases htoks : c.toks with
      | nil => simp [htoks] at ha0
      | cons a rest =>
        simp only [htoks, List.headD_cons] at hmem ⊢
        cases extra with
        | true =>
          have hno : ¬ (topState c.stack = 0 ∨ tbl.stateCount ≤ topState c.stack) := by omega
          simp only [if_true, hno, if_false]
          refine ⟨?_, (by intro f h; cases h)⟩
          intro c' h; cases h
          simp only [StackInv, PTree.isExtra, if_true]
          exact ⟨hs0, hsS, trivial, hinv⟩
        | false =>
          have hext' : s' ≠ 0 ∧ s' < tbl.stateCount := by simpa using hext
          have hno : ¬ (s' = 0 ∨ tbl.stateCount ≤ s') := by omega
          simp only [Bool.false_eq_true, if_false, hno]
          refine ⟨?_, (by intro f h; cases h)⟩
          intro c' h; cases h
          simp only [StackInv, PTree.isExtra, PTree.isLeaf, Bool.false_eq_true, if_false]
          refine ⟨hext'.1, hext'.2, ⟨?_, fun _ => shift_target tbl _ _ _ _ hsS hmem⟩, hinv⟩
          exact mem_predsOf tbl _ _ hsS hs0 hext'.2 (shift_edge tbl _ _ _ _ hmem)
    · next A n dp pid heff =>
      have hmem := effective_single _ _ heff
      have hok := hc.act _ _ _ hsS hs0 hmem
      obtain ⟨st', hr, hinv'⟩ := reduce_ok tbl hc c.stack hinv A n dp pid false hok
        (fun _ => plainReduced_of tbl _ _ A n dp pid hsS hle' hmem)
      rw [hr]
      exact ⟨(by intro c' h; cases h; exact hinv'), (by intro f h; cases h)⟩
    · next heff =>
      have hmem := effective_single _ _ heff
      have hok := hc.act _ _ _ hsS hs0 hmem
      simp only [actionOK, Bool.and_eq_true, beq_iff_eq, bne_iff_ne, ne_eq, Bool.not_eq_true'] at hok
      obtain ⟨⟨ha0, hs1⟩, hst⟩ := hok
      cases htoks : c.toks with
      | cons a rest =>
        simp only [htoks, List.headD_cons] at ha0
        exact absurd ha0 (hnz a (by simp [htoks]))
      | nil =>
        simp only
        obtain ⟨sym, pid, dp, e, kids, before, hdw⟩ := accept_root tbl _ hs1 hst c.stack hinv rfl
        obtain ⟨t, this⟩ := acceptTree_some c.stack sym pid dp e kids before hdw
        rw [this]
        trivial_out
    · trivial_out
    · trivial_out

end TsVerif.C03
