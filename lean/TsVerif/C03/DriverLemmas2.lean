import TsVerif.C03.DriverLemmas
namespace TsVerif.C03

theorem accept_root (tbl : Table) (s : Nat) (hs1 : s ≠ 1) (hst : isShiftTarget tbl s = false) :
    ∀ (st : Stack), StackInv tbl st → topState st = s →
      ∃ sym pid dp e kids before, (st.map (·.2)).dropWhile PTree.isExtra = PTree.node sym pid dp e kids :: before := by
  intro st
  induction st with
  | nil => intro _ h; simp [topState] at h; exact absurd h.symm hs1
  | cons e tl ih =>
    intro hinv htop
    obtain ⟨s', t⟩ := e
    simp only [topState] at htop
    subst htop
    simp only [StackInv] at hinv
    obtain ⟨_, _, hlink, htl⟩ := hinv
    cases hx : t.isExtra with
    | true =>
      simp only [hx, if_true] at hlink
      obtain ⟨sym, pid, dp, e, kids, before, h⟩ := ih htl hlink.symm
      exact ⟨sym, pid, dp, e, kids, before, by simp [hx, h]⟩
    | false =>
      simp only [hx] at hlink
      simp only [Bool.false_eq_true, if_false] at hlink
      cases t with
      | leaf a ex =>
        have := hlink.2 rfl
        rw [hst] at this; cases this
      | node sym pid dp e kids =>
        exact ⟨sym, pid, dp, e, kids, tl.map (·.2), by simp [hx]⟩

theorem acceptTree_some (st : Stack) (sym pid : Nat) (dp : Int) (e : Bool) (kids before : List PTree)
    (h : (st.map (·.2)).dropWhile PTree.isExtra = PTree.node sym pid dp e kids :: before) :
    ∃ t, acceptTree st = some t := by
  unfold acceptTree
  simp only [List.dropWhile, PTree.isExtra, h]
  exact ⟨_, rfl⟩

macro "trivial_out" : tactic => `(tactic| exact ⟨(by intro c' h; cases h), (by intro f h; cases h)⟩)

theorem step_ok (tbl : Table) (hc : Closed tbl) (c : Conf) (hinv : StackInv tbl c.stack)
    (hnz : ∀ a, a ∈ c.toks → a ≠ 0) :
    (∀ c', step tbl c = .inl c' → StackInv tbl c'.stack) ∧ (∀ f, step tbl c ≠ .inr (.fault f)) := by
  obtain ⟨hs0, hsS⟩ := topState_ok tbl hc.one c.stack hinv
  unfold step
  simp only
  split
  · -- end of a non-terminal extra: the reduction stored in the EOF cell
    next hle =>
    split
    · trivial_out
    · next A n dp pid heff =>
      have hmem := effective_single _ _ heff
      have hok := hc.act _ _ _ hsS hs0 hmem
      obtain ⟨st', hr, hinv'⟩ := reduce_ok tbl hc c.stack hinv A n dp pid true hok (by intro h; cases h)
      rw [hr]
      exact ⟨(by intro c' h; cases h; exact hinv'), (by intro f h; cases h)⟩
    · trivial_out
  · next hle =>
    have hle' : tbl.lexEnd (topState c.stack) = false := by simpa using hle
    split
    · trivial_out
    · next s' extra rep heff =>
      have hmem := effective_single _ _ heff
      have hok := hc.act _ _ _ hsS hs0 hmem
      simp only [actionOK, Bool.and_eq_true, bne_iff_ne, ne_eq, Bool.or_eq_true, decide_eq_true_eq] at hok
      obtain ⟨ha0, hext⟩ := hok
      cases htoks : c.toks with
      | nil => simp [htoks] at ha0
      | cons a rest =>
        simp only [htoks, List.headD_cons] at hmem ⊢
        cases extra with
        | true =>
          have hno : ¬ (topState c.stack = 0 ∨ tbl.stateCount ≤ topState c.stack) := by omega
          simp only [if_true, hno, if_false]
          refine ⟨?_, (by intro f h; cases h)⟩
          intro c' h; cases h
          simp only [StackInv, PTree.isExtra, if_true]
          exact ⟨hs0, hsS, trivial, hinv⟩
        | false =>
          have hext' : s' ≠ 0 ∧ s' < tbl.stateCount := by simpa using hext
          have hno : ¬ (s' = 0 ∨ tbl.stateCount ≤ s') := by omega
          simp only [Bool.false_eq_true, if_false, hno]
          refine ⟨?_, (by intro f h; cases h)⟩
          intro c' h; cases h
          simp only [StackInv, PTree.isExtra, PTree.isLeaf, Bool.false_eq_true, if_false]
          refine ⟨hext'.1, hext'.2, ⟨?_, fun _ => shift_target tbl _ _ _ _ hsS hmem⟩, hinv⟩
          exact mem_predsOf tbl _ _ hsS hs0 hext'.2 (shift_edge tbl _ _ _ _ hmem)
    · next A n dp pid heff =>
      have hmem := effective_single _ _ heff
      have hok := hc.act _ _ _ hsS hs0 hmem
      obtain ⟨st', hr, hinv'⟩ := reduce_ok tbl hc c.stack hinv A n dp pid false hok
        (fun _ => plainReduced_of tbl _ _ A n dp pid hsS hle' hmem)
      rw [hr]
      exact ⟨(by intro c' h; cases h; exact hinv'), (by intro f h; cases h)⟩
    · next heff =>
      have hmem := effective_single _ _ heff
      have hok := hc.act _ _ _ hsS hs0 hmem
      simp only [actionOK, Bool.and_eq_true, beq_iff_eq, bne_iff_ne, ne_eq, Bool.not_eq_true'] at hok
      obtain ⟨⟨ha0, hs1⟩, hst⟩ := hok
      cases htoks : c.toks with
      | cons a rest =>
        simp only [htoks, List.headD_cons] at ha0
        exact absurd ha0 (hnz a (by simp [htoks]))
      | nil =>
        simp only
        obtain ⟨sym, pid, dp, e, kids, before, hdw⟩ := accept_root tbl _ hs1 hst c.stack hinv rfl
        obtain ⟨t, this⟩ := acceptTree_some c.stack sym pid dp e kids before hdw
        rw [this]
        trivial_out
    · trivial_out
    · trivial_out

/-! ## the token list only shrinks -/

theorem reduce_inl_toks (tbl : Table) (c c' : Conf) (A n : Nat) (dp : Int) (pid : Nat) (eoe : Bool)
    (h : (match reduce tbl c.stack A n dp pid eoe with
          | .ok st => (Sum.inl { c with stack := st } : Conf ⊕ Outcome)
          | .error f => .inr (.fault f)) = .inl c') :
    c'.toks = c.toks ∧ reduce tbl c.stack A n dp pid eoe = .ok c'.stack := by
  cases hr : reduce tbl c.stack A n dp pid eoe with
  | ok st => rw [hr] at h; cases h; exact ⟨rfl, rfl⟩
  | error f => rw [hr] at h; cases h

/-- What one step does to the configuration: a reduce (tokens unchanged) or a shift (head token consumed). -/
theorem step_shape (tbl : Table) (c c' : Conf) (h : step tbl c = .inl c') :
    (c'.toks = c.toks ∧ ∃ A n dp pid eoe, reduce tbl c.stack A n dp pid eoe = .ok c'.stack) ∨
    (∃ a s e, c.toks = a :: c'.toks ∧ c'.stack = (s, PTree.leaf a e) :: c.stack) := by
  unfold step at h
  simp only at h
  split at h
  · split at h
    · cases h
    · next A n dp pid _ =>
      have := reduce_inl_toks tbl c c' A n dp pid true h
      exact .inl ⟨this.1, A, n, dp, pid, true, this.2⟩
    · cases h
  · split at h
    · cases h
    · next s' extra rep _ =>
      cases htoks : c.toks with
      | nil => simp [htoks] at h
      | cons a rest =>
        simp only [htoks] at h
        cases extra with
        | true =>
          simp only [if_true] at h
          split at h
          · cases h
          · cases h; exact .inr ⟨a, _, true, rfl, rfl⟩
        | false =>
          simp only [Bool.false_eq_true, if_false] at h
          split at h
          · cases h
          · cases h; exact .inr ⟨a, _, false, rfl, rfl⟩
    · next A n dp pid _ =>
      have := reduce_inl_toks tbl c c' A n dp pid false h
      exact .inl ⟨this.1, A, n, dp, pid, false, this.2⟩
    · split at h
      · split at h <;> cases h
      · cases h
    · cases h
    · cases h

theorem step_toks_sub (tbl : Table) (c c' : Conf) (h : step tbl c = .inl c') : ∀ a, a ∈ c'.toks → a ∈ c.toks := by
  rcases step_shape tbl c c' h with ⟨ht, _⟩ | ⟨a, s, e, ht, _⟩
  · intro x hx; rw [← ht]; exact hx
  · intro x hx; rw [ht]; exact List.mem_cons_of_mem _ hx

/-- `driver_no_fault` for the loop, from any configuration satisfying the invariant. -/
theorem runLoop_no_fault (tbl : Table) (hc : Closed tbl) :
    ∀ (fuel : Nat) (c : Conf), StackInv tbl c.stack → (∀ a, a ∈ c.toks → a ≠ 0) →
      ∀ f, runLoop tbl fuel c ≠ .fault f := by
  intro fuel
  induction fuel with
  | zero => intro c _ _ f h; simp [runLoop] at h
  | succ k ih =>
    intro c hinv hnz f
    have hs := step_ok tbl hc c hinv hnz
    unfold runLoop
    cases hstep : step tbl c with
    | inl c' =>
      simp only
      exact ih c' (hs.1 c' hstep) (fun a ha => hnz a (step_toks_sub tbl c c' hstep a ha)) f
    | inr o =>
      simp only
      intro ho
      subst ho
      exact hs.2 f hstep

/-! ## yield -/

def stackLeaves : Stack → List Nat
  | [] => []
  | (_, t) :: rest => stackLeaves rest ++ t.leaves

theorem leavesL_append (xs ys : List PTree) : PTree.leavesL (xs ++ ys) = PTree.leavesL xs ++ PTree.leavesL ys := by
  induction xs with
  | nil => simp [PTree.leavesL]
  | cons x xs ih => simp [PTree.leavesL, ih]

theorem leavesL_singleton (t : PTree) : PTree.leavesL [t] = t.leaves := by simp [PTree.leavesL]

theorem popN_leaves : ∀ (st : Stack) (n : Nat) (ks : List PTree) (rest : Stack),
    popN n st = some (ks, rest) → stackLeaves st = stackLeaves rest ++ PTree.leavesL ks := by
  intro st
  induction st with
  | nil =>
    intro n ks rest h
    cases n with
    | zero => simp [popN] at h; obtain ⟨rfl, rfl⟩ := h; simp [stackLeaves, PTree.leavesL]
    | succ n => simp [popN] at h
  | cons e tl ih =>
    intro n ks rest h
    obtain ⟨s, t⟩ := e
    cases n with
    | zero => simp [popN] at h; obtain ⟨rfl, rfl⟩ := h; simp [PTree.leavesL]
    | succ n =>
      simp only [popN] at h
      cases hp : popN (if t.isExtra = true then n + 1 else n) tl with
      | none => simp [hp] at h
      | some r =>
        obtain ⟨ks', r'⟩ := r
        simp [hp] at h
        obtain ⟨rfl, rfl⟩ := h
        have := ih _ ks' r' hp
        simp [stackLeaves, this, leavesL_append, leavesL_singleton, List.append_assoc]

theorem splitTrailing_append (ks : List PTree) : (splitTrailing ks).1 ++ (splitTrailing ks).2 = ks := by
  unfold splitTrailing
  simp only
  rw [← List.reverse_append, List.takeWhile_append_dropWhile, List.reverse_reverse]

theorem stackLeaves_push (q : Nat) : ∀ (l : List PTree) (base : Stack),
    stackLeaves (l.map (fun t => (q, t)) ++ base) = stackLeaves base ++ PTree.leavesL l.reverse := by
  intro l
  induction l with
  | nil => intro base; simp [PTree.leavesL]
  | cons t ts ih =>
    intro base
    simp [stackLeaves, ih, leavesL_append, leavesL_singleton, List.append_assoc]

theorem reduce_leaves (tbl : Table) (st st' : Stack) (A n : Nat) (dp : Int) (pid : Nat) (eoe : Bool)
    (h : reduce tbl st A n dp pid eoe = .ok st') : stackLeaves st' = stackLeaves st := by
  unfold reduce at h
  cases hp : popN n st with
  | none => simp [hp] at h
  | some r =>
    obtain ⟨kids, rest⟩ := r
    simp only [hp] at h
    split at h
    · cases h
    · cases h
      rw [stackLeaves_push, popN_leaves st n kids rest hp]
      simp only [stackLeaves, PTree.leaves, List.reverse_reverse, List.append_assoc]
      rw [← leavesL_append, splitTrailing_append]

theorem acceptTree_leaves (st : Stack) (t : PTree) (h : acceptTree st = some t) :
    t.leaves = stackLeaves st ++ [0] := by
  have hst : ∀ (s : Stack), stackLeaves s = PTree.leavesL (s.map (·.2)).reverse := by
    intro s
    induction s with
    | nil => simp [stackLeaves, PTree.leavesL]
    | cons e tl ih => obtain ⟨q, x⟩ := e; simp [stackLeaves, ih, leavesL_append, leavesL_singleton]
  unfold acceptTree at h
  simp only at h
  split at h
  · next sym pid dp e kids beforeRev hdw =>
    cases h
    have hsplit := List.takeWhile_append_dropWhile (p := PTree.isExtra) (l := PTree.leaf 0 true :: st.map (·.2))
    rw [hdw] at hsplit
    have hrev : (st.map (·.2)).reverse ++ [PTree.leaf 0 true] =
        beforeRev.reverse ++ [PTree.node sym pid dp e kids] ++
          (List.takeWhile PTree.isExtra (PTree.leaf 0 true :: st.map (·.2))).reverse := by
      have := congrArg List.reverse hsplit
      simp only [List.reverse_append, List.reverse_cons] at this
      simp only [List.append_assoc] at this ⊢
      exact this.symm
    have h0 : stackLeaves st ++ [0] = PTree.leavesL ((st.map (·.2)).reverse ++ [PTree.leaf 0 true]) := by
      rw [leavesL_append, hst st, leavesL_singleton]; rfl
    rw [h0, hrev]
    simp only [PTree.leaves, leavesL_append, leavesL_singleton]
  · cases h

/-- The yield invariant of the loop. -/
theorem runLoop_yield (tbl : Table) : ∀ (fuel : Nat) (c : Conf) (t : PTree),
    runLoop tbl fuel c = .accepted t → t.leaves = stackLeaves c.stack ++ c.toks ++ [0] := by
  intro fuel
  induction fuel with
  | zero => intro c t h; simp [runLoop] at h
  | succ k ih =>
    intro c t h
    unfold runLoop at h
    cases hstep : step tbl c with
    | inl c' =>
      rw [hstep] at h
      simp only at h
      have := ih c' t h
      rcases step_shape tbl c c' hstep with ⟨ht, A, n, dp, pid, eoe, hr⟩ | ⟨a, s, e, ht, hs⟩
      · rw [this, ht, reduce_leaves tbl _ _ A n dp pid eoe hr]
      · rw [this, ht, hs]; simp [stackLeaves, PTree.leaves]
    | inr o =>
      rw [hstep] at h
      simp only at h
      subst h
      -- the only way to accept: the `accept` action with no tokens left
      unfold step at hstep
      simp only at hstep
      split at hstep
      · split at hstep
        · cases hstep
        · split at hstep <;> cases hstep
        · cases hstep
      · split at hstep
        · cases hstep
        · next s' extra rep _ =>
          split at hstep
          · cases hstep
          · cases extra with
            | true => simp only [if_true] at hstep; split at hstep <;> cases hstep
            | false => simp only [Bool.false_eq_true, if_false] at hstep; split at hstep <;> cases hstep
        · split at hstep <;> cases hstep
        · split at hstep
          · next htoks =>
            split at hstep
            · next t' hacc =>
              cases hstep
              rw [htoks, List.append_nil]
              exact acceptTree_leaves _ _ hacc
            · cases hstep
          · cases hstep
        · cases hstep
        · cases hstep

end TsVerif.C03
