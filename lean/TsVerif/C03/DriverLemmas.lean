import TsVerif.C03.Driver
/-!
# Lemmas for `driver_no_fault` and `driver_yield`
-/
namespace TsVerif.C03

/-! ## table lookups -/

theorem lookup_mem {β : Type} (k : Nat) (l : List (Nat × β)) (v : β) (h : l.lookup k = some v) : (k, v) ∈ l := by
  induction l with
  | nil => simp [List.lookup] at h
  | cons x xs ih =>
    obtain ⟨k', v'⟩ := x
    simp only [List.lookup] at h
    split at h
    · next heq =>
      have : k = k' := by simpa using heq
      cases h; subst this; exact List.mem_cons_self
    · exact List.mem_cons_of_mem _ (ih h)

theorem actions_mem (t : Table) (s a : Nat) (x : Action) (h : x ∈ t.actions s a) :
    (a, t.actions s a) ∈ t.acts.getD s [] := by
  unfold Table.actions at h ⊢
  generalize t.acts.getD s [] = row at *
  cases hl : row.lookup a with
  | none => rw [hl] at h; simp at h
  | some v => simpa [hl] using lookup_mem a _ v hl

theorem goto_mem (t : Table) (s A : Nat) (h : t.goto s A ≠ 0) : (A, t.goto s A) ∈ t.gotos.getD s [] := by
  unfold Table.goto at h ⊢
  generalize t.gotos.getD s [] = row at *
  cases hl : row.lookup A with
  | none => rw [hl] at h; simp at h
  | some v => simpa [hl] using lookup_mem A _ v hl

theorem effective_sub (as : List Action) (x : Action) (h : x ∈ effective as) : x ∈ as := by
  unfold effective at h
  exact (List.mem_filter.mp h).1

theorem effective_single (as : List Action) (x : Action) (h : effective as = [x]) : x ∈ as :=
  effective_sub as x (by rw [h]; exact List.mem_cons_self)

/-! ## predecessor sets -/

theorem mem_predsOf (tbl : Table) (p q : Nat) (hp : p < tbl.stateCount) (hp0 : p ≠ 0) (hq : q < tbl.stateCount)
    (he : hasEdge tbl p q = true) : p ∈ predsOf tbl q := by
  unfold predsOf
  simp [hq, List.mem_filter, hp, hp0, he]

theorem predTable_getD (tbl : Table) (q : Nat) : (predTable tbl).getD q [] = predsOf tbl q := by
  unfold predTable
  by_cases h : q < tbl.stateCount
  · simp [Array.getD, h]
  · simp [Array.getD, h, predsOf]

theorem tableClosed_iff (tbl : Table) : tableClosed tbl = closedWith tbl (predsOf tbl) := by
  unfold tableClosed
  have : (fun q => (predTable tbl).getD q []) = predsOf tbl := by
    funext q; exact predTable_getD tbl q
  simp only [this]

theorem back_shift (pr : Nat → List Nat) (s p x : Nat) (hp : p ∈ pr s) :
    ∀ n, x ∈ back pr p n → x ∈ back pr s (n + 1) := by
  intro n
  induction n generalizing x with
  | zero =>
    intro hx
    simp only [back, List.mem_singleton] at hx
    subst hx
    simp only [back, List.mem_eraseDups, List.mem_flatMap]
    exact ⟨s, by simp, hp⟩
  | succ n ih =>
    intro hx
    simp only [back, List.mem_eraseDups, List.mem_flatMap] at hx
    obtain ⟨q, hq, hxq⟩ := hx
    have := ih q (by simpa [back] using hq)
    show x ∈ back pr s (n + 1 + 1)
    simp only [back, List.mem_eraseDups, List.mem_flatMap]
    exact ⟨q, by simpa [back] using this, hxq⟩

/-! ## the stack invariant -/

/-- Every entry's state exists, is not the error state, and is connected to the state below it:
an extra entry keeps the state, a non-extra entry follows a table transition. -/
def PTree.isLeaf : PTree → Bool
  | .leaf _ _ => true
  | .node _ _ _ _ _ => false

def StackInv (tbl : Table) : Stack → Prop
  | [] => True
  | (s, t) :: rest =>
    s ≠ 0 ∧ s < tbl.stateCount ∧
    (if t.isExtra = true then s = topState rest
     else topState rest ∈ predsOf tbl s ∧ (t.isLeaf = true → isShiftTarget tbl s = true)) ∧
    StackInv tbl rest

theorem topState_ok (tbl : Table) (h1 : 1 < tbl.stateCount) (st : Stack) (h : StackInv tbl st) :
    topState st ≠ 0 ∧ topState st < tbl.stateCount := by
  cases st with
  | nil => simp [topState]; omega
  | cons e rest =>
    obtain ⟨s, t⟩ := e
    simp only [StackInv] at h
    exact ⟨h.1, h.2.1⟩

theorem popN_some (tbl : Table) : ∀ (st : Stack) (n : Nat) (ks : List PTree) (rest : Stack),
    StackInv tbl st → popN n st = some (ks, rest) →
    StackInv tbl rest ∧ topState rest ∈ back (predsOf tbl) (topState st) n := by
  intro st
  induction st with
  | nil =>
    intro n ks rest _ h
    cases n with
    | zero => simp [popN] at h; obtain ⟨_, rfl⟩ := h; simp [StackInv, back]
    | succ n => simp [popN] at h
  | cons e tl ih =>
    intro n ks rest hinv h
    obtain ⟨s, t⟩ := e
    cases n with
    | zero =>
      simp [popN] at h; obtain ⟨_, rfl⟩ := h
      exact ⟨hinv, by simp [back, topState]⟩
    | succ n =>
      simp only [popN] at h
      simp only [StackInv] at hinv
      obtain ⟨_, _, hlink, htl⟩ := hinv
      cases hx : t.isExtra with
      | true =>
        simp only [hx, if_true] at h hlink
        cases hp : popN (n + 1) tl with
        | none => simp [hp] at h
        | some r =>
          obtain ⟨ks', r'⟩ := r
          simp [hp] at h
          obtain ⟨_, rfl⟩ := h
          have := ih (n + 1) ks' r' htl hp
          simp only [topState]
          rw [hlink]
          exact this
      | false =>
        simp only [hx] at h hlink
        simp only [Bool.false_eq_true, if_false] at h hlink
        cases hp : popN n tl with
        | none => simp [hp] at h
        | some r =>
          obtain ⟨ks', r'⟩ := r
          simp [hp] at h
          obtain ⟨_, rfl⟩ := h
          have := ih n ks' r' htl hp
          refine ⟨this.1, ?_⟩
          simp only [topState]
          exact back_shift _ s _ _ hlink.1 n this.2

theorem popN_none (tbl : Table) : ∀ (st : Stack) (n : Nat),
    StackInv tbl st → popN n st = none → ∃ k, k < n ∧ 1 ∈ back (predsOf tbl) (topState st) k := by
  intro st
  induction st with
  | nil =>
    intro n _ h
    cases n with
    | zero => simp [popN] at h
    | succ n => exact ⟨0, by omega, by simp [back, topState]⟩
  | cons e tl ih =>
    intro n hinv h
    obtain ⟨s, t⟩ := e
    cases n with
    | zero => simp [popN] at h
    | succ n =>
      simp only [popN] at h
      simp only [StackInv] at hinv
      obtain ⟨_, _, hlink, htl⟩ := hinv
      cases hx : t.isExtra with
      | true =>
        simp only [hx, if_true] at h hlink
        cases hp : popN (n + 1) tl with
        | some r => simp [hp] at h
        | none =>
          obtain ⟨k, hk, h1⟩ := ih (n + 1) htl hp
          refine ⟨k, hk, ?_⟩
          simp only [topState]; rw [hlink]; exact h1
      | false =>
        simp only [hx] at h hlink
        simp only [Bool.false_eq_true, if_false] at h hlink
        cases hp : popN n tl with
        | some r => simp [hp] at h
        | none =>
          obtain ⟨k, hk, h1⟩ := ih n htl hp
          refine ⟨k + 1, by omega, ?_⟩
          simp only [topState]
          exact back_shift _ s _ _ hlink.1 k h1

/-! ## what `closedWith` gives -/

structure Closed (tbl : Table) : Prop where
  one : 1 < tbl.stateCount
  act : ∀ s a x, s < tbl.stateCount → s ≠ 0 → x ∈ tbl.actions s a → actionOK tbl (predsOf tbl) s a x = true

theorem closed_of_tableClosed (tbl : Table) (h : tableClosed tbl = true) : Closed tbl := by
  rw [tableClosed_iff] at h
  unfold closedWith at h
  simp only [Bool.and_eq_true, decide_eq_true_eq, List.all_eq_true, List.mem_range, Bool.or_eq_true, beq_iff_eq] at h
  refine ⟨h.1, ?_⟩
  intro s a x hs hs0 hx
  have hrow := actions_mem tbl s a x hx
  rcases h.2 s hs with h0 | hr
  · exact absurd h0 hs0
  · exact hr (a, tbl.actions s a) hrow x hx

theorem mem_shiftTargets (as : List Action) (s' : Nat) (r : Bool) (h : Action.shift s' false r ∈ as) :
    s' ∈ shiftTargets as := by
  unfold shiftTargets
  simp only [List.mem_filterMap]
  exact ⟨_, h, rfl⟩

theorem shift_edge (tbl : Table) (s a s' : Nat) (r : Bool) (h : Action.shift s' false r ∈ tbl.actions s a) :
    hasEdge tbl s s' = true := by
  unfold hasEdge
  simp only [Bool.or_eq_true, List.any_eq_true]
  left
  exact ⟨(a, tbl.actions s a), actions_mem tbl s a _ h, by simpa using mem_shiftTargets _ _ _ h⟩

theorem shift_target (tbl : Table) (s a s' : Nat) (r : Bool) (hs : s < tbl.stateCount)
    (h : Action.shift s' false r ∈ tbl.actions s a) : isShiftTarget tbl s' = true := by
  unfold isShiftTarget
  simp only [List.any_eq_true, List.mem_range]
  exact ⟨s, hs, (a, tbl.actions s a), actions_mem tbl s a _ h, by simpa using mem_shiftTargets _ _ _ h⟩

theorem goto_edge (tbl : Table) (p A : Nat) (h : tbl.goto p A ≠ 0)
    (hpl : p = tbl.goto p A → plainReduced tbl A = true) : hasEdge tbl p (tbl.goto p A) = true := by
  unfold hasEdge
  simp only [Bool.or_eq_true, List.any_eq_true]
  right
  refine ⟨(A, tbl.goto p A), goto_mem tbl p A h, ?_⟩
  simp only [beq_self_eq_true, Bool.true_and, Bool.or_eq_true, bne_iff_ne, ne_eq]
  by_cases hpq : p = tbl.goto p A
  · right; exact hpl hpq
  · left; exact hpq

theorem plainReduced_of (tbl : Table) (s a A n : Nat) (dp : Int) (pid : Nat) (hs : s < tbl.stateCount)
    (hl : tbl.lexEnd s = false) (h : Action.reduce A n dp pid ∈ tbl.actions s a) : plainReduced tbl A = true := by
  unfold plainReduced
  simp only [List.any_eq_true, List.mem_range, Bool.and_eq_true, Bool.not_eq_true']
  refine ⟨s, hs, hl, (a, tbl.actions s a), actions_mem tbl s a _ h, ?_⟩
  unfold hasReduceOf
  simp only [List.any_eq_true]
  exact ⟨_, h, by simp⟩

theorem inv_push_extras (tbl : Table) (q : Nat) (hq0 : q ≠ 0) (hq : q < tbl.stateCount) :
    ∀ (l : List PTree) (base : Stack), StackInv tbl base → topState base = q →
      (∀ t, t ∈ l → t.isExtra = true) →
      StackInv tbl (l.map (fun t => (q, t)) ++ base) ∧ topState (l.map (fun t => (q, t)) ++ base) = q := by
  intro l
  induction l with
  | nil => intro base hb ht _; exact ⟨hb, ht⟩
  | cons t ts ih =>
    intro base hb ht hall
    have := ih base hb ht (fun x hx => hall x (List.mem_cons_of_mem _ hx))
    refine ⟨?_, by simp [topState]⟩
    simp only [List.map_cons, List.cons_append, StackInv]
    refine ⟨hq0, hq, ?_, this.1⟩
    simp only [hall t List.mem_cons_self, if_true]
    exact this.2.symm

theorem mem_takeWhile_imp' {α : Type} (p : α → Bool) : ∀ (l : List α) (a : α), a ∈ l.takeWhile p → p a = true := by
  intro l
  induction l with
  | nil => intro a h; simp at h
  | cons x xs ih =>
    intro a h
    simp only [List.takeWhile] at h
    split at h
    · next hx =>
      rcases List.mem_cons.mp h with rfl | h'
      · exact hx
      · exact ih a h'
    · simp at h

theorem splitTrailing_extras (ks : List PTree) : ∀ t, t ∈ (splitTrailing ks).2.reverse → t.isExtra = true := by
  intro t ht
  simp only [splitTrailing, List.reverse_reverse] at ht
  exact mem_takeWhile_imp' _ _ _ ht

/-- A reduce never faults on a closed table, and keeps the invariant. -/
theorem reduce_ok (tbl : Table) (hc : Closed tbl) (st : Stack) (hinv : StackInv tbl st)
    (A n : Nat) (dp : Int) (pid : Nat) (eoe : Bool)
    (hok : reduceOK tbl (predsOf tbl) (topState st) A n = true)
    (hpl : eoe = false → plainReduced tbl A = true) :
    ∃ st', reduce tbl st A n dp pid eoe = .ok st' ∧ StackInv tbl st' := by
  unfold reduceOK at hok
  simp only [Bool.and_eq_true, List.all_eq_true, List.mem_range, Bool.not_eq_true', bne_iff_ne, ne_eq,
    decide_eq_true_eq] at hok
  obtain ⟨hbase, hgoto⟩ := hok
  unfold reduce
  cases hp : popN n st with
  | none =>
    obtain ⟨k, hk, h1⟩ := popN_none tbl st n hinv hp
    have := hbase k hk
    simp [h1] at this
  | some r =>
    obtain ⟨kids, rest⟩ := r
    obtain ⟨hrest, hback⟩ := popN_some tbl st n kids rest hinv hp
    have hg := hgoto _ hback
    simp only
    have hq0 : tbl.goto (topState rest) A ≠ 0 := hg.1
    have hqS : tbl.goto (topState rest) A < tbl.stateCount := hg.2
    have hno : ¬ (tbl.goto (topState rest) A = 0 ∨ tbl.stateCount ≤ tbl.goto (topState rest) A) := by omega
    simp only [hno, if_false]
    refine ⟨_, rfl, ?_⟩
    obtain ⟨hp0, hpS⟩ := topState_ok tbl hc.one rest hrest
    have hbaseInv : StackInv tbl ((tbl.goto (topState rest) A,
        PTree.node A pid (dp + sumDyn (splitTrailing kids).1) (eoe && tbl.goto (topState rest) A == topState rest)
          (splitTrailing kids).1) :: rest) := by
      simp only [StackInv]
      refine ⟨hq0, hqS, ?_, hrest⟩
      simp only [PTree.isExtra, PTree.isLeaf]
      by_cases hx : (eoe && tbl.goto (topState rest) A == topState rest) = true
      · simp only [hx, if_true]
        simp only [Bool.and_eq_true, beq_iff_eq] at hx
        exact hx.2
      · simp only [hx]
        simp only [Bool.false_eq_true, if_false, false_implies, and_true]
        apply mem_predsOf tbl _ _ hpS hp0 hqS
        apply goto_edge tbl _ _ hq0
        intro heq
        apply hpl
        cases eoe with
        | false => rfl
        | true => exfalso; apply hx; simp [← heq]
    exact (inv_push_extras tbl _ hq0 hqS _ _ hbaseInv (by simp [topState]) (splitTrailing_extras kids)).1

end TsVerif.C03
