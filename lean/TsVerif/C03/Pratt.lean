import TsVerif.C03.Derive
/-!
# C03 — operator tables and the precedence-climbing (Pratt) parser

An operator table declares binary operators (level, left/right associativity) and prefix operators
(level).  `opGrammar` is the tree-sitter grammar the harness generates for a table (the Lean driver
checks that the grammar.json it was handed *is* this grammar); `pratt` is the reference parser.
Decision rule (the one tree-sitter documents for `prec` / `prec.left/right`): with a pending operator of
level `lv` to the left and an incoming binary or postfix operator of level `p`, continue to the
right (shift) iff `p > lv`, or `p = lv` and the pending operator is right-associative; when several
rules share the incoming operator's text, every such rule's level is a reading of the token
(`shouldShift` on the list of levels, as `handle_conflict` compares every shift item).  A rule
without any PREC wrapper has the default precedence, which compares like the integer 0 against
integer precedences (negative levels bind weaker than an un-annotated rule, positive ones tighter).
-/
namespace TsVerif.C03

structure BinOp where
  text : String
  level : Int
  right : Bool
  rule : String
  deriving DecidableEq, Repr, Inhabited

/-- a prefix or postfix operator; `annotated = false`: the rule has no PREC wrapper at all, its
precedence is the default, which compares like the integer 0 -/
structure UnOp where
  text : String
  level : Int
  rule : String
  annotated : Bool := true
  deriving DecidableEq, Repr, Inhabited

structure OpTable where
  bin : List BinOp := []
  un : List UnOp := []
  post : List UnOp := []
  deriving Repr, Inhabited

inductive OpTok where
  | atom | lpar | rpar
  | bin (k : Nat)
  | un (k : Nat)
  | post (k : Nat)
  deriving DecidableEq, Repr, Inhabited

inductive ETree where
  | atom
  | paren (e : ETree)
  | bin (k : Nat) (l r : ETree)
  | un (k : Nat) (e : ETree)
  | post (k : Nat) (e : ETree)
  deriving DecidableEq, Repr, Inhabited

namespace OpTable
def binLevel (t : OpTable) (k : Nat) : Int := (t.bin.getD k default).level
def binRight (t : OpTable) (k : Nat) : Bool := (t.bin.getD k default).right
def unLevel (t : OpTable) (k : Nat) : Int := (t.un.getD k default).level
def postLevel (t : OpTable) (k : Nat) : Int := (t.post.getD k default).level
/-- the levels an incoming binary operator token can be shifted with: one per rule that uses the
token's text (usually one; several when rules share an operator, e.g. `sub = prec.left(1, e - e)` and
`range = prec.right(2, e - e)`) -/
def binIn (t : OpTable) (k : Nat) : List Int :=
  (t.bin.filter fun b => b.text == (t.bin.getD k default).text).map (·.level)
def postIn (t : OpTable) (k : Nat) : List Int := [t.postLevel k]
/-- the rule a completed `e text e` is reduced with when several rules share the text: the one of
the greatest level (`none` on a tie: an unresolved reduce/reduce conflict) -/
def binWinner (t : OpTable) (text : String) : Option Nat :=
  let cands := (List.range t.bin.length).filter fun i => (t.bin.getD i default).text == text
  match cands.foldl (fun (best : Option Nat) i => match best with
      | none => some i
      | some j => if t.binLevel i > t.binLevel j then some i else some j) none with
  | some j => if (cands.filter fun i => t.binLevel i == t.binLevel j).length == 1 then some j else none
  | none => none
end OpTable

/-- The pending operator to the left: its level and whether an equal level continues to the right. -/
abbrev PCtx := Option (Int × Bool)

/-- `ps`: the levels the incoming operator can be shifted with.  All of them above the pending level:
continue; all of them equal: the pending operator's associativity decides; none above and one
below: complete the pending operator — except that a tie together with a lower reading continues
when the pending operator is right-associative (the lower reading alone must not flip the tie);
readings both above and below are an unresolved conflict (the generator rejects the grammar). -/
def shouldShift (ctx : PCtx) (ps : List Int) : Bool :=
  match ctx with
  | none => true
  | some (lv, onEq) =>
    let more := ps.any fun p => decide (p > lv)
    let less := ps.any fun p => decide (p < lv)
    let eq := ps.any fun p => decide (p = lv)
    if more && !less then true
    else if less && !more then eq && onEq
    else if !less && !more then onEq
    else false

/-- Can the pending operator `ctx = (level, associativity)` be weighed against an incoming operator
with the readings `ps`?  Not when readings lie both above and below the pending level, and not when
all readings tie and the pending operator has no associativity (a prefix operator). -/
def decidable (lv : Int) (assoc : Bool) (ps : List Int) : Bool :=
  let more := ps.any fun p => decide (p > lv)
  let less := ps.any fun p => decide (p < lv)
  !(more && less) && (more || less || assoc)

/-- Every conflict of the operator grammar is resolved by the declared precedences: operators that
share a text have one rule of greatest level, and every pending operator (the winning binary rules,
the prefix operators) can be weighed against every incoming binary / postfix operator.  Such a table's
grammar must be accepted by the generator; any other is rejected as an unresolved conflict. -/
def OpTable.resolvable (t : OpTable) : Bool :=
  (t.bin.all fun b => (t.binWinner b.text).isSome) &&
  let incoming := (List.range t.bin.length).map t.binIn ++ (List.range t.post.length).map t.postIn
  let winners := (List.range t.bin.length).filter fun i => t.binWinner (t.bin.getD i default).text == some i
  (winners.all fun i => incoming.all fun ps => decidable (t.binLevel i) true ps) &&
  ((List.range t.un.length).all fun u => incoming.all fun ps => decidable (t.unLevel u) false ps)

mutual
  def parseExpr (t : OpTable) : Nat → PCtx → List OpTok → Option (ETree × List OpTok)
    | 0, _, _ => none
    | f + 1, ctx, toks =>
      match parsePrefix t f toks with
      | some (lhs, rest) => parseLoop t f ctx lhs rest
      | none => none
  def parsePrefix (t : OpTable) : Nat → List OpTok → Option (ETree × List OpTok)
    | 0, _ => none
    | f + 1, toks =>
      match toks with
      | .atom :: r => some (.atom, r)
      | .lpar :: r =>
        match parseExpr t f none r with
        | some (e, .rpar :: r') => some (.paren e, r')
        | _ => none
      | .un k :: r =>
        match parseExpr t f (some (t.unLevel k, false)) r with
        | some (e, r') => some (.un k e, r')
        | none => none
      | _ => none
  def parseLoop (t : OpTable) : Nat → PCtx → ETree → List OpTok → Option (ETree × List OpTok)
    | 0, _, _, _ => none
    | f + 1, ctx, lhs, toks =>
      match toks with
      | .bin k :: r =>
        if shouldShift ctx (t.binIn k) then
          match parseExpr t f (some (t.binLevel k, t.binRight k)) r with
          | some (rhs, r') => parseLoop t f ctx (.bin k lhs rhs) r'
          | none => none
        else some (lhs, toks)
      | .post k :: r =>
        -- a postfix operator completes at once: no operand to its right, nothing stays pending
        if shouldShift ctx (t.postIn k) then parseLoop t f ctx (.post k lhs) r
        else some (lhs, toks)
      | _ => some (lhs, toks)
end

def pratt (t : OpTable) (toks : List OpTok) : Option ETree :=
  match parseExpr t (4 * toks.length + 8) none toks with
  | some (e, []) => some e
  | _ => none

/-- the tokens of an expression tree, in order -/
def ETree.yield : ETree → List OpTok
  | .atom => [.atom]
  | .paren e => .lpar :: e.yield ++ [.rpar]
  | .bin k l r => l.yield ++ .bin k :: r.yield
  | .un k e => .un k :: e.yield
  | .post k e => e.yield ++ [.post k]

/-- The grammar the harness writes for an operator table (harness/src/bin/c03/gram.rs `op_grammar`). -/
def opGrammarRules (t : OpTable) : List (String × Rule) :=
  -- binary operators that carry the same rule name are alternatives of one rule
  let binNames := (t.bin.map (·.rule)).eraseDups
  [("program", Rule.sym "_e"),
   ("_e", choiceOf ([Rule.sym "num", Rule.sym "paren"] ++ binNames.map (fun n => Rule.sym n) ++
      t.un.map (fun u => Rule.sym u.rule) ++ t.post.map (fun u => Rule.sym u.rule)))] ++
  binNames.map (fun n => (n, choiceOf ((t.bin.filter fun b => b.rule == n).map fun b =>
      Rule.prec (if b.right then .right else .left) b.level
        (seqOf [Rule.sym "_e", Rule.str b.text, Rule.sym "_e"])))) ++
  t.un.map (fun u => (u.rule,
    if u.annotated then Rule.prec .plain u.level (seqOf [Rule.str u.text, Rule.sym "_e"])
    else seqOf [Rule.str u.text, Rule.sym "_e"])) ++
  t.post.map (fun u => (u.rule,
    if u.annotated then Rule.prec .plain u.level (seqOf [Rule.sym "_e", Rule.str u.text])
    else seqOf [Rule.sym "_e", Rule.str u.text])) ++
  [("paren", seqOf [Rule.str "(", Rule.sym "_e", Rule.str ")"]),
   ("num", Rule.pat "[0-9]+")]

def leafV (k : String) (named : Bool) : VNode := .mk k named false none []

/-- The visible tree tree-sitter is expected to build for an expression tree. -/
def ETree.toV (t : OpTable) : ETree → VNode
  | .atom => leafV "num" true
  | .paren e => .mk "paren" true false none [leafV "(" false, e.toV t, leafV ")" false]
  | .bin k l r =>
    let b := t.bin.getD k default
    .mk b.rule true false none [l.toV t, leafV b.text false, r.toV t]
  | .un k e =>
    let u := t.un.getD k default
    .mk u.rule true false none [leafV u.text false, e.toV t]
  | .post k e =>
    let u := t.post.getD k default
    .mk u.rule true false none [e.toV t, leafV u.text false]

def progV (t : OpTable) (e : ETree) : VNode := .mk "program" true false none [e.toV t]

end TsVerif.C03
