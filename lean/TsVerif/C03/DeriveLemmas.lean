import TsVerif.C03.Derive
/-!
# Soundness of the derivation checker (`check_sound`)
-/
namespace TsVerif.C03

theorem dedupLen_sub : ∀ (l : List (List VNode)) (x : List VNode), x ∈ dedupLen l → x ∈ l := by
  intro l
  induction l with
  | nil => intro x h; simp [dedupLen] at h
  | cons y ys ih =>
    intro x h
    simp only [dedupLen] at h
    split at h
    · exact List.mem_cons_of_mem _ (ih x h)
    · rcases List.mem_cons.mp h with rfl | h'
      · exact List.mem_cons_self
      · exact List.mem_cons_of_mem _ (ih x h')

theorem leafFor_eta (c : MCtx) (k : String) (named : Bool) :
    leafFor c k named = .mk (leafFor c k named).kind (leafFor c k named).named false c.effField [] := by
  unfold leafFor
  split <;> rfl

theorem matchLeaf_sound (c : MCtx) (k : String) (named : Bool) (cs rem : List VNode)
    (h : rem ∈ matchLeaf c k named cs) : cs = [leafFor c k named] ++ rem := by
  unfold matchLeaf at h
  split at h
  · next k' n' f' rest =>
    simp only at h
    split at h
    · next hc =>
      simp only [List.mem_singleton] at h
      subst h
      obtain ⟨h1, h2, h3⟩ := hc
      rw [leafFor_eta c k named, h1, h2, h3]
      rfl
    · simp at h
  · simp at h

theorem matchHidden_sound (c : MCtx) (cs rem : List VNode) (h : rem ∈ matchHiddenOrAliased c cs) :
    (c.effAlias = none ∧ cs = rem) ∨ (∃ v n, c.effAlias = some (v, n) ∧ cs = [.mk v n false c.effField []] ++ rem) := by
  unfold matchHiddenOrAliased at h
  split at h
  · next ha => left; simp only [List.mem_singleton] at h; exact ⟨ha, h.symm⟩
  · next v n ha =>
    right
    split at h
    · next k' n' f' rest =>
      split at h
      · next hc =>
        simp only [List.mem_singleton] at h
        subst h
        obtain ⟨h1, h2, h3⟩ := hc
        exact ⟨v, n, ha, by rw [h1, h2, h3]; rfl⟩
      · simp at h
    · simp at h

theorem token_case (g : Grammar) (a : Rule) (c : MCtx) (cs rem : List VNode)
    (mkStr : ∀ s, tokenString a = some s → Matches g (.token a) c [leafFor c s false])
    (mkHid : tokenString a = none → c.effAlias = none → Matches g (.token a) c [])
    (mkAl : ∀ v n, tokenString a = none → c.effAlias = some (v, n) → Matches g (.token a) c [.mk v n false c.effField []])
    (h : rem ∈ (match tokenString a with
                | some s => matchLeaf c s false cs
                | none => matchHiddenOrAliased c cs)) :
    ∃ pre, cs = pre ++ rem ∧ Matches g (.token a) c pre := by
  split at h
  · next s hs => exact ⟨_, matchLeaf_sound c s false cs rem h, mkStr s hs⟩
  · next hs =>
    rcases matchHidden_sound c cs rem h with ⟨ha, rfl⟩ | ⟨v, n, ha, hcs⟩
    · exact ⟨[], rfl, mkHid hs ha⟩
    · exact ⟨_, hcs, mkAl v n hs ha⟩

/-- soundness of the parameterised matcher: whatever `cb` accepts being a derivation, what the matcher
consumes is matched by the rule -/
theorem matchP_sound (g : Grammar) (cb : Rule → List VNode → Bool)
    (hcb : ∀ b kids, cb b kids = true → NodeBody g b kids) :
    ∀ (f : Nat) (r : Rule) (c : MCtx) (cs rem : List VNode), rem ∈ matchRuleP g cb f r c cs →
      ∃ pre, cs = pre ++ rem ∧ Matches g r c pre := by
  intro f
  induction f with
  | zero => intro r c cs rem h; simp [matchRuleP] at h
  | succ f ihM =>
    intro r c cs rem h
    unfold matchRuleP at h
    cases r with
    | blank =>
      simp only [List.mem_singleton] at h
      exact ⟨[], by simp [h], .blank⟩
    | str s => exact ⟨_, matchLeaf_sound c s false cs rem h, .str⟩
    | pat p =>
      rcases matchHidden_sound c cs rem h with ⟨ha, rfl⟩ | ⟨v, n, ha, hcs⟩
      · exact ⟨[], rfl, .patHidden ha⟩
      · exact ⟨_, hcs, .patAliased ha⟩
    | token a =>
      exact token_case g a c cs rem (fun s hs => .tokenStr hs) (fun hs ha => .tokenHidden hs ha)
        (fun v n hs ha => .tokenAliased hs ha) h
    | immToken a =>
      simp only at h
      split at h
      · next s hs => exact ⟨_, matchLeaf_sound c s false cs rem h, .immTokenStr hs⟩
      · next hs =>
        rcases matchHidden_sound c cs rem h with ⟨ha, rfl⟩ | ⟨v, n, ha, hcs⟩
        · exact ⟨[], rfl, .immTokenHidden hs ha⟩
        · exact ⟨_, hcs, .immTokenAliased hs ha⟩
    | seq a b =>
      have h := dedupLen_sub _ _ h
      simp only [List.mem_flatMap] at h
      obtain ⟨r1, hr1, hr2⟩ := h
      obtain ⟨p1, hc1, hm1⟩ := ihM a c cs r1 hr1
      obtain ⟨p2, hc2, hm2⟩ := ihM b c r1 rem hr2
      exact ⟨p1 ++ p2, by rw [hc1, hc2, List.append_assoc], .seq hm1 hm2⟩
    | choice a b =>
      have h := dedupLen_sub _ _ h
      rcases List.mem_append.mp h with h | h
      · obtain ⟨p, hc, hm⟩ := ihM a c cs rem h; exact ⟨p, hc, .choiceL hm⟩
      · obtain ⟨p, hc, hm⟩ := ihM b c cs rem h; exact ⟨p, hc, .choiceR hm⟩
    | rep a =>
      simp only at h
      split at h
      · next hal =>
        rcases List.mem_cons.mp h with rfl | h
        · exact ⟨[], rfl, .repNil⟩
        · have h := dedupLen_sub _ _ h
          simp only [List.mem_flatMap] at h
          obtain ⟨r1, hr1, hr2⟩ := h
          split at hr2
          · obtain ⟨p1, hc1, hm1⟩ := ihM a _ cs r1 hr1
            obtain ⟨p2, hc2, hm2⟩ := ihM (.rep a) c r1 rem hr2
            exact ⟨p1 ++ p2, by rw [hc1, hc2, List.append_assoc], .repCons hal hm1 hm2⟩
          · simp at hr2
      · next v n hal =>
        rcases List.mem_cons.mp h with rfl | h
        · exact ⟨[], rfl, .repNil⟩
        · rcases List.mem_append.mp h with h | h
          rotate_left
          · split at h
            · next x rest =>
              split at h
              · next hc =>
                simp only [List.mem_singleton] at h
                subst h
                obtain ⟨hfa, hc⟩ := hc
                simp only [List.any_eq_true, List.isEmpty_iff] at hc
                obtain ⟨rem', hrem', hnil⟩ := hc
                subst hnil
                obtain ⟨p, hcp, hm⟩ := ihM a _ _ [] hrem'
                simp only [List.append_nil] at hcp
                exact ⟨[_], rfl, .repAliasedUnit hal hfa (by rw [hcp]; exact hm)⟩
              · simp at h
            · simp at h
          split at h
          · next k' n' f' kids rest =>
            split at h
            · next hc =>
              simp only [List.mem_singleton] at h
              subst h
              obtain ⟨h1, h2, h3, h5⟩ := hc
              subst h1 h2 h3
              exact ⟨[_], rfl, .repAliased hal (hcb _ _ h5)⟩
            · simp at h
          · simp at h
    | rep1 a =>
      simp only at h
      split at h
      · next hal =>
        have h := dedupLen_sub _ _ h
        simp only [List.mem_flatMap] at h
        obtain ⟨r1, hr1, hr2⟩ := h
        obtain ⟨p1, hc1, hm1⟩ := ihM a _ cs r1 hr1
        obtain ⟨p2, hc2, hm2⟩ := ihM (.rep a) c r1 rem hr2
        exact ⟨p1 ++ p2, by rw [hc1, hc2, List.append_assoc], .rep1 hal hm1 hm2⟩
      · next v n hal =>
        rcases List.mem_append.mp h with h | h
        rotate_left
        · split at h
          · next x rest =>
            split at h
            · next hc =>
              simp only [List.mem_singleton] at h
              subst h
              obtain ⟨hfa, hc⟩ := hc
              simp only [List.any_eq_true, List.isEmpty_iff] at hc
              obtain ⟨rem', hrem', hnil⟩ := hc
              subst hnil
              obtain ⟨p, hcp, hm⟩ := ihM a _ _ [] hrem'
              simp only [List.append_nil] at hcp
              exact ⟨[_], rfl, .rep1AliasedUnit hal hfa (by rw [hcp]; exact hm)⟩
            · simp at h
          · simp at h
        split at h
        · next k' n' f' kids rest =>
          split at h
          · next hc =>
            simp only [List.mem_singleton] at h
            subst h
            obtain ⟨h1, h2, h3, h5⟩ := hc
            subst h1 h2 h3
            exact ⟨[_], rfl, .rep1Aliased hal (hcb _ _ h5)⟩
          · simp at h
        · simp at h
    | field n a =>
      obtain ⟨p, hc, hm⟩ := ihM _ _ cs rem h
      exact ⟨p, hc, .field hm⟩
    | «alias» v n a =>
      obtain ⟨p, hc, hm⟩ := ihM _ _ cs rem h
      exact ⟨p, hc, .alias hm⟩
    | prec k v a =>
      obtain ⟨p, hc, hm⟩ := ihM _ _ cs rem h
      exact ⟨p, hc, .prec hm⟩
    | unknown ty => simp at h
    | sym x =>
      simp only at h
      split at h
      · next hb =>
        -- no rule of that name: an external token
        split at h
        · next hk =>
          simp only [List.mem_singleton] at h
          exact ⟨[], by simp [h], .symExternalHidden hb hk⟩
        · next k n hk =>
          split at h
          · next k' n' f' rest =>
            split at h
            · next hc =>
              simp only [List.mem_singleton] at h
              subst h
              obtain ⟨h1, h2, h3⟩ := hc
              subst h1 h2 h3
              exact ⟨[_], rfl, .symExternalVisible hb hk⟩
            · simp at h
          · simp at h
      · next b hb =>
        split at h
        · next hk =>
          rcases List.mem_append.mp h with h | h
          · split at h
            · next ht =>
              simp only [List.mem_singleton] at h
              exact ⟨[], by simp [h], .symHiddenToken hb hk ht⟩
            · simp at h
          · obtain ⟨p, hc, hm⟩ := ihM b _ cs rem h
            exact ⟨p, hc, .symHidden hb hk hm⟩
        · next k n hk =>
          rcases List.mem_append.mp h with h | h
          rotate_left
          · split at h
            · next y rest =>
              split at h
              · next hc =>
                simp only [List.mem_singleton] at h
                subst h
                obtain ⟨hh, hfa, hc⟩ := hc
                simp only [List.any_eq_true, List.isEmpty_iff] at hc
                obtain ⟨rem', hrem', hnil⟩ := hc
                subst hnil
                obtain ⟨p, hcp, hm⟩ := ihM b _ _ [] hrem'
                simp only [List.append_nil] at hcp
                exact ⟨[_], rfl, .symAliasedUnit hb hh hk hfa (by rw [hcp]; exact hm)⟩
              · simp at h
            · simp at h
          split at h
          · next k' n' f' kids rest =>
            split at h
            · next hc =>
              simp only [List.mem_singleton] at h
              subst h
              obtain ⟨h1, h2, h3, h4⟩ := hc
              subst h1 h2 h3
              exact ⟨[_], rfl, .symVisible hb hk (hcb b _ h4)⟩
            · simp at h
          · simp at h

theorem extraP_sound (g : Grammar) (cb : Rule → List VNode → Bool)
    (hcb : ∀ b kids, cb b kids = true → NodeBody g b kids) (f : Nat) (k : VNode)
    (h : extraP g cb f k = true) : ExtraOK g k := by
  obtain ⟨kd, n, x, fl, kids⟩ := k
  unfold extraP at h
  simp only [List.any_eq_true, List.isEmpty_iff] at h
  obtain ⟨e, he, rem, hrem, hnil⟩ := h
  subst hnil
  obtain ⟨p, hc, hm⟩ := matchP_sound g cb hcb f e _ _ [] hrem
  simp only [List.append_nil] at hc
  exact .mk he (by rw [hc]; exact hm)

theorem bodyP_sound (g : Grammar) (cb : Rule → List VNode → Bool)
    (hcb : ∀ b kids, cb b kids = true → NodeBody g b kids) (f : Nat) (b : Rule) (kids : List VNode)
    (h : bodyP g cb f b kids = true) : NodeBody g b kids := by
  unfold bodyP at h
  simp only [Bool.or_eq_true, Bool.and_eq_true, List.isEmpty_iff, List.any_eq_true, List.all_eq_true,
    Bool.not_eq_true'] at h
  rcases h with ⟨ht, hk⟩ | ⟨⟨rem, hrem, hnil⟩, hex⟩
  · subst hk; exact .token ht
  · subst hnil
    obtain ⟨p, hc, hm⟩ := matchP_sound g cb hcb f b {} (nonExtra kids) [] hrem
    simp only [List.append_nil] at hc
    refine .inner (by rw [hc]; exact hm) ?_
    intro k hk hke
    rcases hex k hk with h0 | h1
    · rw [hke] at h0; cases h0
    · exact extraP_sound g cb hcb f k h1

theorem checkBody_sound (g : Grammar) : ∀ (f : Nat) (b : Rule) (kids : List VNode),
    checkBody g f b kids = true → NodeBody g b kids := by
  intro f
  induction f with
  | zero => intro b kids h; simp [checkBody] at h
  | succ f ih =>
    intro b kids h
    unfold checkBody at h
    exact bodyP_sound g _ (fun b' ks' h' => ih b' ks' h') f b kids h

end TsVerif.C03
