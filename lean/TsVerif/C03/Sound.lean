import TsVerif.C03.DriverLemmas2
/-!
# C03 — `driver_sound`: every accepted tree is a tree over the productions the table spells

`P` is recovered from the table alone: a production `(A, [X₁ … Xₙ], production_id)` belongs to the
table when some state `s` has a reduce action `(A, n, production_id)` and `X₁ … Xₙ` labels a path of
`n` non-extra transitions into `s` (`pathsBack`).  `driver_sound`: every node of every tree the
driver accepts — for ALL token strings — is an instance of such a production: its non-extra
children carry exactly the symbols `X₁ … Xₙ` (the standard LR invariant: the stack spells a path of
the automaton).  Relating `P` to the source grammar is done per output tree (`check_sound`).
-/
namespace TsVerif.C03

/-- a non-extra transition `p →X q` of the table: a (non-extra) shift of token `X`, or a goto on `X` -/
def symEdge (tbl : Table) (p X q : Nat) : Bool :=
  (shiftTargets (tbl.actions p X)).contains q || (tbl.goto p X == q && q != 0)

/-- the labels of the transitions `p → q`, read off the two rows of `p` -/
def rowEdges (tbl : Table) (p q : Nat) : List Nat :=
  ((tbl.acts.getD p []).filterMap fun e => if symEdge tbl p e.1 q then some e.1 else none) ++
  ((tbl.gotos.getD p []).filterMap fun e => if symEdge tbl p e.1 q then some e.1 else none)

/-- all (origin state, label sequence) of paths of `n` non-extra transitions into `s` -/
def pathsBack (tbl : Table) (s : Nat) : Nat → List (Nat × List Nat)
  | 0 => [(s, [])]
  | n + 1 =>
    ((pathsBack tbl s n).flatMap fun e =>
      (List.range tbl.stateCount).flatMap fun p => (rowEdges tbl p e.1).map fun X => (p, X :: e.2)).eraseDups

/-- `(A, syms, pid)` is a production the table spells -/
def IsProd (tbl : Table) (A : Nat) (syms : List Nat) (pid : Nat) : Prop :=
  ∃ s a n dp p, Action.reduce A n dp pid ∈ tbl.actions s a ∧ (p, syms) ∈ pathsBack tbl s n

def nonExtraSyms (ks : List PTree) : List Nat := (ks.filter fun k => !k.isExtra).map PTree.sym

def isShiftExtra : Action → Bool
  | .shift _ true _ => true
  | _ => false

/-- the tokens the table shifts as extras somewhere -/
def isExtraSym (tbl : Table) (a : Nat) : Bool :=
  (List.range tbl.acts.size).any fun s => (tbl.actions s a).any isShiftExtra

/-- an extra leaf is a token the table treats as an extra (or the end-of-input leaf); any other leaf
is a real terminal that is never an extra -/
def LeafOK (tbl : Table) (s : Nat) (e : Bool) : Prop :=
  (e = true → isExtraSym tbl s = true ∨ s = 0) ∧
  (e = false → s ≠ 0 ∧ s < tbl.tokenCount ∧ isExtraSym tbl s = false)

/-- every node is a (non-extra) instance of a production of the table, every leaf is `LeafOK` -/
inductive TreeOver (tbl : Table) : PTree → Prop
  | leaf {s e} : LeafOK tbl s e → TreeOver tbl (.leaf s e)
  | node {A pid dp e ks} : e = false → IsProd tbl A (nonExtraSyms ks) pid → (∀ t, t ∈ ks → TreeOver tbl t) →
      TreeOver tbl (.node A pid dp e ks)

/-- non-extra shifts are on real terminals that are never shifted as extras -/
def leafSafe (tbl : Table) : Bool :=
  (List.range tbl.acts.size).all fun s => (tbl.acts.getD s []).all fun e =>
    (tbl.actions s e.1).all fun a => match a with
      | .shift _ false _ => e.1 != 0 && decide (e.1 < tbl.tokenCount) && !isExtraSym tbl e.1
      | _ => true

/-- no state is an "end of a non-terminal extra" state (grammars without non-terminal extras) -/
def noLexEnd (tbl : Table) : Bool := tbl.lexState.toList.all fun v => v != 65535

theorem actions_state_lt (tbl : Table) (s a : Nat) (x : Action) (h : x ∈ tbl.actions s a) : s < tbl.acts.size := by
  have := actions_mem tbl s a x h
  by_cases hs : s < tbl.acts.size
  · exact hs
  · simp [Array.getD, hs] at this

theorem leafSafe_elim (tbl : Table) (h : leafSafe tbl = true) (s a s' : Nat) (r : Bool)
    (hx : Action.shift s' false r ∈ tbl.actions s a) : a ≠ 0 ∧ a < tbl.tokenCount ∧ isExtraSym tbl a = false := by
  unfold leafSafe at h
  simp only [List.all_eq_true, List.mem_range] at h
  have := h s (actions_state_lt tbl s a _ hx) (a, tbl.actions s a) (actions_mem tbl s a _ hx) _ hx
  simp only [Bool.and_eq_true, bne_iff_ne, ne_eq, decide_eq_true_eq, Bool.not_eq_true'] at this
  exact ⟨this.1.1, this.1.2, this.2⟩

theorem isExtraSym_of (tbl : Table) (s a s' : Nat) (r : Bool) (hx : Action.shift s' true r ∈ tbl.actions s a) :
    isExtraSym tbl a = true := by
  unfold isExtraSym
  simp only [List.any_eq_true, List.mem_range]
  exact ⟨s, actions_state_lt tbl s a _ hx, _, hx, rfl⟩

theorem noLexEnd_elim (tbl : Table) (h : noLexEnd tbl = true) (s : Nat) : tbl.lexEnd s = false := by
  unfold noLexEnd at h
  unfold Table.lexEnd
  by_cases hs : s < tbl.lexState.size
  · have : (tbl.lexState[s] != 65535) = true := (List.all_eq_true.mp h) _ (Array.mem_toList_iff.mpr (Array.getElem_mem hs))
    simp [Array.getD, hs]
    simpa using this
  · simp [Array.getD, hs]

/-! ## the labelled stack invariant -/

/-- states are real, every non-extra entry follows the transition labelled with its symbol, extras
keep the state, and every tree on the stack is a tree over the table's productions -/
def Spells (tbl : Table) : Stack → Prop
  | [] => True
  | (s, t) :: rest =>
    s < tbl.stateCount ∧
    (if t.isExtra = true then s = topState rest else symEdge tbl (topState rest) t.sym s = true) ∧
    TreeOver tbl t ∧ Spells tbl rest

theorem spells_top (tbl : Table) (h1 : 1 < tbl.stateCount) (st : Stack) (h : Spells tbl st) : topState st < tbl.stateCount := by
  cases st with
  | nil => simpa [topState] using h1
  | cons e rest => obtain ⟨s, t⟩ := e; exact h.1

theorem mem_rowEdges (tbl : Table) (p X q : Nat) (h : symEdge tbl p X q = true) : X ∈ rowEdges tbl p q := by
  unfold rowEdges
  have h' := h
  unfold symEdge at h'
  simp only [Bool.or_eq_true, Bool.and_eq_true, beq_iff_eq, bne_iff_ne, ne_eq] at h'
  rw [List.mem_append]
  rcases h' with hs | ⟨hg, hq⟩
  · left
    have hne : ∃ x, x ∈ tbl.actions p X := by
      have : q ∈ shiftTargets (tbl.actions p X) := by simpa using hs
      unfold shiftTargets at this
      simp only [List.mem_filterMap] at this
      obtain ⟨a, ha, _⟩ := this
      exact ⟨a, ha⟩
    obtain ⟨x, hx⟩ := hne
    simp only [List.mem_filterMap]
    exact ⟨(X, tbl.actions p X), actions_mem tbl p X x hx, by simp [h]⟩
  · right
    simp only [List.mem_filterMap]
    have hne : tbl.goto p X ≠ 0 := by rw [hg]; exact hq
    exact ⟨(X, tbl.goto p X), goto_mem tbl p X hne, by simp [h]⟩

theorem pathsBack_step (tbl : Table) (s p q X : Nat) (syms : List Nat) (n : Nat) (hp : p < tbl.stateCount)
    (he : symEdge tbl p X q = true) (h : (q, syms) ∈ pathsBack tbl s n) : (p, X :: syms) ∈ pathsBack tbl s (n + 1) := by
  simp only [pathsBack, List.mem_eraseDups, List.mem_flatMap, List.mem_map, List.mem_range]
  exact ⟨(q, syms), h, p, hp, X, mem_rowEdges tbl p X q he, rfl⟩

/-- a path into `s'` extended by the transition `s' →X s` is a path into `s` (we walk the stack from the top downwards) -/
theorem pathsBack_shift (tbl : Table) (s s' X : Nat) (he : symEdge tbl s' X s = true) (hs' : s' < tbl.stateCount) :
    ∀ (n : Nat) (p : Nat) (syms : List Nat),
      (p, syms) ∈ pathsBack tbl s' n → (p, syms ++ [X]) ∈ pathsBack tbl s (n + 1) := by
  intro n
  induction n with
  | zero =>
    intro p syms h
    simp only [pathsBack, List.mem_singleton, Prod.mk.injEq] at h
    obtain ⟨rfl, rfl⟩ := h
    exact pathsBack_step tbl s p s X [] 0 hs' he (by simp [pathsBack])
  | succ n ih =>
    intro p syms h
    simp only [pathsBack, List.mem_eraseDups, List.mem_flatMap, List.mem_map, List.mem_range] at h
    obtain ⟨⟨q, ys⟩, hq, p', hp', Y, hY, heq⟩ := h
    simp only [Prod.mk.injEq] at heq
    obtain ⟨rfl, rfl⟩ := heq
    have := ih q ys hq
    show (p', (Y :: ys) ++ [X]) ∈ pathsBack tbl s (n + 1 + 1)
    simp only [List.cons_append]
    rw [pathsBack]
    simp only [List.mem_eraseDups, List.mem_flatMap, List.mem_map, List.mem_range]
    exact ⟨(q, ys ++ [X]), this, p', hp', Y, hY, rfl⟩

theorem nonExtraSyms_append (xs ys : List PTree) : nonExtraSyms (xs ++ ys) = nonExtraSyms xs ++ nonExtraSyms ys := by
  simp [nonExtraSyms, List.filter_append]

theorem nonExtraSyms_extras (xs : List PTree) (h : ∀ t, t ∈ xs → t.isExtra = true) : nonExtraSyms xs = [] := by
  unfold nonExtraSyms
  have : xs.filter (fun k => !k.isExtra) = [] := by
    apply List.filter_eq_nil_iff.mpr
    intro t ht
    simp [h t ht]
  simp [this]

theorem popN_spells (tbl : Table) (h1 : 1 < tbl.stateCount) : ∀ (st : Stack) (n : Nat) (ks : List PTree) (rest : Stack),
    Spells tbl st → popN n st = some (ks, rest) →
    Spells tbl rest ∧ (∀ t, t ∈ ks → TreeOver tbl t) ∧
      (topState rest, nonExtraSyms ks) ∈ pathsBack tbl (topState st) n := by
  intro st
  induction st with
  | nil =>
    intro n ks rest _ h
    cases n with
    | zero => simp [popN] at h; obtain ⟨rfl, rfl⟩ := h; simp [Spells, pathsBack, nonExtraSyms]
    | succ n => simp [popN] at h
  | cons e tl ih =>
    intro n ks rest hsp h
    obtain ⟨s, t⟩ := e
    cases n with
    | zero =>
      simp [popN] at h; obtain ⟨rfl, rfl⟩ := h
      exact ⟨hsp, (by intro t ht; cases ht), (by simp [pathsBack, nonExtraSyms])⟩
    | succ n =>
      simp only [popN] at h
      obtain ⟨hsS, hlink, htree, htl⟩ := hsp
      cases hx : t.isExtra with
      | true =>
        simp only [hx, if_true] at h hlink
        cases hp : popN (n + 1) tl with
        | none => simp [hp] at h
        | some r =>
          obtain ⟨ks', r'⟩ := r
          simp [hp] at h
          obtain ⟨rfl, rfl⟩ := h
          obtain ⟨ha, hb, hc⟩ := ih (n + 1) ks' r' htl hp
          refine ⟨ha, ?_, ?_⟩
          · intro x hx'
            rcases List.mem_append.mp hx' with hx' | hx'
            · exact hb x hx'
            · simp only [List.mem_singleton] at hx'; subst hx'; exact htree
          · rw [nonExtraSyms_append, nonExtraSyms_extras [t] (by intro x hx'; simp at hx'; subst hx'; exact hx),
              List.append_nil]
            simp only [topState]; rw [hlink]; exact hc
      | false =>
        simp only [hx] at h hlink
        simp only [Bool.false_eq_true, if_false] at h hlink
        cases hp : popN n tl with
        | none => simp [hp] at h
        | some r =>
          obtain ⟨ks', r'⟩ := r
          simp [hp] at h
          obtain ⟨rfl, rfl⟩ := h
          obtain ⟨ha, hb, hc⟩ := ih n ks' r' htl hp
          refine ⟨ha, ?_, ?_⟩
          · intro x hx'
            rcases List.mem_append.mp hx' with hx' | hx'
            · exact hb x hx'
            · simp only [List.mem_singleton] at hx'; subst hx'; exact htree
          · have : nonExtraSyms (ks' ++ [t]) = nonExtraSyms ks' ++ [t.sym] := by
              rw [nonExtraSyms_append]; simp [nonExtraSyms, hx]
            rw [this]
            simp only [topState]
            exact pathsBack_shift tbl s (topState tl) t.sym hlink (spells_top tbl h1 tl htl) n _ _ hc

theorem spells_push_extras (tbl : Table) (q : Nat) (hq : q < tbl.stateCount) :
    ∀ (l : List PTree) (base : Stack), Spells tbl base → topState base = q →
      (∀ t, t ∈ l → t.isExtra = true ∧ TreeOver tbl t) →
      Spells tbl (l.map (fun t => (q, t)) ++ base) ∧ topState (l.map (fun t => (q, t)) ++ base) = q := by
  intro l
  induction l with
  | nil => intro base hb ht _; exact ⟨hb, ht⟩
  | cons t ts ih =>
    intro base hb ht hall
    have := ih base hb ht (fun x hx => hall x (List.mem_cons_of_mem _ hx))
    refine ⟨?_, by simp [topState]⟩
    simp only [List.map_cons, List.cons_append, Spells]
    refine ⟨hq, ?_, (hall t List.mem_cons_self).2, this.1⟩
    simp only [(hall t List.mem_cons_self).1, if_true]
    exact this.2.symm

theorem reduce_spells (tbl : Table) (h1 : 1 < tbl.stateCount) (st st' : Stack) (hsp : Spells tbl st)
    (a A n : Nat) (dp : Int) (pid : Nat) (eoe : Bool)
    (hact : Action.reduce A n dp pid ∈ tbl.actions (topState st) a) (heoe : eoe = false)
    (h : reduce tbl st A n dp pid eoe = .ok st') : Spells tbl st' := by
  unfold reduce at h
  cases hp : popN n st with
  | none => simp [hp] at h
  | some r =>
    obtain ⟨kids, rest⟩ := r
    simp only [hp] at h
    obtain ⟨hrest, hkids, hpath⟩ := popN_spells tbl h1 st n kids rest hsp hp
    split at h
    · cases h
    · next hno =>
      cases h
      have hq0 : tbl.goto (topState rest) A ≠ 0 := by omega
      have hqS : tbl.goto (topState rest) A < tbl.stateCount := by omega
      have hsplit := splitTrailing_append kids
      have htr : ∀ t, t ∈ (splitTrailing kids).2.reverse → t.isExtra = true := splitTrailing_extras kids
      have hsyms : nonExtraSyms (splitTrailing kids).1 = nonExtraSyms kids := by
        conv => rhs; rw [← hsplit]
        rw [nonExtraSyms_append, nonExtraSyms_extras (splitTrailing kids).2 (by intro t ht; exact htr t (by simpa using ht)),
          List.append_nil]
      have hk1 : ∀ t, t ∈ (splitTrailing kids).1 → TreeOver tbl t := by
        intro t ht; apply hkids; rw [← hsplit]; exact List.mem_append_left _ ht
      have hk2 : ∀ t, t ∈ (splitTrailing kids).2.reverse → t.isExtra = true ∧ TreeOver tbl t := by
        intro t ht
        refine ⟨htr t ht, ?_⟩
        apply hkids; rw [← hsplit]; exact List.mem_append_right _ (by simpa using ht)
      have hbase : Spells tbl ((tbl.goto (topState rest) A,
          PTree.node A pid (dp + sumDyn (splitTrailing kids).1) (eoe && tbl.goto (topState rest) A == topState rest)
            (splitTrailing kids).1) :: rest) := by
        simp only [Spells]
        refine ⟨hqS, ?_, ?_, hrest⟩
        · simp only [PTree.isExtra, PTree.sym]
          by_cases hx : (eoe && tbl.goto (topState rest) A == topState rest) = true
          · simp only [hx, if_true]
            simp only [Bool.and_eq_true, beq_iff_eq] at hx
            exact hx.2
          · simp only [hx]
            simp only [Bool.false_eq_true, if_false]
            unfold symEdge
            simp [hq0]
        · exact .node (by simp [heoe]) ⟨topState st, a, n, dp, topState rest, hact, by rw [hsyms]; exact hpath⟩ hk1
      exact (spells_push_extras tbl _ hqS _ _ hbase (by simp [topState]) hk2).1

/-- no non-extra transition enters the start state, and the only way into an accepting state is
from the start state: then everything below the root on the stack at acceptance is an extra -/
def rootSafe (tbl : Table) : Bool :=
  ((List.range tbl.stateCount).all fun p => (rowEdges tbl p 1).isEmpty) &&
  ((List.range tbl.stateCount).all fun s =>
    !((tbl.acts.getD s []).any fun e => e.2.contains Action.accept) ||
      ((List.range tbl.stateCount).all fun p => (rowEdges tbl p s).isEmpty || p == 1))

theorem below_all_extra (tbl : Table) (hno : ∀ p X, p < tbl.stateCount → symEdge tbl p X 1 = false)
    (h1 : 1 < tbl.stateCount) : ∀ (st : Stack), Spells tbl st → topState st = 1 → ∀ e, e ∈ st → e.2.isExtra = true := by
  intro st
  induction st with
  | nil => intro _ _ e he; cases he
  | cons x tl ih =>
    intro hsp htop e he
    obtain ⟨s, t⟩ := x
    simp only [topState] at htop
    subst htop
    obtain ⟨_, hlink, _, htl⟩ := hsp
    cases hx : t.isExtra with
    | true =>
      simp only [hx, if_true] at hlink
      rcases List.mem_cons.mp he with rfl | he'
      · exact hx
      · exact ih htl hlink.symm e he'
    | false =>
      simp only [hx] at hlink
      simp only [Bool.false_eq_true, if_false] at hlink
      rw [hno _ _ (spells_top tbl h1 tl htl)] at hlink
      cases hlink

/-- what a step is, with the table cell it came from -/
theorem step_cell (tbl : Table) (c c' : Conf) (h : step tbl c = .inl c') :
    (∃ a A n dp pid eoe, Action.reduce A n dp pid ∈ tbl.actions (topState c.stack) a ∧
        reduce tbl c.stack A n dp pid eoe = .ok c'.stack ∧ (eoe = true → tbl.lexEnd (topState c.stack) = true)) ∨
    (∃ a s' e rep, Action.shift s' e rep ∈ tbl.actions (topState c.stack) a ∧
        c'.stack = ((if e then topState c.stack else s'), PTree.leaf a e) :: c.stack ∧
        (if e then topState c.stack else s') < tbl.stateCount) := by
  unfold step at h
  simp only at h
  split at h
  · split at h
    · cases h
    · next A n dp pid heff =>
      have := reduce_inl_toks tbl c c' A n dp pid true h
      exact .inl ⟨0, A, n, dp, pid, true, effective_single _ _ heff, this.2, fun _ => by assumption⟩
    · cases h
  · split at h
    · cases h
    · next s' extra rep heff =>
      have hmem := effective_single _ _ heff
      cases htoks : c.toks with
      | nil => simp [htoks] at h
      | cons a rest =>
        simp only [htoks] at h hmem
        cases extra with
        | true =>
          simp only [if_true] at h
          split at h
          · cases h
          · next hno => cases h; exact .inr ⟨a, s', true, rep, by simpa using hmem, by simp, by simp; omega⟩
        | false =>
          simp only [Bool.false_eq_true, if_false] at h
          split at h
          · cases h
          · next hno => cases h; exact .inr ⟨a, s', false, rep, by simpa using hmem, by simp, by simp; omega⟩
    · next A n dp pid heff =>
      have := reduce_inl_toks tbl c c' A n dp pid false h
      exact .inl ⟨_, A, n, dp, pid, false, effective_single _ _ heff, this.2, fun h => by cases h⟩
    · split at h
      · split at h <;> cases h
      · cases h
    · cases h
    · cases h

theorem step_accept_cell (tbl : Table) (c : Conf) (t : PTree) (h : step tbl c = .inr (.accepted t)) :
    acceptTree c.stack = some t ∧ ∃ a, Action.accept ∈ tbl.actions (topState c.stack) a := by
  unfold step at h
  simp only at h
  split at h
  · split at h
    · cases h
    · split at h <;> cases h
    · cases h
  · split at h
    · cases h
    · next s' extra rep _ =>
      split at h
      · cases h
      · cases extra with
        | true => simp only [if_true] at h; split at h <;> cases h
        | false => simp only [Bool.false_eq_true, if_false] at h; split at h <;> cases h
    · split at h <;> cases h
    · next heff =>
      split at h
      · split at h
        · next t' hacc => cases h; exact ⟨hacc, _, effective_single _ _ heff⟩
        · cases h
      · cases h
    · cases h
    · cases h

theorem step_spells (tbl : Table) (h1 : 1 < tbl.stateCount) (hleaf : leafSafe tbl = true) (hnle : noLexEnd tbl = true)
    (c c' : Conf) (hsp : Spells tbl c.stack)
    (h : step tbl c = .inl c') : Spells tbl c'.stack := by
  rcases step_cell tbl c c' h with ⟨a, A, n, dp, pid, eoe, hact, hr, hle⟩ | ⟨a, s', e, rep, hact, hst, hS⟩
  · have heoe : eoe = false := by
      cases eoe with
      | false => rfl
      | true => have := hle rfl; rw [noLexEnd_elim tbl hnle] at this; cases this
    exact reduce_spells tbl h1 c.stack c'.stack hsp a A n dp pid eoe hact heoe hr
  · rw [hst]
    simp only [Spells, PTree.isExtra, PTree.sym]
    have hlk : LeafOK tbl a e := by
      cases e with
      | true => exact ⟨fun _ => .inl (isExtraSym_of tbl _ a s' rep hact), (fun h => by cases h)⟩
      | false => exact ⟨(fun h => by cases h), fun _ => leafSafe_elim tbl hleaf _ a s' rep hact⟩
    refine ⟨hS, ?_, .leaf hlk, hsp⟩
    cases e with
    | true => simp
    | false =>
      simp only [Bool.false_eq_true, if_false]
      unfold symEdge
      simp only [Bool.or_eq_true]
      left
      simpa using mem_shiftTargets _ _ _ hact

theorem rootSafe_elim (tbl : Table) (h : rootSafe tbl = true) :
    (∀ p X, p < tbl.stateCount → symEdge tbl p X 1 = false) ∧
    (∀ s a p X, s < tbl.stateCount → p < tbl.stateCount → Action.accept ∈ tbl.actions s a →
        symEdge tbl p X s = true → p = 1) := by
  unfold rootSafe at h
  simp only [Bool.and_eq_true, List.all_eq_true, List.mem_range, List.isEmpty_iff, Bool.or_eq_true,
    Bool.not_eq_true', beq_iff_eq] at h
  refine ⟨?_, ?_⟩
  · intro p X hp
    cases he : symEdge tbl p X 1 with
    | false => rfl
    | true =>
      have := mem_rowEdges tbl p X 1 he
      rw [h.1 p hp] at this
      cases this
  · intro s a p X hs hp hacc he
    rcases h.2 s hs with hno | hall
    · exfalso
      have hrow := actions_mem tbl s a _ hacc
      have : ((tbl.acts.getD s []).any fun e => e.2.contains Action.accept) = true := by
        simp only [List.any_eq_true]
        exact ⟨(a, tbl.actions s a), hrow, by simpa using hacc⟩
      rw [this] at hno
      cases hno
    · rcases hall p hp with hemp | h1
      · have := mem_rowEdges tbl p X s he
        rw [hemp] at this
        cases this
      · exact h1

theorem mem_of_mem_takeWhile' {α : Type} (p : α → Bool) : ∀ (l : List α) (a : α), a ∈ l.takeWhile p → a ∈ l := by
  intro l
  induction l with
  | nil => intro a h; simp at h
  | cons x xs ih =>
    intro a h
    simp only [List.takeWhile] at h
    split at h
    · rcases List.mem_cons.mp h with rfl | h'
      · exact List.mem_cons_self
      · exact List.mem_cons_of_mem _ (ih a h')
    · simp at h

theorem dropWhile_split : ∀ (l : Stack) (root : PTree) (br : List PTree),
    (l.map (·.2)).dropWhile PTree.isExtra = root :: br →
    ∃ upper q lower, l = upper ++ (q, root) :: lower ∧ (∀ e, e ∈ upper → e.2.isExtra = true) ∧
      br = lower.map (·.2) ∧ root.isExtra = false := by
  intro l
  induction l with
  | nil => intro root br h; simp at h
  | cons e tl ih =>
    intro root br h
    obtain ⟨q, x⟩ := e
    simp only [List.map_cons, List.dropWhile] at h
    cases hx : x.isExtra with
    | true =>
      simp only [hx] at h
      obtain ⟨upper, q', lower, hl, hu, hb, hr⟩ := ih root br h
      refine ⟨(q, x) :: upper, q', lower, by simp [hl], ?_, hb, hr⟩
      intro e he
      rcases List.mem_cons.mp he with rfl | he'
      · exact hx
      · exact hu e he'
    | false =>
      simp only [hx] at h
      cases h
      exact ⟨[], q, tl, rfl, (by intro e he; cases he), rfl, hx⟩

theorem spells_drop_extras (tbl : Table) : ∀ (upper : Stack) (X : Stack), Spells tbl (upper ++ X) →
    (∀ e, e ∈ upper → e.2.isExtra = true) → Spells tbl X ∧ topState (upper ++ X) = topState X := by
  intro upper
  induction upper with
  | nil => intro X h _; exact ⟨h, rfl⟩
  | cons e tl ih =>
    intro X h hall
    obtain ⟨q, x⟩ := e
    obtain ⟨_, hlink, _, htl⟩ := h
    have hx := hall (q, x) List.mem_cons_self
    simp only [hx, if_true] at hlink
    have := ih X htl (fun e he => hall e (List.mem_cons_of_mem _ he))
    exact ⟨this.1, by simp only [List.cons_append, topState]; rw [hlink]; exact this.2⟩

theorem spells_trees (tbl : Table) : ∀ (st : Stack), Spells tbl st → ∀ e, e ∈ st → TreeOver tbl e.2 := by
  intro st
  induction st with
  | nil => intro _ e he; cases he
  | cons x tl ih =>
    intro h e he
    obtain ⟨q, t⟩ := x
    rcases List.mem_cons.mp he with rfl | he'
    · exact h.2.2.1
    · exact ih h.2.2.2 e he'

/-- the root is a non-extra node whose symbol labels a transition from the start state into an accepting state -/
def RootOK (tbl : Table) (t : PTree) : Prop :=
  ∃ sym pid dp ks q a, t = PTree.node sym pid dp false ks ∧ q < tbl.stateCount ∧
    Action.accept ∈ tbl.actions q a ∧ symEdge tbl 1 sym q = true

/-- the tree built at acceptance is a tree over the table's productions -/
theorem accept_treeOver (tbl : Table) (h1 : 1 < tbl.stateCount) (hroot : rootSafe tbl = true)
    (st : Stack) (hsp : Spells tbl st) (t : PTree) (hacc : acceptTree st = some t)
    (a : Nat) (hcell : Action.accept ∈ tbl.actions (topState st) a) : TreeOver tbl t ∧ RootOK tbl t := by
  obtain ⟨hno1, honly⟩ := rootSafe_elim tbl hroot
  unfold acceptTree at hacc
  simp only at hacc
  split at hacc
  · next sym pid dp e kids beforeRev hdw =>
    cases hacc
    -- the EOF leaf on top is an extra: the root is found in the stack itself
    have hdw' : (st.map (·.2)).dropWhile PTree.isExtra = PTree.node sym pid dp e kids :: beforeRev := by
      simpa [List.dropWhile, PTree.isExtra] using hdw
    obtain ⟨upper, q, lower, hl, hu, hb, hr⟩ := dropWhile_split st _ _ hdw'
    subst hl
    obtain ⟨hX, htop⟩ := spells_drop_extras tbl upper _ hsp hu
    obtain ⟨hqS, hlink, hnode, hlow⟩ := hX
    simp only [hr, Bool.false_eq_true, if_false, PTree.sym] at hlink
    have htop' : topState (upper ++ (q, PTree.node sym pid dp e kids) :: lower) = q := by
      rw [htop]; rfl
    rw [htop'] at hcell
    have hp1 : topState lower = 1 := honly q a _ _ hqS (spells_top tbl h1 lower hlow) hcell hlink
    have hlowx := below_all_extra tbl hno1 h1 lower hlow hp1
    cases hnode with
    | node _ hprod hkids =>
      have hafter : ∀ x, x ∈ (List.takeWhile PTree.isExtra (PTree.leaf 0 true :: List.map (·.2) (upper ++ (q, PTree.node sym pid dp e kids) :: lower))).reverse →
          x.isExtra = true ∧ TreeOver tbl x := by
        intro x hx
        rw [List.mem_reverse] at hx
        refine ⟨mem_takeWhile_imp' _ _ _ hx, ?_⟩
        have hmem := mem_of_mem_takeWhile' _ _ _ hx
        rcases List.mem_cons.mp hmem with rfl | hmem'
        · exact .leaf ⟨fun _ => .inr rfl, (fun h => by cases h)⟩
        · simp only [List.mem_map] at hmem'
          obtain ⟨e', he', rfl⟩ := hmem'
          exact spells_trees tbl _ hsp e' he'
      have hbefore : ∀ x, x ∈ beforeRev.reverse → x.isExtra = true ∧ TreeOver tbl x := by
        intro x hx
        rw [List.mem_reverse, hb] at hx
        simp only [List.mem_map] at hx
        obtain ⟨e', he', rfl⟩ := hx
        exact ⟨hlowx e' he', spells_trees tbl lower hlow e' he'⟩
      refine ⟨.node rfl ?_ ?_, ⟨_, _, _, _, q, a, rfl, hqS, hcell, by rw [← hp1]; exact hlink⟩⟩
      · rw [nonExtraSyms_append, nonExtraSyms_append, nonExtraSyms_extras _ (fun x hx => (hbefore x hx).1),
          nonExtraSyms_extras _ (fun x hx => (hafter x hx).1)]
        simpa using hprod
      · intro x hx
        rcases List.mem_append.mp hx with hx | hx
        · rcases List.mem_append.mp hx with hx | hx
          · exact (hbefore x hx).2
          · exact hkids x hx
        · exact (hafter x hx).2
  · cases hacc

/-- the invariant along the loop -/
theorem runLoop_sound (tbl : Table) (h1 : 1 < tbl.stateCount) (hroot : rootSafe tbl = true)
    (hleaf : leafSafe tbl = true) (hnle : noLexEnd tbl = true) :
    ∀ (fuel : Nat) (c : Conf) (t : PTree), Spells tbl c.stack → runLoop tbl fuel c = .accepted t →
      TreeOver tbl t ∧ RootOK tbl t := by
  intro fuel
  induction fuel with
  | zero => intro c t _ h; simp [runLoop] at h
  | succ k ih =>
    intro c t hsp h
    unfold runLoop at h
    cases hstep : step tbl c with
    | inl c' =>
      rw [hstep] at h
      exact ih c' t (step_spells tbl h1 hleaf hnle c c' hsp hstep) h
    | inr o =>
      rw [hstep] at h
      simp only at h
      subst h
      obtain ⟨hacc, a, hcell⟩ := step_accept_cell tbl c t hstep
      exact accept_treeOver tbl h1 hroot c.stack hsp t hacc a hcell

end TsVerif.C03
