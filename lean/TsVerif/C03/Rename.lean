import TsVerif.C03.Cover
/-!
# C03 — the names of non-terminals are immaterial

`extract_default_aliases` gives a rule that is aliased at every use the alias as its symbol name, so
the table's name of a non-terminal need not be the grammar's.  The driver never looks at names, and
the conclusions of `parser_sound` / `parser_complete` mention only the names of TERMINALS; so the
per-grammar validations (`relOK`, `coverOK`, `completeOK`) may be evaluated on the dumped table with
its non-terminals renamed by an untrusted map (`renameNT`), and the theorems transfer to the dumped
table itself (`runLoop_rename`, `tokOf_rename`).
-/
namespace TsVerif.C03

def renameNT (tbl : Table) (ren : List (Nat × String)) : Table :=
  { tbl with syms := (Array.range tbl.syms.size).map fun y =>
      let i := tbl.syms.getD y default
      if tbl.tokenCount ≤ y then
        match ren.lookup y with
        | some n => { i with name := n }
        | none => i
      else i }

theorem step_rename (tbl : Table) (ren : List (Nat × String)) (c : Conf) :
    step (renameNT tbl ren) c = step tbl c := rfl

theorem runLoop_rename (tbl : Table) (ren : List (Nat × String)) : ∀ (f : Nat) (c : Conf),
    runLoop (renameNT tbl ren) f c = runLoop tbl f c := by
  intro f
  induction f with
  | zero => intro c; rfl
  | succ n ih =>
    intro c
    unfold runLoop
    rw [step_rename]
    cases step tbl c with
    | inl c' => exact ih c'
    | inr o => rfl

theorem tokOf_rename (tbl : Table) (ren : List (Nat × String)) (a : Nat) (h : a < tbl.tokenCount) :
    tokOf (renameNT tbl ren) a = tokOf tbl a := by
  unfold tokOf Table.symName renameNT
  have hn : ¬ tbl.tokenCount ≤ a := by omega
  by_cases ha : a < tbl.syms.size
  · simp [Array.getD, ha, hn]
  · simp [Array.getD, ha]

theorem isExtraSym_rename (tbl : Table) (ren : List (Nat × String)) (a : Nat) :
    isExtraSym (renameNT tbl ren) a = isExtraSym tbl a := rfl

/-- `parser_sound` with the validations evaluated on the renamed table. -/
theorem parser_sound_renamed (g : Grammar) (tbl : Table) (ren : List (Nat × String)) (aux : AuxMap)
    (hsafe : tableSafe (renameNT tbl ren) = true) (hrel : relOK g (renameNT tbl ren) aux = true)
    (toks : List Nat) (htoks : ∀ a, a ∈ toks → a < tbl.tokenCount ∧ a ≠ 0) (t : PTree) (f : Nat)
    (h : runLoop tbl f { stack := [], toks := toks } = .accepted t) :
    DerivesTok g (.sym g.start) ((toks.filter fun a => !isExtraSym tbl a).map (tokOf tbl)) := by
  have h' : runLoop (renameNT tbl ren) f { stack := [], toks := toks } = .accepted t := by
    rw [runLoop_rename]; exact h
  have := parser_sound_fuel g (renameNT tbl ren) aux hsafe hrel toks (fun a ha => (htoks a ha).2) t f h'
  have hm : (toks.filter fun a => !isExtraSym (renameNT tbl ren) a).map (tokOf (renameNT tbl ren)) =
      (toks.filter fun a => !isExtraSym tbl a).map (tokOf tbl) := by
    simp only [isExtraSym_rename]
    apply List.map_congr_left
    intro a ha
    exact tokOf_rename tbl ren a (htoks a (List.mem_filter.mp ha).1).1
  rw [hm] at this
  exact this

/-- `parser_complete` with the validations evaluated on the renamed table. -/
theorem parser_complete_renamed (g : Grammar) (tbl : Table) (ren : List (Nat × String)) (aux : AuxMap)
    (P : List Prod) (ann : Ann) (start : Nat)
    (hcov : coverOK g (renameNT tbl ren) aux P start = true)
    (hok : completeOK (renameNT tbl ren) P (auxAllow aux) ann start = true)
    (toks : List Nat) (htoks : ∀ a, a ∈ toks → a < tbl.tokenCount ∧ a ≠ 0)
    (hd : DerivesTok g (.sym g.start) (toks.map (tokOf tbl))) :
    ∃ f pt, runLoop tbl f { stack := [], toks := toks } = .accepted pt := by
  have hm : toks.map (tokOf (renameNT tbl ren)) = toks.map (tokOf tbl) := by
    apply List.map_congr_left
    intro a ha
    exact tokOf_rename tbl ren a (htoks a ha).1
  obtain ⟨f, pt, h⟩ := parser_complete g (renameNT tbl ren) aux P ann start hcov hok toks htoks (by rw [hm]; exact hd)
  exact ⟨f, pt, by rw [runLoop_rename] at h; exact h⟩

end TsVerif.C03
