import TsVerif.C03.Sound
/-!
# C03 — completeness of the table for its productions (`table_complete`)

The converse of `driver_sound`.  `P` is a set of productions over the table's symbols; a state
annotation `ann` gives LR(1)-style items per state plus `nullable`/`first` sets (computed by an
untrusted propagation in the driver).  `completeOK tbl P ann start` is decidable and says (following
the validator of Jourdan, Pottier & Leroy, "Validating LR(1) parsers"): the start state holds the
start items; an item with the dot before a terminal has the (single, effective) shift into a state
holding the advanced item; before a non-terminal it has the goto into such a state and the state is
closed under the productions of that non-terminal for every look-ahead that can follow; a complete
item has the (single) reduce action on its look-ahead; `first`/`nullable` are closed under `P`.
`table_complete`: then every derivation tree over `P` of the start symbol is accepted by the driver
(given enough fuel), for ALL such trees — no token string of L(P) is rejected.  Restrictions of this
version: token strings without extra tokens, tables without non-terminal extras, deterministic cells.
-/
namespace TsVerif.C03

abbrev Prod := Nat × List Nat × Nat

/-- derivation trees over productions -/
inductive DT where
  | leaf (a : Nat)
  | node (A pid : Nat) (kids : List DT)
  deriving Repr, Inhabited

namespace DT
def sym : DT → Nat
  | leaf a => a
  | node A _ _ => A
mutual
  def yield : DT → List Nat
    | leaf a => [a]
    | node _ _ ks => yieldL ks
  def yieldL : List DT → List Nat
    | [] => []
    | t :: ts => yield t ++ yieldL ts
end
/-- the production at the root of a tree (none for a token) -/
def prod? : DT → Option Prod
  | leaf _ => none
  | node A pid ks => some (A, ks.map sym, pid)
end DT

/-- which productions may sit under position `i` of a production: the trees the theorem is about.
`fun _ _ _ => true` = all trees over `P`; for repeats the generator's auxiliary rule `R → R R` is
ambiguous and the table only builds the left-nested trees, so right-nesting is not allowed. -/
abbrev Allow := Prod → Nat → Prod → Bool

def allowedAt (allow : Allow) (q : Prod) (i : Nat) (t : DT) : Bool :=
  match t.prod? with
  | none => true
  | some p => allow q i p

namespace DT
mutual
  def Valid (tbl : Table) (P : List Prod) (allow : Allow) : DT → Prop
    | leaf a => a < tbl.tokenCount ∧ a ≠ 0
    | node A pid ks => (A, ks.map sym, pid) ∈ P ∧ ValidL tbl P allow (A, ks.map sym, pid) 0 ks
  def ValidL (tbl : Table) (P : List Prod) (allow : Allow) (q : Prod) : Nat → List DT → Prop
    | _, [] => True
    | i, t :: ts => Valid tbl P allow t ∧ allowedAt allow q i t = true ∧ ValidL tbl P allow q (i + 1) ts
end
end DT

/-! ## runs of the driver -/

inductive Steps (tbl : Table) : Conf → Conf → Prop
  | refl {c} : Steps tbl c c
  | next {c c1 c2} : step tbl c = .inl c1 → Steps tbl c1 c2 → Steps tbl c c2

theorem Steps.trans {tbl : Table} {a b c : Conf} (h1 : Steps tbl a b) (h2 : Steps tbl b c) : Steps tbl a c := by
  induction h1 with
  | refl => exact h2
  | next hs _ ih => exact .next hs (ih h2)

theorem Steps.single {tbl : Table} {a b : Conf} (h : step tbl a = .inl b) : Steps tbl a b := .next h .refl

theorem steps_accept {tbl : Table} {c c' : Conf} {t : PTree} (h : Steps tbl c c')
    (hacc : step tbl c' = .inr (.accepted t)) : ∃ f, runLoop tbl f c = .accepted t := by
  induction h with
  | refl => exact ⟨1, by simp [runLoop, hacc]⟩
  | next hs _ ih =>
    obtain ⟨f, hf⟩ := ih hacc
    exact ⟨f + 1, by simp [runLoop, hs, hf]⟩

theorem shift_step (tbl : Table) (st : Stack) (a s' : Nat) (rep : Bool) (r : List Nat)
    (hle : tbl.lexEnd (topState st) = false)
    (heff : effective (tbl.actions (topState st) a) = [.shift s' false rep])
    (h0 : s' ≠ 0) (hS : s' < tbl.stateCount) :
    step tbl { stack := st, toks := a :: r } = .inl { stack := (s', PTree.leaf a false) :: st, toks := r } := by
  unfold step
  have hno : ¬ (s' = 0 ∨ tbl.stateCount ≤ s') := by omega
  simp only [hle, Bool.false_eq_true, if_false, List.headD_cons]
  rw [heff]
  simp [hno]

theorem reduce_step (tbl : Table) (st st' : Stack) (r : List Nat) (A n : Nat) (dp : Int) (pid : Nat)
    (hle : tbl.lexEnd (topState st) = false)
    (heff : effective (tbl.actions (topState st) (r.headD 0)) = [.reduce A n dp pid])
    (hr : reduce tbl st A n dp pid false = .ok st') :
    step tbl { stack := st, toks := r } = .inl { stack := st', toks := r } := by
  unfold step
  simp only [hle, Bool.false_eq_true, if_false]
  rw [heff]
  simp [hr]

theorem accept_step (tbl : Table) (st : Stack) (t : PTree)
    (hle : tbl.lexEnd (topState st) = false)
    (heff : effective (tbl.actions (topState st) 0) = [.accept]) (hacc : acceptTree st = some t) :
    step tbl { stack := st, toks := [] } = .inr (.accepted t) := by
  unfold step
  simp only [hle, Bool.false_eq_true, if_false, List.headD_nil]
  rw [heff]
  simp [hacc]

/-! ## popping what was just pushed -/

theorem popN_pushed : ∀ (es : Stack) (st0 : Stack), (∀ e, e ∈ es → e.2.isExtra = false) →
    popN es.length (es ++ st0) = some ((es.map (·.2)).reverse, st0) := by
  intro es
  induction es with
  | nil => intro st0 _; simp [popN]
  | cons e rest ih =>
    intro st0 h
    obtain ⟨s, t⟩ := e
    have ht : t.isExtra = false := h (s, t) List.mem_cons_self
    simp only [List.length_cons, List.cons_append, popN, ht, Bool.false_eq_true, if_false]
    rw [ih st0 (fun e he => h e (List.mem_cons_of_mem _ he))]
    simp

theorem splitTrailing_nonextra (ks : List PTree) (h : ∀ k, k ∈ ks → k.isExtra = false) : splitTrailing ks = (ks, []) := by
  unfold splitTrailing
  have hd : ks.reverse.dropWhile PTree.isExtra = ks.reverse ∧ ks.reverse.takeWhile PTree.isExtra = [] := by
    cases hr : ks.reverse with
    | nil => simp
    | cons x xs =>
      have hx : x ∈ ks := by
        have : x ∈ ks.reverse := by rw [hr]; exact List.mem_cons_self
        simpa using this
      simp [List.dropWhile, List.takeWhile, h x hx]
  rw [hd.1, hd.2]
  simp

theorem reduce_pushed (tbl : Table) (es st0 : Stack) (A : Nat) (dp : Int) (pid : Nat)
    (hne : ∀ e, e ∈ es → e.2.isExtra = false)
    (hq0 : tbl.goto (topState st0) A ≠ 0) (hqS : tbl.goto (topState st0) A < tbl.stateCount) :
    ∃ pt, pt.isExtra = false ∧ (∃ sym q d e kids, pt = PTree.node sym q d e kids) ∧
      reduce tbl (es ++ st0) A es.length dp pid false = .ok ((tbl.goto (topState st0) A, pt) :: st0) := by
  unfold reduce
  rw [popN_pushed es st0 hne]
  have hk : ∀ k, k ∈ (es.map (·.2)).reverse → k.isExtra = false := by
    intro k hk
    simp only [List.mem_reverse, List.mem_map] at hk
    obtain ⟨e, he, rfl⟩ := hk
    exact hne e he
  simp only [splitTrailing_nonextra _ hk]
  have hno : ¬ (tbl.goto (topState st0) A = 0 ∨ tbl.stateCount ≤ tbl.goto (topState st0) A) := by omega
  simp only [hno, if_false, List.reverse_nil, List.map_nil, List.nil_append]
  exact ⟨_, by simp [PTree.isExtra], ⟨_, _, _, _, _, rfl⟩, rfl⟩

/-! ## items, the annotation and the decidable premise -/

structure Item where
  lhs : Nat
  rhs : List Nat
  pid : Nat
  dot : Nat
  la : Nat
  /-- `some (X, [Y], pid)`: the symbol expected at the dot is `Y`, standing for the symbol in the
  production through unit productions whose reductions the generator removed
  (`remove_unit_reductions`: shifting `Y` leads directly where the goto on `X` would) -/
  sub : Option Prod := none
  deriving DecidableEq, Hashable, Repr, Inhabited

def Item.adv (it : Item) : Item := { it with dot := it.dot + 1, sub := none }

/-- the symbol expected at the dot -/
def Item.cur (it : Item) : Option Nat :=
  match it.sub with
  | some p => p.2.1.head?
  | none => (it.rhs.drop it.dot).head?

/-- the (production, position) the `allow` relation is asked about for a subtree at the dot -/
def Item.ctx (it : Item) : Prod × Nat :=
  match it.sub with
  | some p => (p, 0)
  | none => ((it.lhs, it.rhs, it.pid), it.dot)

structure Ann where
  items : Array (List Item) := #[]
  nullable : List Nat := []
  first : List (Nat × List Nat) := []
  deriving Inhabited

def Ann.itemsOf (ann : Ann) (s : Nat) : List Item := ann.items.getD s []

def nullOf (tbl : Table) (ann : Ann) (Y : Nat) : Bool := decide (tbl.tokenCount ≤ Y) && ann.nullable.contains Y

def firstOf (tbl : Table) (ann : Ann) (Y : Nat) : List Nat :=
  if Y < tbl.tokenCount then [Y] else (ann.first.lookup Y).getD []

/-- the tokens that can come next when `β` is still to be parsed and `la` follows it -/
def firstSeq (tbl : Table) (ann : Ann) : List Nat → Nat → List Nat
  | [], la => [la]
  | Y :: ys, la => firstOf tbl ann Y ++ (if nullOf tbl ann Y then firstSeq tbl ann ys la else [])

def isReduceCell (as : List Action) (A n pid : Nat) : Bool :=
  match as with
  | [.reduce B m _ q] => B == A && m == n && q == pid
  | _ => false

def itemOK (tbl : Table) (P : List Prod) (allow : Allow) (ann : Ann) (s : Nat) (it : Item) : Bool :=
  P.contains (it.lhs, it.rhs, it.pid) && decide (it.dot ≤ it.rhs.length) &&
  if it.dot = it.rhs.length then
    it.sub.isNone && isReduceCell (effective (tbl.actions s it.la)) it.lhs it.rhs.length it.pid
  else
    match it.cur with
    | none => false
    | some X =>
      if X < tbl.tokenCount then
        X != 0 &&
        match effective (tbl.actions s X) with
        | [.shift s' false _] => s' != 0 && decide (s' < tbl.stateCount) && (ann.itemsOf s').contains it.adv
        | _ => false
      else
        tbl.goto s X != 0 && decide (tbl.goto s X < tbl.stateCount) && (ann.itemsOf (tbl.goto s X)).contains it.adv &&
        P.all fun p => p.1 != X || !allow it.ctx.1 it.ctx.2 p ||
          ((firstSeq tbl ann (it.rhs.drop (it.dot + 1)) it.la).all fun x =>
              (ann.itemsOf s).contains ⟨X, p.2.1, p.2.2, 0, x, none⟩) ||
          -- the unit reduction of `p` was removed in this state: its only symbol stands at the dot
          (p.2.1.length == 1 && (ann.itemsOf s).contains { it with sub := some p })

/-- every token that can start `rhs` is in `first A` -/
def prefixFirstOK (tbl : Table) (ann : Ann) (A : Nat) : List Nat → Bool
  | [] => true
  | Y :: ys => (firstOf tbl ann Y).all (fun x => (firstOf tbl ann A).contains x) &&
      (!nullOf tbl ann Y || prefixFirstOK tbl ann A ys)

def firstOK (tbl : Table) (P : List Prod) (ann : Ann) : Bool :=
  P.all fun p => decide (tbl.tokenCount ≤ p.1) &&
    (!(p.2.1.all (nullOf tbl ann)) || ann.nullable.contains p.1) && prefixFirstOK tbl ann p.1 p.2.1

def startItemsOK (tbl : Table) (P : List Prod) (ann : Ann) (start : Nat) : Bool :=
  (P.all fun p => p.1 != start || (ann.itemsOf 1).contains ⟨start, p.2.1, p.2.2, 0, 0, none⟩) &&
  tbl.goto 1 start != 0 && decide (tbl.goto 1 start < tbl.stateCount) &&
  decide (effective (tbl.actions (tbl.goto 1 start) 0) = [Action.accept])

/-- The decidable premise of `table_complete`. -/
def completeOK (tbl : Table) (P : List Prod) (allow : Allow) (ann : Ann) (start : Nat) : Bool :=
  decide (1 < tbl.stateCount) && noLexEnd tbl &&
  ((List.range tbl.stateCount).all fun s => (ann.itemsOf s).all (itemOK tbl P allow ann s)) &&
  startItemsOK tbl P ann start && firstOK tbl P ann

/-! ## `first` / `nullable` are sound for derivation trees -/

structure FirstFacts (tbl : Table) (P : List Prod) (ann : Ann) : Prop where
  lhsNT : ∀ A rhs pid, (A, rhs, pid) ∈ P → tbl.tokenCount ≤ A
  null : ∀ A rhs pid, (A, rhs, pid) ∈ P → (∀ Y, Y ∈ rhs → nullOf tbl ann Y = true) → nullOf tbl ann A = true
  pref : ∀ A rhs pid, (A, rhs, pid) ∈ P → prefixFirstOK tbl ann A rhs = true

theorem firstFacts_of (tbl : Table) (P : List Prod) (ann : Ann) (h : firstOK tbl P ann = true) : FirstFacts tbl P ann := by
  unfold firstOK at h
  simp only [List.all_eq_true, Bool.and_eq_true, decide_eq_true_eq, Bool.or_eq_true, Bool.not_eq_true'] at h
  refine ⟨fun A rhs pid hp => (h _ hp).1.1, ?_, fun A rhs pid hp => (h _ hp).2⟩
  intro A rhs pid hp hall
  have := (h _ hp).1
  rcases this.2 with hn | hc
  · exfalso
    have : (rhs.all (nullOf tbl ann)) = true := by
      simp only [List.all_eq_true]; exact hall
    simp at hn
    obtain ⟨Y, hY, hf⟩ := hn
    rw [hall Y hY] at hf; cases hf
  · unfold nullOf
    have h1 : tbl.tokenCount ≤ A := this.1
    have h2 : ann.nullable.contains A = true := hc
    simp only [Bool.and_eq_true, decide_eq_true_eq]
    exact ⟨h1, h2⟩

/-- `a` can start the sequence -/
def PrefFirst (tbl : Table) (ann : Ann) : List Nat → Nat → Prop
  | [], _ => False
  | Y :: ys, a => a ∈ firstOf tbl ann Y ∨ (nullOf tbl ann Y = true ∧ PrefFirst tbl ann ys a)

theorem prefFirst_sub (tbl : Table) (ann : Ann) (A : Nat) : ∀ (rhs : List Nat) (a : Nat),
    prefixFirstOK tbl ann A rhs = true → PrefFirst tbl ann rhs a → a ∈ firstOf tbl ann A := by
  intro rhs
  induction rhs with
  | nil => intro a _ h; cases h
  | cons Y ys ih =>
    intro a hok h
    simp only [prefixFirstOK, Bool.and_eq_true, List.all_eq_true, Bool.or_eq_true, Bool.not_eq_true'] at hok
    rcases h with h | ⟨hn, h⟩
    · have := hok.1 a h
      simpa using this
    · rcases hok.2 with hf | hr
      · rw [hn] at hf; cases hf
      · exact ih a hr h

mutual
  theorem dt_first (tbl : Table) (P : List Prod) (allow : Allow) (ann : Ann) (ff : FirstFacts tbl P ann) :
      ∀ (t : DT), t.Valid tbl P allow →
        (t.yield = [] → nullOf tbl ann t.sym = true) ∧ (∀ a v, t.yield = a :: v → a ∈ firstOf tbl ann t.sym)
    | .leaf a, h => by
      simp only [DT.Valid] at h
      refine ⟨by intro hy; simp [DT.yield] at hy, ?_⟩
      intro b v hy
      simp only [DT.yield, List.cons.injEq] at hy
      obtain ⟨rfl, _⟩ := hy
      simp [DT.sym, firstOf, h.1]
    | .node A pid ks, h => by
      simp only [DT.Valid] at h
      obtain ⟨hp, hks⟩ := h
      have := dtl_first tbl P allow ann ff _ 0 ks hks
      refine ⟨?_, ?_⟩
      · intro hy
        simp only [DT.yield] at hy
        exact ff.null A _ pid hp (this.1 hy)
      · intro a v hy
        simp only [DT.yield] at hy
        exact prefFirst_sub tbl ann A _ a (ff.pref A _ pid hp) (this.2 a v hy)
  theorem dtl_first (tbl : Table) (P : List Prod) (allow : Allow) (ann : Ann) (ff : FirstFacts tbl P ann) :
      ∀ (q : Prod) (i : Nat) (ts : List DT), DT.ValidL tbl P allow q i ts →
        (DT.yieldL ts = [] → ∀ Y, Y ∈ ts.map DT.sym → nullOf tbl ann Y = true) ∧
        (∀ a v, DT.yieldL ts = a :: v → PrefFirst tbl ann (ts.map DT.sym) a)
    | _, _, [], _ => by
      refine ⟨by intro _ Y hY; simp at hY, ?_⟩
      intro a v hy; simp [DT.yieldL] at hy
    | q, i, t :: ts, h => by
      simp only [DT.ValidL] at h
      obtain ⟨ht, _, hts⟩ := h
      have h1 := dt_first tbl P allow ann ff t ht
      have h2 := dtl_first tbl P allow ann ff q (i + 1) ts hts
      refine ⟨?_, ?_⟩
      · intro hy Y hY
        simp only [DT.yieldL, List.append_eq_nil_iff] at hy
        simp only [List.map_cons, List.mem_cons] at hY
        rcases hY with rfl | hY
        · exact h1.1 hy.1
        · exact h2.1 hy.2 Y hY
      · intro a v hy
        simp only [DT.yieldL] at hy
        simp only [List.map_cons, PrefFirst]
        cases hty : t.yield with
        | nil =>
          rw [hty, List.nil_append] at hy
          exact .inr ⟨h1.1 hty, h2.2 a v hy⟩
        | cons b w =>
          rw [hty, List.cons_append, List.cons.injEq] at hy
          exact .inl (by rw [← hy.1]; exact h1.2 b w hty)
end

/-- the token that actually comes next is one that `firstSeq` allows -/
theorem follow_ok (tbl : Table) (P : List Prod) (allow : Allow) (ann : Ann) (ff : FirstFacts tbl P ann) (q : Prod) :
    ∀ (ts : List DT) (i : Nat), DT.ValidL tbl P allow q i ts → ∀ (r : List Nat),
      (DT.yieldL ts ++ r).headD 0 ∈ firstSeq tbl ann (ts.map DT.sym) (r.headD 0) := by
  intro ts
  induction ts with
  | nil => intro _ _ r; simp [DT.yieldL, firstSeq]
  | cons t ts ih =>
    intro i h r
    simp only [DT.ValidL] at h
    have h1 := dt_first tbl P allow ann ff t h.1
    simp only [DT.yieldL, List.map_cons, firstSeq, List.mem_append]
    cases hty : t.yield with
    | nil =>
      right
      simp only [h1.1 hty, if_true, List.nil_append]
      exact ih (i + 1) h.2.2 r
    | cons b w =>
      left
      simp only [List.cons_append, List.headD_cons]
      exact h1.2 b w hty

/-! ## what `itemOK` gives -/

theorem item_wf (tbl : Table) (P : List Prod) (allow : Allow) (ann : Ann) (s : Nat) (it : Item) (h : itemOK tbl P allow ann s it = true) :
    (it.lhs, it.rhs, it.pid) ∈ P ∧ it.dot ≤ it.rhs.length := by
  unfold itemOK at h
  simp only [Bool.and_eq_true, decide_eq_true_eq] at h
  exact ⟨by simpa using h.1.1, h.1.2⟩

theorem item_done (tbl : Table) (P : List Prod) (allow : Allow) (ann : Ann) (s : Nat) (it : Item) (h : itemOK tbl P allow ann s it = true)
    (hd : it.dot = it.rhs.length) :
    ∃ dp, effective (tbl.actions s it.la) = [.reduce it.lhs it.rhs.length dp it.pid] := by
  unfold itemOK at h
  simp only [hd, if_true, Bool.and_eq_true] at h
  have := h.2.2
  unfold isReduceCell at this
  split at this
  · next B m dp q heq =>
    simp only [Bool.and_eq_true, beq_iff_eq] at this
    obtain ⟨⟨rfl, rfl⟩, rfl⟩ := this
    exact ⟨dp, heq⟩
  · cases this

theorem item_term (tbl : Table) (P : List Prod) (allow : Allow) (ann : Ann) (s : Nat) (it : Item) (h : itemOK tbl P allow ann s it = true)
    (X : Nat) (hlt : it.dot < it.rhs.length) (hc : it.cur = some X) (hX : X < tbl.tokenCount) :
    X ≠ 0 ∧ ∃ s' rep, effective (tbl.actions s X) = [.shift s' false rep] ∧ s' ≠ 0 ∧ s' < tbl.stateCount ∧
      it.adv ∈ ann.itemsOf s' := by
  unfold itemOK at h
  have hne : ¬ it.dot = it.rhs.length := by omega
  simp only [hne, if_false, hc, hX, if_true, Bool.and_eq_true, bne_iff_ne, ne_eq] at h
  obtain ⟨_, hX0, hm⟩ := h
  refine ⟨hX0, ?_⟩
  split at hm
  · next s' rep heq =>
    simp only [Bool.and_eq_true, bne_iff_ne, ne_eq, decide_eq_true_eq] at hm
    exact ⟨s', rep, heq, hm.1.1, hm.1.2, by simpa using hm.2⟩
  · cases hm

theorem item_nt (tbl : Table) (P : List Prod) (allow : Allow) (ann : Ann) (s : Nat) (it : Item) (h : itemOK tbl P allow ann s it = true)
    (X : Nat) (hlt : it.dot < it.rhs.length) (hc : it.cur = some X) (hX : ¬ X < tbl.tokenCount) :
    tbl.goto s X ≠ 0 ∧ tbl.goto s X < tbl.stateCount ∧ it.adv ∈ ann.itemsOf (tbl.goto s X) ∧
    ∀ γ pid, (X, γ, pid) ∈ P → allow it.ctx.1 it.ctx.2 (X, γ, pid) = true →
      (∀ x, x ∈ firstSeq tbl ann (it.rhs.drop (it.dot + 1)) it.la → (⟨X, γ, pid, 0, x, none⟩ : Item) ∈ ann.itemsOf s) ∨
      (γ.length = 1 ∧ ({ it with sub := some (X, γ, pid) } : Item) ∈ ann.itemsOf s) := by
  unfold itemOK at h
  have hne : ¬ it.dot = it.rhs.length := by omega
  simp only [hne, if_false, hc, hX, Bool.and_eq_true, bne_iff_ne, ne_eq, decide_eq_true_eq, List.all_eq_true,
    Bool.or_eq_true, beq_iff_eq] at h
  obtain ⟨_, ⟨⟨hg0, hgS⟩, hadv⟩, hcl⟩ := h
  refine ⟨hg0, hgS, by simpa using hadv, ?_⟩
  intro γ pid hp hal
  rcases hcl (X, γ, pid) hp with ((hne' | hna) | hall) | hunit
  · simp at hne'
  · simp only [Bool.not_eq_true'] at hna; rw [hal] at hna; cases hna
  · left; intro x hx; simpa using hall x hx
  · right; exact ⟨hunit.1, by simpa using hunit.2⟩

theorem drop_succ_of {α : Type} (l : List α) (n : Nat) (x : α) (xs : List α) (h : l.drop n = x :: xs) :
    l.drop (n + 1) = xs := by
  have : l.drop (n + 1) = (l.drop n).drop 1 := by rw [List.drop_drop]
  rw [this, h]; rfl

structure CompleteFacts (tbl : Table) (P : List Prod) (allow : Allow) (ann : Ann) (start : Nat) : Prop where
  one : 1 < tbl.stateCount
  nle : ∀ s, tbl.lexEnd s = false
  item : ∀ s it, s < tbl.stateCount → it ∈ ann.itemsOf s → itemOK tbl P allow ann s it = true
  ff : FirstFacts tbl P ann
  startItems : ∀ γ pid, (start, γ, pid) ∈ P → (⟨start, γ, pid, 0, 0, none⟩ : Item) ∈ ann.itemsOf 1
  acc0 : tbl.goto 1 start ≠ 0
  accS : tbl.goto 1 start < tbl.stateCount
  acc : effective (tbl.actions (tbl.goto 1 start) 0) = [Action.accept]

theorem completeFacts_of (tbl : Table) (P : List Prod) (allow : Allow) (ann : Ann) (start : Nat)
    (h : completeOK tbl P allow ann start = true) : CompleteFacts tbl P allow ann start := by
  unfold completeOK at h
  simp only [Bool.and_eq_true, decide_eq_true_eq, List.all_eq_true, List.mem_range] at h
  obtain ⟨⟨⟨⟨h1, hnle⟩, hitems⟩, hstart⟩, hfirst⟩ := h
  unfold startItemsOK at hstart
  simp only [Bool.and_eq_true, List.all_eq_true, Bool.or_eq_true, bne_iff_ne, ne_eq, decide_eq_true_eq] at hstart
  obtain ⟨⟨⟨hsi, hg0⟩, hgS⟩, hacc⟩ := hstart
  refine ⟨h1, noLexEnd_elim tbl hnle, fun s it hs hit => hitems s hs it hit, firstFacts_of tbl P ann hfirst, ?_, hg0, hgS, hacc⟩
  intro γ pid hp
  rcases hsi (start, γ, pid) hp with hne | hc
  · simp at hne
  · simpa using hc

/-! ## the parser follows every derivation tree -/

mutual
  /-- parsing one subtree: with its symbol expected at the dot and an admissible follow token, the
  driver consumes exactly its yield and pushes one (non-extra) entry whose state holds the advanced item -/
  theorem tree_run (tbl : Table) (P : List Prod) (allow : Allow) (ann : Ann) (start : Nat) (cf : CompleteFacts tbl P allow ann start) :
      ∀ (t : DT), t.Valid tbl P allow → ∀ (st : Stack) (r : List Nat) (it : Item),
        topState st < tbl.stateCount → it ∈ ann.itemsOf (topState st) →
        allowedAt allow it.ctx.1 it.ctx.2 t = true →
        it.dot < it.rhs.length → it.cur = some t.sym →
        r.headD 0 ∈ firstSeq tbl ann (it.rhs.drop (it.dot + 1)) it.la →
        ∃ s' pt, Steps tbl { stack := st, toks := t.yield ++ r } { stack := (s', pt) :: st, toks := r } ∧
          pt.isExtra = false ∧ s' < tbl.stateCount ∧ it.adv ∈ ann.itemsOf s'
    | .leaf a, hv, st, r, it, hs, hit, _, hlt, hc, _ => by
      simp only [DT.Valid] at hv
      simp only [DT.sym] at hc
      have hok := cf.item _ it hs hit
      obtain ⟨_, s', rep, heff, h0, hS, hadv⟩ := item_term tbl P allow ann _ it hok a hlt hc hv.1
      refine ⟨s', PTree.leaf a false, ?_, rfl, hS, hadv⟩
      simp only [DT.yield, List.singleton_append]
      exact Steps.single (shift_step tbl st a s' rep r (cf.nle _) heff h0 hS)
    | .node A pid ks, hv, st, r, it, hs, hit, hal, hlt, hc, hfol => by
      simp only [DT.Valid] at hv
      obtain ⟨hp, hks⟩ := hv
      simp only [DT.sym] at hc
      have hok := cf.item _ it hs hit
      have hA : ¬ A < tbl.tokenCount := by have := cf.ff.lhsNT A _ pid hp; omega
      obtain ⟨hg0, hgS, hadv, hcl⟩ := item_nt tbl P allow ann _ it hok A hlt hc hA
      rcases hcl _ pid hp (by simpa [allowedAt, DT.prod?] using hal) with hclos | ⟨hlen1, hsub⟩
      · -- the closure item for this production with the actual follow token as look-ahead
        have hit0 := hclos _ hfol
        obtain ⟨es, hsteps, hlen, hne, htopS, hdone⟩ :=
          forest_run tbl P allow ann start cf ks st r ⟨A, ks.map DT.sym, pid, 0, r.headD 0, none⟩
            (by simpa [Item.ctx] using hks) hs hit0 rfl (by simp) rfl
        have hokd := cf.item _ _ htopS hdone
        obtain ⟨dp, heffr⟩ := item_done tbl P allow ann _ _ hokd rfl
        simp only [List.length_map] at heffr
        obtain ⟨pt, hpx, _, hred⟩ := reduce_pushed tbl es st A dp pid hne hg0 hgS
        rw [hlen] at hred
        refine ⟨tbl.goto (topState st) A, pt, ?_, hpx, hgS, hadv⟩
        simp only [DT.yield]
        exact hsteps.trans (Steps.single (reduce_step tbl _ _ r A ks.length dp pid (cf.nle _) heffr hred))
      · -- the unit reduction was removed: the only child is parsed in place of the node
        match ks, hks, hlen1, hsub with
        | [t1], hks, _, hsub =>
          simp only [DT.ValidL] at hks
          obtain ⟨s', pt, hst, hpx, hS', hadv'⟩ :=
            tree_run tbl P allow ann start cf t1 hks.1 st r { it with sub := some (A, [t1.sym], pid) } hs
              (by simpa using hsub) (by simpa [Item.ctx] using hks.2.1) hlt (by simp [Item.cur]) hfol
          refine ⟨s', pt, ?_, hpx, hS', by simpa [Item.adv] using hadv'⟩
          simpa [DT.yield, DT.yieldL] using hst
        | [], _, hl, _ => simp at hl
        | _ :: _ :: _, _, hl, _ => simp at hl
  /-- parsing the rest of a right-hand side -/
  theorem forest_run (tbl : Table) (P : List Prod) (allow : Allow) (ann : Ann) (start : Nat) (cf : CompleteFacts tbl P allow ann start) :
      ∀ (ts : List DT) (st : Stack) (r : List Nat) (it : Item),
        DT.ValidL tbl P allow (it.lhs, it.rhs, it.pid) it.dot ts →
        topState st < tbl.stateCount → it ∈ ann.itemsOf (topState st) → it.sub = none →
        it.rhs.drop it.dot = ts.map DT.sym → it.la = r.headD 0 →
        ∃ es : Stack, Steps tbl { stack := st, toks := DT.yieldL ts ++ r } { stack := es ++ st, toks := r } ∧
          es.length = ts.length ∧ (∀ e, e ∈ es → e.2.isExtra = false) ∧
          topState (es ++ st) < tbl.stateCount ∧
          ({ it with dot := it.rhs.length } : Item) ∈ ann.itemsOf (topState (es ++ st))
    | [], st, r, it, _, hs, hit, hsn, hd, _ => by
      refine ⟨[], (by simpa [DT.yieldL] using Steps.refl), rfl, (by intro e he; cases he), (by simpa using hs), ?_⟩
      have hwf := (item_wf tbl P allow ann _ it (cf.item _ it hs hit)).2
      have hlen : it.rhs.length ≤ it.dot := by
        simp only [List.map_nil, List.drop_eq_nil_iff] at hd; exact hd
      have : it.dot = it.rhs.length := by omega
      have heq : ({ it with dot := it.rhs.length } : Item) = it := by cases it; simp_all
      simpa [heq] using hit
    | t :: ts, st, r, it, hv, hs, hit, hsn, hd, hla => by
      simp only [DT.ValidL] at hv
      obtain ⟨ht, hal, hts⟩ := hv
      simp only [List.map_cons] at hd
      have hlt : it.dot < it.rhs.length := by
        rcases Nat.lt_or_ge it.dot it.rhs.length with h | h
        · exact h
        · have : it.rhs.drop it.dot = [] := List.drop_eq_nil_iff.mpr h
          rw [this] at hd; cases hd
      have hcur : it.cur = some t.sym := by simp [Item.cur, hsn, hd]
      have hfol : (DT.yieldL ts ++ r).headD 0 ∈ firstSeq tbl ann (it.rhs.drop (it.dot + 1)) it.la := by
        rw [hla, drop_succ_of _ _ _ _ hd]; exact follow_ok tbl P allow ann cf.ff _ ts _ hts r
      obtain ⟨s', pt, hst1, hpx, hS', hadv⟩ :=
        tree_run tbl P allow ann start cf t ht st (DT.yieldL ts ++ r) it hs hit
          (by simpa [Item.ctx, hsn] using hal) hlt hcur hfol
      have hd' : it.adv.rhs.drop it.adv.dot = ts.map DT.sym := drop_succ_of _ _ _ _ hd
      obtain ⟨es, hst2, hlen, hne, htopS, hdone⟩ :=
        forest_run tbl P allow ann start cf ts ((s', pt) :: st) r it.adv (by simpa [Item.adv] using hts)
          (by simpa [topState] using hS') (by simpa [topState] using hadv) rfl hd' hla
      refine ⟨es ++ [(s', pt)], ?_, by simp [hlen], ?_, by simpa using htopS, by simpa [Item.adv, hsn] using hdone⟩
      · simp only [DT.yieldL, List.append_assoc, List.singleton_append]
        exact hst1.trans hst2
      · intro e he
        rcases List.mem_append.mp he with he | he
        · exact hne e he
        · simp only [List.mem_singleton] at he; subst he; exact hpx
end

/-- `table_complete`: every derivation tree of the start symbol over `P` (respecting `allow`) is accepted. -/
theorem table_complete (tbl : Table) (P : List Prod) (allow : Allow) (ann : Ann) (start : Nat)
    (hok : completeOK tbl P allow ann start = true) (pid : Nat) (ks : List DT)
    (hv : (DT.node start pid ks).Valid tbl P allow) :
    ∃ f pt, runLoop tbl f { stack := [], toks := (DT.node start pid ks).yield } = .accepted pt := by
  have cf := completeFacts_of tbl P allow ann start hok
  simp only [DT.Valid] at hv
  obtain ⟨hp, hks⟩ := hv
  have hit0 := cf.startItems _ pid hp
  obtain ⟨es, hsteps, hlen, hne, htopS, hdone⟩ :=
    forest_run tbl P allow ann start cf ks [] [] ⟨start, ks.map DT.sym, pid, 0, 0, none⟩ hks (by simpa [topState] using cf.one)
      (by simpa [topState] using hit0) rfl (by simp) rfl
  have hokd := cf.item _ _ htopS hdone
  obtain ⟨dp, heffr⟩ := item_done tbl P allow ann _ _ hokd rfl
  simp only [List.length_map] at heffr
  obtain ⟨pt, hpx, ⟨sym, q, d, e, kids, hnode⟩, hred⟩ := reduce_pushed tbl es [] start dp pid hne (by simpa [topState] using cf.acc0)
    (by simpa [topState] using cf.accS)
  rw [hlen] at hred
  simp only [topState] at hred
  have hstep2 := reduce_step tbl (es ++ []) _ [] start ks.length dp pid (cf.nle _) (by simpa using heffr) hred
  have hacc : ∃ t, acceptTree [(tbl.goto 1 start, pt)] = some t := by
    subst hnode
    simp only [PTree.isExtra] at hpx
    exact acceptTree_some _ sym q d e kids [] (by simp [List.dropWhile, PTree.isExtra, hpx])
  obtain ⟨t, ht⟩ := hacc
  have hfinal := accept_step tbl [(tbl.goto 1 start, pt)] t (cf.nle _) (by simpa [topState] using cf.acc) ht
  have hall : Steps tbl { stack := [], toks := DT.yieldL ks ++ [] } { stack := [(tbl.goto 1 start, pt)], toks := [] } :=
    hsteps.trans (Steps.single hstep2)
  obtain ⟨f, hf⟩ := steps_accept hall hfinal
  exact ⟨f, t, by simpa [DT.yield] using hf⟩

end TsVerif.C03
