import TsVerif.C03.Props
#print axioms TsVerif.C03.driver_no_fault
#print axioms TsVerif.C03.driver_yield
#print axioms TsVerif.C03.check_sound
#print axioms TsVerif.C03.enum_sound
#print axioms TsVerif.C03.oracle_sound
#print axioms TsVerif.C03.select_tree_prefers_dynprec
#print axioms TsVerif.C03.select_tree_prefers_lower_cost
#print axioms TsVerif.C03.dyn_sound
#print axioms TsVerif.C03.pratt_yield
#print axioms TsVerif.C03.pratt_respects
#print axioms TsVerif.C03.glr_yield
#print axioms TsVerif.C03.glr_select_max
#print axioms TsVerif.C03.driver_sound
#print axioms TsVerif.C03.parser_sound_per_grammar
