import TsVerif.C03.DriverLemmas2
/-!
# C03 — cells with several actions: all runs of the table and the selection among them

The simplest faithful extension of the single-version driver to GLR cells: `runAll` follows EVERY
effective action of a cell (the runtime forks a stack version per action), collecting the trees of
all accepting runs in the order the runtime tries the actions; `selectBest` keeps one of them with
the comparison chain of `ts_parser__select_tree` restricted to error-free trees (greater dynamic
precedence wins, otherwise the earlier tree stays).  Not modelled: merging of stack versions that
reach the same state (the runtime then selects between sub-trees locally with the same comparison),
the version limit, and the structural tie-break `ts_subtree_compare` (a tie between different trees
is reported, not resolved).
-/
namespace TsVerif.C03

/-- one action of a cell applied to a configuration (`none` = this version dies) -/
def stepAct (acc : Stack → Option PTree) (tbl : Table) (c : Conf) (eoe : Bool) : Action → Option (Conf ⊕ PTree)
  | .shift s' extra _ =>
    match c.toks with
    | [] => none
    | a :: rest =>
      if (if extra then topState c.stack else s') = 0 ∨ tbl.stateCount ≤ (if extra then topState c.stack else s') then none
      else some (.inl { stack := ((if extra then topState c.stack else s'), PTree.leaf a extra) :: c.stack, toks := rest })
  | .reduce A n dp pid =>
    match reduce tbl c.stack A n dp pid eoe with
    | .ok st => some (.inl { c with stack := st })
    | .error _ => none
  | .accept =>
    match c.toks with
    | [] => (acc c.stack).map .inr
    | _ :: _ => none
  | .recover => none

def cellActions (tbl : Table) (c : Conf) : List Action :=
  effective (if tbl.lexEnd (topState c.stack) then tbl.actions (topState c.stack) 0
             else tbl.actions (topState c.stack) (c.toks.headD 0))

/-- the trees of all accepting runs, in action order -/
def runAll (acc : Stack → Option PTree) (tbl : Table) : Nat → Conf → List PTree
  | 0, _ => []
  | f + 1, c =>
    (cellActions tbl c).flatMap fun a =>
      match stepAct acc tbl c (tbl.lexEnd (topState c.stack)) a with
      | some (.inl c') => runAll acc tbl f c'
      | some (.inr t) => [t]
      | none => []

/-- keep `best` unless the candidate has the greater dynamic precedence (error-free trees) -/
def selectBest : List PTree → Option PTree
  | [] => none
  | t :: ts =>
    match selectBest ts with
    | none => some t
    | some b => if b.dynPrec > t.dynPrec then some b else some t

def parseAll (tbl : Table) (toks : List Nat) : List PTree :=
  runAll acceptTree tbl (fuelFor toks) { stack := [], toks := toks }

/-! ## yield of every accepting run -/

theorem stepAct_inl (acc : Stack → Option PTree) (tbl : Table) (c c' : Conf) (eoe : Bool) (a : Action)
    (h : stepAct acc tbl c eoe a = some (.inl c')) :
    stackLeaves c'.stack ++ c'.toks = stackLeaves c.stack ++ c.toks := by
  cases a with
  | shift s' extra rep =>
    simp only [stepAct] at h
    cases htoks : c.toks with
    | nil => simp [htoks] at h
    | cons x rest =>
      simp only [htoks] at h
      cases extra with
      | true =>
        simp only [if_true] at h
        split at h
        · cases h
        · cases h; simp [stackLeaves, PTree.leaves]
      | false =>
        simp only [Bool.false_eq_true, if_false] at h
        split at h
        · cases h
        · cases h; simp [stackLeaves, PTree.leaves]
  | reduce A n dp pid =>
    simp only [stepAct] at h
    cases hr : reduce tbl c.stack A n dp pid eoe with
    | ok st => rw [hr] at h; cases h; simp [reduce_leaves tbl _ _ A n dp pid eoe hr]
    | error e => rw [hr] at h; cases h
  | accept =>
    simp only [stepAct] at h
    split at h
    · cases hacc : acc c.stack <;> simp [hacc] at h
    · cases h
  | recover => simp [stepAct] at h

theorem stepAct_inr (acc : Stack → Option PTree) (hacc' : ∀ st t, acc st = some t → t.leaves = stackLeaves st ++ [0])
    (tbl : Table) (c : Conf) (eoe : Bool) (a : Action) (t : PTree)
    (h : stepAct acc tbl c eoe a = some (.inr t)) : t.leaves = stackLeaves c.stack ++ c.toks ++ [0] := by
  cases a with
  | shift s' extra rep =>
    simp only [stepAct] at h
    split at h
    · cases h
    · cases extra with
      | true => simp only [if_true] at h; split at h <;> cases h
      | false => simp only [Bool.false_eq_true, if_false] at h; split at h <;> cases h
  | reduce A n dp pid =>
    simp only [stepAct] at h
    split at h <;> cases h
  | accept =>
    simp only [stepAct] at h
    split at h
    · next htoks =>
      cases hacc : acc c.stack with
      | none => simp [hacc] at h
      | some t' =>
        simp [hacc] at h
        subst h
        rw [htoks, List.append_nil]
        exact hacc' _ _ hacc
    · cases h
  | recover => simp [stepAct] at h

theorem runAll_yield (acc : Stack → Option PTree) (hacc' : ∀ st t, acc st = some t → t.leaves = stackLeaves st ++ [0])
    (tbl : Table) : ∀ (f : Nat) (c : Conf) (t : PTree),
    t ∈ runAll acc tbl f c → t.leaves = stackLeaves c.stack ++ c.toks ++ [0] := by
  intro f
  induction f with
  | zero => intro c t h; simp [runAll] at h
  | succ k ih =>
    intro c t h
    simp only [runAll, List.mem_flatMap] at h
    obtain ⟨a, _, ht⟩ := h
    split at ht
    · next c' hs =>
      rw [ih c' t ht, stepAct_inl acc tbl c c' _ a hs]
    · next t' hs =>
      simp only [List.mem_singleton] at ht
      subst ht
      exact stepAct_inr acc hacc' tbl c _ a t hs
    · simp at ht

theorem selectBest_mem : ∀ (ts : List PTree) (t : PTree), selectBest ts = some t → t ∈ ts := by
  intro ts
  induction ts with
  | nil => intro t h; simp [selectBest] at h
  | cons x xs ih =>
    intro t h
    simp only [selectBest] at h
    split at h
    · cases h; exact List.mem_cons_self
    · next b' hb =>
      split at h
      · cases h; exact List.mem_cons_of_mem _ (ih _ hb)
      · cases h; exact List.mem_cons_self

/-- the selected tree has the greatest dynamic precedence among all accepting runs -/
theorem selectBest_max : ∀ (ts : List PTree) (t : PTree), selectBest ts = some t →
    ∀ u, u ∈ ts → u.dynPrec ≤ t.dynPrec := by
  intro ts
  induction ts with
  | nil => intro t h; simp [selectBest] at h
  | cons x xs ih =>
    intro t h u hu
    simp only [selectBest] at h
    split at h
    · next hn =>
      cases h
      rcases List.mem_cons.mp hu with rfl | hu'
      · exact Int.le_refl _
      · cases xs with
        | nil => cases hu'
        | cons y ys =>
          exfalso
          simp only [selectBest] at hn
          split at hn <;> (try split at hn) <;> cases hn
    · next b hb =>
      have hmax := ih b hb
      split at h
      · next hgt =>
        cases h
        rcases List.mem_cons.mp hu with rfl | hu'
        · omega
        · exact hmax u hu'
      · next hgt =>
        cases h
        rcases List.mem_cons.mp hu with rfl | hu'
        · exact Int.le_refl _
        · have := hmax u hu'; omega

end TsVerif.C03
