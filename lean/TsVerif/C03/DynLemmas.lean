import TsVerif.C03.LangLemmas
/-!
# Soundness of the dynamic-precedence enumerator (`dyn_sound`)
-/
namespace TsVerif.C03

theorem dedupD_fold_sub (l : List DItem) :
    ∀ (acc : Std.HashSet DItem × List DItem) (x : DItem),
      x ∈ (l.foldl (fun (acc : Std.HashSet DItem × List DItem) x =>
          if acc.1.contains x then acc else (acc.1.insert x, x :: acc.2)) acc).2 → x ∈ acc.2 ∨ x ∈ l := by
  induction l with
  | nil => intro acc x h; exact .inl h
  | cons y ys ih =>
    intro acc x h
    simp only [List.foldl] at h
    rcases ih _ x h with h' | h'
    · split at h'
      · exact .inl h'
      · rcases List.mem_cons.mp h' with rfl | h''
        · exact .inr List.mem_cons_self
        · exact .inl h''
    · exact .inr (List.mem_cons_of_mem _ h')

theorem dedupD_sub (l : List DItem) (x : DItem) (h : x ∈ dedupD l) : x ∈ l := by
  unfold dedupD at h
  rw [List.mem_reverse] at h
  rcases dedupD_fold_sub l _ x h with h' | h'
  · simp at h'
  · exact h'

theorem concatD_mem (L : Nat) (A B : List DItem) (x : DItem) (h : x ∈ concatD L A B) :
    ∃ u v, u ∈ A ∧ v ∈ B ∧ x = ⟨u.w ++ v.w, comb u.own v.own, comb u.inl v.inl, u.e + v.e⟩ := by
  unfold concatD at h
  simp only [List.mem_flatMap, List.mem_filterMap] at h
  obtain ⟨u, hu, v, hv, hw⟩ := h
  split at hw
  · cases hw; exact ⟨u, v, hu, hv, rfl⟩
  · cases hw

theorem concatRep_mem (L : Nat) (R A : List DItem) (x : DItem) (h : x ∈ concatRep L R A) :
    ∃ u v, u ∈ R ∧ v ∈ A ∧ x = ⟨u.w ++ v.w, 0, 0, u.e + (comb v.own v.inl + v.e)⟩ := by
  unfold concatRep at h
  simp only [List.mem_flatMap, List.mem_filterMap] at h
  obtain ⟨u, hu, v, hv, hw⟩ := h
  split at hw
  · cases hw; exact ⟨u, v, hu, hv, rfl⟩
  · cases hw

/-- what it means for an enumerated item to be backed by a derivation -/
def Backed (g : Grammar) (r : Rule) (x : DItem) : Prop := DerivesTokD g r x.w x.own x.inl x.e

theorem repCloseD_sound (g : Grammar) (a : Rule) (L : Nat) (A : List DItem)
    (hA : ∀ x, x ∈ A → Backed g a x) : ∀ k x, x ∈ repCloseD L A k →
      x.own = 0 ∧ x.inl = 0 ∧ DerivesTokD g (.rep a) x.w 0 0 x.e := by
  intro k
  induction k with
  | zero => intro x h; simp [repCloseD] at h; subst h; exact ⟨rfl, rfl, .repNil⟩
  | succ k ih =>
    intro x h
    simp only [repCloseD] at h
    rcases List.mem_append.mp (dedupD_sub _ _ h) with h | h
    · exact ih x h
    · obtain ⟨u, v, hu, hv, rfl⟩ := concatRep_mem _ _ _ _ h
      exact ⟨rfl, rfl, .repCons (ih u hu).2.2 (hA v hv)⟩

def EnvDSound (g : Grammar) (env : EnvD) : Prop :=
  ∀ x d, d ∈ env.get x → ∀ b, g.body x = some b → isTerminalBody b = false → Backed g b d

theorem evalRuleD_sound (g : Grammar) (env : EnvD) (L : Nat) (henv : EnvDSound g env) :
    ∀ (r : Rule) (x : DItem), x ∈ evalRuleD g env L r → Backed g r x := by
  intro r
  induction r with
  | blank => intro x h; simp [evalRuleD] at h; subst h; exact .blank
  | str s => intro x h; simp [evalRuleD] at h; subst h; exact .str
  | pat p => intro x h; simp [evalRuleD] at h
  | sym y =>
    intro x h
    simp only [evalRuleD] at h
    split at h
    · next b hb =>
      split at h
      · next ht => simp at h; subst h; exact .symTok hb ht
      · next ht =>
        have ht' : isTerminalBody b = false := by simpa using ht
        split at h
        · next hin =>
          simp only [List.mem_map] at h
          obtain ⟨d, hd, rfl⟩ := h
          exact .symInline hb ht' hin (henv y d hd b hb ht')
        · next hin =>
          simp only [List.mem_map] at h
          obtain ⟨d, hd, rfl⟩ := h
          exact .symRule hb ht' (by simpa using hin) (henv y d hd b hb ht')
    · simp at h
  | seq a b iha ihb =>
    intro x h
    simp only [evalRuleD] at h
    obtain ⟨u, v, hu, hv, rfl⟩ := concatD_mem _ _ _ _ (dedupD_sub _ _ h)
    exact .seq (iha u hu) (ihb v hv)
  | choice a b iha ihb =>
    intro x h
    simp only [evalRuleD] at h
    rcases List.mem_append.mp (dedupD_sub _ _ h) with h | h
    · exact .choiceL (iha x h)
    · exact .choiceR (ihb x h)
  | rep a iha =>
    intro x h
    simp only [evalRuleD] at h
    have hx := (List.mem_filter.mp h).1
    obtain ⟨h1, h2, h3⟩ := repCloseD_sound g a L _ iha L x hx
    unfold Backed
    rw [h1, h2]
    exact h3
  | rep1 a iha =>
    intro x h
    simp only [evalRuleD] at h
    obtain ⟨u, v, hu, hv, rfl⟩ := concatRep_mem _ _ _ _ (dedupD_sub _ _ h)
    have hu' := (List.mem_filter.mp hu).1
    exact .rep1 (repCloseD_sound g a L _ iha L u hu').2.2 (iha v hv)
  | field n a iha => intro x h; simp only [evalRuleD] at h; exact .field (iha x h)
  | «alias» v n a iha => intro x h; simp only [evalRuleD] at h; exact .alias (iha x h)
  | token a _ => intro x h; simp [evalRuleD] at h
  | immToken a _ => intro x h; simp [evalRuleD] at h
  | prec k v a iha =>
    intro x h
    simp only [evalRuleD] at h
    split at h
    · next hk =>
      subst hk
      simp only [List.mem_map] at h
      obtain ⟨d, hd, rfl⟩ := h
      exact .precDyn (iha d hd)
    · next hk => exact .prec hk (iha x h)
  | unknown ty => intro x h; simp [evalRuleD] at h

theorem enumStepD_sound (g : Grammar) (L : Nat) (env : EnvD) (henv : EnvDSound g env) : EnvDSound g (enumStepD g L env) := by
  intro x d hd b hb _
  unfold EnvD.get enumStepD at hd
  cases hl : (g.rules.map fun (x, b) => (x, evalRuleD g env L b)).lookup x with
  | none => rw [hl] at hd; simp at hd
  | some v =>
    rw [hl] at hd
    simp only [Option.getD_some] at hd
    obtain ⟨b', hb', hv⟩ := lookup_map_mem (fun e => evalRuleD g env L e.2) g.rules x v hl
    have : b' = b := by
      unfold Grammar.body at hb
      rw [hb'] at hb
      cases hb; rfl
    subst this hv
    exact evalRuleD_sound g env L henv b' d hd

theorem enumFixD_sound (g : Grammar) (L : Nat) : ∀ (cap k : Nat) (env : EnvD), EnvDSound g env →
    EnvDSound g (enumFixD g L cap k env).1 := by
  intro cap
  induction cap with
  | zero => intro k env h; simpa [enumFixD] using h
  | succ cap ih =>
    intro k env h
    simp only [enumFixD]
    split
    · exact enumStepD_sound g L env h
    · exact ih _ _ (enumStepD_sound g L env h)

end TsVerif.C03
