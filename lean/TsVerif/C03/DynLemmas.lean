import TsVerif.C03.LangLemmas
/-!
# Soundness of the dynamic-precedence enumerator (`dyn_sound`)
-/
namespace TsVerif.C03

theorem dedupD_fold_sub (l : List (List Tok × Int)) :
    ∀ (acc : Std.HashSet (List Tok × Int) × List (List Tok × Int)) (x : List Tok × Int),
      x ∈ (l.foldl (fun (acc : Std.HashSet (List Tok × Int) × List (List Tok × Int)) x =>
          if acc.1.contains x then acc else (acc.1.insert x, x :: acc.2)) acc).2 → x ∈ acc.2 ∨ x ∈ l := by
  induction l with
  | nil => intro acc x h; exact .inl h
  | cons y ys ih =>
    intro acc x h
    simp only [List.foldl] at h
    rcases ih _ x h with h' | h'
    · split at h'
      · exact .inl h'
      · rcases List.mem_cons.mp h' with rfl | h''
        · exact .inr List.mem_cons_self
        · exact .inl h''
    · exact .inr (List.mem_cons_of_mem _ h')

theorem dedupD_sub (l : List (List Tok × Int)) (x : List Tok × Int) (h : x ∈ dedupD l) : x ∈ l := by
  unfold dedupD at h
  rw [List.mem_reverse] at h
  rcases dedupD_fold_sub l _ x h with h' | h'
  · simp at h'
  · exact h'

theorem concatD_mem (L : Nat) (A B : List (List Tok × Int)) (x : List Tok × Int) (h : x ∈ concatD L A B) :
    ∃ u v, u ∈ A ∧ v ∈ B ∧ x = (u.1 ++ v.1, u.2 + v.2) := by
  unfold concatD at h
  simp only [List.mem_flatMap, List.mem_filterMap] at h
  obtain ⟨u, hu, v, hv, hw⟩ := h
  split at hw
  · cases hw; exact ⟨u, v, hu, hv, rfl⟩
  · cases hw

theorem repCloseD_sound (g : Grammar) (a : Rule) (L : Nat) (A : List (List Tok × Int))
    (hA : ∀ x, x ∈ A → DerivesTokD g a x.1 x.2) : ∀ k x, x ∈ repCloseD L A k → DerivesTokD g (.rep a) x.1 x.2 := by
  intro k
  induction k with
  | zero => intro x h; simp [repCloseD] at h; subst h; exact .repNil
  | succ k ih =>
    intro x h
    simp only [repCloseD] at h
    rcases List.mem_append.mp (dedupD_sub _ _ h) with h | h
    · exact ih x h
    · obtain ⟨u, v, hu, hv, rfl⟩ := concatD_mem _ _ _ _ h
      exact .repCons (ih u hu) (hA v hv)

def EnvDSound (g : Grammar) (env : EnvD) : Prop :=
  ∀ x e, e ∈ env.get x → ∀ b, g.body x = some b → isTerminalBody b = false → DerivesTokD g b e.1 e.2

theorem evalRuleD_sound (g : Grammar) (env : EnvD) (L : Nat) (henv : EnvDSound g env) :
    ∀ (r : Rule) (x : List Tok × Int), x ∈ evalRuleD g env L r → DerivesTokD g r x.1 x.2 := by
  intro r
  induction r with
  | blank => intro x h; simp [evalRuleD] at h; subst h; exact .blank
  | str s => intro x h; simp [evalRuleD] at h; subst h; exact .str
  | pat p => intro x h; simp [evalRuleD] at h
  | sym y =>
    intro x h
    simp only [evalRuleD] at h
    split at h
    · next b hb =>
      split at h
      · next ht => simp at h; subst h; exact .symTok hb ht
      · next ht =>
        have ht' : isTerminalBody b = false := by simpa using ht
        exact .symRule hb ht' (henv y x h b hb ht')
    · simp at h
  | seq a b iha ihb =>
    intro x h
    simp only [evalRuleD] at h
    obtain ⟨u, v, hu, hv, rfl⟩ := concatD_mem _ _ _ _ (dedupD_sub _ _ h)
    exact .seq (iha u hu) (ihb v hv)
  | choice a b iha ihb =>
    intro x h
    simp only [evalRuleD] at h
    rcases List.mem_append.mp (dedupD_sub _ _ h) with h | h
    · exact .choiceL (iha x h)
    · exact .choiceR (ihb x h)
  | rep a iha =>
    intro x h
    simp only [evalRuleD] at h
    exact repCloseD_sound g a L _ iha L x h
  | rep1 a iha =>
    intro x h
    simp only [evalRuleD] at h
    obtain ⟨u, v, hu, hv, rfl⟩ := concatD_mem _ _ _ _ (dedupD_sub _ _ h)
    exact .rep1 (repCloseD_sound g a L _ iha L u hu) (iha v hv)
  | field n a iha => intro x h; simp only [evalRuleD] at h; exact .field (iha x h)
  | «alias» v n a iha => intro x h; simp only [evalRuleD] at h; exact .alias (iha x h)
  | token a _ => intro x h; simp [evalRuleD] at h
  | immToken a _ => intro x h; simp [evalRuleD] at h
  | prec k v a iha =>
    intro x h
    simp only [evalRuleD] at h
    split at h
    · next hk =>
      subst hk
      simp only [List.mem_map] at h
      obtain ⟨e, he, rfl⟩ := h
      exact .precDyn (iha e he)
    · next hk => exact .prec hk (iha x h)
  | unknown ty => intro x h; simp [evalRuleD] at h

theorem lookup_map_memD {β γ : Type} (f : String × β → γ) :
    ∀ (l : List (String × β)) (x : String) (v : γ),
      (l.map fun e => (e.1, f e)).lookup x = some v → ∃ b, l.lookup x = some b ∧ v = f (x, b) :=
  lookup_map_mem f

theorem enumStepD_sound (g : Grammar) (L : Nat) (env : EnvD) (henv : EnvDSound g env) : EnvDSound g (enumStepD g L env) := by
  intro x e he b hb _
  unfold EnvD.get enumStepD at he
  cases hl : (g.rules.map fun (x, b) => (x, evalRuleD g env L b)).lookup x with
  | none => rw [hl] at he; simp at he
  | some v =>
    rw [hl] at he
    simp only [Option.getD_some] at he
    obtain ⟨b', hb', hv⟩ := lookup_map_mem (fun e => evalRuleD g env L e.2) g.rules x v hl
    have : b' = b := by
      unfold Grammar.body at hb
      rw [hb'] at hb
      cases hb; rfl
    subst this hv
    exact evalRuleD_sound g env L henv b' e he

theorem enumFixD_sound (g : Grammar) (L : Nat) : ∀ (cap k : Nat) (env : EnvD), EnvDSound g env →
    EnvDSound g (enumFixD g L cap k env).1 := by
  intro cap
  induction cap with
  | zero => intro k env h; simpa [enumFixD] using h
  | succ cap ih =>
    intro k env h
    simp only [enumFixD]
    split
    · exact enumStepD_sound g L env h
    · exact ih _ _ (enumStepD_sound g L env h)

end TsVerif.C03
