import TsVerif.C03.Pratt
/-!
# The Pratt tree has the token string as its yield and respects the operator table
-/
namespace TsVerif.C03

/-- the top operator of `e` (if it is a binary node) was allowed to continue under `ctx` -/
def topOK (t : OpTable) (ctx : PCtx) : ETree → Bool
  | .bin k _ _ => shouldShift ctx (t.binLevel k)
  | _ => true

/-- `l` may be the left operand of binary operator `k`: whatever operator is at the top of `l`
was completed (reduced) when `k` arrived, i.e. `k` was not allowed to continue under it -/
def leftOK (t : OpTable) (k : Nat) : ETree → Bool
  | .bin k1 _ _ => !shouldShift (some (t.binLevel k1, t.binRight k1)) (t.binLevel k)
  | .un u _ => !shouldShift (some (t.unLevel u, false)) (t.binLevel k)
  | _ => true

/-- The declared precedence and associativity hold at every node of the tree. -/
def Respects (t : OpTable) : ETree → Bool
  | .atom => true
  | .paren e => Respects t e
  | .un u e => Respects t e && topOK t (some (t.unLevel u, false)) e
  | .bin k l r => Respects t l && Respects t r && topOK t (some (t.binLevel k, t.binRight k)) r && leftOK t k l

def isBin : ETree → Bool
  | .bin _ _ _ => true
  | _ => false

def Declined (t : OpTable) (ctx : PCtx) (rest : List OpTok) : Prop :=
  ∀ k r, rest = .bin k :: r → shouldShift ctx (t.binLevel k) = false

structure ExprPost (t : OpTable) (ctx : PCtx) (toks : List OpTok) (e : ETree) (rest : List OpTok) : Prop where
  yield : toks = e.yield ++ rest
  resp : Respects t e = true
  top : topOK t ctx e = true
  decl : Declined t ctx rest

structure PrefixPost (t : OpTable) (toks : List OpTok) (e : ETree) (rest : List OpTok) : Prop where
  yield : toks = e.yield ++ rest
  resp : Respects t e = true
  notBin : isBin e = false
  left : ∀ k r, rest = .bin k :: r → leftOK t k e = true

def PAt (t : OpTable) (f : Nat) : Prop :=
  (∀ ctx toks e rest, parseExpr t f ctx toks = some (e, rest) → ExprPost t ctx toks e rest) ∧
  (∀ toks e rest, parsePrefix t f toks = some (e, rest) → PrefixPost t toks e rest) ∧
  (∀ ctx lhs toks e rest, parseLoop t f ctx lhs toks = some (e, rest) →
      Respects t lhs = true → topOK t ctx lhs = true → (∀ k r, toks = .bin k :: r → leftOK t k lhs = true) →
      (e.yield ++ rest = lhs.yield ++ toks ∧ Respects t e = true ∧ topOK t ctx e = true ∧ Declined t ctx rest))

theorem topOK_of_notBin (t : OpTable) (ctx : PCtx) (e : ETree) (h : isBin e = false) : topOK t ctx e = true := by
  cases e <;> simp_all [isBin, topOK]

theorem pratt_step (t : OpTable) (f : Nat) (ih : PAt t f) : PAt t (f + 1) := by
  obtain ⟨ihE, ihP, ihL⟩ := ih
  refine ⟨?_, ?_, ?_⟩
  · intro ctx toks e rest h
    simp only [parseExpr] at h
    split at h
    · next lhs r hp =>
      have pp := ihP toks lhs r hp
      have := ihL ctx lhs r e rest h pp.resp (topOK_of_notBin t ctx lhs pp.notBin) pp.left
      exact ⟨by rw [pp.yield]; exact this.1.symm, this.2.1, this.2.2.1, this.2.2.2⟩
    · cases h
  · intro toks e rest h
    simp only [parsePrefix] at h
    split at h
    · next r => cases h; exact ⟨by simp [ETree.yield], rfl, rfl, by intro k r' _; rfl⟩
    · next r =>
      split at h
      · next e' r' he =>
        cases h
        have ep := ihE none r e' _ he
        exact ⟨by rw [ep.yield]; simp [ETree.yield], by simpa [Respects] using ep.resp, rfl, by intro k r'' _; rfl⟩
      · cases h
    · next u r =>
      split at h
      · next e' r' he =>
        cases h
        have ep := ihE _ r e' _ he
        refine ⟨by rw [ep.yield]; simp [ETree.yield], ?_, rfl, ?_⟩
        · simp only [Respects, Bool.and_eq_true]; exact ⟨ep.resp, ep.top⟩
        · intro k r'' hr
          simp only [leftOK, Bool.not_eq_true']
          exact ep.decl k r'' hr
      · cases h
    · cases h
  · intro ctx lhs toks e rest h hresp htop hleft
    simp only [parseLoop] at h
    split at h
    · next k r =>
      split at h
      · next hshift =>
        split at h
        · next rhs r' he =>
          have ep := ihE _ r rhs r' he
          have hresp' : Respects t (.bin k lhs rhs) = true := by
            simp only [Respects, Bool.and_eq_true]
            exact ⟨⟨⟨hresp, ep.resp⟩, ep.top⟩, hleft k r rfl⟩
          have hleft' : ∀ k' r'', r' = .bin k' :: r'' → leftOK t k' (.bin k lhs rhs) = true := by
            intro k' r'' hr
            simp only [leftOK, Bool.not_eq_true']
            exact ep.decl k' r'' hr
          have := ihL ctx (.bin k lhs rhs) r' e rest h hresp' (by simpa [topOK] using hshift) hleft'
          refine ⟨?_, this.2.1, this.2.2.1, this.2.2.2⟩
          rw [this.1, ep.yield]
          simp [ETree.yield, List.append_assoc]
        · cases h
      · next hshift =>
        cases h
        refine ⟨rfl, hresp, htop, ?_⟩
        intro k' r' hr
        cases hr
        simpa using hshift
    · next hnb =>
      cases h
      refine ⟨rfl, hresp, htop, ?_⟩
      intro k r hr
      exact absurd hr (by intro h'; exact hnb k r h')

theorem pratt_all (t : OpTable) : ∀ f, PAt t f := by
  intro f
  induction f with
  | zero =>
    refine ⟨?_, ?_, ?_⟩
    · intro ctx toks e rest h; simp [parseExpr] at h
    · intro toks e rest h; simp [parsePrefix] at h
    · intro ctx lhs toks e rest h; simp [parseLoop] at h
  | succ f ih => exact pratt_step t f ih

end TsVerif.C03
