import TsVerif.C03.Pratt
/-!
# The Pratt tree has the token string as its yield and respects the operator table
-/
namespace TsVerif.C03

/-- the top operator of `e` (if it is a binary node) was allowed to continue under `ctx` -/
def topOK (t : OpTable) (ctx : PCtx) : ETree → Bool
  | .bin k _ _ => shouldShift ctx (t.binIn k)
  | .post k _ => shouldShift ctx (t.postIn k)
  | _ => true

/-- `l` may be the left operand of an operator of level `p`: whatever operator is at the top of `l`
was completed (reduced) when that operator arrived, i.e. it was not allowed to continue under it
(a postfix operator at the top of `l` is complete by itself) -/
def leftOK (t : OpTable) (p : List Int) : ETree → Bool
  | .bin k1 _ _ => !shouldShift (some (t.binLevel k1, t.binRight k1)) p
  | .un u _ => !shouldShift (some (t.unLevel u, false)) p
  | _ => true

/-- The declared precedence and associativity hold at every node of the tree. -/
def Respects (t : OpTable) : ETree → Bool
  | .atom => true
  | .paren e => Respects t e
  | .un u e => Respects t e && topOK t (some (t.unLevel u, false)) e
  | .bin k l r => Respects t l && Respects t r && topOK t (some (t.binLevel k, t.binRight k)) r &&
      leftOK t (t.binIn k) l
  | .post k e => Respects t e && leftOK t (t.postIn k) e

/-- produced by the operator loop (a binary or postfix node) rather than by the prefix parser -/
def isBin : ETree → Bool
  | .bin _ _ _ => true
  | .post _ _ => true
  | _ => false

def Declined (t : OpTable) (ctx : PCtx) (rest : List OpTok) : Prop :=
  (∀ k r, rest = .bin k :: r → shouldShift ctx (t.binIn k) = false) ∧
  (∀ k r, rest = .post k :: r → shouldShift ctx (t.postIn k) = false)

/-- the operand to the left of whatever operator comes next is complete -/
def LeftReady (t : OpTable) (e : ETree) (rest : List OpTok) : Prop :=
  (∀ k r, rest = .bin k :: r → leftOK t (t.binIn k) e = true) ∧
  (∀ k r, rest = .post k :: r → leftOK t (t.postIn k) e = true)

structure ExprPost (t : OpTable) (ctx : PCtx) (toks : List OpTok) (e : ETree) (rest : List OpTok) : Prop where
  yield : toks = e.yield ++ rest
  resp : Respects t e = true
  top : topOK t ctx e = true
  decl : Declined t ctx rest

structure PrefixPost (t : OpTable) (toks : List OpTok) (e : ETree) (rest : List OpTok) : Prop where
  yield : toks = e.yield ++ rest
  resp : Respects t e = true
  notBin : isBin e = false
  left : LeftReady t e rest

def PAt (t : OpTable) (f : Nat) : Prop :=
  (∀ ctx toks e rest, parseExpr t f ctx toks = some (e, rest) → ExprPost t ctx toks e rest) ∧
  (∀ toks e rest, parsePrefix t f toks = some (e, rest) → PrefixPost t toks e rest) ∧
  (∀ ctx lhs toks e rest, parseLoop t f ctx lhs toks = some (e, rest) →
      Respects t lhs = true → topOK t ctx lhs = true → LeftReady t lhs toks →
      (e.yield ++ rest = lhs.yield ++ toks ∧ Respects t e = true ∧ topOK t ctx e = true ∧ Declined t ctx rest))

theorem topOK_of_notBin (t : OpTable) (ctx : PCtx) (e : ETree) (h : isBin e = false) : topOK t ctx e = true := by
  cases e <;> simp_all [isBin, topOK]

theorem pratt_step (t : OpTable) (f : Nat) (ih : PAt t f) : PAt t (f + 1) := by
  obtain ⟨ihE, ihP, ihL⟩ := ih
  refine ⟨?_, ?_, ?_⟩
  · intro ctx toks e rest h
    simp only [parseExpr] at h
    split at h
    · next lhs r hp =>
      have pp := ihP toks lhs r hp
      have := ihL ctx lhs r e rest h pp.resp (topOK_of_notBin t ctx lhs pp.notBin) pp.left
      exact ⟨by rw [pp.yield]; exact this.1.symm, this.2.1, this.2.2.1, this.2.2.2⟩
    · cases h
  · intro toks e rest h
    simp only [parsePrefix] at h
    split at h
    · next r => cases h; exact ⟨by simp [ETree.yield], rfl, rfl, ⟨by intro k r' _; rfl, by intro k r' _; rfl⟩⟩
    · next r =>
      split at h
      · next e' r' he =>
        cases h
        have ep := ihE none r e' _ he
        exact ⟨by rw [ep.yield]; simp [ETree.yield], by simpa [Respects] using ep.resp, rfl,
          ⟨by intro k r'' _; rfl, by intro k r'' _; rfl⟩⟩
      · cases h
    · next u r =>
      split at h
      · next e' r' he =>
        cases h
        have ep := ihE _ r e' _ he
        refine ⟨by rw [ep.yield]; simp [ETree.yield], ?_, rfl, ?_⟩
        · simp only [Respects, Bool.and_eq_true]; exact ⟨ep.resp, ep.top⟩
        · refine ⟨?_, ?_⟩
          · intro k r'' hr
            simp only [leftOK, Bool.not_eq_true']
            exact ep.decl.1 k r'' hr
          · intro k r'' hr
            simp only [leftOK, Bool.not_eq_true']
            exact ep.decl.2 k r'' hr
      · cases h
    · cases h
  · intro ctx lhs toks e rest h hresp htop hleft
    simp only [parseLoop] at h
    split at h
    · next k r =>
      split at h
      · next hshift =>
        split at h
        · next rhs r' he =>
          have ep := ihE _ r rhs r' he
          have hresp' : Respects t (.bin k lhs rhs) = true := by
            simp only [Respects, Bool.and_eq_true]
            exact ⟨⟨⟨hresp, ep.resp⟩, ep.top⟩, hleft.1 k r rfl⟩
          have hleft' : LeftReady t (.bin k lhs rhs) r' := by
            refine ⟨?_, ?_⟩
            · intro k' r'' hr
              simp only [leftOK, Bool.not_eq_true']
              exact ep.decl.1 k' r'' hr
            · intro k' r'' hr
              simp only [leftOK, Bool.not_eq_true']
              exact ep.decl.2 k' r'' hr
          have := ihL ctx (.bin k lhs rhs) r' e rest h hresp' (by simpa [topOK] using hshift) hleft'
          refine ⟨?_, this.2.1, this.2.2.1, this.2.2.2⟩
          rw [this.1, ep.yield]
          simp [ETree.yield, List.append_assoc]
        · cases h
      · next hshift =>
        cases h
        refine ⟨rfl, hresp, htop, ?_, ?_⟩
        · intro k' r' hr
          cases hr
          simpa using hshift
        · intro k' r' hr
          cases hr
    · next k r =>
      split at h
      · next hshift =>
        have hresp' : Respects t (.post k lhs) = true := by
          simp only [Respects, Bool.and_eq_true]
          exact ⟨hresp, hleft.2 k r rfl⟩
        have hleft' : LeftReady t (.post k lhs) r := ⟨by intro k' r'' _; rfl, by intro k' r'' _; rfl⟩
        have := ihL ctx (.post k lhs) r e rest h hresp' (by simpa [topOK] using hshift) hleft'
        refine ⟨?_, this.2.1, this.2.2.1, this.2.2.2⟩
        rw [this.1]
        simp [ETree.yield, List.append_assoc]
      · next hshift =>
        cases h
        refine ⟨rfl, hresp, htop, ?_, ?_⟩
        · intro k' r' hr
          cases hr
        · intro k' r' hr
          cases hr
          simpa using hshift
    · next hnb hnp =>
      cases h
      refine ⟨rfl, hresp, htop, ?_, ?_⟩
      · intro k r hr
        exact absurd hr (by intro h'; exact hnb k r h')
      · intro k r hr
        exact absurd hr (by intro h'; exact hnp k r h')

theorem pratt_all (t : OpTable) : ∀ f, PAt t f := by
  intro f
  induction f with
  | zero =>
    refine ⟨?_, ?_, ?_⟩
    · intro ctx toks e rest h; simp [parseExpr] at h
    · intro toks e rest h; simp [parsePrefix] at h
    · intro ctx lhs toks e rest h; simp [parseLoop] at h
  | succ f ih => exact pratt_step t f ih

end TsVerif.C03
