import TsVerif.C03.DeriveLemmas
/-!
# C03 — the derivation checker with a table of node checks (`checkDerivationM`)

`checkBody` re-checks the body of a child node once per alternative of the parent's rule that mentions
it: for `start: choice(seq(start, num), seq(start, 'a', r1), …)` and a left-nested tree of depth `d`
that is `2^d` checks.  `checkDerivationM` walks the tree bottom-up once, checks the children of every
node against every rule body a node of its kind can stand for (`cands`), and records the answers in a
table; the matcher (`matchRuleP`) is then run with the table look-up as its check of child nodes.  A
query the table does not hold falls back to `checkBody`, so the candidate list is an optimisation
only.  `checkM_sound`: a tree accepted this way is a derivation.
-/
namespace TsVerif.C03

mutual
  def beqV : VNode → VNode → Bool
    | .mk k n e f ks, .mk k' n' e' f' ks' => k == k' && n == n' && e == e' && f == f' && beqVL ks ks'
  def beqVL : List VNode → List VNode → Bool
    | [], [] => true
    | a :: as, b :: bs => beqV a b && beqVL as bs
    | _, _ => false
end

mutual
  theorem beqV_eq : ∀ (a b : VNode), beqV a b = true → a = b
    | .mk k n e f ks, .mk k' n' e' f' ks', h => by
      simp only [beqV, Bool.and_eq_true, beq_iff_eq] at h
      obtain ⟨⟨⟨⟨rfl, rfl⟩, rfl⟩, rfl⟩, hk⟩ := h
      rw [beqVL_eq ks ks' hk]
  theorem beqVL_eq : ∀ (a b : List VNode), beqVL a b = true → a = b
    | [], [], _ => rfl
    | a :: as, b :: bs, h => by
      simp only [beqVL, Bool.and_eq_true] at h
      rw [beqV_eq a b h.1, beqVL_eq as bs h.2]
    | [], _ :: _, h => by simp [beqVL] at h
    | _ :: _, [], h => by simp [beqVL] at h
end

/-- (rule body, children, do the children derive from the body?) -/
abbrev Tab := List (Rule × List VNode × Bool)

def Tab.find : Tab → Rule → List VNode → Option Bool
  | [], _, _ => none
  | (b', k', r) :: rest, b, kids => if beqVL k' kids && decide (b' = b) then some r else Tab.find rest b kids

def cbTab (g : Grammar) (fuel : Nat) (t : Tab) (b : Rule) (kids : List VNode) : Bool :=
  match t.find b kids with
  | some r => r
  | none => checkBody g fuel b kids

def TabOK (g : Grammar) (t : Tab) : Prop := ∀ b kids, (b, kids, true) ∈ t → NodeBody g b kids

theorem find_mem : ∀ (t : Tab) (b : Rule) (kids : List VNode) (r : Bool), t.find b kids = some r → (b, kids, r) ∈ t := by
  intro t
  induction t with
  | nil => intro b kids r h; simp [Tab.find] at h
  | cons e rest ih =>
    intro b kids r h
    obtain ⟨b', k', r'⟩ := e
    simp only [Tab.find] at h
    split at h
    · next hc =>
      simp only [Bool.and_eq_true, decide_eq_true_eq] at hc
      cases h
      have := beqVL_eq k' kids hc.1
      rw [this, hc.2]
      exact List.mem_cons_self
    · exact List.mem_cons_of_mem _ (ih b kids r h)

theorem cbTab_sound (g : Grammar) (fuel : Nat) (t : Tab) (hT : TabOK g t) (b : Rule) (kids : List VNode)
    (h : cbTab g fuel t b kids = true) : NodeBody g b kids := by
  unfold cbTab at h
  split at h
  · next r hf => subst h; exact hT b kids (find_mem t b kids true hf)
  · exact checkBody_sound g fuel b kids h

/-- a rule without its FIELD / ALIAS / PREC wrappers -/
def coreOf : Rule → Rule
  | .field _ a => coreOf a
  | .alias _ _ a => coreOf a
  | .prec _ _ a => coreOf a
  | r => r

/-- what the content of an `ALIAS` of value `k` can make a node of kind `k` stand for -/
def aliasBodies (g : Grammar) (k : String) : Rule → List Rule
  | .alias v _ a =>
    (if v == k then
      match coreOf a with
      | .sym x => (g.body x).toList
      | .rep r => [.rep r]
      | .rep1 r => [.rep1 r]
      | _ => []
     else []) ++ aliasBodies g k a
  | .seq a b => aliasBodies g k a ++ aliasBodies g k b
  | .choice a b => aliasBodies g k a ++ aliasBodies g k b
  | .rep a => aliasBodies g k a
  | .rep1 a => aliasBodies g k a
  | .field _ a => aliasBodies g k a
  | .prec _ _ a => aliasBodies g k a
  | _ => []

/-- the rule bodies a node of kind `k` may have to be checked against -/
def cands (g : Grammar) (k : String) : List Rule :=
  ((g.body k).toList ++ g.rules.flatMap fun e => aliasBodies g k e.2).eraseDups

mutual
  def buildTab (g : Grammar) (fuel : Nat) : VNode → Tab → Tab
    | .mk k _ _ _ kids, t =>
      let t1 := buildTabL g fuel kids t
      (cands g k).foldl (fun acc b => (b, kids, bodyP g (cbTab g fuel acc) fuel b kids) :: acc) t1
  def buildTabL (g : Grammar) (fuel : Nat) : List VNode → Tab → Tab
    | [], t => t
    | x :: xs, t => buildTabL g fuel xs (buildTab g fuel x t)
end

theorem fold_ok (g : Grammar) (fuel : Nat) (kids : List VNode) : ∀ (cs : List Rule) (t : Tab), TabOK g t →
    TabOK g (cs.foldl (fun acc b => (b, kids, bodyP g (cbTab g fuel acc) fuel b kids) :: acc) t) := by
  intro cs
  induction cs with
  | nil => intro t h; exact h
  | cons c cs ih =>
    intro t h
    simp only [List.foldl_cons]
    apply ih
    intro b ks hm
    rcases List.mem_cons.mp hm with he | hm'
    · simp only [Prod.mk.injEq] at he
      obtain ⟨rfl, rfl, hr⟩ := he
      exact bodyP_sound g _ (cbTab_sound g fuel t h) fuel _ _ hr.symm
    · exact h b ks hm'

mutual
  theorem buildTab_ok (g : Grammar) (fuel : Nat) : ∀ (n : VNode) (t : Tab), TabOK g t → TabOK g (buildTab g fuel n t)
    | .mk k _ _ _ kids, t, h => by
      simp only [buildTab]
      exact fold_ok g fuel kids _ _ (buildTabL_ok g fuel kids t h)
  theorem buildTabL_ok (g : Grammar) (fuel : Nat) : ∀ (ns : List VNode) (t : Tab), TabOK g t → TabOK g (buildTabL g fuel ns t)
    | [], t, h => by simpa [buildTabL] using h
    | x :: xs, t, h => by
      simp only [buildTabL]
      exact buildTabL_ok g fuel xs _ (buildTab_ok g fuel x t h)
end

/-- The memoising checker. -/
def checkDerivationM (g : Grammar) (t : VNode) : Bool :=
  match t, g.body g.start with
  | .mk k n e fl kids, some b =>
    decide (k = g.start) && n && !e && fl.isNone &&
      bodyP g (cbTab g (checkFuel g t) (buildTabL g (checkFuel g t) kids [])) (checkFuel g t) b kids
  | _, none => false

/-- `checkM_sound`: a tree accepted by the memoising checker is a derivation of the grammar. -/
theorem checkM_sound (g : Grammar) (t : VNode) (h : checkDerivationM g t = true) : Derives g t := by
  unfold checkDerivationM at h
  obtain ⟨k, n, e, fl, kids⟩ := t
  cases hb : g.body g.start with
  | none => simp [hb] at h
  | some b =>
    simp only [hb, Bool.and_eq_true, decide_eq_true_eq, Bool.not_eq_true', Option.isNone_iff_eq_none] at h
    obtain ⟨⟨⟨⟨rfl, rfl⟩, rfl⟩, rfl⟩, hbody⟩ := h
    have hT : TabOK g (buildTabL g (checkFuel g (.mk g.start true false none kids)) kids []) :=
      buildTabL_ok g _ kids [] (by intro b ks hm; cases hm)
    exact ⟨b, kids, hb, rfl, bodyP_sound g _ (cbTab_sound g _ _ hT) _ b kids hbody⟩

end TsVerif.C03
