import TsVerif.C03.Table
/-!
# C03 — the raw parse-table rows and the runtime's lookup

The dump also carries, per state, the RAW content of the row the runtime decodes: for a large state
the row of `parse_table` (indexed by symbol), for a small state the record of `small_parse_table`
(group count, then per group: value, symbol count, symbols — `lib/include/tree_sitter/parser.h`,
written by the generator's `render`), and the value `ts_language_lookup` returns for every symbol.
`rawLookup` is the format's meaning: the value of the first group that lists the symbol, 0 if none
does.  `rawTie` compares it with the runtime's answer for every (state, symbol) of the table — an
exhaustive tie between the table the generator wrote and the table the parser walks.
-/
namespace TsVerif.C03

inductive RawRow where
  | large (vals : List Nat)
  | small (groups : List (Nat × List Nat))
  deriving Repr, Inhabited

/-- parse `value count sym… value count sym…` -/
def parseGroups : Nat → Nat → List Nat → List (Nat × List Nat)
  | 0, _, _ => []
  | _, 0, _ => []
  | f + 1, n + 1, v :: c :: rest => (v, rest.take c) :: parseGroups f n (rest.drop c)
  | _, _, _ => []

def smallLookup : List (Nat × List Nat) → Nat → Nat
  | [], _ => 0
  | (v, syms) :: rest, y => if syms.contains y then v else smallLookup rest y

def rawLookup (r : RawRow) (y : Nat) : Nat :=
  match r with
  | .large vals => vals.getD y 0
  | .small groups => smallLookup groups y

/-- the value of a group is found for each of its symbols unless an earlier group lists the symbol -/
theorem smallLookup_hit (pre : List (Nat × List Nat)) (v : Nat) (syms : List Nat) (post : List (Nat × List Nat)) (y : Nat)
    (hy : y ∈ syms) (hpre : ∀ g, g ∈ pre → y ∉ g.2) : smallLookup (pre ++ (v, syms) :: post) y = v := by
  induction pre with
  | nil => simp [smallLookup, hy]
  | cons g gs ih =>
    obtain ⟨w, ss⟩ := g
    have h1 : ss.contains y = false := by
      have := hpre (w, ss) (by simp)
      simpa using this
    simp only [List.cons_append, smallLookup, h1]
    exact ih (fun g hg => hpre g (by simp [hg]))

theorem smallLookup_miss (gs : List (Nat × List Nat)) (y : Nat) (h : ∀ g, g ∈ gs → y ∉ g.2) : smallLookup gs y = 0 := by
  induction gs with
  | nil => rfl
  | cons g gs ih =>
    obtain ⟨w, ss⟩ := g
    have h1 : ss.contains y = false := by
      have := h (w, ss) (by simp)
      simpa using this
    simp only [smallLookup, h1]
    exact ih (fun g hg => h g (by simp [hg]))

structure RawDump where
  rows : List (Nat × RawRow) := []
  looked : List (Nat × List Nat) := []
  deriving Inhabited

def RawDump.addLine (d : RawDump) (line : String) : RawDump :=
  match line.splitOn " " with
  | "rawL" :: s :: vals => { d with rows := (natOf' s, .large (vals.map natOf')) :: d.rows }
  | "rawS" :: s :: gc :: rest =>
    let nums := rest.map natOf'
    { d with rows := (natOf' s, .small (parseGroups (nums.length + 1) (natOf' gc) nums)) :: d.rows }
  | "v" :: s :: vals => { d with looked := (natOf' s, vals.map natOf') :: d.looked }
  | _ => d

/-- the first (state, symbol, raw value, looked-up value) on which the runtime's lookup differs from
the raw row; `none` = they agree everywhere (or the dump carries no raw rows) -/
def rawTie (d : RawDump) (symbolCount : Nat) : Option (Nat × Nat × Nat × Nat) :=
  d.rows.findSome? fun (s, row) =>
    match d.looked.lookup s with
    | none => some (s, 0, 0, 0)
    | some vals =>
      (List.range symbolCount).findSome? fun y =>
        let a := rawLookup row y
        let b := vals.getD y 0
        if a == b then none else some (s, y, a, b)

/-- `ts_language_alias_sequence` returns row `production_id` of `ts_alias_sequences` (stride
`max_alias_sequence_length`) for every production id but 0, and `ts_parser__reduce` / the tree cursor
index it with every child position: a reduce action with a non-zero production id must not have more
children than the row is long, or the runtime reads the NEXT production's aliases (or past the table).
Returns the first offending (state, symbol, child count). -/
def aliasRowOverrun (tbl : Table) : Option (Nat × Nat × Nat) :=
  (List.range tbl.acts.size).findSome? fun s =>
    (tbl.acts.getD s []).findSome? fun e =>
      e.2.findSome? fun a => match a with
        | .reduce _ n _ pid => if pid != 0 && n > tbl.maxAliasSeqLen then some (s, e.1, n) else none
        | _ => none

end TsVerif.C03
