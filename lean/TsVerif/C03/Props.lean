import TsVerif.C03.DriverLemmas2
import TsVerif.C03.DeriveLemmas
import TsVerif.C03.Memo
import TsVerif.C03.LangLemmas
import TsVerif.C03.DynLemmas
import TsVerif.C03.PrattLemmas
import TsVerif.C03.Sound
import TsVerif.C03.Relate
import TsVerif.C03.Complete
import TsVerif.C03.Cover
import TsVerif.C03.Rename
import TsVerif.C03.RawTable
import TsVerif.C03.Judge
/-!
# C03 — A generated parser recognises exactly its grammar and builds its derivation

Property text: for every grammar the generator accepts, the generated parser reports no error on a
string exactly when the grammar derives it, and on such strings the tree is a derivation of the
grammar: the unique one for conflict-free grammars, and for operator grammars the one selected by the
declared precedence and associativity.  For grammars with declared conflicts, the tree is one of the
grammar's derivations, and where two candidate subtrees for the same text differ in dynamic
precedence the one with the greater value is kept.

The generator's Rust code is not modelled.  The theorems are about *verified checkers* applied to
what the generator and the runtime produce on every run (table dump, trees).

## Clause-by-clause map

Status: **proved** = a ∀-theorem about the model driver on the real dumped table (tied to the real
parser by the per-string correspondence `run tbl toks` vs `ts_parser_parse`: accept/reject, tree,
production ids, dynamic precedence); **partial** = proved under a decidable hypothesis that the check
evaluates per generated grammar (fraction = grammars where it holds, quick tier, seed 1: 202
dumped tables; the thorough tier has ≈ 800 with the same proportions); **judged** = decided per explored string by a verified checker or a model, no ∀-theorem.

| phrase of the property text | theorems | status |
|---|---|---|
| "for every grammar the generator accepts" | — the generator runs for real on random CFGs / operator tables / declared-conflict / zoo grammars; operator tables: accepted iff `OpTable.resolvable` | judged (15 rejected tables, all unresolvable) |
| the runtime's table walk is well defined (no pop below the base, no undefined goto, a root at accept) | `driver_no_fault` | partial: `tableClosed` — 202/202 (failing is a violation); the RAW table rows read by `rawLookup` (`small_table_lookup_first_group`) equal `ts_language_lookup` on every (state, symbol): 202/202 (failing is a violation); no reduce action with a production id is longer than a row of `ts_alias_sequences` (`aliasRowOverrun`, judged per table) |
| "reports no error on a string ⇒ the grammar derives it" | `driver_sound` (accepted tree is a tree over the productions the table spells), `parser_sound_per_grammar` (… ⇒ `DerivesTok g start toks`, ALL strings) | partial: `tableSafe ∧ relOK g tbl aux` (grammar read through `tokenView`, non-terminals renamed by `renameNT`: `parser_sound_renamed`) — 189/202 (in `relScope`, 175, failing is a violation); outside: judged per string (`check_memo_sound` on the real tree) |
| "the grammar derives it ⇒ reports no error" | `table_complete_for_its_productions`, `grammar_covered_by_productions`, `parser_complete_per_grammar` (ALL strings of non-extra terminals; fuel existential) | partial: `coverOK ∧ completeOK` (`parser_complete_renamed`) — 70/202, i.e. 70 of the 99 random-CFG/zoo tables it is attempted on (for covered grammars without precedence and one action per cell, 18, failing is a violation); outside: judged per string (oracle up to L, generated sentences), except members lost to a statically resolved real LR(1) conflict (by design; counted) |
| "exactly when" (both halves together) | `parser_recognises_exactly_its_grammar` : accepts ↔ `DerivesTok` | partial: all four validations (`…_up_to_names`) — 70/202 |
| the membership oracle behind the per-string judgement never claims a non-member | `enum_sound`, `oracle_sound` | proved (its completeness at the fixpoint: not proved; converged on 152/152) |
| "the tree is a derivation of the grammar" (fields, aliases, hidden/inlined rules, extras) | `check_sound`, `check_memo_sound` : `checkDerivationM g t = true → Derives g t`; `driver_yield` (leaves = tokens) | judged per error-free real tree (9625/9625 pass; thorough ≈ 95 000) with a proved checker; `check_complete` not proved |
| "the unique one for conflict-free grammars" | — (`unique_eq` not proved); the model driver is deterministic and its tree equals the real internal tree | judged (correspondence on every accepted string) |
| "for operator grammars the one selected by the declared precedence and associativity" | `pratt_yield`, `pratt_respects` (binary/prefix/postfix, integer/negative/default levels, rules sharing an operator token) | proved about the Pratt model; real tree = Pratt tree judged per string (180 000 strings quick, ≈ 2 M thorough, incl. all chains of two and three operators; NAMED precedence levels, operators as alternatives of one rule) |
| "declared conflicts: the tree is one of the grammar's derivations" | `check_sound`; `glr_yield` (every accepting run of a multi-action table yields the token string) | judged per string; the GLR model (`parseAll`) is tied by correspondence (version merging not modelled) |
| "the one with the greater dynamic precedence is kept" | `glr_select_max`, `select_tree_prefers_dynprec`, `select_tree_prefers_lower_cost`, `dyn_sound` (every (string, total) of the dynamic-precedence oracle comes from a derivation) | proved about `selectBest` / the port of `ts_parser__select_tree`; real root's dynamic precedence = greatest total judged per string |

OPEN (kept at full strength, not proved): `check_complete` (`Derives g t → checkDerivation g t = true`,
false as stated for hidden recursion deeper than the fuel), completeness of the enumerator at its
fixpoint, uniqueness of the derivation for conflict-free grammars (`unique_eq`), a termination
bound for the driver (fuel is existential in the completeness theorems), extras inside the string
and hidden terminal rules in `parser_complete_per_grammar`.
-/
namespace TsVerif.C03

/-- `driver_no_fault`: on a table that passes the decidable closedness check the single-version
driver never pops below the stack base, never looks up an undefined goto, never enters a
non-existing state, never accepts without a root — for ALL token strings (symbol 0 is reserved for
the end of input). -/
theorem driver_no_fault (tbl : Table) (hclosed : tableClosed tbl = true)
    (toks : List Nat) (hnz : ∀ a, a ∈ toks → a ≠ 0) : ∀ f, run tbl toks ≠ .fault f := by
  unfold run
  exact runLoop_no_fault tbl (closed_of_tableClosed tbl hclosed) _ _ (by simp [StackInv]) hnz

/-- `driver_yield`: the leaves of an accepted tree are exactly the consumed tokens, in order,
followed by the end-of-input leaf (any table, any token string). -/
theorem driver_yield (tbl : Table) (toks : List Nat) (t : PTree) (h : run tbl toks = .accepted t) :
    t.leaves = toks ++ [0] := by
  unfold run at h
  have := runLoop_yield tbl _ _ t h
  simpa [stackLeaves] using this

/-- `small_table_lookup_first_group`: what a small state's record means — a symbol listed in a group
(and in no earlier one) has that group's value.  `rawTie` compares this reading of the RAW rows the
generator wrote with what the runtime's `ts_language_lookup` answers, for every (state, symbol) of
every dumped table (violation `lookup-differs-from-raw-table`). -/
theorem small_table_lookup_first_group (pre : List (Nat × List Nat)) (v : Nat) (syms : List Nat)
    (post : List (Nat × List Nat)) (y : Nat) (hy : y ∈ syms) (hpre : ∀ g, g ∈ pre → y ∉ g.2) :
    rawLookup (.small (pre ++ (v, syms) :: post)) y = v :=
  smallLookup_hit pre v syms post y hy hpre

/-- `check_sound`: a tree accepted by the executable checker is a derivation of the grammar. -/
theorem check_sound (g : Grammar) (t : VNode) (h : checkDerivation g t = true) : Derives g t := by
  unfold checkDerivation at h
  split at h
  · next k n e fl kids b hb =>
    simp only [Bool.and_eq_true, decide_eq_true_eq, Bool.not_eq_true', Option.isNone_iff_eq_none] at h
    obtain ⟨⟨⟨⟨hk, hn⟩, he⟩, hf⟩, hbody⟩ := h
    subst hk hn he hf
    exact ⟨b, kids, hb, rfl, checkBody_sound g _ b kids hbody⟩
  · cases h

/-- `check_memo_sound`: the same for the checker the driver runs, which checks the children of every
node once (bottom-up table of node checks) instead of once per alternative that mentions the node —
`checkDerivation` is exponential in the depth of left-nested trees for rules with two alternatives
that start with the same recursive symbol. -/
theorem check_memo_sound (g : Grammar) (t : VNode) (h : checkDerivationM g t = true) : Derives g t :=
  checkM_sound g t h

/-- `enum_sound`: every string the bounded enumerator lists for a (non-token) rule is derivable from it. -/
theorem enum_sound (g : Grammar) (L k : Nat) (x : String) (b : Rule) (w : List Tok)
    (hb : g.body x = some b) (hnt : isTerminalBody b = false) (hw : w ∈ (enumLang g L k).get x) :
    DerivesTok g (.sym x) w :=
  .symRule hb hnt (enumLang_sound g L k x w hw b hb hnt)

/-- `oracle_sound`: a string the membership oracle of the driver accepts is in the language
(terminal extras removed, the rest derives from the start rule). -/
theorem oracle_sound (g : Grammar) (L : Nat) (b : Rule) (w : List Tok)
    (hb : g.body g.start = some b) (hnt : isTerminalBody b = false)
    (hw : (Std.HashSet.ofList (oracleList g L).1).contains (stripExtras g w) = true) : InLang g w := by
  rw [Std.HashSet.contains_ofList] at hw
  have hmem : stripExtras g w ∈ (oracleList g L).1 := List.contains_iff_mem.mp hw
  unfold oracleList at hmem
  simp only at hmem
  have := enumFix_sound g L _ 0 [] (by intro x w hw; simp [Env.get] at hw) g.start _ hmem b hb hnt
  exact .symRule hb hnt this

/-- `select_tree_prefers_dynprec`: with equal error cost and different dynamic precedence the
candidate with the greater dynamic precedence is kept (`true` = the new/right tree replaces the left). -/
theorem select_tree_prefers_dynprec (l r : Cand) (hc : l.errorCost = r.errorCost) (hd : l.dynPrec ≠ r.dynPrec) :
    selectTree l r = some (decide (r.dynPrec > l.dynPrec)) := by
  unfold selectTree
  have h1 : ¬ r.errorCost < l.errorCost := by omega
  have h2 : ¬ l.errorCost < r.errorCost := by omega
  simp only [h1, h2, if_false]
  by_cases h : r.dynPrec > l.dynPrec
  · simp [h]
  · have : l.dynPrec > r.dynPrec := by omega
    simp [h, this]

/-- …and a smaller error cost always wins, whatever the dynamic precedences. -/
theorem select_tree_prefers_lower_cost (l r : Cand) (hc : l.errorCost ≠ r.errorCost) :
    selectTree l r = some (decide (r.errorCost < l.errorCost)) := by
  unfold selectTree
  by_cases h : r.errorCost < l.errorCost
  · simp [h]
  · have : l.errorCost < r.errorCost := by omega
    simp [h, this]

/-- `driver_sound`: on a table that passes the decidable `tableSafe` (state 1 exists; no transition
enters the start state and accepting states are entered only from it; non-extra shifts are on real
terminals that are never shifted as extras; no non-terminal extras) every tree the driver accepts —
for ALL token strings — is a tree over the productions the table spells (`TreeOver`): each node
`(A, production_id)` is a non-extra node whose non-extra children carry exactly the symbols
`X₁ … Xₙ` of a path of `n` transitions into a state with the reduce action `(A, n, production_id)`
(`IsProd`), every extra leaf is a token the table shifts as an extra. -/
theorem driver_sound (tbl : Table) (hsafe : tableSafe tbl = true)
    (toks : List Nat) (t : PTree) (h : run tbl toks = .accepted t) : TreeOver tbl t := by
  unfold tableSafe at hsafe
  simp only [Bool.and_eq_true, decide_eq_true_eq] at hsafe
  obtain ⟨⟨⟨h1, hroot⟩, hleaf⟩, hnle⟩ := hsafe
  unfold run at h
  exact (runLoop_sound tbl h1 hroot hleaf hnle _ _ t (by simp [Spells]) h).1

/-- `parser_sound_per_grammar`: the relation to the SOURCE grammar, per validated grammar instead of
per output tree.  If the table passes `tableSafe` and every production the table spells is an
instance of the source rule of its left-hand side (`relOK g tbl aux`, decidable; `aux` assigns each
repeat-auxiliary symbol the rule it repeats), then for ALL token strings: whatever the driver
accepts is derived by the grammar's start rule (table extras removed) — `has_error = false ⇒
string ∈ L(G)` as a theorem about the generated table, for the model driver. -/
theorem parser_sound_per_grammar (g : Grammar) (tbl : Table) (aux : AuxMap) (hsafe : tableSafe tbl = true)
    (hrel : relOK g tbl aux = true) (toks : List Nat) (hnz : ∀ a, a ∈ toks → a ≠ 0) (t : PTree)
    (h : run tbl toks = .accepted t) :
    DerivesTok g (.sym g.start) ((toks.filter fun a => !isExtraSym tbl a).map (tokOf tbl)) :=
  parser_sound g tbl aux hsafe hrel toks hnz t h

/-- `table_complete_for_its_productions`: the converse of `driver_sound`.  `P` is a set of productions
over the table's symbols, `ann` an LR(1)-style annotation of the states (items with look-aheads, where
an item may say that a symbol stands at the dot in place of a hidden rule whose unit reduction the
generator removed; `nullable`/`first` sets) computed by an untrusted propagation, `allow` the shape of
trees the claim is about (all trees, or left-nested repeats).  If the decidable `completeOK` holds
(start items in state 1; shift / goto into a state holding the advanced item; closure under the
allowed productions for every look-ahead that can follow; the single effective reduce on the
look-ahead of a complete item; `first`/`nullable` closed under `P`), then EVERY derivation tree of the
start symbol over `P` is accepted by the driver (with enough fuel) — no string such a tree yields
is rejected, for all trees.  (Token strings without extra tokens; deterministic cells; tables
without non-terminal extras.) -/
theorem table_complete_for_its_productions (tbl : Table) (P : List Prod) (allow : Allow) (ann : Ann) (start : Nat)
    (hok : completeOK tbl P allow ann start = true) (pid : Nat) (ks : List DT)
    (hv : (DT.node start pid ks).Valid tbl P allow) :
    ∃ f pt, runLoop tbl f { stack := [], toks := (DT.node start pid ks).yield } = .accepted pt :=
  table_complete tbl P allow ann start hok pid ks hv

/-- `grammar_covered_by_productions`: from `grammar.json` to a production set `P` over the table's
symbols.  `coverOK g tbl aux P start` (decidable) says: for every non-terminal of the table, every
symbol sequence in the canonical flattening `expand` of its source rule (choices multiplied out, a
repeat replaced by its auxiliary symbol or nothing, inlined rules substituted, names resolved to the
table's symbols) is a production of `P`; an auxiliary symbol `R` of the rule `a` has `R → R R` and every
flattening of `a`; terminal names are distinct.  Then every derivation of the start rule in the
token-level semantics `DerivesTok` has a derivation tree over `P` (left-nested repeats: `auxAllow`)
with the same token string. -/
theorem grammar_covered_by_productions (g : Grammar) (tbl : Table) (aux : AuxMap) (P : List Prod) (start : Nat)
    (h : coverOK g tbl aux P start = true) (w : List Tok) (hd : DerivesTok g (.sym g.start) w) :
    ∃ pid ks, (DT.node start pid ks).Valid tbl P (auxAllow aux) ∧ (DT.node start pid ks).yield.map (tokOf tbl) = w :=
  grammar_cover g tbl aux P start h w hd

/-- `parser_complete_per_grammar`: the converse of `parser_sound_per_grammar`, per validated
(grammar, table) pair and for ALL token strings without extra tokens: `string ∈ L(G) ⇒ the driver
accepts`.  `coverOK` relates `grammar.json` to `P`, `completeOK` validates the real table against `P`
(both decidable, both evaluated by the check on every generated grammar in scope). -/
theorem parser_complete_per_grammar (g : Grammar) (tbl : Table) (aux : AuxMap) (P : List Prod) (ann : Ann) (start : Nat)
    (hcov : coverOK g tbl aux P start = true) (hok : completeOK tbl P (auxAllow aux) ann start = true)
    (toks : List Nat) (htoks : ∀ a, a ∈ toks → a < tbl.tokenCount ∧ a ≠ 0)
    (hd : DerivesTok g (.sym g.start) (toks.map (tokOf tbl))) :
    ∃ f pt, runLoop tbl f { stack := [], toks := toks } = .accepted pt :=
  parser_complete g tbl aux P ann start hcov hok toks htoks hd

/-- `parser_recognises_exactly_its_grammar`: both halves together.  For a (grammar, table) pair that
passes the four decidable validations, and every string of non-extra terminals: the driver accepts
the string (with some amount of fuel) iff the grammar's start rule derives it. -/
theorem parser_recognises_exactly_its_grammar (g : Grammar) (tbl : Table) (aux : AuxMap) (P : List Prod) (ann : Ann) (start : Nat)
    (hsafe : tableSafe tbl = true) (hrel : relOK g tbl aux = true)
    (hcov : coverOK g tbl aux P start = true) (hok : completeOK tbl P (auxAllow aux) ann start = true)
    (toks : List Nat) (htoks : ∀ a, a ∈ toks → a < tbl.tokenCount ∧ a ≠ 0 ∧ isExtraSym tbl a = false) :
    (∃ f pt, runLoop tbl f { stack := [], toks := toks } = .accepted pt) ↔
      DerivesTok g (.sym g.start) (toks.map (tokOf tbl)) := by
  constructor
  · rintro ⟨f, pt, h⟩
    have := parser_sound_fuel g tbl aux hsafe hrel toks (fun a ha => (htoks a ha).2.1) pt f h
    have hf : (toks.filter fun a => !isExtraSym tbl a) = toks := by
      apply List.filter_eq_self.mpr
      intro a ha
      simp [(htoks a ha).2.2]
    rw [hf] at this
    exact this
  · intro hd
    exact parser_complete g tbl aux P ann start hcov hok toks (fun a ha => ⟨(htoks a ha).1, (htoks a ha).2.1⟩) hd

/-- `parser_recognises_exactly_its_grammar_up_to_names`: the form the check evaluates.  The names the
table gives its NON-terminals are immaterial (the driver never reads them, the statement mentions
only terminal names), and `extract_default_aliases` renames a rule that is aliased at every use; so
the four validations are evaluated on `renameNT tbl ren` (`ren` found by an untrusted search) and the
grammar is read through `tokenView` (which whole-rule terminals are tokens: `extract_tokens`'
absorption rule) — the equivalence holds for the dumped table itself. -/
theorem parser_recognises_exactly_its_grammar_up_to_names (g : Grammar) (tbl : Table) (ren : List (Nat × String))
    (aux : AuxMap) (P : List Prod) (ann : Ann) (start : Nat)
    (hsafe : tableSafe (renameNT tbl ren) = true) (hrel : relOK g (renameNT tbl ren) aux = true)
    (hcov : coverOK g (renameNT tbl ren) aux P start = true)
    (hok : completeOK (renameNT tbl ren) P (auxAllow aux) ann start = true)
    (toks : List Nat) (htoks : ∀ a, a ∈ toks → a < tbl.tokenCount ∧ a ≠ 0 ∧ isExtraSym tbl a = false) :
    (∃ f pt, runLoop tbl f { stack := [], toks := toks } = .accepted pt) ↔
      DerivesTok g (.sym g.start) (toks.map (tokOf tbl)) := by
  constructor
  · rintro ⟨f, pt, h⟩
    have := parser_sound_renamed g tbl ren aux hsafe hrel toks (fun a ha => ⟨(htoks a ha).1, (htoks a ha).2.1⟩) pt f h
    have hf : (toks.filter fun a => !isExtraSym tbl a) = toks := by
      apply List.filter_eq_self.mpr
      intro a ha
      simp [(htoks a ha).2.2]
    rw [hf] at this
    exact this
  · intro hd
    exact parser_complete_renamed g tbl ren aux P ann start hcov hok toks (fun a ha => ⟨(htoks a ha).1, (htoks a ha).2.1⟩) hd

/-- `glr_yield`: for cells with several actions the model follows every action (`parseAll`); each
accepting run yields a tree whose leaves are exactly the token string — in particular the tree
`selectBest` keeps (`selectBest_mem`). -/
theorem glr_yield (tbl : Table) (toks : List Nat) (t : PTree) (h : t ∈ parseAll tbl toks) :
    t.leaves = toks ++ [0] := by
  unfold parseAll at h
  simpa [stackLeaves] using runAll_yield acceptTree acceptTree_leaves tbl _ _ t h

/-- `glr_select_max`: the tree kept among all accepting runs is one of them and no other accepting
run has a greater dynamic precedence ("the one with the greater value is kept"). -/
theorem glr_select_max (tbl : Table) (toks : List Nat) (t : PTree) (h : selectBest (parseAll tbl toks) = some t) :
    t ∈ parseAll tbl toks ∧ ∀ u, u ∈ parseAll tbl toks → u.dynPrec ≤ t.dynPrec :=
  ⟨selectBest_mem _ t h, selectBest_max _ t h⟩

/-- `dyn_sound`: every item of the dynamic-precedence oracle is backed by a derivation of the start
rule's body with exactly that bookkeeping (`own`/`inl`: the value of the start production itself,
`e`: the sum of the values of all productions below it — what the root of a real tree carries) — so
the `best` value the judge compares the kept tree against is the value of an actual competing
derivation, computed with the generator's per-production rule (first value of greatest magnitude,
an inlined rule's value competing with the outer production's own one). -/
theorem dyn_sound (g : Grammar) (L : Nat) (b : Rule) (d : DItem)
    (hb : g.body g.start = some b) (hnt : isTerminalBody b = false) (hd : d ∈ (dynOracle g L).1) :
    DerivesTokD g b d.w d.own d.inl d.e := by
  unfold dynOracle at hd
  simp only at hd
  exact enumFixD_sound g L _ 0 [] (by intro x e he; simp [EnvD.get] at he) g.start d hd b hb hnt

/-- `pratt_yield`: the tree the precedence-climbing parser returns is a tree over exactly the given tokens. -/
theorem pratt_yield (t : OpTable) (toks : List OpTok) (e : ETree) (h : pratt t toks = some e) : e.yield = toks := by
  unfold pratt at h
  split at h
  · next e' he =>
    cases h
    have := ((pratt_all t _).1 none toks e [] he).yield
    simpa using this.symm
  · cases h

/-- `pratt_respects`: at every node of the Pratt tree the declared precedence and associativity hold
(`Respects`): the top operator of a right operand (and of a prefix operator's operand) was allowed
to continue under the operator to its left — higher level, or equal level and that left operator is
right-associative; the top operator of a left operand was complete when the operator arrived. -/
theorem pratt_respects (t : OpTable) (toks : List OpTok) (e : ETree) (h : pratt t toks = some e) :
    Respects t e = true := by
  unfold pratt at h
  split at h
  · next e' he => cases h; exact ((pratt_all t _).1 none toks e [] he).resp
  · cases h

/-! ## non-vacuity -/

def tinyOps : OpTable :=
  { bin := [⟨"+", 2, false, "b0"⟩, ⟨"*", 4, false, "b1"⟩, ⟨"^", 6, true, "b2"⟩],
    un := [⟨"!", 3, "u0", true⟩, ⟨"~", -1, "u1", true⟩], post := [⟨"?", 0, "p0", false⟩] }
-- 1 + 1 * 1  ⇒  1 + (1 * 1);   1 ^ 1 ^ 1 ⇒ 1 ^ (1 ^ 1);   ! 1 * 1 + 1 ⇒ (!(1 * 1)) + 1
example : pratt tinyOps [.atom, .bin 0, .atom, .bin 1, .atom] = some (.bin 0 .atom (.bin 1 .atom .atom)) := by decide
example : pratt tinyOps [.atom, .bin 2, .atom, .bin 2, .atom] = some (.bin 2 .atom (.bin 2 .atom .atom)) := by decide
example : pratt tinyOps [.un 0, .atom, .bin 1, .atom, .bin 0, .atom] =
    some (.bin 0 (.un 0 (.bin 1 .atom .atom)) .atom) := by decide
-- an un-annotated postfix operator has the default precedence 0: it binds tighter than a prefix
-- operator of negative precedence and weaker than one of positive precedence
-- ~ 1 ?  ⇒  ~ (1 ?);   ! 1 ?  ⇒  (! 1) ?
example : pratt tinyOps [.un 1, .atom, .post 0] = some (.un 1 (.post 0 .atom)) := by decide
example : pratt tinyOps [.un 0, .atom, .post 0] = some (.post 0 (.un 0 .atom)) := by decide
example : Respects tinyOps (.bin 1 .atom (.bin 0 .atom .atom)) = false := by decide
/-- two rules share the operator `-`: `sub = prec.left(1, e - e)` (declared first) and
`range = prec.right(2, e - e)`; the token stands for `range`, and the tie with the pending `range`
continues to the right although the token also has the lower reading `sub` -/
def twinOps : OpTable :=
  { bin := [{ text := "-", level := 1, right := false, rule := "sub" }, { text := "-", level := 2, right := true, rule := "range" }] }
example : twinOps.binWinner "-" = some 1 := by decide
example : pratt twinOps [.atom, .bin 1, .atom, .bin 1, .atom] = some (.bin 1 .atom (.bin 1 .atom .atom)) := by decide
example : Respects twinOps (.bin 1 (.bin 1 .atom .atom) .atom) = false := by decide
example : Respects tinyOps (.un 0 (.post 0 .atom)) = false := by decide

/-- a tiny table: `S → a`, start state 1, `a` = symbol 1, `S` = symbol 2 -/
def tinyTable : Table :=
  { symbolCount := 3, tokenCount := 2, stateCount := 4
    acts := #[[], [(1, [.shift 2 false false])], [(0, [.reduce 2 1 0 0])], [(0, [.accept])]]
    gotos := #[[], [(2, 3)], [], []]
    lexState := #[0, 0, 0, 0] }

example : tableClosed tinyTable = true := by decide
example : tableSafe tinyTable = true := by decide
/-- the completeness premise on the tiny table: `S → a`, items `[S → . a, $]` in state 1, `[S → a ., $]` in state 2 -/
def tinyAnn : Ann :=
  { items := #[[], [⟨2, [1], 0, 0, 0, none⟩], [⟨2, [1], 0, 1, 0, none⟩], []], nullable := [], first := [(2, [1])] }
example : completeOK tinyTable [(2, [1], 0)] (fun _ _ _ => true) tinyAnn 2 = true := by decide
example : (DT.node 2 0 [DT.leaf 1]).Valid tinyTable [(2, [1], 0)] (fun _ _ _ => true) := by
  simp [DT.Valid, DT.ValidL, DT.sym, allowedAt, DT.prod?, tinyTable]
example : (∀ a, a ∈ [1] → a ≠ 0) := by decide
/-- both directions on a tiny pair: the grammar `s: 'a'`… is a token rule, so use `s: seq('a')` = `'a'` under a field -/
def tinyNamed : Table :=
  { tinyTable with syms := #[⟨false, true, false, 0, "end"⟩, ⟨true, false, false, 1, "a"⟩, ⟨true, true, false, 2, "s"⟩] }
def tinyG : Grammar := { name := "t", rules := [("s", .field "f" (.str "a"))] }
example : coverOK tinyG tinyNamed [] [(2, [1], 0)] 2 = true := by decide
example : completeOK tinyNamed [(2, [1], 0)] (auxAllow []) tinyAnn 2 = true := by decide
example : relOK tinyG tinyNamed [] = true := by decide
example : tableSafe tinyNamed = true := by decide
/-- a production set that lacks the rule's only production is not a cover -/
example : coverOK tinyG tinyNamed [] [(2, [1, 1], 0)] 2 = false := by decide
example : (match run tinyTable [1] with | .accepted t => t.leaves == [1, 0] | _ => false) = true := by decide
example : (match run tinyTable [1, 1] with | .rejected _ => true | _ => false) = true := by decide

/-- a table that is NOT closed (the reduce pops 2 entries but only 1 can be on the stack) is rejected by the check -/
def badTable : Table := { tinyTable with acts := #[[], [(1, [.shift 2 false false])], [(0, [.reduce 2 2 0 0])], [(0, [.accept])]] }
example : tableClosed badTable = false := by decide
/-- …and the completeness premise fails on it: the complete item `[S → a ., $]` does not find its reduce -/
example : completeOK badTable [(2, [1], 0)] (fun _ _ _ => true) tinyAnn 2 = false := by decide
example : (match run badTable [1] with | .fault .popBelowBase => true | _ => false) = true := by decide

def tinyGrammar : Grammar :=
  { name := "t", rules := [("s", .seq (.str "a") (.rep (.sym "_x"))), ("_x", .choice (.str "b") (.field "f" (.sym "y"))), ("y", .pat "[0-9]")] }

example : checkDerivation tinyGrammar
    (.mk "s" true false none [.mk "a" false false none [], .mk "b" false false none [], .mk "y" true false (some "f") []]) = true := by
  decide
example : checkDerivation tinyGrammar (.mk "s" true false none [.mk "b" false false none []]) = false := by decide
example : checkDerivationM tinyGrammar (.mk "s" true false none [.mk "b" false false none []]) = false := by decide

example : selectTree ⟨0, 0⟩ ⟨0, 1⟩ = some true := by decide
example : selectTree ⟨0, 2⟩ ⟨0, 1⟩ = some false := by decide

end TsVerif.C03
