/-!
# C03/C15 — the parse table of a generated language, as the runtime decodes it

A `Table` is read from the dump printed by `harness/csrc/cunit_c03.c`, which walks every
(state, symbol) cell with the runtime's own `ts_language_lookup` / `ts_language_table_entry`
(lib/src/language.h, language.c) on the freshly generated, compiled and loaded `TSLanguage`.
Nothing here is computed by the model: the table is *data produced by the real generator and
decoded by the real runtime*.
-/
namespace TsVerif.C03

/-- `TSParseAction` (lib/src/parser.h). -/
inductive Action where
  | shift (state : Nat) (extra : Bool) (repetition : Bool)
  | reduce (sym : Nat) (count : Nat) (dynPrec : Int) (prodId : Nat)
  | accept
  | recover
  deriving DecidableEq, Repr, Inhabited

structure SymInfo where
  visible : Bool
  named : Bool
  supertype : Bool
  pub : Nat
  name : String
  deriving Repr, Inhabited, DecidableEq

structure Table where
  symbolCount : Nat := 0
  aliasCount : Nat := 0
  tokenCount : Nat := 0
  stateCount : Nat := 0
  productionIdCount : Nat := 0
  keywordCaptureToken : Nat := 0
  /-- `max_alias_sequence_length`: the row stride of `ts_alias_sequences` -/
  maxAliasSeqLen : Nat := 0
  /-- per state: terminal ↦ action list (cells whose `ts_language_lookup` value is non-zero). -/
  acts : Array (List (Nat × List Action)) := #[]
  /-- per state: non-terminal ↦ successor state (non-zero cells). -/
  gotos : Array (List (Nat × Nat)) := #[]
  /-- per state: `lex_modes[s].lex_state`; 65535 marks "end of a non-terminal extra". -/
  lexState : Array Nat := #[]
  extLexState : Array Nat := #[]
  syms : Array SymInfo := #[]
  fields : List (Nat × String) := []
  /-- (production id, child index) ↦ alias symbol -/
  aliases : List ((Nat × Nat) × Nat) := []
  /-- production id ↦ (field id, child index, inherited) -/
  fieldMap : List (Nat × (Nat × Nat × Bool)) := []
  deriving Inhabited

namespace Table

/-- `ts_language_table_entry(state, symbol)` for a terminal: the action list of the cell (empty when the cell is 0). -/
def actions (t : Table) (s a : Nat) : List Action :=
  ((t.acts.getD s []).lookup a).getD []

/-- `ts_language_lookup(state, symbol)` for a non-terminal: the successor state, `0` = none
(`ts_language_next_state` returns exactly this for non-terminals). -/
def goto (t : Table) (s A : Nat) : Nat :=
  ((t.gotos.getD s []).lookup A).getD 0

/-- `ts_parser__lex` returns a null look-ahead in such a state (end of a non-terminal extra). -/
def lexEnd (t : Table) (s : Nat) : Bool := t.lexState.getD s 0 == 65535

def symName (t : Table) (y : Nat) : String := (t.syms.getD y default).name

end Table

/-! ## Reading the dump -/

def natOf' (s : String) : Nat := s.toNat?.getD 0
def intOf' (s : String) : Int := s.toInt?.getD 0

def hexVal' (c : Char) : Nat :=
  if '0' ≤ c ∧ c ≤ '9' then c.toNat - '0'.toNat
  else if 'a' ≤ c ∧ c ≤ 'f' then c.toNat - 'a'.toNat + 10
  else if 'A' ≤ c ∧ c ≤ 'F' then c.toNat - 'A'.toNat + 10 else 0

/-- hex-encoded UTF-8 (only ASCII and 2–4 byte sequences matter here) → String. `-` is the empty string. -/
def unhexString (s : String) : String :=
  if s == "-" then "" else
  let rec bytes : List Char → List UInt8
    | a :: b :: rest => (UInt8.ofNat (hexVal' a * 16 + hexVal' b)) :: bytes rest
    | _ => []
  match String.fromUTF8? (ByteArray.mk (bytes s.toList).toArray) with
  | some r => r
  | none => s

def parseAction (w : String) : Option Action :=
  match w.splitOn "," with
  | ["S", st, ex, rep] => some (.shift (natOf' st) (ex == "1") (rep == "1"))
  | ["R", sym, cnt, dp, pid] => some (.reduce (natOf' sym) (natOf' cnt) (intOf' dp) (natOf' pid))
  | ["A"] => some .accept
  | ["V"] => some .recover
  | _ => none

def pushRow {α : Type} (arr : Array (List α)) (s : Nat) (x : α) : Array (List α) :=
  let arr := if arr.size ≤ s then arr ++ Array.replicate (s + 1 - arr.size) [] else arr
  arr.modify s (fun l => l ++ [x])

def setAt (arr : Array Nat) (s v : Nat) : Array Nat :=
  let arr := if arr.size ≤ s then arr ++ Array.replicate (s + 1 - arr.size) 0 else arr
  arr.set! s v

/-- Consume one dump line. -/
def Table.addLine (t : Table) (line : String) : Table :=
  match line.splitOn " " with
  | ["lang", _abi, sc, ac, tc, _etc, stc, _lsc, pc, _fc, mal, kct] =>
    { t with maxAliasSeqLen := natOf' mal, symbolCount := natOf' sc, aliasCount := natOf' ac, tokenCount := natOf' tc,
             stateCount := natOf' stc, productionIdCount := natOf' pc, keywordCaptureToken := natOf' kct,
             acts := Array.replicate (natOf' stc) [], gotos := Array.replicate (natOf' stc) [],
             lexState := Array.replicate (natOf' stc) 0, extLexState := Array.replicate (natOf' stc) 0 }
  | ["sym", _id, v, n, st, pub, nm] =>
    { t with syms := t.syms.push { visible := v == "1", named := n == "1", supertype := st == "1",
                                   pub := natOf' pub, name := unhexString nm } }
  | ["field", id, nm] => { t with fields := t.fields ++ [(natOf' id, unhexString nm)] }
  | ["state", s, ls, els, _rw, _prim] =>
    { t with lexState := setAt t.lexState (natOf' s) (natOf' ls),
             extLexState := setAt t.extLexState (natOf' s) (natOf' els) }
  | "a" :: s :: y :: _reusable :: _n :: rest =>
    { t with acts := pushRow t.acts (natOf' s) (natOf' y, rest.filterMap parseAction) }
  | ["g", s, y, v] => { t with gotos := pushRow t.gotos (natOf' s) (natOf' y, natOf' v) }
  | ["alias", p, c, a] => { t with aliases := t.aliases ++ [((natOf' p, natOf' c), natOf' a)] }
  | ["fmap", p, f, c, inh] => { t with fieldMap := t.fieldMap ++ [(natOf' p, (natOf' f, natOf' c, inh == "1"))] }
  | _ => t

def Table.ofLines (lines : List String) : Table := lines.foldl Table.addLine {}

end TsVerif.C03
