import TsVerif.C03.Cfg
/-!
# C03 — derivations of a grammar as *visible* trees, and the executable checker

`VNode` is the tree the public API shows (node kinds after aliasing, named flag, extra flag, field
name of the child slot).  `Matches g r c kids` says: the sequence `kids` of non-extra visible
children is produced by rule `r` — hidden rules (`_x`, inlined, supertypes) are expanded in place,
hidden terminals produce no node, `FIELD` labels every node produced below it (innermost wins),
`ALIAS` renames the node(s) produced directly below it.  Extras may appear anywhere among the
children of a node; each must itself match one of the grammar's `extras`.
-/
namespace TsVerif.C03

inductive VNode where
  | mk (kind : String) (named : Bool) (extra : Bool) (field : Option String) (kids : List VNode)
  deriving Repr, Inhabited

namespace VNode
def kind : VNode → String | mk k _ _ _ _ => k
def named : VNode → Bool | mk _ n _ _ _ => n
def extra : VNode → Bool | mk _ _ e _ _ => e
def field : VNode → Option String | mk _ _ _ f _ => f
def kids : VNode → List VNode | mk _ _ _ _ ks => ks
end VNode

/-- The context a rule is matched in.  `field`/`alias` are the innermost enclosing `FIELD`/`ALIAS`
of the current rule body (inner wins, as `flatten_grammar` does).  `fField`/`fAlias` are *forced*
values: when an inlined rule is substituted, the field/alias of the replaced step is written over
every step of the inserted production (`process_inlines`), so inside an inlined body the OUTER
value wins. -/
structure MCtx where
  field : Option String := none
  alias : Option (String × Bool) := none
  fField : Option String := none
  fAlias : Option (String × Bool) := none
  /-- the field inherited from the slot of the enclosing hidden node (weakest: any `FIELD` of the
  current production wins over it; the cursor looks at the nearest production first) -/
  inh : Option String := none
  deriving DecidableEq, Repr, Inhabited

def MCtx.prodField (c : MCtx) : Option String := match c.fField with | some f => some f | none => c.field
def MCtx.effField (c : MCtx) : Option String := match c.prodField with | some f => some f | none => c.inh
def MCtx.effAlias (c : MCtx) : Option (String × Bool) := match c.fAlias with | some a => some a | none => c.alias
/-- entering a separate symbol (hidden rule, repeat auxiliary): its children inherit the field, nothing is forced -/
def MCtx.enter (c : MCtx) : MCtx := { inh := c.effField }
/-- substituting an inlined rule: field and alias the replaced step carries *in its own production*
are forced onto the inserted steps; an inherited field stays inherited -/
def MCtx.inlined (c : MCtx) : MCtx := { fField := c.prodField, fAlias := c.effAlias, inh := c.inh }

/-- `token(…)` around a plain string is the anonymous token of that string; any other token body is a hidden auxiliary token. -/
def tokenString : Rule → Option String
  | .str s => some s
  | .prec _ _ a => tokenString a
  | _ => none

/-- The rule body is a single terminal: the rule itself may be a token (a leaf). -/
def isTerminalBody : Rule → Bool
  | .str _ => true
  | .pat _ => true
  | .token _ => true
  | .immToken _ => true
  | .prec _ _ a => isTerminalBody a
  | _ => false

/-- How a reference to rule `x` shows up: `none` = expanded in place, `some (kind, named)` = a node.
An inlined rule is always expanded in place (an alias around it is handed down to the nodes its body
produces); any other rule under an alias becomes a node of the alias' kind. -/
def nodeKind (g : Grammar) (c : MCtx) (x : String) : Option (String × Bool) :=
  if g.inline.contains x then none else
  match c.effAlias with
  | some a => some a
  | none => if g.hidden x then none else some (x, true)

/-- the context the body of an in-place expanded rule is matched in -/
def expandCtx (g : Grammar) (c : MCtx) (x : String) : MCtx :=
  if g.inline.contains x then c.inlined else c.enter

/-- Directly nested metadata wrappers are merged by the grammar reader (`metadata_with` in
crates/generate/src/rules.rs): of two `FIELD`s with only other wrappers between them the OUTER one
wins.  `stripField` removes the inner ones. -/
def stripField : Rule → Rule
  | .field _ a => stripField a
  | .alias v n a => .alias v n (stripField a)
  | .prec k v a => .prec k v (stripField a)
  | r => r

/-- the same for directly nested `ALIAS`es -/
def stripAlias : Rule → Rule
  | .alias _ _ a => stripAlias a
  | .field n a => .field n (stripAlias a)
  | .prec k v a => .prec k v (stripAlias a)
  | r => r

/-- The leaf a visible terminal produces under a context. -/
def leafFor (c : MCtx) (k : String) (named : Bool) : VNode :=
  match c.effAlias with
  | some (v, n) => .mk v n false c.effField []
  | none => .mk k named false c.effField []

def nonExtra (ks : List VNode) : List VNode := ks.filter fun k => !k.extra

mutual
  inductive Matches (g : Grammar) : Rule → MCtx → List VNode → Prop
    | blank {c} : Matches g .blank c []
    | str {c s} : Matches g (.str s) c [leafFor c s false]
    | patHidden {c p} : c.effAlias = none → Matches g (.pat p) c []
    | patAliased {c p v n} : c.effAlias = some (v, n) → Matches g (.pat p) c [.mk v n false c.effField []]
    | tokenStr {c a s} : tokenString a = some s → Matches g (.token a) c [leafFor c s false]
    | tokenHidden {c a} : tokenString a = none → c.effAlias = none → Matches g (.token a) c []
    | tokenAliased {c a v n} : tokenString a = none → c.effAlias = some (v, n) → Matches g (.token a) c [.mk v n false c.effField []]
    | immTokenStr {c a s} : tokenString a = some s → Matches g (.immToken a) c [leafFor c s false]
    | immTokenHidden {c a} : tokenString a = none → c.effAlias = none → Matches g (.immToken a) c []
    | immTokenAliased {c a v n} : tokenString a = none → c.effAlias = some (v, n) → Matches g (.immToken a) c [.mk v n false c.effField []]
    | seq {a b c xs ys} : Matches g a c xs → Matches g b c ys → Matches g (.seq a b) c (xs ++ ys)
    | choiceL {a b c xs} : Matches g a c xs → Matches g (.choice a b) c xs
    | choiceR {a b c xs} : Matches g b c xs → Matches g (.choice a b) c xs
    | repNil {a c} : Matches g (.rep a) c []
    /-- a repeat is a separate (auxiliary) symbol: its content inherits the field, nothing is forced -/
    | repCons {a c xs ys} : c.effAlias = none → Matches g a c.enter xs → Matches g (.rep a) c ys →
        Matches g (.rep a) c (xs ++ ys)
    | rep1 {a c xs ys} : c.effAlias = none → Matches g a c.enter xs → Matches g (.rep a) c ys →
        Matches g (.rep1 a) c (xs ++ ys)
    /-- an alias around a repeat lands on the auxiliary symbol: ONE node of the alias' kind holding all iterations -/
    | repAliased {a c v n kids} : c.effAlias = some (v, n) → NodeBody g (.rep a) kids →
        Matches g (.rep a) c [.mk v n false c.effField kids]
    | rep1Aliased {a c v n kids} : c.effAlias = some (v, n) → NodeBody g (.rep1 a) kids →
        Matches g (.rep1 a) c [.mk v n false c.effField kids]
    /-- …but when the alias arrived through the substitution of an INLINED rule (`fAlias`), the
    generator does not see the auxiliary symbol as aliased (`remove_unit_reductions` collects aliased
    symbols from the un-inlined productions only): a single iteration that is a single node is then a
    removed unit reduction, and that node itself carries the alias.  An alias written directly around
    the repeat (or around a hidden rule, below) protects the node: only the node form is a derivation. -/
    | repAliasedUnit {a c v n x} : c.effAlias = some (v, n) → c.fAlias.isSome = true →
        Matches g a { fField := c.effField, fAlias := some (v, n) } [x] → Matches g (.rep a) c [x]
    | rep1AliasedUnit {a c v n x} : c.effAlias = some (v, n) → c.fAlias.isSome = true →
        Matches g a { fField := c.effField, fAlias := some (v, n) } [x] → Matches g (.rep1 a) c [x]
    | field {a c n xs} : Matches g (stripField a) { c with field := some n } xs → Matches g (.field n a) c xs
    | alias {a c v n xs} : Matches g (stripAlias a) { c with alias := some (v, n) } xs → Matches g (.alias v n a) c xs
    | prec {a c k v xs} : Matches g a c xs → Matches g (.prec k v a) c xs
    /-- a hidden rule is expanded in place; the enclosing field (and, for inlined rules, alias) is inherited -/
    | symHidden {c x b xs} : g.body x = some b → nodeKind g c x = none →
        Matches g b (expandCtx g c x) xs → Matches g (.sym x) c xs
    /-- a hidden rule that is itself a token produces no node -/
    | symHiddenToken {c x b} : g.body x = some b → nodeKind g c x = none → isTerminalBody b = true →
        Matches g (.sym x) c []
    /-- a visible (or aliased) rule produces one node whose children derive from the rule's body -/
    | symVisible {c x b k n kids} : g.body x = some b → nodeKind g c x = some (k, n) → NodeBody g b kids →
        Matches g (.sym x) c [.mk k n false c.effField kids]
    /-- a hidden rule under an alias whose body yields a single node: the reduction is a unit reduction
    the generator removes, and that node itself carries the alias -/
    | symAliasedUnit {c x b v n y} : g.body x = some b → g.hidden x = true → nodeKind g c x = some (v, n) →
        c.fAlias.isSome = true →
        Matches g b { fField := c.effField, fAlias := some (v, n) } [y] → Matches g (.sym x) c [y]
    /-- an external token (no rule of that name): a leaf when visible, nothing when hidden -/
    | symExternalHidden {c x} : g.body x = none → nodeKind g c x = none → Matches g (.sym x) c []
    | symExternalVisible {c x k n} : g.body x = none → nodeKind g c x = some (k, n) →
        Matches g (.sym x) c [.mk k n false c.effField []]
  inductive NodeBody (g : Grammar) : Rule → List VNode → Prop
    /-- the rule is a token: a leaf -/
    | token {b} : isTerminalBody b = true → NodeBody g b []
    | inner {b kids} : Matches g b {} (nonExtra kids) →
        (∀ k, k ∈ kids → k.extra = true → ExtraOK g k) → NodeBody g b kids
  inductive ExtraOK (g : Grammar) : VNode → Prop
    | mk {e k n x f kids} : e ∈ g.extras → Matches g e { field := f, alias := none } [.mk k n false f kids] →
        ExtraOK g (.mk k n x f kids)
end

/-- `Derives g t`: `t` is a derivation tree of the grammar's start rule. -/
def Derives (g : Grammar) (t : VNode) : Prop :=
  ∃ b kids, g.body g.start = some b ∧ t = .mk g.start true false none kids ∧ NodeBody g b kids

/-! ## The executable checker: remainders of the child list after matching a rule -/

/-- keep one remainder per length (remainders are suffixes of one list, so the length identifies them) -/
def dedupLen : List (List VNode) → List (List VNode)
  | [] => []
  | x :: xs => if (dedupLen xs).any (fun y => y.length == x.length) then dedupLen xs else x :: dedupLen xs

def matchLeaf (c : MCtx) (k : String) (named : Bool) (cs : List VNode) : List (List VNode) :=
  match cs with
  | .mk k' n' false f' [] :: rest =>
    let want := leafFor c k named
    if k' = want.kind ∧ n' = want.named ∧ f' = c.effField then [rest] else []
  | _ => []

def matchHiddenOrAliased (c : MCtx) (cs : List VNode) : List (List VNode) :=
  match c.effAlias with
  | none => [cs]
  | some (v, n) =>
    match cs with
    | .mk k' n' false f' [] :: rest => if k' = v ∧ n' = n ∧ f' = c.effField then [rest] else []
    | _ => []

/-- The matcher, parameterised by the check `cb b kids` of "the children `kids` of a node derive from
the body `b`" (the recursive checker below passes itself with less fuel; the memoising checker of
`Memo.lean` passes a table look-up, so that the body of a node is checked once and not once per
alternative that mentions it). -/
def matchRuleP (g : Grammar) (cb : Rule → List VNode → Bool) : Nat → Rule → MCtx → List VNode → List (List VNode)
  | 0, _, _, _ => []
  | f + 1, r, c, cs =>
    match r with
    | .blank => [cs]
    | .str s => matchLeaf c s false cs
    | .pat _ => matchHiddenOrAliased c cs
    | .token a =>
      match tokenString a with
      | some s => matchLeaf c s false cs
      | none => matchHiddenOrAliased c cs
    | .immToken a =>
      match tokenString a with
      | some s => matchLeaf c s false cs
      | none => matchHiddenOrAliased c cs
    | .seq a b => dedupLen ((matchRuleP g cb f a c cs).flatMap fun rem => matchRuleP g cb f b c rem)
    | .choice a b => dedupLen (matchRuleP g cb f a c cs ++ matchRuleP g cb f b c cs)
    | .rep a =>
      match c.effAlias with
      | none =>
        cs :: dedupLen ((matchRuleP g cb f a c.enter cs).flatMap fun rem =>
          if rem.length < cs.length then matchRuleP g cb f (.rep a) c rem else [])
      | some (v, n) =>
        cs :: ((match cs with
          | .mk k' n' false f' kids :: rest =>
            if k' = v ∧ n' = n ∧ f' = c.effField ∧ cb (.rep a) kids = true then [rest] else []
          | _ => []) ++
         (match cs with
          | x :: rest =>
            if c.fAlias.isSome = true ∧
                (matchRuleP g cb f a { fField := c.effField, fAlias := some (v, n) } [x]).any (fun rem => rem.isEmpty) = true
            then [rest] else []
          | [] => []))
    | .rep1 a =>
      match c.effAlias with
      | none => dedupLen ((matchRuleP g cb f a c.enter cs).flatMap fun rem => matchRuleP g cb f (.rep a) c rem)
      | some (v, n) =>
        (match cs with
        | .mk k' n' false f' kids :: rest =>
          if k' = v ∧ n' = n ∧ f' = c.effField ∧ cb (.rep1 a) kids = true then [rest] else []
        | _ => []) ++
        (match cs with
          | x :: rest =>
            if c.fAlias.isSome = true ∧
                (matchRuleP g cb f a { fField := c.effField, fAlias := some (v, n) } [x]).any (fun rem => rem.isEmpty) = true
            then [rest] else []
          | [] => [])
    | .field n a => matchRuleP g cb f (stripField a) { c with field := some n } cs
    | .alias v n a => matchRuleP g cb f (stripAlias a) { c with alias := some (v, n) } cs
    | .prec _ _ a => matchRuleP g cb f a c cs
    | .sym x =>
      match g.body x with
      | none =>
        match nodeKind g c x with
        | none => [cs]
        | some (k, n) =>
          match cs with
          | .mk k' n' false f' [] :: rest => if k' = k ∧ n' = n ∧ f' = c.effField then [rest] else []
          | _ => []
      | some b =>
        match nodeKind g c x with
        | none =>
          (if isTerminalBody b then [cs] else []) ++ matchRuleP g cb f b (expandCtx g c x) cs
        | some (k, n) =>
          (match cs with
          | .mk k' n' false f' kids :: rest =>
            if k' = k ∧ n' = n ∧ f' = c.effField ∧ cb b kids = true then [rest] else []
          | _ => []) ++
          (match cs with
          | y :: rest =>
            if g.hidden x = true ∧ c.fAlias.isSome = true ∧
                (matchRuleP g cb f b { fField := c.effField, fAlias := some (k, n) } [y]).any (fun rem => rem.isEmpty) = true
            then [rest] else []
          | [] => [])
    | .unknown _ => []

/-- one node of an extra rule -/
def extraP (g : Grammar) (cb : Rule → List VNode → Bool) (f : Nat) : VNode → Bool
  | .mk k n _ fl kids =>
    g.extras.any fun e => (matchRuleP g cb f e { field := fl, alias := none } [.mk k n false fl kids]).any (fun rem => rem.isEmpty)

/-- the children of a node derive from the body `b` (extras anywhere) -/
def bodyP (g : Grammar) (cb : Rule → List VNode → Bool) (f : Nat) (b : Rule) (kids : List VNode) : Bool :=
  (isTerminalBody b && kids.isEmpty) ||
  ((matchRuleP g cb f b {} (nonExtra kids)).any (fun rem => rem.isEmpty) &&
    kids.all fun k => !k.extra || extraP g cb f k)

def checkBody (g : Grammar) : Nat → Rule → List VNode → Bool
  | 0, _, _ => false
  | f + 1, b, kids => bodyP g (fun b' ks' => checkBody g f b' ks') f b kids

mutual
  def VNode.size : VNode → Nat
    | .mk _ _ _ _ ks => 1 + VNode.sizeL ks
  def VNode.sizeL : List VNode → Nat
    | [] => 0
    | t :: ts => VNode.size t + VNode.sizeL ts
end

def ruleCount (g : Grammar) : Nat := g.rules.length

/-- Fuel: every recursive call of the checker costs one unit; this bound is generous for trees of
this size (the checker reports failure, never a wrong success, when fuel runs out). -/
def checkFuel (g : Grammar) (t : VNode) : Nat := 40 * t.size + 50 * ruleCount g + 2000

def checkDerivation (g : Grammar) (t : VNode) : Bool :=
  match t, g.body g.start with
  | .mk k n e fl kids, some b =>
    decide (k = g.start) && n && !e && fl.isNone && checkBody g (checkFuel g t) b kids
  | _, none => false

end TsVerif.C03
