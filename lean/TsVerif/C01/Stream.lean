/-!
# C01 stage 1 — token streams with leaf-level reuse

A *driver* is any deterministic machine that consumes tokens: state `σ`, `step`, and the lex mode
`mode s` in which it asks for the next token (for tree-sitter: the LR stack, shift/reduce over the
parse table, `lex_modes[state]`).  A *token source* answers "which token starts at byte `p` in
mode `m`".  From scratch the source is the lexer on the new text; incrementally it first asks
an oracle that offers leaves of the edited old tree (`reuseOracle`) and falls back to the lexer.
-/
namespace TsVerif.C01

/-- What the lexer returns for a token: symbol, padding, size and how far beyond the end it looked. -/
structure Tok where
  sym : Nat
  pad : Nat
  size : Nat
  la : Nat
  deriving DecidableEq, Repr, Inhabited

def Tok.window (k : Tok) : Nat := k.pad + k.size + k.la

/-- Run a driver for at most `fuel` tokens from state `s` at byte `p`. -/
def runDriver {σ μ : Type} (step : σ → Tok → σ) (mode : σ → μ) (src : μ → Nat → Tok) : Nat → σ → Nat → σ
  | 0, s, _ => s
  | fuel + 1, s, p =>
    let k := src (mode s) p
    runDriver step mode src fuel (step s k) (p + k.pad + k.size)

/-- Where an old token at `pos` with examined window `w` lies in the new text, if the edit
`[start, oldEnd) → newEnd` does not reach its window. -/
def shiftPos (start oldEnd newEnd pos w : Nat) : Option Nat :=
  if pos + w ≤ start then some pos
  else if oldEnd ≤ pos then some (pos - oldEnd + newEnd)
  else none

/-- Leaves of the old tree as (old position of the padding start, lex mode they were lexed in,
token).  The oracle offers a leaf for (mode, new position) if it was lexed in the same mode and
its shifted position is the requested one — the "same lex mode" branch of
`ts_parser__can_reuse_first_leaf` for a leaf the edit did not mark. -/
def reuseOracle {μ : Type} [DecidableEq μ] (old : List (Nat × μ × Tok)) (start oldEnd newEnd : Nat)
    (m : μ) (p' : Nat) : Option Tok :=
  (old.find? (fun x => decide (x.2.1 = m) && decide (shiftPos start oldEnd newEnd x.1 x.2.2.window = some p'))).map (·.2.2)

/-- The incremental token source. -/
def incrSource {μ : Type} (oracle : μ → Nat → Option Tok) (lexNew : μ → Nat → Tok) (m : μ) (p : Nat) : Tok :=
  match oracle m p with
  | some k => k
  | none => lexNew m p

end TsVerif.C01
