import TsVerif.C01.Judge
import TsVerif.C01.LR
import TsVerif.C01.GateLoop
/-!
# C01 — the LR machine on the REAL tables: whole-document validation and reuse certificates

`LRData` is the machine's table built from the dump of the real `TSLanguage` (`cunit_c01`: the
action list of every (state, token) through `ts_language_table_entry`, the gotos through
`ts_language_next_state`).  Repetition shifts are dropped (the parser skips them); a (state, token)
pair with more than one remaining action is *ambiguous* (GLR) and ends a certification attempt.

* `validateDocument`: the machine, fed with the leaves of a real error-free from-scratch tree, must
  halt on `end` with exactly that tree (compared on the visible structure) — ties `LR.step` to
  `ts_parser__advance` / `ts_parser__reduce` / `ts_parser__accept` (T-corr (b) of the design).
* `certifyReuse`: for a subtree `t` that the real incremental parse reused (same heap node in the
  old and in the new tree), run the machine from `t`'s parse state on an empty frame over `t`'s
  tokens and the tokens that follow it in the new tree; it must build `t` (visible structure, token
  count) in front of the follower.  That run is the certificate `LR.ReuseOK` of `LR.IncrRun.reuse`
  (with `j` = the shifts of the following extras), so `incr_eq_scratch` applies to the real event.
-/
namespace TsVerif.C01
open TsGen TsVerif

structure LRData where
  table : LR.Table
  /-- all (non-repetition) actions of an entry — more than one at GLR entries -/
  actions : Nat → Nat → List LR.Action := fun _ _ => []
  ambiguous : Nat → Nat → Bool
  visible : Nat → Bool
  tokenCount : Nat

def tokOf (d : NodeData) : Tok :=
  { sym := d.symbol, pad := d.padding.bytes, size := d.size.bytes, la := d.lookahead }

mutual
  /-- Token leaves of a dump (childless NON-TERMINALS, produced by empty reductions, are not tokens). -/
  def leavesOf (tc : Nat) (t : Tree) (acc : Array (Tok × Bool)) : Array (Tok × Bool) :=
    match t with
    | .mk d [] => if d.symbol < tc then acc.push (tokOf d, d.extra) else acc
    | .mk _ (k :: ks) => leavesOfL tc (k :: ks) acc
  def leavesOfL (tc : Nat) (ks : List Tree) (acc : Array (Tok × Bool)) : Array (Tok × Bool) :=
    match ks with
    | [] => acc
    | k :: rest => leavesOfL tc rest (leavesOf tc k acc)
end

mutual
  /-- (depth, symbol) of the visible nodes of a dump subtree (`force`: the root is always listed). -/
  def shapeT (t : Tree) (depth : Nat) (force : Bool) (acc : Array (Nat × Nat)) : Array (Nat × Nat) :=
    match t with
    | .mk d ks =>
      if d.visible || force then shapeTL ks (depth + 1) (acc.push (depth, d.symbol))
      else shapeTL ks depth acc
  def shapeTL (ks : List Tree) (depth : Nat) (acc : Array (Nat × Nat)) : Array (Nat × Nat) :=
    match ks with
    | [] => acc
    | k :: rest => shapeTL rest depth (shapeT k depth false acc)
end

mutual
  def shapeP (vis : Nat → Bool) (t : LR.PTree) (depth : Nat) (force : Bool) (acc : Array (Nat × Nat)) : Array (Nat × Nat) :=
    match t with
    | .leaf k => if vis k.sym || force then acc.push (depth, k.sym) else acc
    | .node s ks =>
      if vis s || force then shapePL vis ks (depth + 1) (acc.push (depth, s))
      else shapePL vis ks depth acc
  def shapePL (vis : Nat → Bool) (ks : List LR.PTree) (depth : Nat) (acc : Array (Nat × Nat)) : Array (Nat × Nat) :=
    match ks with
    | [] => acc
    | k :: rest => shapePL vis rest depth (shapeP vis k depth false acc)
end

inductive Cert where
  | ok (steps : Nat)
  | stuck (msg : String)
  | ambiguous
  | mismatch (msg : String)

/-- Is the relative stack "extras above exactly one non-extra node for `A` with `n` tokens"? -/
def targetEntry (st : LR.Stack) (A n : Nat) (wantExtra : Bool := false) : Option LR.Entry :=
  -- a reused NON-TERMINAL EXTRA (e.g. a comment node) is itself pushed as an extra entry
  match (if wantExtra then st else st.filter (fun e => !e.extra)) with
  | [e] =>
    match e.tree with
    | .node s _ => if s == A && LR.PTree.tokens e.tree == n then some e else none
    | .leaf _ => none
  | _ => none

/-- Run the machine from state `s` on an empty frame over `w ++ u` until `t` (symbol `A`, `|w|`
tokens, visible structure `shape`) stands in front of the last token of `u`. -/
def certifyReuse (L : LRData) (s A : Nat) (w u : List Tok) (shape : Array (Nat × Nat)) (isExtra : Bool := false) : Cert := Id.run do
  let mut st : LR.Stack := []
  let mut inp := w ++ u
  let fuel := 4 * (w.length + u.length) + 16
  for i in [0:fuel] do
    if inp.length == 1 then
      if let some e := targetEntry st A w.length isExtra then
        if e.state != L.table.goto s A then return .mismatch s!"state {e.state} ≠ goto({s},{A})"
        let got := shapeP L.visible e.tree 0 true #[]
        if got == shape then return .ok i
        else return .mismatch s!"machine built a different subtree for symbol {A} from state {s}"
    if L.table.noLookahead (LR.top s st) then
      match LR.step L.table s st inp with
      | some (st', inp') => st := st'; inp := inp'
      | none => return .stuck s!"no reduction at the end of a non-terminal extra in state {LR.top s st}"
    else
    match inp with
    | [] => return .stuck "input exhausted"
    | x :: _ =>
      if L.ambiguous (LR.top s st) x.sym then return .ambiguous
      match LR.step L.table s st inp with
      | some (st', inp') => st := st'; inp := inp'
      | none => return .stuck s!"no step in state {LR.top s st} on token {x.sym}"
  return .stuck "fuel"

/-- The machine on a whole error-free document (leaves of the real scratch tree, `end` last). -/
def validateDocument (L : LRData) (start : Nat) (root : Tree) : Cert := Id.run do
  let toks := ((leavesOf L.tokenCount root #[]).map (·.1)).toList
  let mut st : LR.Stack := []
  let mut inp := toks
  let fuel := 6 * toks.length + 32
  for i in [0:fuel] do
    if L.table.noLookahead (LR.top start st) then
      match LR.step L.table start st inp with
      | some (st', inp') => st := st'; inp := inp'
      | none => return .stuck s!"no reduction at the end of a non-terminal extra in state {LR.top start st}"
    else
    match inp with
    | [] => return .stuck "input exhausted before accept"
    | x :: _ =>
      if L.ambiguous (LR.top start st) x.sym then return .ambiguous
      if L.table.action (LR.top start st) x.sym == .accept then
        -- ts_parser__accept: everything on the stack becomes the root's children
        match (st.filter (fun e => !e.extra)) with
        | [r] =>
          match r.tree with
          | .node rs rk =>
            let mut got : Array (Nat × Nat) := #[(0, rs)]
            for e in st.reverse do
              if e.extra then got := shapeP L.visible e.tree 1 false got
              else got := shapePL L.visible rk 1 got
            let want := shapeT root 0 true #[]
            if got == want then return .ok i
            else return .mismatch s!"machine tree differs from the real scratch tree ({got.size} vs {want.size} visible nodes)"
          | .leaf _ => return .mismatch "root is a leaf"
        | _ => return .stuck "accept with more than one non-extra entry"
      match LR.step L.table start st inp with
      | some (st', inp') => st := st'; inp := inp'
      | none => return .stuck s!"no step in state {LR.top start st} on token {x.sym}"
  return .stuck "fuel"

/-! ### GLR entries: a bounded version list (validation only — the theorems are about the
deterministic machine)

At an entry with several actions every action is tried on a copy of the stack (what
`ts_parser__advance` does with stack versions); versions that cannot move are dropped; at most
`maxVersions` are kept.  A document / certificate is accepted when SOME version produces the real
tree (the real parser picks among the finished versions by dynamic precedence and error cost,
which is not modelled). -/

def maxVersions : Nat := 24

/-- One step of one version with a specific action. -/
def stepWith (T : LR.Table) (bottom : Nat) (a : LR.Action) (st : LR.Stack) (inp : List Tok) : Option (LR.Stack × List Tok) :=
  LR.step { T with action := fun _ _ => a } bottom st inp

/-- All successors of a version (empty when it is stuck or accepts). -/
def successors (L : LRData) (bottom : Nat) (st : LR.Stack) (inp : List Tok) : List (LR.Stack × List Tok) :=
  if L.table.noLookahead (LR.top bottom st) then (LR.step L.table bottom st inp).toList else
  match inp with
  | [] => []
  | x :: _ => (L.actions (LR.top bottom st) x.sym).filterMap (fun a => stepWith L.table bottom a st inp)

/-- GLR variant of `certifyReuse`. -/
def certifyReuseGLR (L : LRData) (s A : Nat) (w u : List Tok) (shape : Array (Nat × Nat)) (isExtra : Bool := false) : Cert := Id.run do
  let mut versions : List (LR.Stack × List Tok) := [([], w ++ u)]
  let fuel := 4 * (w.length + u.length) + 16
  for i in [0:fuel] do
    let mut next : List (LR.Stack × List Tok) := []
    for (st, inp) in versions do
      if inp.length == 1 then
        if let some e := targetEntry st A w.length isExtra then
          if e.state == L.table.goto s A && shapeP L.visible e.tree 0 true #[] == shape then return .ok i
      next := next ++ successors L s st inp
    if next.isEmpty then return .stuck "all versions stuck"
    versions := next.take maxVersions
  return .stuck "fuel"

/-- GLR variant of `validateDocument`: some version must accept with the real tree. -/
def validateDocumentGLR (L : LRData) (start : Nat) (root : Tree) : Cert := Id.run do
  let toks := ((leavesOf L.tokenCount root #[]).map (·.1)).toList
  let want := shapeT root 0 true #[]
  let mut versions : List (LR.Stack × List Tok) := [([], toks)]
  let mut capped := false   -- versions were dropped by the cap: a failure then proves nothing
  let fuel := 6 * toks.length + 32
  for i in [0:fuel] do
    let mut next : List (LR.Stack × List Tok) := []
    for (st, inp) in versions do
      match inp with
      | [] => pure ()
      | x :: _ =>
        if !L.table.noLookahead (LR.top start st) && (L.actions (LR.top start st) x.sym).contains .accept then
          match (st.filter (fun e => !e.extra)) with
          | [r] =>
            match r.tree with
            | .node rs rk =>
              let mut got : Array (Nat × Nat) := #[(0, rs)]
              for e in st.reverse do
                if e.extra then got := shapeP L.visible e.tree 1 false got
                else got := shapePL L.visible rk 1 got
              if got == want then return .ok i
            | .leaf _ => pure ()
          | _ => pure ()
        next := next ++ successors L start st inp
    if next.isEmpty then
      return if capped then .stuck "version cap" else .mismatch "no version of the GLR machine accepts with the real scratch tree"
    if next.length > maxVersions then capped := true
    versions := next.take maxVersions
  return .stuck "fuel"

/-! ### `LexLocal` / `relex_same` evaluated on the real lexer

Hypothesis of `relex_before`/`relex_after`/`incr_eq_scratch_tokens`: a token the edit did not reach
re-lexes to itself.  On real data: every leaf of the EDITED old tree (offsets are already in new
coordinates) that is not marked `has_changes` is compared with the leaf of the from-scratch tree at
the same offset with the same symbol that was lexed in the same parse state (same lex mode):
padding, size and `lookahead_bytes` must be equal.  Tokens whose window meets an included-range
difference are exempt (the hypothesis of `relex_same_ranges`). -/

mutual
  def leavesAt (t : Tree) (off : Nat) (acc : Array (Nat × NodeData)) : Array (Nat × NodeData) :=
    match t with
    | .mk d [] => acc.push (off, d)
    | .mk _ (k :: ks) => leavesAtL (k :: ks) off acc
  def leavesAtL (ks : List Tree) (off : Nat) (acc : Array (Nat × NodeData)) : Array (Nat × NodeData) :=
    match ks with
    | [] => acc
    | k :: rest => leavesAtL rest (off + k.totalBytes) (leavesAt k off acc)
end

structure RelexStats where
  checked : Nat := 0
  equal : Nat := 0
  bad : Option String := none

def relexCheck (oldEdited scratch : Tree) (diffs : List (Nat × Nat)) (oldEnd : Option Nat) : RelexStats := Id.run do
  let sl := leavesAt scratch 0 #[]
  let mut st : RelexStats := {}
  let mut j := 0
  for (o, d) in leavesAt oldEdited 0 #[] do
    -- the EOF token is not a token in the sense of LexLocal (its padding is everything the lexer skipped to the end)
    if d.hasChanges || d.isMissing || d.symbol == symError || d.symbol == symEnd then continue
    -- tokens whose examined window meets an included-range difference are not claimed (relex_same_ranges)
    if rangeIntersects diffs o (diffSpanEnd (.mk d []) o oldEnd) then continue
    while j < sl.size && sl[j]!.1 < o do j := j + 1
    -- candidates: scratch leaves at the same offset, same symbol, same parse state
    let mut k := j
    let mut found := false
    let mut same := false
    while k < sl.size && sl[k]!.1 == o do
      let e := sl[k]!.2
      if e.symbol == d.symbol && e.parseState == d.parseState && e.isKeyword == d.isKeyword then
        found := true
        if decide (e.padding = d.padding) && decide (e.size = d.size) && e.lookahead == d.lookahead then same := true
      k := k + 1
    if found then
      st := { st with checked := st.checked + 1 }
      if same then st := { st with equal := st.equal + 1 }
      else st := { st with bad := st.bad <|> some s!"unmarked old token of symbol {d.symbol} at offset {o} (size {d.size.bytes}, lookahead {d.lookahead}) is lexed differently from scratch in the same parse state" }
  return st

/-! ### The gate-driven loop (`LR.gloop`) on real trees

For token-preserving re-parses (the old and the new tree have the same number of token leaves with
the same symbols — same-kind replacements, whitespace edits) the edited old dump is turned into an
`LR.OTree` (marks = `has_changes`, states = `parse_state`, leaf tokens = the NEW tree's tokens by
index) and `LR.gloop` is run on the real table: it must accept with the real from-scratch tree.
Reported: how many inner nodes the model loop pushed whole. -/

mutual
  def toOTree (tc : Nat) (toks : Array Tok) (t : Tree) (idx : Nat) : LR.OTree × Nat :=
    match t with
    | .mk d [] =>
      if d.symbol < tc then (.leaf d.hasChanges (toks[idx]?.getD (tokOf d)), idx + 1)
      else (.node d.hasChanges d.parseState d.symbol [], idx)
    | .mk d (k :: ks) =>
      let (kids, idx') := toOTreeL tc toks (k :: ks) idx
      -- a NON-TERMINAL EXTRA (comment node) would have to be pushed as an extra entry, which `reuseStep`
      -- does not model: the loop model descends into it (re-shifts its tokens) instead
      (.node (d.hasChanges || d.extra) d.parseState d.symbol kids, idx')
  def toOTreeL (tc : Nat) (toks : Array Tok) (ks : List Tree) (idx : Nat) : List LR.OTree × Nat :=
    match ks with
    | [] => ([], idx)
    | k :: rest =>
      let (o, i1) := toOTree tc toks k idx
      let (os, i2) := toOTreeL tc toks rest i1
      (o :: os, i2)
end

/-- Run the gate loop; count reuse moves (stack grows by a node entry while the frontier shrinks). -/
def gloopRun (L : LRData) (start : Nat) (front : List LR.OTree) (fuel : Nat) : LR.Stack × List LR.OTree × Nat := Id.run do
  let mut st : LR.Stack := []
  let mut fr := front
  let mut reused := 0
  for _ in [0:fuel] do
    match fr with
    | .node false s _ (_ :: _) :: _ =>
      -- will this iteration push the candidate whole?
      match LR.gstep L.table start st fr with
      | some (st', fr') =>
        if fr'.length + 1 == fr.length && st'.length == st.length + 1 && s == LR.top start st then reused := reused + 1
        st := st'; fr := fr'
      | none => return (st, fr, reused)
    | _ =>
      match LR.gstep L.table start st fr with
      | some (st', fr') => st := st'; fr := fr'
      | none => return (st, fr, reused)
  return (st, fr, reused)

inductive LoopResult where
  | ok (reusedInner : Nat)
  | skipped
  | mismatch (msg : String)

/-- Is the table deterministic on everything this document touches?  (checked lazily: a GLR entry
makes `LR.step` see `.error`, the loop then stops early and the case is skipped) -/
def gloopValidate (L : LRData) (start : Nat) (oldEdited new scratch : Tree) : LoopResult :=
  let newToks := (leavesOf L.tokenCount new #[]).map (·.1)
  let oldToks := (leavesOf L.tokenCount oldEdited #[]).map (·.1)
  if newToks.size != oldToks.size || (newToks.zip oldToks).any (fun p => p.1.sym != p.2.sym) then .skipped
  else
    match oldEdited with
    | .mk _ rootKids =>
      let (front, _) := toOTreeL L.tokenCount newToks rootKids 0
      let (st, fr, reused) := gloopRun L start front (16 * (oldEdited.size + 8))
      -- the loop must stop in front of the EOF token with the machine accepting
      match LR.yieldL fr with
      | [x] =>
        if L.table.action (LR.top start st) x.sym != .accept then
          if L.ambiguous (LR.top start st) x.sym then .skipped else .mismatch s!"gate loop stopped in state {LR.top start st} without accepting"
        else
          match (st.filter (fun e => !e.extra)) with
          | [r] =>
            match r.tree with
            | .node rs rk => Id.run do
              let mut got : Array (Nat × Nat) := #[(0, rs)]
              for e in st.reverse do
                if e.extra then got := shapeP L.visible e.tree 1 false got
                else got := shapePL L.visible rk 1 got
              if got == shapeT scratch 0 true #[] then return .ok reused
              else return .mismatch "gate loop accepts with a tree different from the real from-scratch tree"
            | .leaf _ => .mismatch "root is a leaf"
          | _ => .skipped
      | _ => .skipped

/-- A reused subtree of the new tree together with its position in the new tree's token sequence. -/
structure Reused where
  tree : Tree
  first : Nat      -- index of its first token leaf
  count : Nat      -- number of token leaves

mutual
  /-- Maximal heap inner nodes of the new tree that are nodes of the old tree. `idx` = number of
  token leaves before the node. Returns (reused, idx after). -/
  def reusedOf (tc : Nat) (old : Nat → Bool) (t : Tree) (idx : Nat) (acc : Array Reused) : Array Reused × Nat :=
    match t with
    | .mk d [] => (acc, if d.symbol < tc then idx + 1 else idx)
    | .mk d (k :: ks) =>
      if d.addr != 0 && old d.addr then
        let n := (leavesOf tc (.mk d (k :: ks)) #[]).size
        (acc.push { tree := .mk d (k :: ks), first := idx, count := n }, idx + n)
      else reusedOfL tc old (k :: ks) idx acc
  def reusedOfL (tc : Nat) (old : Nat → Bool) (ks : List Tree) (idx : Nat) (acc : Array Reused) : Array Reused × Nat :=
    match ks with
    | [] => (acc, idx)
    | k :: rest =>
      let (acc', idx') := reusedOf tc old k idx acc
      reusedOfL tc old rest idx' acc'
end

end TsVerif.C01
