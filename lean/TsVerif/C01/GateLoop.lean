import TsVerif.C01.Lemmas
/-!
# C01/C12 — the gate-driven re-parse loop inside the LR machine

The old tree is an `OTree`: leaves carry the token the lexer delivers THERE in the new text (for a
marked leaf: the re-lexed token), inner nodes carry `has_changes` (`marked`), the parse state they
were built in (`ts_subtree_parse_state`) and their symbol.  The old-tree iterator of
`reusable_node.h` is the *frontier*: the list of old subtrees, in document order, that have not
been consumed yet (current candidate = head; `reusable_node_descend` = replace the head by its
children; `reusable_node_advance` = drop the head).

`gstep` is one iteration of `ts_parser__advance` with `ts_parser__reuse_node` for deterministic
tables without external scanner and without fragile nodes:
* candidate with `has_changes` (`cant_reuse_node_has_changes`): an inner node is descended into, a
  leaf is lexed again (a machine step on its new token);
* unmarked inner candidate: the table entry of its FIRST LEAF symbol is consulted
  (`ts_language_table_entry(state, leaf_symbol)`); a reduce action is performed with the candidate
  still as look-ahead; on a shift action the candidate is pushed as a whole (`reuseStep`, the goto
  state) if its parse state is the current state, otherwise it is descended into
  (`ts_parser__breakdown_lookahead`: `state_mismatch`);
* unmarked leaf: an ordinary machine step (a reused token and a re-lexed token are the same `Tok`).
Not modelled: `ts_parser__breakdown_top_of_stack` (it only UNDOES earlier reuse), the first-leaf
test (always true in one lex mode), fragile nodes.
-/
namespace TsVerif.C01.LR
open TsVerif.C01

inductive OTree where
  | leaf (marked : Bool) (tok : Tok)
  | node (marked : Bool) (state sym : Nat) (kids : List OTree)

mutual
  def OTree.yield : OTree → List Tok
    | .leaf _ k => [k]
    | .node _ _ _ ks => yieldL ks
  def yieldL : List OTree → List Tok
    | [] => []
    | c :: rest => OTree.yield c ++ yieldL rest
end

mutual
  def OTree.toP : OTree → PTree
    | .leaf _ k => .leaf k
    | .node _ _ A ks => .node A (toPL ks)
  def toPL : List OTree → List PTree
    | [] => []
    | c :: rest => OTree.toP c :: toPL rest
end

theorem yieldL_append : ∀ (xs ys : List OTree), yieldL (xs ++ ys) = yieldL xs ++ yieldL ys
  | [], ys => by simp [yieldL]
  | c :: rest, ys => by simp [yieldL, yieldL_append rest ys, List.append_assoc]

/-- One iteration of the gate-driven loop: (stack, frontier) ↦ (stack, frontier). -/
def gstep (T : Table) (bottom : Nat) (st : Stack) (front : List OTree) : Option (Stack × List OTree) :=
  if T.noLookahead (top bottom st) then
    (step T bottom st (yieldL front)).map (fun c => (c.1, front))
  else
  match front with
  | [] => none
  | .leaf m k :: rest =>
    match step T bottom st (yieldL (.leaf m k :: rest)) with
    | some (st', inp') => if inp'.length < (yieldL (.leaf m k :: rest)).length then some (st', rest) else some (st', .leaf m k :: rest)
    | none => none
  | .node marked s A kids :: rest =>
    if marked then some (st, kids ++ rest)
    else
      match yieldL kids with
      | [] => some (st, kids ++ rest)
      | x :: _ =>
        match T.action (top bottom st) x.sym with
        | .shift _ => if s = top bottom st then some (reuseStep T bottom st A (OTree.toP (.node marked s A kids)), rest)
                      else some (st, kids ++ rest)
        | .reduce _ _ => (step T bottom st (yieldL (.node marked s A kids :: rest))).map (fun c => (c.1, .node marked s A kids :: rest))
        | _ => none

/-- The loop with fuel. -/
def gloop (T : Table) (bottom : Nat) : Nat → Stack → List OTree → Stack × List OTree
  | 0, st, front => (st, front)
  | fuel + 1, st, front =>
    match gstep T bottom st front with
    | some (st', front') => gloop T bottom fuel st' front'
    | none => (st, front)

mutual
  /-- Certificates for an old subtree in front of the tokens `after`: every unmarked inner node is
  what the machine builds from its tokens in its recorded state (`ReuseOK`). -/
  inductive CertT (T : Table) : OTree → List Tok → Prop
    | leaf (m : Bool) (k : Tok) (after : List Tok) : CertT T (.leaf m k) after
    | node (m : Bool) (s A : Nat) (kids : List OTree) (after : List Tok) :
        (m = false → ReuseOK T s A (OTree.toP (.node m s A kids)) (yieldL kids) after) →
        CertL T kids after → CertT T (.node m s A kids) after
  inductive CertL (T : Table) : List OTree → List Tok → Prop
    | nil (after : List Tok) : CertL T [] after
    | cons (c : OTree) (rest : List OTree) (after : List Tok) :
        CertT T c (yieldL rest ++ after) → CertL T rest after → CertL T (c :: rest) after
end

theorem certL_append (T : Table) : ∀ (xs ys : List OTree) (a : List Tok),
    CertL T xs (yieldL ys ++ a) → CertL T ys a → CertL T (xs ++ ys) a
  | [], ys, a, _, h2 => by simpa using h2
  | c :: rest, ys, a, h1, h2 => by
    cases h1 with
    | cons _ _ _ hc hr =>
      refine CertL.cons c (rest ++ ys) a ?_ (certL_append T rest ys a hr h2)
      rw [yieldL_append, List.append_assoc]
      exact hc

/-- `IncrRun` is transitive. -/
theorem IncrRun.trans {T : Table} {bottom : Nat} {l1 r1 l2 r2 : Nat} {a b c : Stack × List Tok}
    (h1 : IncrRun T bottom l1 r1 a b) (h2 : IncrRun T bottom l2 r2 b c) :
    ∃ l r, l = l1 + l2 ∧ r = r1 + r2 ∧ IncrRun T bottom l r a c := by
  induction h1 with
  | done _ => exact ⟨l2, r2, by omega, by omega, h2⟩
  | @lexStep st st' inp inp' l r d hs _ ih =>
    obtain ⟨l', r', hl, hr, h⟩ := ih h2
    exact ⟨l' + (inp.length - inp'.length), r', by omega, hr, IncrRun.lexStep hs h⟩
  | @reuse st A t w u rest l r d hok _ ih =>
    obtain ⟨l', r', hl, hr, h⟩ := ih h2
    exact ⟨l', r' + w.length, hl, by omega, IncrRun.reuse hok h⟩

end TsVerif.C01.LR

namespace TsVerif.C01.LR
open TsVerif.C01

/-- A step either keeps the input or consumes exactly its first token. -/
theorem step_input_cases (T : Table) (bottom : Nat) (st st' : Stack) (inp inp' : List Tok)
    (h : step T bottom st inp = some (st', inp')) : inp' = inp ∨ ∃ x, inp = x :: inp' := by
  unfold step at h
  by_cases hnl : T.noLookahead (top bottom st) = true
  · simp only [hnl, if_true] at h
    split at h
    · split at h
      · simp only [Option.some.injEq, Prod.mk.injEq] at h; exact Or.inl h.2.symm
      · contradiction
    · contradiction
  · simp only [hnl] at h
    cases inp with
    | nil => simp at h
    | cons x rest =>
      simp only [Bool.false_eq_true, if_false] at h
      split at h
      · simp only [Option.some.injEq, Prod.mk.injEq] at h; exact Or.inr ⟨x, by rw [h.2]⟩
      · simp only [Option.some.injEq, Prod.mk.injEq] at h; exact Or.inr ⟨x, by rw [h.2]⟩
      · split at h
        · simp only [Option.some.injEq, Prod.mk.injEq] at h; exact Or.inl h.2.symm
        · contradiction
      · contradiction
      · contradiction

theorem step_nolookahead_input (T : Table) (bottom : Nat) (st st' : Stack) (inp inp' : List Tok)
    (hnl : T.noLookahead (top bottom st) = true) (h : step T bottom st inp = some (st', inp')) : inp' = inp := by
  unfold step at h
  simp only [hnl, if_true] at h
  split at h
  · split at h
    · simp only [Option.some.injEq, Prod.mk.injEq] at h; exact h.2.symm
    · contradiction
  · contradiction

theorem step_reduce_input (T : Table) (bottom : Nat) (st st' : Stack) (x : Tok) (rest inp' : List Tok) (A n : Nat)
    (hnl : T.noLookahead (top bottom st) = false) (ha : T.action (top bottom st) x.sym = .reduce A n)
    (h : step T bottom st (x :: rest) = some (st', inp')) : inp' = x :: rest := by
  unfold step at h
  simp only [hnl, Bool.false_eq_true, if_false, ha] at h
  split at h
  · simp only [Option.some.injEq, Prod.mk.injEq] at h; exact h.2.symm
  · contradiction

/-- `gstep_incr`: one iteration of the gate-driven loop is an incremental run of the machine (a
machine step, a certified reuse, or no machine move at all), and the certificates are kept. -/
theorem gstep_incr (T : Table) (bottom : Nat) (st st' : Stack) (front front' : List OTree)
    (h : gstep T bottom st front = some (st', front')) (hc : CertL T front []) :
    (∃ l r, IncrRun T bottom l r (st, yieldL front) (st', yieldL front')) ∧ CertL T front' [] := by
  unfold gstep at h
  by_cases hnl : T.noLookahead (top bottom st) = true
  · simp only [hnl, if_true] at h
    cases hs : step T bottom st (yieldL front) with
    | none => rw [hs] at h; simp at h
    | some c =>
      obtain ⟨s1, i1⟩ := c
      rw [hs] at h
      simp only [Option.map_some, Option.some.injEq, Prod.mk.injEq] at h
      obtain ⟨h1, h2⟩ := h
      subst h1 h2
      have hi := step_nolookahead_input T bottom st s1 _ i1 hnl hs
      subst hi
      exact ⟨⟨_, _, IncrRun.lexStep hs (IncrRun.done _)⟩, hc⟩
  · have hnl' : T.noLookahead (top bottom st) = false := by simpa using hnl
    simp only [hnl'] at h
    cases front with
    | nil => simp at h
    | cons c rest =>
      cases hc with
      | cons _ _ _ hct hcr =>
      cases c with
      | leaf m k =>
        simp only [Bool.false_eq_true, if_false] at h
        cases hs : step T bottom st (yieldL (.leaf m k :: rest)) with
        | none => rw [hs] at h; simp at h
        | some c1 =>
          obtain ⟨s1, i1⟩ := c1
          rw [hs] at h
          simp only at h
          have hin : yieldL (.leaf m k :: rest) = k :: yieldL rest := by simp [yieldL, OTree.yield]
          rcases step_input_cases T bottom st s1 _ i1 hs with hcase | ⟨x, hcase⟩
          · -- input kept (a reduce): the frontier stays
            have hlen : ¬ (i1.length < (yieldL (.leaf m k :: rest)).length) := by rw [hcase]; omega
            simp only [hlen, if_false, Option.some.injEq, Prod.mk.injEq] at h
            obtain ⟨h1, h2⟩ := h
            subst h1 h2
            have hrun := IncrRun.lexStep hs (IncrRun.done (s1, i1))
            rw [hcase] at hrun
            exact ⟨⟨_, _, hrun⟩, CertL.cons _ _ _ hct hcr⟩
          · -- the token was shifted: the frontier advances
            have hi : i1 = yieldL rest := by
              rw [hin] at hcase
              exact (List.cons.inj hcase).2.symm
            have hlen : i1.length < (yieldL (.leaf m k :: rest)).length := by rw [hin, hi]; simp
            simp only [hlen, if_true, Option.some.injEq, Prod.mk.injEq] at h
            obtain ⟨h1, h2⟩ := h
            subst h1 h2
            have hrun := IncrRun.lexStep hs (IncrRun.done (s1, i1))
            rw [hi] at hrun
            exact ⟨⟨_, _, hrun⟩, hcr⟩
      | node marked s A kids =>
        simp only [Bool.false_eq_true, if_false] at h
        have hy : yieldL (.node marked s A kids :: rest) = yieldL (kids ++ rest) := by
          simp [yieldL, OTree.yield, yieldL_append]
        -- descending never moves the machine
        have hdesc : (∃ l r, IncrRun T bottom l r (st, yieldL (.node marked s A kids :: rest)) (st, yieldL (kids ++ rest))) ∧
            CertL T (kids ++ rest) [] := by
          refine ⟨⟨0, 0, by rw [hy]; exact IncrRun.done _⟩, ?_⟩
          cases hct with
          | node _ _ _ _ _ _ hk => exact certL_append T kids rest [] hk hcr
        by_cases hm : marked = true
        · simp only [hm, if_true, Option.some.injEq, Prod.mk.injEq] at h
          obtain ⟨h1, h2⟩ := h
          subst h1 h2
          subst hm
          exact hdesc
        · have hm' : marked = false := by simpa using hm
          subst hm'
          simp only [Bool.false_eq_true, if_false] at h
          cases hyk : yieldL kids with
          | nil =>
            rw [hyk] at h
            simp only [Option.some.injEq, Prod.mk.injEq] at h
            obtain ⟨h1, h2⟩ := h
            subst h1 h2
            exact hdesc
          | cons x tail =>
            rw [hyk] at h
            simp only at h
            split at h
            · -- shift: reuse on a state match, descend otherwise
              by_cases hst : s = top bottom st
              · simp only [hst, if_true, Option.some.injEq, Prod.mk.injEq] at h
                obtain ⟨h1, h2⟩ := h
                subst h1 h2
                cases hct with
                | node _ _ _ _ _ hre _ =>
                  have hok := hre rfl
                  rw [hst] at hok
                  have hrun := IncrRun.reuse (T := T) (bottom := bottom) (st := st) (rest := []) hok
                    (IncrRun.done (reuseStep T bottom st A (OTree.toP (.node false (top bottom st) A kids)), (yieldL rest ++ []) ++ []))
                  have e1 : yieldL (.node false (top bottom st) A kids :: rest) = yieldL kids ++ (yieldL rest ++ []) ++ [] := by
                    simp [yieldL, OTree.yield]
                  have e2 : (yieldL rest ++ []) ++ [] = yieldL rest := by simp
                  rw [e2] at hrun
                  rw [← e1] at hrun
                  exact ⟨⟨_, _, hrun⟩, hcr⟩
              · simp only [hst, if_false, Option.some.injEq, Prod.mk.injEq] at h
                obtain ⟨h1, h2⟩ := h
                subst h1 h2
                exact hdesc
            · -- reduce with the candidate as look-ahead
              rename_i A' n' hact
              cases hs : step T bottom st (yieldL (.node false s A kids :: rest)) with
              | none => rw [hs] at h; simp at h
              | some c1 =>
                obtain ⟨s1, i1⟩ := c1
                rw [hs] at h
                simp only [Option.map_some, Option.some.injEq, Prod.mk.injEq] at h
                obtain ⟨h1, h2⟩ := h
                subst h1 h2
                have hin : yieldL (.node false s A kids :: rest) = x :: (tail ++ yieldL rest) := by
                  simp [yieldL, OTree.yield, hyk]
                have hi : i1 = yieldL (.node false s A kids :: rest) := by
                  rw [hin] at hs ⊢
                  exact step_reduce_input T bottom st s1 x _ i1 A' n' hnl' hact hs
                have hrun := IncrRun.lexStep hs (IncrRun.done (s1, i1))
                rw [hi] at hrun
                exact ⟨⟨_, _, hrun⟩, CertL.cons _ _ _ hct hcr⟩
            · contradiction

end TsVerif.C01.LR
