import TsVerif.C01.Model
/-!
# C01 judge (incremental tree vs from-scratch tree) and log replay (real parser vs `reuseGate`)

`flatten` maps an internal subtree dump to the logical tree the property talks about: the
preorder list of VISIBLE nodes with depth, symbol, absolute byte and row/column range and the
named/extra/missing flags.  Hidden nodes (repeat helpers, whose shape depends on balancing) are
spliced out; `has_changes`, reference counts, addresses and parse states are not part of it.
`judge` decides the property's two clauses on the two dumps the implementation produced.
-/
namespace TsVerif.C01
open TsGen TsVerif

structure FlatRec where
  depth : Nat
  symbol : Nat
  startByte : Nat
  endByte : Nat
  startPoint : TSPoint
  endPoint : TSPoint
  named : Bool
  extra : Bool
  missing : Bool
  deriving DecidableEq, Repr, Inhabited

def FlatRec.show (r : FlatRec) : String :=
  s!"(depth {r.depth} sym {r.symbol} bytes [{r.startByte},{r.endByte}) " ++
  s!"points {r.startPoint.row}:{r.startPoint.column}-{r.endPoint.row}:{r.endPoint.column} " ++
  s!"named:{r.named} extra:{r.extra} missing:{r.missing})"

mutual
  /-- `off` is the absolute position at which the node's padding starts. -/
  def flatTree (t : Tree) (off : Length) (depth : Nat) (force : Bool) (acc : Array FlatRec) : Array FlatRec :=
    match t with
    | .mk d kids =>
      let a := length_add off d.padding
      let b := length_add a d.size
      if d.visible || force then
        flatKids kids off (depth + 1)
          (acc.push { depth := depth, symbol := d.symbol, startByte := a.bytes, endByte := b.bytes
                      startPoint := a.extent, endPoint := b.extent
                      named := d.named, extra := d.extra, missing := d.isMissing })
      else flatKids kids off depth acc
  def flatKids (ks : List Tree) (off : Length) (depth : Nat) (acc : Array FlatRec) : Array FlatRec :=
    match ks with
    | [] => acc
    | k :: rest => flatKids rest (length_add off k.totalSize) depth (flatTree k off depth false acc)
end

/-- The logical (visible) tree of a dump. -/
def flatten (root : Tree) : Array FlatRec := flatTree root length_zero 0 true #[]

mutual
  /-- Does the dump contain an ERROR or a MISSING node (hidden nodes included)? -/
  def dirtyTree : Tree → Bool
    | .mk d kids => d.symbol == symError || d.isMissing || dirtyKids kids
  def dirtyKids : List Tree → Bool
    | [] => false
    | k :: rest => dirtyTree k || dirtyKids rest
end

/-- First index at which two arrays differ (or the shorter length). -/
def firstDiff {α} [DecidableEq α] [Inhabited α] (a b : Array α) : Option Nat := Id.run do
  let n := min a.size b.size
  for i in [0:n] do
    if a[i]! ≠ b[i]! then return some i
  if a.size ≠ b.size then return some n
  return none

mutual
  /-- Invariant of `ts_subtree_summarize_children` that the whole edit/reuse machinery rests on
  (C10's `LaOK`): the text a node examined covers what each of its children examined —
  `end(parent) + lookahead(parent) ≥ end(child) + lookahead(child)`.  Returns the first offender. -/
  def laCovers (t : Tree) (off : Nat) : Option String :=
    match t with
    | .mk d ks =>
      if ks.isEmpty then none
      else laCoversL ks off (off + d.padding.bytes + d.size.bytes + d.lookahead) d.symbol
  def laCoversL (ks : List Tree) (off reach parentSym : Nat) : Option String :=
    match ks with
    | [] => none
    | k :: rest =>
      let kr := off + k.totalBytes + k.data.lookahead
      if kr > reach then
        some s!"node of symbol {parentSym} examined text up to byte {reach} but its child of symbol {k.data.symbol} at offset {off} examined up to {kr} (lookahead_bytes of the parent is too small)"
      else match laCovers k off with
        | some m => some m
        | none => laCoversL rest (off + k.totalBytes) reach parentSym
end

inductive JudgeResult where
  | ok (clean : Bool)
  | fail (msg : String)

/-- The property on one case.  `walkIncr`/`walkScratch` are the public-API cursor walks
(kind, field name, ranges, flags per node), `apiIncr`/`apiScratch` are `root.has_error()`. -/
def judgeTrees (incr scratch : Tree) (walkIncr walkScratch : Array String) (apiIncr apiScratch : Bool) : JudgeResult :=
  if !dirtyTree scratch then
    let fi := flatten incr
    let fs := flatten scratch
    match firstDiff fi fs with
    | some i =>
      .fail s!"scratch tree is error-free but visible trees differ at preorder index {i}: incremental {(fi[i]?.map FlatRec.show).getD "<none>"} / scratch {(fs[i]?.map FlatRec.show).getD "<none>"}"
    | none =>
      match firstDiff walkIncr walkScratch with
      | some i => .fail s!"scratch tree is error-free but cursor walks differ at line {i}: incremental `{walkIncr[i]?.getD "<none>"}` / scratch `{walkScratch[i]?.getD "<none>"}`"
      | none =>
        if apiIncr || apiScratch then .fail "error-free trees but has_error is reported"
        else .ok true
  else
    if !(apiScratch && scratch.data.errorCost > 0) then
      .fail "scratch tree contains ERROR/MISSING but does not report has_error"
    else if !(apiIncr && incr.data.errorCost > 0) then
      .fail "new text is not in the language (scratch tree has ERROR/MISSING) but the incremental tree reports no error"
    else .ok false

/-- The property's clauses first; if they hold, the invariant that both parses must establish on
every node they build (`laCovers`). -/
def judge (incr scratch : Tree) (walkIncr walkScratch : Array String) (apiIncr apiScratch : Bool) : JudgeResult :=
  match judgeTrees incr scratch walkIncr walkScratch apiIncr apiScratch with
  | .fail m => .fail m
  | .ok c =>
    if let some m := laCovers scratch 0 then .fail ("from-scratch tree: " ++ m)
    else if let some m := laCovers incr 0 then .fail ("incremental tree: " ++ m)
    else .ok c

/-! ## Replay of the real parser's log against `reuseGate` -/

mutual
  /-- Leaves with external tokens of a dump: (padding-start offset, total bytes, scanner state). -/
  def extLeaves (t : Tree) (off : Nat) (acc : Array (Nat × Nat × String)) : Array (Nat × Nat × String) :=
    match t with
    | .mk d [] => if d.hasExternalTokens then acc.push (off, d.padding.bytes + d.size.bytes, extOf d) else acc
    | .mk _ (k :: ks) => extLeavesL (k :: ks) off acc
  def extLeavesL (ks : List Tree) (off : Nat) (acc : Array (Nat × Nat × String)) : Array (Nat × Nat × String) :=
    match ks with
    | [] => acc
    | k :: rest => extLeavesL rest (off + k.totalBytes) (extLeaves k off acc)
end

/-- The parser's `last_external_token` when it stands at byte `pos`, read off the NEW tree: the last
external-token leaf that lies entirely before `pos`.  `none` when a zero-width external token sits
exactly at `pos` (it may or may not have been pushed yet). -/
def parserExtAt (leaves : Array (Nat × Nat × String)) (pos : Nat) : Option String := Id.run do
  let mut cur := ""
  for (o, n, e) in leaves do
    if o + n ≤ pos then
      if n == 0 && o == pos then return none
      cur := e
    else break
  return some cur

structure RS where
  it : Iter := { stack := [] }
  pos : Nat := 0
  col : Nat := 0
  colFix : Bool := false     -- does the source under test contain the column/range repair?
  eofEnd : Option Nat := none -- `some (total bytes of the old tree)` iff it contains the EOF-look-ahead repair
  coldepSeen : Bool := false -- a column-dependent candidate met the gate
  state : Option Nat := none
  startState : Nat := 1
  didReuse : Bool := false
  pendingShift : Bool := false
  stateKnown : Bool := false  -- no reduce / breakdown since the last `process` line
  relexed : Bool := false     -- the reused look-ahead was dropped and a token lexed instead
  bdChecked : Nat := 0        -- decisions of breakdown_lookahead compared
  newExt : Option (Array (Nat × Nat × String)) := none  -- external-token leaves of the (error-free) new tree
  extChecked : Nat := 0
  newRanges : List (Nat × Nat) := []   -- included ranges of the new parse
  posUncertain : Nat := 0              -- before/past events at a position outside the included ranges
  reordered : Nat := 0        -- refusals whose logged reason is a failing test but not the first one
  maxPos : Nat := 0           -- furthest position any stack version has been seen at
  indexSkipped : Nat := 0     -- events explained only by `included_range_difference_index` having
                              -- skipped a difference that still lies ahead of the current version
  diffs : Array (Nat × Nat) := #[]
  gate : Nat := 0
  matched : Nat := 0
  undet : Nat := 0
  reusedInner : Nat := 0
  reusedLeaf : Nat := 0
  reusedBytes : Nat := 0
  lexed : Nat := 0
  refusals : Nat := 0
  fail : Option String := none

def RS.bad (s : RS) (msg : String) : RS :=
  match s.fail with
  | some _ => s
  | none => { s with fail := some msg }

def Verdict.name : Verdict → String
  | .before => "before_reusable_node" | .past => "past_reusable_node"
  | .extState => "different_external_scanner_state" | .hasChanges => "cant_reuse_node_has_changes"
  | .isError => "cant_reuse_node_is_error" | .isMissing => "cant_reuse_node_is_missing"
  | .isFragile => "cant_reuse_node_is_fragile" | .rangeDiff => "cant_reuse_node_contains_different_included_range"
  | .firstLeaf => "cant_reuse_node(first_leaf)" | .reuse => "reuse_node"

/-- One gate event of the log: the real parser said `ev` about a candidate called `name`. -/
def RS.gateEvent (s : RS) (L : Lang) (symName : Nat → String) (ev : Verdict) (name : String) : RS :=
  match s.it.tree? with
  | none => s.bad s!"log has {ev.name} for `{name}` but the model iterator is exhausted"
  | some t =>
    if symName t.data.symbol ≠ name then
      s.bad s!"log has {ev.name} for `{name}` but the model iterator is at `{symName t.data.symbol}` (offset {s.it.byteOffset})"
    else
      let off := s.it.byteOffset
      let extEq := ev != .extState
      -- the scanner-state comparison of the gate, recomputed: iterator side from the port of
      -- `reusable_node_advance`'s bookkeeping, parser side from the new tree
      let s := match s.newExt, decide (off = s.pos) with
        | some leaves, true =>
          match parserExtAt leaves s.pos with
          | some pe =>
            let modelEq := s.it.lastExt == pe
            let relevant := ev != Verdict.before && ev != Verdict.past
            if relevant && modelEq != extEq then
              s.bad s!"parser logged {ev.name} for `{name}` at offset {off}: external-scanner states {if extEq then "equal" else "different"} in the log, {if modelEq then "equal" else "different"} by the model (iterator `{s.it.lastExt}`, parser `{pe}`)"
            else if relevant then { s with extChecked := s.extChecked + 1 } else s
          | none => s
        | _, _ => s
      let ld := lineDiffOf s.colFix s.diffs.toList t off s.col
      let s := { s with gate := s.gate + 1
                        coldepSeen := s.coldepSeen || t.data.dependsOnColumn }
      -- `included_range_difference_index` is advanced with the position of whichever stack version
      -- was processed last; after a version that ran ahead is dropped, differences ending at or
      -- before `maxPos` may already have been skipped although they lie ahead of this version.
      let live := s.diffs.toList.filter (fun r => r.2 > s.maxPos)
      let fl := fun (x : Verdict) => x == Verdict.firstLeaf || x == Verdict.reuse
      let (stv, known) := match s.state with
        | some st => (st, true)
        | none => (0, false)   -- parse state re-read from the stack after a breakdown: first-leaf test undetermined
      let v := reuseGate L s.diffs.toList t off s.pos stv extEq ld s.eofEnd
      let v' := reuseGate L live t off s.pos stv extEq ld s.eofEnd
      let inSet := fun (ds : List (Nat × Nat)) => decide (off = s.pos) && extEq && (refusalReasons ds t off ld s.eofEnd).contains ev
      -- the log gives the parser position as row/column; it is turned into a byte offset through the
      -- text, which is only meaningful inside the included ranges (behind the last range / inside a
      -- gap the runtime's byte and point positions need not agree)
      let posInRanges := s.newRanges.isEmpty || s.newRanges.any (fun r => r.1 ≤ s.pos && s.pos ≤ r.2)
      let posKind := fun (x : Verdict) => x == Verdict.before || x == Verdict.past
      let s :=
        if v = ev then { s with matched := s.matched + 1 }
        else if !posInRanges && (posKind v || posKind ev) then { s with undet := s.undet + 1, posUncertain := s.posUncertain + 1 }
        else if inSet s.diffs.toList then { s with matched := s.matched + 1, reordered := s.reordered + 1 }
        else if !known && fl v && fl ev then { s with undet := s.undet + 1 }
        else if v' = ev then { s with matched := s.matched + 1, indexSkipped := s.indexSkipped + 1 }
        else if !known && fl v' && fl ev then { s with undet := s.undet + 1, indexSkipped := s.indexSkipped + 1 }
        else s.bad s!"parser logged {ev.name} for `{name}` at offset {off} (position {s.pos}, state {if known then toString stv else "unknown"}); reuseGate says {v.name}"
      let (it', _, _) := stepIter s.it t s.pos ev
      let s := { s with it := it' }
      match ev with
      | .reuse =>
        let s := { s with didReuse := true, reusedBytes := s.reusedBytes + t.totalBytes }
        if t.kids.isEmpty then { s with reusedLeaf := s.reusedLeaf + 1 } else { s with reusedInner := s.reusedInner + 1 }
      | .before | .past => s
      | _ => { s with refusals := s.refusals + 1 }

/-- `state_mismatch sym:X` — `ts_parser__breakdown_lookahead` descends. -/
def RS.stateMismatch (s : RS) (symName : Nat → String) (name : String) : RS :=
  match s.it.tree? with
  | none => s.bad "state_mismatch but the model iterator is exhausted"
  | some t =>
    if symName t.data.symbol ≠ name then s.bad s!"state_mismatch for `{name}` but the model iterator is at `{symName t.data.symbol}`"
    else
      let s := match s.state, s.stateKnown && !s.relexed with
        | some st, true =>
          if needsBreakdown t st then { s with bdChecked := s.bdChecked + 1 }
          else s.bad s!"parser logged state_mismatch for `{name}` in state {st} but needsBreakdown says no (node state {t.data.parseState})"
        | _, _ => s
      match s.it.descend with
      | some it' => { s with it := it' }
      | none => s.bad "state_mismatch on a leaf"

/-- `shift` / `shift_extra`: the line is logged BEFORE `ts_parser__breakdown_lookahead` (whose
`state_mismatch` lines follow) and before `if (did_reuse) reusable_node_advance`, so the advance is
deferred until the first later line that is not a `state_mismatch`. -/
def RS.shift (s : RS) : RS :=
  if s.didReuse then { s with pendingShift := true } else s

def RS.flushShift (s : RS) : RS :=
  if s.pendingShift then
    -- the node finally shifted is one `ts_parser__breakdown_lookahead` stops at
    let s := match s.it.tree?, s.state, s.stateKnown && !s.relexed with
      | some t, some st, true =>
        if needsBreakdown t st then s.bad s!"parser shifted a reused node built in state {t.data.parseState} in state {st} without breaking it down"
        else { s with bdChecked := s.bdChecked + 1 }
      | _, _, _ => s
    { s with it := s.it.advance, didReuse := false, pendingShift := false }
  else s

/-- A new `process …` line: close the previous `ts_parser__advance` call (a reused look-ahead
consumed by a Recover action in the error state also advances the iterator), then start the next. -/
def RS.process (s : RS) (state pos col : Nat) : RS :=
  let s := if s.didReuse && s.startState == 0 then { s with it := s.it.advance } else s
  { s with didReuse := false, state := some state, startState := state, pos := pos, col := col,
           stateKnown := true, relexed := false, maxPos := max s.maxPos pos }

end TsVerif.C01
