import TsVerif.Common.Tree
/-!
# C01 — the reuse gate: port of the DECISION part of `ts_parser__reuse_node` and
`ts_parser__can_reuse_first_leaf` (lib/src/parser.c), of `ts_range_array_intersects`
(lib/src/get_changed_ranges.c) and of the old-tree iterator `reusable_node.h`.

Everything the gate reads is an explicit input:
* the candidate node (a `Tree` read from the dump of the edited old tree) and its byte offset,
* the parser position, the parse state, whether the external-scanner state of the parser's last
  external token equals the iterator's (`extEq`),
* the included-range differences,
* the language facts `Lang` (lex mode per state, table entry per (state, token), keyword capture
  token) that are dumped from the real `TSLanguage` through the runtime's own accessors.

The result is the *log event* that the real parser emits for this candidate, so the port can be
compared with the parser's log line by line.
-/
namespace TsVerif.C01
open TsGen TsVerif

/-- `TSLexerMode`. -/
structure LexMode where
  lexState : Nat
  extLexState : Nat
  reservedSet : Nat
  deriving DecidableEq, Repr, Inhabited

/-- The two fields of `TableEntry` the gate reads. -/
structure TableEntry where
  actionCount : Nat
  reusable : Bool
  deriving DecidableEq, Repr, Inhabited

/-- What the gate reads from the language. -/
structure Lang where
  lexMode : Nat → LexMode
  entry : Nat → Nat → TableEntry
  keywordCaptureToken : Nat

def symError : Nat := 65535        -- ts_builtin_sym_error = (TSSymbol)-1
def symErrorRepeat : Nat := 65534  -- ts_builtin_sym_error_repeat
def symEnd : Nat := 0              -- ts_builtin_sym_end
def noLexState : Nat := 65535      -- (uint16_t)-1
def uint32Max : Nat := 4294967295

/-- `ts_subtree_leaf_symbol`. -/
def leafSymbol (t : Tree) : Nat :=
  if t.kids.isEmpty then t.data.symbol else t.data.firstLeafSymbol

/-- `ts_subtree_leaf_parse_state`. -/
def leafState (t : Tree) : Nat :=
  if t.kids.isEmpty then t.data.parseState else t.data.firstLeafState

/-- `ts_language_table_entry` returns the empty entry for the two error symbols. -/
def Lang.tableEntry (L : Lang) (state sym : Nat) : TableEntry :=
  if sym = symError ∨ sym = symErrorRepeat then { actionCount := 0, reusable := false }
  else L.entry state sym

/-- `ts_parser__can_reuse_first_leaf(self, state, tree, table_entry)`. -/
def canReuseFirstLeaf (L : Lang) (state : Nat) (t : Tree) (te : TableEntry) : Bool :=
  let cur := L.lexMode state
  let leaf := L.lexMode (leafState t)
  if cur.lexState = noLexState then false
  else if te.actionCount > 0 ∧ leaf = cur ∧
      (leafSymbol t ≠ L.keywordCaptureToken ∨ (t.data.isKeyword = false ∧ t.data.parseState = state)) then true
  else if t.data.size.bytes = 0 ∧ leafSymbol t ≠ symEnd then false
  else decide (cur.extLexState = 0) && te.reusable

/-- `ts_range_array_intersects(self, start_index, start_byte, end_byte)` on the array from
`start_index` on; a range is `(start_byte, end_byte)`. -/
def rangeIntersects : List (Nat × Nat) → Nat → Nat → Bool
  | [], _, _ => false
  | (a, b) :: rest, s, e =>
    if b > s then (if a ≥ e then false else true)
    else rangeIntersects rest s e

/-- The events `ts_parser__reuse_node` logs for one candidate. -/
inductive Verdict where
  | before      -- before_reusable_node            (candidate starts after the position)
  | past        -- past_reusable_node              (candidate starts before the position)
  | extState    -- reusable_node_has_different_external_scanner_state
  | hasChanges  -- cant_reuse_node_has_changes
  | isError     -- cant_reuse_node_is_error
  | isMissing   -- cant_reuse_node_is_missing
  | isFragile   -- cant_reuse_node_is_fragile
  | rangeDiff   -- cant_reuse_node_contains_different_included_range
  | firstLeaf   -- cant_reuse_node symbol:…, first_leaf_symbol:…
  | reuse       -- reuse_node
  deriving DecidableEq, Repr, Inhabited

/-- `end_byte_offset` of the candidate (EOF nodes extend to the end of the address space). -/
def endByteOffset (t : Tree) (off : Nat) : Nat :=
  if t.data.symbol = symEnd then uint32Max else off + t.totalBytes

/-- The end of the span tested against the included-range differences. -/
def diffSpanEnd (t : Tree) (off : Nat) (oldEnd : Option Nat := none) : Nat :=
  if t.data.symbol = symEnd then endByteOffset t off
  else match oldEnd with
    -- proposed repair fixes/C01-eof-lookahead-range-added.diff (`oldEnd` = total bytes of the old
    -- tree when the source under test contains it): a node whose look-ahead reached the end of the
    -- old input is treated like the EOF node
    | some e => if endByteOffset t off + t.data.lookahead > e then uint32Max else endByteOffset t off + t.data.lookahead
    | none => endByteOffset t off + t.data.lookahead

/-- The extra test of the proposed repair `fixes/C01-column-token-range-change.diff` (absent from
the pinned tree; `enabled` says whether the source under test contains it): a column-dependent
candidate is refused when an included-range difference — searched from index 0, not from
`included_range_difference_index` — intersects the part of its line before it,
`[off − column, off)`. -/
def lineDiffOf (enabled : Bool) (allDiffs : List (Nat × Nat)) (t : Tree) (off column : Nat) : Bool :=
  enabled && t.data.dependsOnColumn && !allDiffs.isEmpty &&
    decide (off - column < off) && rangeIntersects allDiffs (off - column) off

/-- One iteration of the loop of `ts_parser__reuse_node`: the decision for candidate `t` at byte
offset `off` when the parser is at `pos` in parse state `state`.  `lineDiff` is the outcome of
`lineDiffOf` (always `false` for the pinned tree). -/
def reuseGate (L : Lang) (diffs : List (Nat × Nat)) (t : Tree) (off pos state : Nat) (extEq : Bool)
    (lineDiff : Bool := false) (oldEnd : Option Nat := none) : Verdict :=
  if off > pos then .before
  else if off < pos then .past
  else if !extEq then .extState
  else if t.data.hasChanges then .hasChanges
  else if t.data.symbol = symError then .isError
  else if t.data.isMissing then .isMissing
  else if t.data.fragileLeft || t.data.fragileRight then .isFragile
  else if rangeIntersects diffs off (diffSpanEnd t off oldEnd) then .rangeDiff
  else if lineDiff then .rangeDiff
  else if !canReuseFirstLeaf L state t (L.tableEntry state (leafSymbol t)) then .firstLeaf
  else .reuse

/-- ALL tests of the refusal block of `ts_parser__reuse_node` that fail for the candidate, in the
order of the C code.  The parser logs the first; a harmless reordering of the (independent) tests
would log another member of this list — the candidate is refused and the iterator moves the same
way for every one of them, so the replay accepts any member (and counts a non-first one). -/
def refusalReasons (diffs : List (Nat × Nat)) (t : Tree) (off : Nat) (lineDiff : Bool) (oldEnd : Option Nat := none) : List Verdict :=
  (if t.data.hasChanges then [Verdict.hasChanges] else []) ++
  (if t.data.symbol = symError then [Verdict.isError] else []) ++
  (if t.data.isMissing then [Verdict.isMissing] else []) ++
  (if t.data.fragileLeft || t.data.fragileRight then [Verdict.isFragile] else []) ++
  (if rangeIntersects diffs off (diffSpanEnd t off oldEnd) || lineDiff then [Verdict.rangeDiff] else [])

/-! ## The old-tree iterator (`reusable_node.h`) -/

structure Entry where
  tree : Tree
  childIndex : Nat
  byteOffset : Nat
  deriving Inhabited

/-- `ReusableNode`: the stack (top first).  The last external token is not tracked: the replay
takes the outcome of the external-scanner-state comparison from the log. -/
structure Iter where
  stack : List Entry
  /-- serialized scanner state of `last_external_token` ("" for NULL / empty state) -/
  lastExt : String := ""
  deriving Inhabited

/-- Scanner state bytes of a leaf as dumped (`x<hex>`), "" when there is none. -/
def extOf (d : NodeData) : String :=
  if d.ext.startsWith "x" then (d.ext.drop 1).toString else ""

mutual
  /-- `ts_subtree_last_external_token`: the state of the last leaf with external tokens. -/
  def lastExternalExt : Tree → String
    | .mk d [] => if d.hasExternalTokens then extOf d else ""
    | .mk d (k :: ks) => if d.hasExternalTokens then lastExternalExtL (k :: ks) "" else ""
  /-- last child (in order) that has external tokens wins -/
  def lastExternalExtL : List Tree → String → String
    | [], acc => acc
    | k :: rest, acc => lastExternalExtL rest (if k.data.hasExternalTokens then lastExternalExt k else acc)
end

def Iter.tree? (it : Iter) : Option Tree := it.stack.head?.map (·.tree)
def Iter.byteOffset (it : Iter) : Nat := (it.stack.head?.map (·.byteOffset)).getD uint32Max

/-- The pop loop of `reusable_node_advance`. -/
def advanceLoop : List Entry → Nat → List Entry
  | [], _ => []
  | popped :: rest, off =>
    match rest with
    | [] => []
    | parent :: _ =>
      match parent.tree.kids[popped.childIndex + 1]? with
      | some c => { tree := c, childIndex := popped.childIndex + 1, byteOffset := off } :: rest
      | none => advanceLoop rest off

/-- `reusable_node_advance`. -/
def Iter.advance (it : Iter) : Iter :=
  match it.stack with
  | [] => it
  | last :: _ =>
    { stack := advanceLoop it.stack (last.byteOffset + last.tree.totalBytes)
      lastExt := if last.tree.data.hasExternalTokens then lastExternalExt last.tree else it.lastExt }

/-- `reusable_node_descend`; `none` when the current node has no children. -/
def Iter.descend (it : Iter) : Option Iter :=
  match it.stack with
  | [] => none
  | last :: _ =>
    match last.tree.kids with
    | [] => none
    | c :: _ => some { it with stack := { tree := c, childIndex := 0, byteOffset := last.byteOffset } :: it.stack }

/-- `while (reusable_node_descend(self)) {}` — bounded by the height of the tree (`fuel`). -/
def Iter.descendAll : Nat → Iter → Iter
  | 0, it => it
  | fuel + 1, it =>
    match it.descend with
    | some it' => Iter.descendAll fuel it'
    | none => it

/-- `reusable_node_advance_past_leaf`. -/
def Iter.advancePastLeaf (it : Iter) : Iter :=
  let fuel := match it.stack with
    | [] => 0
    | last :: _ => last.tree.size
  (Iter.descendAll fuel it).advance

/-- `reusable_node_reset`: the root itself is never a candidate. -/
def Iter.reset (root : Tree) : Iter :=
  match ({ stack := [{ tree := root, childIndex := 0, byteOffset := 0 }] } : Iter).descend with
  | some it => it
  | none => { stack := [], lastExt := "" }

/-- Loop condition of `ts_parser__breakdown_lookahead`: a reused inner node that was built in a
different parse state is replaced by its first child. -/
def needsBreakdown (t : Tree) (state : Nat) : Bool := !t.kids.isEmpty && t.data.parseState != state

/-- `ts_parser__breakdown_lookahead` on the iterator (`fuel` ≥ height of the node). -/
def Iter.breakdown : Nat → Iter → Nat → Iter
  | 0, it, _ => it
  | fuel + 1, it, state =>
    match it.tree? with
    | none => it
    | some t =>
      if needsBreakdown t state then
        match it.descend with
        | some it' => Iter.breakdown fuel it' state
        | none => it
      else it

/-- How the loop of `ts_parser__reuse_node` moves the iterator after an event; the Bool says
whether the loop continues with the next candidate (`continue`) or ends (`break`/`return`).
`(none)` for the state means "a leaf could not be reused and the top of the stack may have been
broken down, so the parse state must be re-read from the stack". -/
def stepIter (it : Iter) (t : Tree) (pos : Nat) (v : Verdict) : Iter × Bool × Bool :=
  match v with
  | .before => (it, false, false)
  | .past =>
    if endByteOffset t it.byteOffset ≤ pos then (it.advance, true, false)
    else match it.descend with
      | some it' => (it', true, false)
      | none => (it.advance, true, false)
  | .extState => (it.advance, true, false)
  | .hasChanges | .isError | .isMissing | .isFragile | .rangeDiff =>
    match it.descend with
    | some it' => (it', true, false)
    | none => (it.advance, true, true)
  | .firstLeaf => (it.advancePastLeaf, false, false)
  | .reuse => (it, false, false)

end TsVerif.C01
