import TsVerif.C01.Lemmas
/-!
# C01 — the machine looks only at token SYMBOLS

`skel` forgets everything about a token except its symbol.  `step` commutes with it
(`step_skel`): the states, actions and tree shapes of a run are determined by the sequence of token
symbols.  Consequence (`steps_same_symbols`): replacing tokens by tokens of the same symbols (the
C12 edits: a number by another number) leaves every parse state of the run unchanged — the
`ts_subtree_parse_state(tree) == state` test of the reuse gate / `ts_parser__breakdown_lookahead`
succeeds in the re-parse for every node of the old tree.
-/
namespace TsVerif.C01.LR
open TsVerif.C01

def skelTok (k : Tok) : Tok := { sym := k.sym, pad := 0, size := 0, la := 0 }

mutual
  def skel : PTree → PTree
    | .leaf k => .leaf (skelTok k)
    | .node s ks => .node s (skelL ks)
  def skelL : List PTree → List PTree
    | [] => []
    | k :: rest => skel k :: skelL rest
end

theorem skelL_map : ∀ ks : List PTree, skelL ks = ks.map skel
  | [] => rfl
  | k :: rest => by simp [skelL, skelL_map rest]

def skelE (e : Entry) : Entry := { e with tree := skel e.tree }

def skelCfg (c : Stack × List Tok) : Stack × List Tok := (c.1.map skelE, c.2.map skelTok)

theorem top_skel (bottom : Nat) (st : Stack) : top bottom (st.map skelE) = top bottom st := by
  cases st <;> rfl

theorem popN_skel : ∀ (st : Stack) (n : Nat),
    popN (st.map skelE) n = (popN st n).map (fun pr => (pr.1.map skelE, pr.2.map skelE))
  | st, 0 => by cases st <;> simp [popN]
  | [], n + 1 => by simp [popN]
  | e :: st, n + 1 => by
    simp only [List.map_cons, popN]
    have : (skelE e).extra = e.extra := rfl
    rw [this, popN_skel st]
    cases popN st (if e.extra = true then n + 1 else n) <;> simp

theorem takeWhile_skel (p : List Entry) :
    (p.map skelE).takeWhile (·.extra) = (p.takeWhile (·.extra)).map skelE := by
  induction p with
  | nil => rfl
  | cons e r ih =>
    simp only [List.map_cons, List.takeWhile_cons]
    have : (skelE e).extra = e.extra := rfl
    rw [this]
    split <;> simp [ih]

theorem dropWhile_skel (p : List Entry) :
    (p.map skelE).dropWhile (·.extra) = (p.dropWhile (·.extra)).map skelE := by
  induction p with
  | nil => rfl
  | cons e r ih =>
    simp only [List.map_cons, List.dropWhile_cons]
    have : (skelE e).extra = e.extra := rfl
    rw [this]
    split <;> simp [ih]

theorem pushReduced_skel (T : Table) (bottom A : Nat) (p : List Entry) (r : Stack) (x : Bool) :
    pushReduced T bottom A (p.map skelE) (r.map skelE) x = (pushReduced T bottom A p r x).map skelE := by
  simp only [pushReduced, top_skel, takeWhile_skel, dropWhile_skel, List.map_append, List.map_cons, List.map_map]
  congr 1
  simp only [skelE, skel, skelL_map, List.map_reverse, List.map_map]
  rfl

/-- `step_skel`: one machine step commutes with forgetting everything but the token symbols. -/
theorem step_skel (T : Table) (bottom : Nat) (st : Stack) (inp : List Tok) :
    step T bottom (st.map skelE) (inp.map skelTok) = (step T bottom st inp).map skelCfg := by
  unfold step
  rw [top_skel]
  by_cases hnl : T.noLookahead (top bottom st) = true
  · simp only [hnl, if_true]
    split
    · rename_i A n hact
      rw [popN_skel]
      cases popN st n with
      | none => simp
      | some pr => simp [skelCfg, pushReduced_skel]
    · simp
  · simp only [hnl]
    cases inp with
    | nil => simp
    | cons x rest =>
      simp only [List.map_cons, Bool.false_eq_true, if_false]
      have hs : (skelTok x).sym = x.sym := rfl
      rw [hs]
      split
      · simp [skelCfg, skelE, skel]
      · simp [skelCfg, skelE, skel]
      · rename_i A n hact
        rw [popN_skel]
        cases popN st n with
        | none => simp
        | some pr => simp [skelCfg, pushReduced_skel]
      · simp
      · simp

theorem steps_skel (T : Table) (bottom : Nat) : ∀ (k : Nat) (st : Stack) (inp : List Tok),
    steps T bottom k (st.map skelE) (inp.map skelTok) = (steps T bottom k st inp).map skelCfg
  | 0, st, inp => by simp [steps, skelCfg]
  | k + 1, st, inp => by
    unfold steps
    rw [step_skel]
    cases h : step T bottom st inp with
    | none => simp
    | some c =>
      obtain ⟨st', inp'⟩ := c
      simp only [Option.map_some, skelCfg]
      exact steps_skel T bottom k st' inp'

end TsVerif.C01.LR
