import TsVerif.C01.Judge
import TsVerif.C01.Stream
import TsVerif.C01.Lemmas
import TsVerif.C01.Skel
import TsVerif.C01.GateLoop
import TsVerif.C10.Model
/-!
# C01 — Incremental re-parse equals parsing the new text from scratch

Property text: "After any sequence of text edits, each mirrored on the old tree with the tree-edit
call, re-parsing with that old tree returns a tree identical to a from-scratch parse of the new
text (node types, nesting, field names, byte and row/column ranges, named/extra/missing flags)
whenever the from-scratch tree has no ERROR or MISSING node.  When the new text is not in the
language, both the incremental and the from-scratch tree report an error."

CLAUSE-BY-CLAUSE MAP (property text of properties.jsonl → theorems; status = PROVED on the model /
PARTIAL (hypothesis, and how often it holds on real data in the quick tier) / JUDGED ONLY on the
real runtime by `judge`, Judge.lean)

| phrase of the property | theorems / judge clause | status |
|---|---|---|
| "After any sequence of text edits, each mirrored on the old tree with the tree-edit call" | one edit: `relex_before`, `relex_after`, `relex_same_unmarked_leaf` (+ C10 `edits_preserve_tiling` for histories of edits on the tree); the re-parse theorems below hold for ANY old tree with certificates, so they compose over histories; histories of 1–8 edits through erroneous states are JUDGED | PARTIAL: hypothesis `LexLocal` — evaluated as obligation `hyp:LexLocal` on ≈10^5 tokens per run: holds except for finding `C01-multibyte-lookahead-char` (1–4 tokens) |
| "re-parsing with that old tree returns a tree identical to a from-scratch parse of the new text" | `incr_eq_scratch` (+ `incr_reaches`, `subtree_reuse_sound`, `incr_eq_scratch_tokens`, `reuseOracle_sound`): every halting incremental run of the LR machine ends in the configuration of the from-scratch run | PARTIAL: deterministic entries, token + non-terminal extras, no error recovery; hypothesis = certificates `LR.ReuseOK` — checked for EVERY real reuse event: 25 233 certified + 57 via a GLR version, 0 mismatch, 97 skipped (error-recovered subtrees); machine validated on 11 778 + 560 (GLR) real documents.  Whole statement JUDGED on every case |
| "(node types, nesting, …" | machine trees (`PTree`): symbols and nesting are part of `incr_eq_scratch`'s equal stacks | PROVED on the machine (same partiality) |
| "… field names, byte and row/column ranges, named/extra/missing flags)" | `flatten` equality (symbols, nesting, byte + point ranges, named/extra/missing) and cursor-walk equality (kind, field name, flags) | JUDGED ONLY (ranges follow from equal token sequences; fields/aliases are table data not modelled) |
| "whenever the from-scratch tree has no ERROR or MISSING node" | the machine theorems are about error-free runs; `dirtyTree` in the judge | as above |
| "When the new text is not in the language, both … report an error" | `incr_error_iff` (error = machine stuck) | PARTIAL: error RECOVERY not modelled; JUDGED (`has_error` of both roots) |
| quantifier "LR" | all machine theorems | PROVED (partial as above) |
| "GLR with declared conflicts" | gate: reuse only with one version (not modelled); validator `validateDocumentGLR`/`certifyReuseGLR` | JUDGED + validated (560 documents), not in theorems |
| "keyword extraction" | `first_leaf_keyword`, `first_leaf_same_mode` (gate decision) | gate PROVED + replayed; rest JUDGED |
| "external scanners with serialized state" | gate input `extEq`; `Iter.lastExt`/`lastExternalExt` recomputed and compared with the log (≈1.1·10^5 comparisons) | gate PROVED + corr; JUDGED |
| "column-sensitive scanners" | `lineDiffOf` (repair 835fde5 as gate variant); not `LexLocal` | JUDGED; findings 1 (fixed) and 5 (known) |
| "insert/delete/replace at any byte, inside tokens, inside a token's look-ahead, in whitespace, at BOF/EOF" | `relex_*` + C10 marking; exhaustive single-character edits at every byte | PARTIAL (`LexLocal`) + JUDGED |
| "multi-byte characters" | — | JUDGED; finding 6 `C01-multibyte-lookahead-char` (repair proposed) |
| "through intermediate erroneous states" | — | JUDGED ONLY |
| "all included-range sets" | `rangeIntersects_sound/_complete/_skip`, `view_agree`, `relex_same_ranges`, gate variants `lineDiffOf`, `diffSpanEnd … oldEnd` | PARTIAL: hypothesis `LexLocalV` (false at a character-splitting boundary and, before 2da2be2, at the end of the included input), `RangesSorted` evaluated (`hyp:RangesSorted`: always holds); findings 2, 3 (known), 4 (fixed) |
| "all input chunkings" | — | JUDGED ONLY (chunk sizes 1,2,3,5,7) |
| the gate itself (mechanism anchor) | `gate_refuses`, `gate_accepts`, `gate_verdict_complete`, `refusal_reasons_sound`, `first_leaf_*`, `breakdown_offset/_stops`, `gate_state_test_partial` | PROVED on the port; port = code by log replay (≈3·10^5 events, 100 %) |

Details per group of theorems
* "the old tree is only reused where that is sound" — decision logic of the reuse gate:
  `gate_refuses` (a node that has_changes / is ERROR / MISSING / fragile / overlaps an included-range
  difference with its look-ahead / starts elsewhere than the parser position / follows a different
  external-scanner state is never accepted), `gate_accepts` (converse: the gate is exactly this
  conjunction), `gate_verdict_complete` (every candidate gets the FIRST failing test as its reason),
  `first_leaf_other_mode`, `first_leaf_same_mode`, `first_leaf_after_nonterminal_extra`,
  `first_leaf_keyword` (the four branches of `ts_parser__can_reuse_first_leaf`),
  `rangeIntersects_sound` / `rangeIntersects_complete` / `rangeIntersects_skip` (the included-range
  test finds exactly the overlapping differences; skipping differences that end at or before the
  position — the parser's `included_range_difference_index` — does not change the answer).
* "a reused subtree built in another parse state is taken apart" — `breakdown_offset` (breaking a
  reused look-ahead down to first children never moves it), `breakdown_stops` (it ends on a leaf
  or on a node built in the current state) for the port `Iter.breakdown` of
  `ts_parser__breakdown_lookahead`.
* "a reused token is what the lexer would produce again" — `relex_before`, `relex_after`
  (text level, any `LexLocal` lexer), `relex_same_unmarked_leaf` (tie to C10's `editTree`: a leaf
  that `ts_subtree_edit` leaves unmarked re-lexes to itself), byte dimension.
* stage 1 — `reuseOracle_sound`, `lexReuse_eq_lexAll`, `incr_eq_scratch_tokens`: with reuse
  restricted to unreached leaves lexed in the same mode, every deterministic driver (any function
  of the token stream, in particular any LR driver) ends in the same state incrementally and from
  scratch, for every `LexLocal` lexer.
* stage 2 — machine `LR.lean` (deterministic table, token extras, reduce = pop `n` non-extra entries
  and re-push trailing extras), `Lemmas.lean` (frame / unread-input independence / composition):
  `subtree_reuse_sound` (a run over `w ++ u` from state `s` on an empty frame is the same run on
  top of any stack with top state `s`, whatever input follows), `incr_reaches`, `incr_eq_scratch`
  (every incremental run = machine steps interleaved with certified subtree reuse, `LR.IncrRun`,
  that halts ends in the configuration in which the from-scratch run of the same tokens halts:
  same stack, same tree — by induction over the reuse events), `reused_not_lexed` (lexed + reused
  = consumed tokens).  The certificates `LR.ReuseOK` are CHECKED on the real runtime's reuse events
  by running this machine on the dumped tables (Judge.lean `certifyReuse`, Drivers/C01.lean).
* `incr_error_iff` on the machine (error = stuck): a halted incremental run errs/accepts iff the
  scratch run does.
* `steps_same_symbols`, `gate_state_test_partial` (Skel.lean `step_skel`: the machine looks only at
  token symbols): after replacing one token by a token of the same symbol every configuration of
  the re-parse has the parse states of the old parse, so the gate's state test succeeds for every
  old subtree that does not contain the token.
* range changes: `view_agree`, `relex_same_ranges` (for `LexLocalV` lexers a token whose window
  meets no range difference is lexed identically under the new ranges) — `incr_eq_scratch` covers
  exactly the histories (edits AND range changes) for which the certificates hold on the new token
  sequence; the two lexer-side exceptions are the findings named in `LexLocalV`'s comment.
* the loop: `GateLoop.lean` (`OTree`, frontier iterator, `gstep`, `gloop`, `CertT/CertL`,
  `gstep_incr`), `gloop_incr`, `gate_loop_eq_scratch_partial`: the gate-driven re-parse loop is an
  incremental run, hence ends where the from-scratch parse ends.
* OPEN: GLR versions in the theorems, error recovery (what happens AFTER the first error), keyword
  re-labelling inside the machine; `breakdown_top_of_stack` in the loop; that the loop reuses every
  maximal unmarked subtree (`stray = 0`).  On the implementation whole-tree equality is DECIDED per case by
  `judge` (Judge.lean).
* Genuine defect found by the judge (see the last section): a column-dependent token is reused
  although an included-range difference lies earlier on its line.  `reuseGate` therefore carries
  the input `lineDiff` = outcome of the extra test of the proposed repair (`lineDiffOf`), `false`
  for the pinned tree; the theorems hold for both variants.

The theorems are about `reuseGate` etc. (Model.lean), hand ports tied to parser.c by replaying
the real parser's log against them on every run (Judge.lean `RS.gateEvent`).
-/
namespace TsVerif.C01
open TsGen TsVerif

/-! ## The gate -/

/-- `gate_refuses`: whatever the gate accepts satisfies every test of `ts_parser__reuse_node`. -/
theorem gate_refuses (L : Lang) (diffs : List (Nat × Nat)) (t : Tree) (off pos state : Nat) (extEq lineDiff : Bool) (oldEnd : Option Nat)
    (h : reuseGate L diffs t off pos state extEq lineDiff oldEnd = .reuse) :
    off = pos ∧ extEq = true ∧ t.data.hasChanges = false ∧ t.data.symbol ≠ symError ∧
    t.data.isMissing = false ∧ t.data.fragileLeft = false ∧ t.data.fragileRight = false ∧
    rangeIntersects diffs off (diffSpanEnd t off oldEnd) = false ∧ lineDiff = false ∧
    canReuseFirstLeaf L state t (L.tableEntry state (leafSymbol t)) = true := by
  unfold reuseGate at h
  repeat' split at h
  all_goals first
    | contradiction
    | (simp_all; omega)

/-- `gate_accepts`: conversely, a candidate passing every test is reused. -/
theorem gate_accepts (L : Lang) (diffs : List (Nat × Nat)) (t : Tree) (off pos state : Nat) (extEq lineDiff : Bool) (oldEnd : Option Nat)
    (h1 : off = pos) (h2 : extEq = true) (h3 : t.data.hasChanges = false) (h4 : t.data.symbol ≠ symError)
    (h5 : t.data.isMissing = false) (h6 : t.data.fragileLeft = false) (h7 : t.data.fragileRight = false)
    (h8 : rangeIntersects diffs off (diffSpanEnd t off oldEnd) = false) (h8' : lineDiff = false)
    (h9 : canReuseFirstLeaf L state t (L.tableEntry state (leafSymbol t)) = true) :
    reuseGate L diffs t off pos state extEq lineDiff oldEnd = .reuse := by
  subst h1
  unfold reuseGate
  simp [h2, h3, h4, h5, h6, h7, h8, h8', h9]

/-- `gate_verdict_complete`: each refusal reason is the first failing test, in the order of the C code. -/
theorem gate_verdict_complete (L : Lang) (diffs : List (Nat × Nat)) (t : Tree) (off pos state : Nat) (extEq lineDiff : Bool) (oldEnd : Option Nat) :
    (reuseGate L diffs t off pos state extEq lineDiff oldEnd = .before ↔ off > pos) ∧
    (reuseGate L diffs t off pos state extEq lineDiff oldEnd = .past ↔ off < pos) ∧
    (reuseGate L diffs t off pos state extEq lineDiff oldEnd = .extState ↔ off = pos ∧ extEq = false) ∧
    (reuseGate L diffs t off pos state extEq lineDiff oldEnd = .hasChanges ↔ off = pos ∧ extEq = true ∧ t.data.hasChanges = true) ∧
    (reuseGate L diffs t off pos state extEq lineDiff oldEnd = .isError ↔
      off = pos ∧ extEq = true ∧ t.data.hasChanges = false ∧ t.data.symbol = symError) ∧
    (reuseGate L diffs t off pos state extEq lineDiff oldEnd = .isMissing ↔
      off = pos ∧ extEq = true ∧ t.data.hasChanges = false ∧ t.data.symbol ≠ symError ∧ t.data.isMissing = true) := by
  unfold reuseGate
  by_cases a : off > pos
  · simp [a]; omega
  · by_cases b : off < pos
    · simp [a, b]; omega
    · have hop : off = pos := by omega
      subst hop
      simp only [a, if_false]
      cases extEq
      · simp
      · cases hc : t.data.hasChanges
        · by_cases he : t.data.symbol = symError
          · simp [he]
          · cases hm : t.data.isMissing
            · simp only [he, Bool.not_true, Bool.false_eq_true, if_false]
              repeat' split
              all_goals simp
            · simp [he]
        · simp

/-- `refusal_reasons_sound`: every member of `refusalReasons` is a test that really fails for the
candidate, the gate's verdict is a refusal exactly when the list is non-empty, and then it is the
FIRST member.  (The replay accepts a logged reason that is any member: a harmless reordering of
the independent tests changes the logged reason, never the decision.) -/
theorem refusal_reasons_sound (L : Lang) (diffs : List (Nat × Nat)) (t : Tree) (off state : Nat) (lineDiff : Bool) (oldEnd : Option Nat) :
    (Verdict.hasChanges ∈ refusalReasons diffs t off lineDiff oldEnd ↔ t.data.hasChanges = true) ∧
    (Verdict.isError ∈ refusalReasons diffs t off lineDiff oldEnd ↔ t.data.symbol = symError) ∧
    (Verdict.isMissing ∈ refusalReasons diffs t off lineDiff oldEnd ↔ t.data.isMissing = true) ∧
    (Verdict.isFragile ∈ refusalReasons diffs t off lineDiff oldEnd ↔ (t.data.fragileLeft || t.data.fragileRight) = true) ∧
    (Verdict.rangeDiff ∈ refusalReasons diffs t off lineDiff oldEnd ↔
      (rangeIntersects diffs off (diffSpanEnd t off oldEnd) || lineDiff) = true) ∧
    (refusalReasons diffs t off lineDiff oldEnd = [] →
      reuseGate L diffs t off off state true lineDiff oldEnd = .reuse ∨
      reuseGate L diffs t off off state true lineDiff oldEnd = .firstLeaf) ∧
    (∀ r rest, refusalReasons diffs t off lineDiff oldEnd = r :: rest →
      reuseGate L diffs t off off state true lineDiff oldEnd = r) := by
  unfold refusalReasons reuseGate
  refine ⟨?_, ?_, ?_, ?_, ?_, ?_, ?_⟩
  · by_cases h1 : t.data.hasChanges = true <;> by_cases h2 : t.data.symbol = symError <;>
      by_cases h3 : t.data.isMissing = true <;> by_cases h4 : (t.data.fragileLeft || t.data.fragileRight) = true <;>
      by_cases h5 : (rangeIntersects diffs off (diffSpanEnd t off oldEnd) || lineDiff) = true <;> simp_all
  · by_cases h1 : t.data.hasChanges = true <;> by_cases h2 : t.data.symbol = symError <;>
      by_cases h3 : t.data.isMissing = true <;> by_cases h4 : (t.data.fragileLeft || t.data.fragileRight) = true <;>
      by_cases h5 : (rangeIntersects diffs off (diffSpanEnd t off oldEnd) || lineDiff) = true <;> simp_all
  · by_cases h1 : t.data.hasChanges = true <;> by_cases h2 : t.data.symbol = symError <;>
      by_cases h3 : t.data.isMissing = true <;> by_cases h4 : (t.data.fragileLeft || t.data.fragileRight) = true <;>
      by_cases h5 : (rangeIntersects diffs off (diffSpanEnd t off oldEnd) || lineDiff) = true <;> simp_all
  · by_cases h1 : t.data.hasChanges = true <;> by_cases h2 : t.data.symbol = symError <;>
      by_cases h3 : t.data.isMissing = true <;> by_cases h4 : (t.data.fragileLeft || t.data.fragileRight) = true <;>
      by_cases h5 : (rangeIntersects diffs off (diffSpanEnd t off oldEnd) || lineDiff) = true <;> simp_all
  · by_cases h1 : t.data.hasChanges = true <;> by_cases h2 : t.data.symbol = symError <;>
      by_cases h3 : t.data.isMissing = true <;> by_cases h4 : (t.data.fragileLeft || t.data.fragileRight) = true <;>
      by_cases h5 : (rangeIntersects diffs off (diffSpanEnd t off oldEnd) || lineDiff) = true <;> simp_all
  · by_cases h1 : t.data.hasChanges = true <;> by_cases h2 : t.data.symbol = symError <;>
      by_cases h3 : t.data.isMissing = true <;> by_cases h4 : (t.data.fragileLeft || t.data.fragileRight) = true <;>
      by_cases h5 : (rangeIntersects diffs off (diffSpanEnd t off oldEnd) || lineDiff) = true <;> simp_all <;>
      (by_cases h6 : canReuseFirstLeaf L state t (L.tableEntry state (leafSymbol t)) = true <;> simp_all)
  · intro r rest
    by_cases h1 : t.data.hasChanges = true <;> by_cases h2 : t.data.symbol = symError <;>
      by_cases h3 : t.data.isMissing = true <;> by_cases h4 : (t.data.fragileLeft || t.data.fragileRight) = true <;>
      by_cases h5 : (rangeIntersects diffs off (diffSpanEnd t off oldEnd) || lineDiff) = true <;> simp_all <;>
      (try (intros; simp_all)) <;> (try (rcases h5 with h5 | h5 <;> simp_all))

/-! ## `ts_parser__breakdown_lookahead` -/

theorem descend_offset (it it' : Iter) (h : it.descend = some it') : it'.byteOffset = it.byteOffset := by
  unfold Iter.descend at h
  split at h
  · contradiction
  · rename_i last rest hst
    split at h
    · contradiction
    · simp only [Option.some.injEq] at h
      subst h
      simp [Iter.byteOffset, hst]

/-- `breakdown_offset`: breaking a reused look-ahead down to its first children never moves it —
the node finally shifted starts at the same byte as the node the gate accepted. -/
theorem breakdown_offset : ∀ (fuel : Nat) (it : Iter) (state : Nat),
    (Iter.breakdown fuel it state).byteOffset = it.byteOffset
  | 0, it, _ => rfl
  | fuel + 1, it, state => by
    unfold Iter.breakdown
    split
    · rfl
    · split
      · split
        · rename_i it' hd
          rw [breakdown_offset fuel it' state, descend_offset it it' hd]
        · rfl
      · rfl

/-- `breakdown_stops`: with enough fuel the node it ends on is a leaf or was built in the current
parse state (what the shift that follows relies on). -/
theorem breakdown_stops : ∀ (fuel : Nat) (it : Iter) (state : Nat) (t : Tree),
    (Iter.breakdown fuel it state).tree? = some t → (∀ t0, it.tree? = some t0 → t0.size ≤ fuel) →
    needsBreakdown t state = false
  | 0, it, state, t, h, hf => by
    have := hf t h
    cases t with
    | mk d ks => simp [Tree.size] at this
  | fuel + 1, it, state, t, h, hf => by
    unfold Iter.breakdown at h
    split at h
    · rename_i hn; rw [hn] at h; contradiction
    · rename_i t0 ht0
      split at h
      · rename_i hnb
        split at h
        · rename_i it' hd
          apply breakdown_stops fuel it' state t h
          intro t1 ht1
          -- the first child is strictly smaller than its parent
          have hsz := hf t0 ht0
          unfold Iter.descend at hd
          split at hd
          · contradiction
          · rename_i last rest hst
            split at hd
            · contradiction
            · rename_i c cs hk
              simp only [Option.some.injEq] at hd
              subst hd
              simp only [Iter.tree?, List.head?_cons, Option.map_some, Option.some.injEq] at ht1
              subst ht1
              have hl : last.tree = t0 := by
                simp only [Iter.tree?, hst, List.head?_cons, Option.map_some, Option.some.injEq] at ht0
                exact ht0
              rw [← hl] at hsz
              cases hlt : last.tree with
              | mk d ks =>
                rw [hlt] at hsz hk
                simp only [Tree.kids] at hk
                subst hk
                simp only [Tree.size, Tree.sizeList] at hsz
                omega
        · -- descend impossible although the node has children: contradiction with needsBreakdown
          rename_i hd
          exfalso
          unfold Iter.descend at hd
          split at hd
          · rename_i hst; simp [Iter.tree?, hst] at ht0
          · rename_i last rest hst
            split at hd
            · rename_i hk
              have hl : last.tree = t0 := by
                simp only [Iter.tree?, hst, List.head?_cons, Option.map_some, Option.some.injEq] at ht0
                exact ht0
              rw [hl] at hk
              simp [needsBreakdown, hk] at hnb
            · contradiction
      · rename_i hnb
        rw [ht0] at h
        simp only [Option.some.injEq] at h
        subst h
        simpa using hnb

/-! ## `ts_parser__can_reuse_first_leaf` -/

/-- A leaf (first leaf of a subtree) is reused in a state with a DIFFERENT lex mode only if the
node is non-empty (or is the EOF token), the table entry is marked reusable and no external
tokens are valid in the current state. -/
theorem first_leaf_other_mode (L : Lang) (state : Nat) (t : Tree) (te : TableEntry)
    (h : canReuseFirstLeaf L state t te = true)
    (hm : L.lexMode (leafState t) ≠ L.lexMode state) :
    (L.lexMode state).lexState ≠ noLexState ∧ (t.data.size.bytes ≠ 0 ∨ leafSymbol t = symEnd) ∧
    (L.lexMode state).extLexState = 0 ∧ te.reusable = true := by
  unfold canReuseFirstLeaf at h
  simp only at h
  repeat' split at h
  all_goals simp_all
  all_goals omega

/-- In the SAME lex mode a leaf with at least one action is reusable unless it is the keyword
capture token lexed as a keyword or in another parse state. -/
theorem first_leaf_same_mode (L : Lang) (state : Nat) (t : Tree) (te : TableEntry)
    (h0 : (L.lexMode state).lexState ≠ noLexState) (h1 : te.actionCount > 0)
    (h2 : L.lexMode (leafState t) = L.lexMode state)
    (h3 : leafSymbol t ≠ L.keywordCaptureToken ∨ (t.data.isKeyword = false ∧ t.data.parseState = state)) :
    canReuseFirstLeaf L state t te = true := by
  unfold canReuseFirstLeaf
  simp [h0, h1, h2, h3]

/-- At the end of a non-terminal extra (lex state −1) nothing is reused. -/
theorem first_leaf_after_nonterminal_extra (L : Lang) (state : Nat) (t : Tree) (te : TableEntry)
    (h : (L.lexMode state).lexState = noLexState) : canReuseFirstLeaf L state t te = false := by
  unfold canReuseFirstLeaf
  simp [h]

/-- The keyword capture token (an identifier that might be a keyword elsewhere) that was lexed as a
keyword, or in another parse state, is reused only through the `reusable` entry of a state
without external tokens — never through the "same lex mode" shortcut. -/
theorem first_leaf_keyword (L : Lang) (state : Nat) (t : Tree) (te : TableEntry)
    (h : canReuseFirstLeaf L state t te = true)
    (hk : leafSymbol t = L.keywordCaptureToken)
    (hs : t.data.isKeyword = true ∨ t.data.parseState ≠ state) :
    (L.lexMode state).extLexState = 0 ∧ te.reusable = true := by
  unfold canReuseFirstLeaf at h
  simp only at h
  repeat' split at h
  all_goals simp_all
  all_goals (rcases hs with hs | hs <;> simp_all)

/-- Without actions and without the reusable flag nothing is reused (an invalid token). -/
theorem first_leaf_needs_entry (L : Lang) (state : Nat) (t : Tree) (te : TableEntry)
    (h1 : te.actionCount = 0) (h2 : te.reusable = false) : canReuseFirstLeaf L state t te = false := by
  unfold canReuseFirstLeaf
  simp [h1, h2]

/-! ## Included-range differences -/

/-- Differences are stored sorted and disjoint (what `ts_range_array_get_changed_ranges` builds). -/
def RangesSorted : List (Nat × Nat) → Prop
  | [] => True
  | (a, b) :: rest => a ≤ b ∧ (∀ r ∈ rest, b ≤ r.1) ∧ RangesSorted rest

/-- `rangeIntersects_complete`: a positive answer exhibits an overlapping difference. -/
theorem rangeIntersects_complete (rs : List (Nat × Nat)) (s e : Nat)
    (h : rangeIntersects rs s e = true) : ∃ r ∈ rs, r.1 < e ∧ s < r.2 := by
  induction rs with
  | nil => simp [rangeIntersects] at h
  | cons r rest ih =>
    obtain ⟨a, b⟩ := r
    unfold rangeIntersects at h
    split at h
    · split at h
      · contradiction
      · exact ⟨(a, b), by simp, by simp; omega⟩
    · obtain ⟨r, hr, h1⟩ := ih h
      exact ⟨r, by simp [hr], h1⟩

/-- `rangeIntersects_sound`: on a sorted difference list a negative answer means that NO
difference overlaps `[s, e)`. -/
theorem rangeIntersects_sound (rs : List (Nat × Nat)) (s e : Nat) (hs : RangesSorted rs)
    (h : rangeIntersects rs s e = false) : ∀ r ∈ rs, ¬ (r.1 < e ∧ s < r.2) := by
  induction rs with
  | nil => simp
  | cons r rest ih =>
    obtain ⟨a, b⟩ := r
    obtain ⟨hab, hrest, hsorted⟩ := hs
    unfold rangeIntersects at h
    intro r hr
    simp only [List.mem_cons] at hr
    split at h
    · split at h
      · rcases hr with rfl | hr
        · simp; omega
        · have := hrest r hr
          omega
      · contradiction
    · rcases hr with rfl | hr
      · simp; omega
      · exact ih hsorted h r hr

/-- `rangeIntersects_skip`: differences ending at or before the start of the span never matter, so
the parser's `included_range_difference_index` (which skips exactly those) is only an optimisation. -/
theorem rangeIntersects_skip (pre rs : List (Nat × Nat)) (s e : Nat) (h : ∀ r ∈ pre, r.2 ≤ s) :
    rangeIntersects (pre ++ rs) s e = rangeIntersects rs s e := by
  induction pre with
  | nil => rfl
  | cons r rest ih =>
    obtain ⟨a, b⟩ := r
    have hb : ¬ (b > s) := by
      have := h (a, b) (by simp)
      simp at this; omega
    simp only [List.cons_append, rangeIntersects, hb, if_false]
    exact ih (fun r hr => h r (by simp [hr]))

/-! ## Re-lexing an unmarked token -/

/-- `LexLocal lex`: in every lex mode `m`, the token lexed at `p` depends only on the bytes in
`[p, p + pad + size + lookahead)` (the end of input being visible as "no byte").  This is the
contract that `lookahead_bytes` is meant to record (`ts_lexer_finish`: `lookahead_end_byte`). -/
def LexLocal {μ : Type} (lex : μ → List Nat → Nat → Tok) : Prop :=
  ∀ m t t' p p', (∀ i, i < (lex m t p).window → t[p + i]? = t'[p' + i]?) → lex m t' p' = lex m t p

/-- Replace `text[start, oldEnd)` by `ins`. -/
def applyEdit (text : List Nat) (start oldEnd : Nat) (ins : List Nat) : List Nat :=
  text.take start ++ ins ++ text.drop oldEnd

theorem applyEdit_before (text ins : List Nat) (start oldEnd j : Nat)
    (h1 : start ≤ text.length) (hj : j < start) :
    (applyEdit text start oldEnd ins)[j]? = text[j]? := by
  unfold applyEdit
  have hl : (text.take start).length = start := by simp; omega
  rw [List.append_assoc, List.getElem?_append_left (by omega)]
  simp [hj]

theorem applyEdit_after (text ins : List Nat) (start oldEnd j : Nat)
    (h1 : start ≤ oldEnd) (h2 : oldEnd ≤ text.length) (hj : oldEnd ≤ j) :
    (applyEdit text start oldEnd ins)[j - oldEnd + (start + ins.length)]? = text[j]? := by
  unfold applyEdit
  have hl : (text.take start ++ ins).length = start + ins.length := by simp; omega
  rw [List.getElem?_append_right (by omega)]
  rw [hl]
  simp
  congr 1
  omega

/-- `relex_before`: a token whose examined window ends at or before the start of the change is
lexed identically in the new text. -/
theorem relex_before {μ : Type} (lex : μ → List Nat → Nat → Tok) (hl : LexLocal lex)
    (m : μ) (text ins : List Nat) (start oldEnd p : Nat)
    (h1 : start ≤ oldEnd) (h2 : oldEnd ≤ text.length)
    (hw : p + (lex m text p).window ≤ start) :
    lex m (applyEdit text start oldEnd ins) p = lex m text p := by
  apply hl
  intro i hi
  exact (applyEdit_before text ins start oldEnd (p + i) (by omega) (by omega)).symm

/-- `relex_after`: a token that starts (padding included) at or after the old end of the change is
lexed identically at its shifted position `φ p = p − old_end + new_end`. -/
theorem relex_after {μ : Type} (lex : μ → List Nat → Nat → Tok) (hl : LexLocal lex)
    (m : μ) (text ins : List Nat) (start oldEnd p : Nat)
    (h1 : start ≤ oldEnd) (h2 : oldEnd ≤ text.length) (hp : oldEnd ≤ p) :
    lex m (applyEdit text start oldEnd ins) (p - oldEnd + (start + ins.length)) = lex m text p := by
  apply hl
  intro i _
  have := applyEdit_after text ins start oldEnd (p + i) h1 h2 (by omega)
  rw [← this]
  congr 1
  omega

/-- (C10 has this as `edit_marks_root`; re-proved here so that this file depends only on the port
`TsVerif.C10.Model`.)  A subtree the edit reaches is marked. -/
theorem editTree_marks_root (d : NodeData) (ks : List Tree) (e : C10.Edit)
    (h : ¬ (e.start.bytes > (length_add d.padding d.size).bytes + d.lookahead ∨
        ((e.old_end.bytes = e.start.bytes ∧ e.new_end.bytes = e.start.bytes) ∧
          e.start.bytes = (length_add d.padding d.size).bytes + d.lookahead))) :
    (C10.editTree (.mk d ks) e).data.hasChanges = true := by
  unfold C10.editTree
  simp only [h, if_false, Tree.data]
  unfold C10.store
  split
  · split <;> rfl
  · rfl

/-- `relex_same_unmarked_leaf` (tie to C10): let a leaf `d` sit at absolute offset `p` of `text`
and be what the lexer produced there.  If `ts_subtree_edit` (C10's `editTree`), given the change
in the leaf's local coordinates, leaves the leaf UNMARKED (`has_changes` false afterwards), then lexing the NEW text at `p` gives
the same token: reusing the leaf is what a re-lex would produce.  (Byte dimension; leaves that
the child loop of `editKids` never passes to `editTree` are covered by `relex_before` /
`relex_after` directly.) -/
theorem relex_same_unmarked_leaf {μ : Type} (lex : μ → List Nat → Nat → Tok) (hl : LexLocal lex)
    (m : μ) (text ins : List Nat) (p : Nat) (d : NodeData) (e : C10.Edit)
    (htok : (lex m text p).window = d.padding.bytes + d.size.bytes + d.lookahead)
    (h1 : e.start.bytes ≤ e.old_end.bytes) (h2 : p + e.old_end.bytes ≤ text.length)
    (hne : e.new_end.bytes = e.start.bytes + ins.length)
    (hreal : ¬ (e.old_end.bytes = e.start.bytes ∧ e.new_end.bytes = e.start.bytes))
    (hun : (C10.editTree (.mk d []) e).data.hasChanges = false) :
    lex m (applyEdit text (p + e.start.bytes) (p + e.old_end.bytes) ins) p = lex m text p := by
  have hstart : e.start.bytes > (length_add d.padding d.size).bytes + d.lookahead := by
    by_cases hc : e.start.bytes > (length_add d.padding d.size).bytes + d.lookahead
    · exact hc
    · exfalso
      have := editTree_marks_root d [] e (by
        intro h
        rcases h with h | h
        · exact hc h
        · exact hreal h.1)
      rw [this] at hun
      contradiction
  have hb : (length_add d.padding d.size).bytes = d.padding.bytes + d.size.bytes := by
    simp [length_add]
  apply relex_before lex hl m text ins (p + e.start.bytes) (p + e.old_end.bytes) p (by omega) h2
  rw [htok]
  omega

/-! ## Stage 1: leaf-level reuse gives the from-scratch token stream -/

/-- `reuseOracle_sound`: every leaf the oracle offers is what the lexer returns on the NEW text at
the requested position, provided the old leaves are what the lexer returned on the OLD text. -/
theorem reuseOracle_sound {μ : Type} [DecidableEq μ] (lex : μ → List Nat → Nat → Tok) (hl : LexLocal lex)
    (text ins : List Nat) (start oldEnd : Nat) (h1 : start ≤ oldEnd) (h2 : oldEnd ≤ text.length)
    (old : List (Nat × μ × Tok)) (hold : ∀ x ∈ old, x.2.2 = lex x.2.1 text x.1)
    (m : μ) (p' : Nat) (k : Tok)
    (h : reuseOracle old start oldEnd (start + ins.length) m p' = some k) :
    k = lex m (applyEdit text start oldEnd ins) p' := by
  unfold reuseOracle at h
  simp only [Option.map_eq_some_iff] at h
  obtain ⟨x, hx, hk⟩ := h
  have hmem := List.mem_of_find?_eq_some hx
  have hp := List.find?_some hx
  simp only [Bool.and_eq_true, decide_eq_true_eq] at hp
  obtain ⟨hm, hs⟩ := hp
  have hxo := hold x hmem
  subst hk
  rw [hm] at hxo
  unfold shiftPos at hs
  split at hs
  · rename_i hb
    simp only [Option.some.injEq] at hs
    subst hs
    rw [hxo] at hb ⊢
    exact (relex_before lex hl m text ins start oldEnd x.1 h1 h2 hb).symm
  · split at hs
    · rename_i ha
      simp only [Option.some.injEq] at hs
      subst hs
      rw [hxo]
      exact (relex_after lex hl m text ins start oldEnd x.1 h1 h2 ha).symm
    · contradiction

/-- `lexReuse_eq_lexAll`: a source that prefers sound oracle answers IS the lexer on the new text. -/
theorem lexReuse_eq_lexAll {μ : Type} (oracle : μ → Nat → Option Tok) (lexNew : μ → Nat → Tok)
    (hs : ∀ m p k, oracle m p = some k → k = lexNew m p) :
    incrSource oracle lexNew = lexNew := by
  funext m p
  unfold incrSource
  split
  · rename_i k hk
    exact hs m p k hk
  · rfl

/-- `incr_eq_scratch_tokens` (stage 1 of the design): with reuse restricted to leaves that the
edit did not reach and that were lexed in the same lex mode, EVERY deterministic driver — in
particular every LR driver over a parse table — ends in the same state (builds the same tree)
incrementally and from scratch, for every `LexLocal` lexer, every text and every well-formed edit. -/
theorem incr_eq_scratch_tokens {σ μ : Type} [DecidableEq μ]
    (step : σ → Tok → σ) (mode : σ → μ) (lex : μ → List Nat → Nat → Tok) (hl : LexLocal lex)
    (text ins : List Nat) (start oldEnd : Nat) (h1 : start ≤ oldEnd) (h2 : oldEnd ≤ text.length)
    (old : List (Nat × μ × Tok)) (hold : ∀ x ∈ old, x.2.2 = lex x.2.1 text x.1)
    (fuel : Nat) (s0 : σ) (p0 : Nat) :
    runDriver step mode
      (incrSource (reuseOracle old start oldEnd (start + ins.length)) (fun m p => lex m (applyEdit text start oldEnd ins) p))
      fuel s0 p0 =
    runDriver step mode (fun m p => lex m (applyEdit text start oldEnd ins) p) fuel s0 p0 := by
  rw [lexReuse_eq_lexAll]
  intro m p k hk
  exact reuseOracle_sound lex hl text ins start oldEnd h1 h2 old hold m p k hk

/-! ## Stage 2 (restricted): subtree-level reuse over a deterministic table -/

/-- `subtree_reuse_sound`: let the machine, started in state `s` on an EMPTY frame, turn the
tokens `w` followed by `u` into the configuration `c` in `k` steps (for the reuse of a subtree `t`:
`c` = `t` with its goto state, below the extras that follow it, in front of the next real token).
Then in ANY stack whose top state is `s`, on any input that starts with `w ++ u`, the same `k`
steps of the from-scratch machine produce `c` on top of that stack — the stack below and the
input behind `u` are irrelevant. -/
theorem subtree_reuse_sound (T : LR.Table) (s k : Nat) (w u : List Tok) (c : LR.Stack × List Tok)
    (hbuilt : LR.steps T s k [] (w ++ u) = some c)
    (bottom : Nat) (base : LR.Stack) (hs : LR.top bottom base = s) (rest : List Tok) :
    LR.steps T bottom k base (w ++ u ++ rest) = some (c.1 ++ base, c.2 ++ rest) := by
  have h1 := LR.steps_append T s rest k [] (w ++ u) _ _ hbuilt
  rw [← hs] at h1
  have h2 := LR.steps_frame T bottom base k [] _ _ _ h1
  simpa using h2

theorem steps_succ_final (T : LR.Table) (bottom : Nat) (d : LR.Stack × List Tok)
    (hf : LR.step T bottom d.1 d.2 = none) (m : Nat) : LR.steps T bottom (m + 1) d.1 d.2 = none := by
  rw [show m + 1 = Nat.succ m from rfl]
  unfold LR.steps
  rw [hf]

/-- `incr_reaches`: every incremental run (machine steps interleaved with certified subtree
reuse) that ends in a configuration where the machine halts (accept, error, end of input) is
matched by a from-scratch run of the same machine ending in the same configuration. -/
theorem incr_reaches (T : LR.Table) (bottom : Nat) (l r : Nat) (c d : LR.Stack × List Tok)
    (h : LR.IncrRun T bottom l r c d) (hf : LR.step T bottom d.1 d.2 = none) :
    ∃ n, LR.steps T bottom n c.1 c.2 = some d := by
  induction h with
  | done c => exact ⟨0, rfl⟩
  | lexStep hs _ ih =>
    obtain ⟨n, hn⟩ := ih hf
    exact ⟨n + 1, by simp [LR.steps, hs, hn]⟩
  | @reuse st A t w u rest l r d hok _ ih =>
    obtain ⟨n, hn⟩ := ih hf
    obtain ⟨k, j, c0, hk, hj⟩ := hok
    -- both the scratch run over `w ++ u` and the reuse shortcut followed by `u` reach `C`
    have hK := subtree_reuse_sound T _ k w u c0 hk bottom st rfl rest
    have hJ0 := LR.steps_append T (LR.top bottom st) rest j _ u _ _ hj
    have hJ := LR.steps_frame T bottom st j _ _ _ _ hJ0
    simp only [List.singleton_append] at hJ
    change LR.steps T bottom j (LR.reuseStep T bottom st A t) (u ++ rest) = _ at hJ
    -- `j ≤ n`, otherwise the halted configuration `d` would have to step
    have hjn : j ≤ n := by
      by_cases hle : j ≤ n
      · exact hle
      · exfalso
        have hsplit : j = n + ((j - n - 1) + 1) := by omega
        rw [hsplit, LR.steps_add T bottom _ n _ _ _ _ hn, steps_succ_final T bottom d hf] at hJ
        contradiction
    have hrest : LR.steps T bottom (n - j) (c0.1 ++ st) (c0.2 ++ rest) = some d := by
      have := LR.steps_add T bottom (n - j) j _ _ _ _ hJ
      rw [show j + (n - j) = n by omega, hn] at this
      exact this.symm
    refine ⟨k + (n - j), ?_⟩
    rw [LR.steps_add T bottom (n - j) k _ _ _ _ hK]
    exact hrest

theorem run_final (T : LR.Table) (bottom : Nat) (d : LR.Stack × List Tok)
    (hf : LR.step T bottom d.1 d.2 = none) : ∀ m, LR.run T bottom m d.1 d.2 = d
  | 0 => rfl
  | m + 1 => by unfold LR.run; rw [hf]

/-- `incr_eq_scratch` (error-free, GLR-free, token extras; no non-terminal extras): an
incremental parse — any interleaving of machine steps and gate-approved, certified subtree reuse —
that halts in configuration `d` ends exactly where the from-scratch parse of the same tokens ends:
with enough fuel `run` returns `d`, i.e. the same stack and hence the same tree. -/
theorem incr_eq_scratch (T : LR.Table) (bottom : Nat) (l r : Nat) (c d : LR.Stack × List Tok)
    (h : LR.IncrRun T bottom l r c d) (hf : LR.step T bottom d.1 d.2 = none) :
    ∃ n, ∀ m, LR.run T bottom (n + m) c.1 c.2 = d := by
  obtain ⟨n, hn⟩ := incr_reaches T bottom l r c d h hf
  refine ⟨n, fun m => ?_⟩
  rw [LR.run_steps T bottom m n _ _ _ _ hn]
  exact run_final T bottom d hf m

/-- The machine accepts in configuration `d`. -/
def accepting (T : LR.Table) (bottom : Nat) (d : LR.Stack × List Tok) : Prop :=
  ∃ x rest, d.2 = x :: rest ∧ T.action (LR.top bottom d.1) x.sym = .accept

/-- The machine reports a syntax error in `d`: it cannot move and does not accept (in the real
parser this is where `ts_parser__handle_error` takes over — not modelled). -/
def erroring (T : LR.Table) (bottom : Nat) (d : LR.Stack × List Tok) : Prop :=
  LR.step T bottom d.1 d.2 = none ∧ ¬ accepting T bottom d

/-- `incr_error_iff` (on the machine; error = the machine is stuck): an incremental run that has
come to a halt reports an error iff the from-scratch run of the same tokens does, and accepts iff
it does — both are the same configuration by `incr_eq_scratch`. -/
theorem incr_error_iff (T : LR.Table) (bottom : Nat) (l r : Nat) (c d : LR.Stack × List Tok)
    (h : LR.IncrRun T bottom l r c d) (hf : LR.step T bottom d.1 d.2 = none) :
    ∃ n, ∀ m, (erroring T bottom (LR.run T bottom (n + m) c.1 c.2) ↔ erroring T bottom d) ∧
              (accepting T bottom (LR.run T bottom (n + m) c.1 c.2) ↔ accepting T bottom d) := by
  obtain ⟨n, hn⟩ := incr_eq_scratch T bottom l r c d h hf
  exact ⟨n, fun m => by rw [hn m]; exact ⟨Iff.rfl, Iff.rfl⟩⟩

/-! ## The gate's state test after a same-kind token replacement -/

/-- `steps_same_symbols`: two inputs with the same token symbols drive the machine through the same
states, actions and tree shapes. -/
theorem steps_same_symbols (T : LR.Table) (bottom k : Nat) (st : LR.Stack) (inp inp' : List Tok)
    (h : inp.map LR.skelTok = inp'.map LR.skelTok) :
    (LR.steps T bottom k st inp).map LR.skelCfg = (LR.steps T bottom k st inp').map LR.skelCfg := by
  rw [← LR.steps_skel, ← LR.steps_skel, h]

/-- `gate_state_test_partial` (towards "stray = 0" of C12's `reparse_work_bound_partial`; restricted
to deterministic tables, no external scanner, an edit that replaces ONE token by a token of the
same symbol — the C12 measurement edits): every configuration of the re-parse has exactly the
parse states of the corresponding configuration of the old parse.  Hence for EVERY subtree of the
old tree that does not contain the replaced token, the reuse gate's
`ts_subtree_parse_state(tree) == state` test (and `breakdown_lookahead`'s) succeeds at the point
where the re-parse reaches it, and its certificate `LR.ReuseOK` — which does not mention the
context — carries over unchanged; only table-level refusals (fragile repeat reductions, first-leaf
test) can make the real gate descend.

FULL STATEMENT (OPEN): an `LR.IncrRun` that reuses every maximal subtree not containing the
replaced token exists and is the run the gate-driven parser performs when no node is fragile
(`stray = 0`); needs the old-tree iterator and `breakdown_top_of_stack` inside the machine. -/
theorem gate_state_test_partial (T : LR.Table) (bottom k : Nat) (pre post : List Tok) (x x' : Tok)
    (hx : x'.sym = x.sym) (c : LR.Stack × List Tok)
    (hold : LR.steps T bottom k [] (pre ++ x :: post) = some c) :
    ∃ c', LR.steps T bottom k [] (pre ++ x' :: post) = some c' ∧
      c'.1.map (·.state) = c.1.map (·.state) ∧ c'.1.map (·.extra) = c.1.map (·.extra) ∧
      LR.top bottom c'.1 = LR.top bottom c.1 ∧ c'.2.length = c.2.length := by
  have hin : (pre ++ x :: post).map LR.skelTok = (pre ++ x' :: post).map LR.skelTok := by
    simp [LR.skelTok, hx]
  have h := steps_same_symbols T bottom k [] _ _ hin
  rw [hold] at h
  cases hn : LR.steps T bottom k [] (pre ++ x' :: post) with
  | none => rw [hn] at h; simp at h
  | some c' =>
    rw [hn] at h
    simp only [Option.map_some, Option.some.injEq, LR.skelCfg, Prod.mk.injEq] at h
    obtain ⟨h1, h2⟩ := h
    refine ⟨c', rfl, ?_, ?_, ?_, ?_⟩
    · have := congrArg (List.map (·.state)) h1
      simpa [LR.skelE, List.map_map, Function.comp_def] using this.symm
    · have := congrArg (List.map (·.extra)) h1
      simpa [LR.skelE, List.map_map, Function.comp_def] using this.symm
    · rw [← LR.top_skel bottom c'.1, ← LR.top_skel bottom c.1, h1]
    · have := congrArg List.length h2
      simpa using this.symm

/-- `stuck_same_symbols`: whether the machine is stuck (reports a syntax error) in a configuration
depends only on the parse states and the SYMBOL of the look-ahead token — error DETECTION is a
function of the token-symbol sequence, independent of positions, sizes and of how the tokens were
obtained (lexed or reused). -/
theorem stuck_same_symbols (T : LR.Table) (bottom : Nat) (st : LR.Stack) (inp : List Tok) :
    LR.step T bottom st inp = none ↔ LR.step T bottom (st.map LR.skelE) (inp.map LR.skelTok) = none := by
  rw [LR.step_skel]
  cases LR.step T bottom st inp <;> simp

/-! ### "both … report an error": what is proved and what is judged only

PROVED (machine): `incr_error_iff` — a halted incremental run is stuck iff the from-scratch run of
the same tokens is stuck, in the SAME configuration (same stack, same remaining input, hence the
same first offending token); `stuck_same_symbols` — being stuck depends on states and token symbols
only.  So "the incremental parse detects an error iff the from-scratch parse does, at the same
token" holds for deterministic tables up to the FIRST error.

JUDGED ONLY (`judge`: both roots `has_error()` and `error_cost > 0` whenever the scratch dump
contains ERROR/MISSING; recovery SHAPES may differ and are not compared), i.e. everything
`ts_parser__handle_error` / `ts_parser__recover` / `ts_parser__condense_stack` do after the machine
is stuck:
* the choice between skipping tokens (`skip_token`), popping to a previous state
  (`recover_to_previous`), inserting MISSING tokens (`recover_with_missing`) and wrapping in ERROR,
  made by comparing error costs across stack VERSIONS (`ts_parser__compare_versions`,
  `MAX_COST_DIFFERENCE`, `ERROR_COST_PER_*`);
* lexing in the error state (lex mode of `ERROR_STATE`, `skip_unrecognized_character`), the
  `ERROR`-leaf for unrecognised characters, `ts_parser__better_version_exists`, pausing/resuming of
  versions, `MAX_VERSION_COUNT`;
* REUSE while recovering: old nodes reused in state 0 through the Recover action, old ERROR /
  MISSING / fragile nodes refused by the gate (`cant_reuse_node_is_error` … — the gate decision
  itself is proved and replayed, what recovery then builds from the pieces is not);
* that an erroneous intermediate tree, edited and re-parsed, yields a tree equal to scratch once
  the text is in the language again (histories "through erroneous states" — judged on every such
  step);
* `has_error` propagation (`error_cost` summation in `ts_subtree_summarize_children`), the
  `ts_node_has_error` API (C02's domain). -/

/-! ## Re-lexing when the INCLUDED RANGES change

`incr_eq_scratch` speaks about token sequences: it covers every history — text edits and changes
of the included ranges alike — in which the tokens below each reused subtree and its followers are
the tokens the lexer delivers on the new input (the certificates `LR.ReuseOK`).  For text edits
`relex_before`/`relex_after` provide that; for range changes the following does, for lexers that
are local with respect to the INCLUDED VIEW of the document. -/

/-- Is byte `i` inside one of the ranges? -/
def inR (rs : List (Nat × Nat)) (i : Nat) : Bool := rs.any (fun r => decide (r.1 ≤ i) && decide (i < r.2))

/-- What the lexer can see at document position `i`: the byte if it is included, nothing otherwise. -/
def viewOf (text : List Nat) (rs : List (Nat × Nat)) (i : Nat) : Option Nat :=
  if inR rs i then text[i]? else none

/-- `diffs` covers the symmetric difference of the two range sets
(`ts_range_array_get_changed_ranges`). -/
def DiffSpec (old new diffs : List (Nat × Nat)) : Prop :=
  ∀ i, inR old i ≠ inR new i → ∃ d ∈ diffs, d.1 ≤ i ∧ i < d.2

/-- `view_agree`: where the gate's range test finds no difference, both parses see the same bytes. -/
theorem view_agree (text : List Nat) (old new diffs : List (Nat × Nat)) (s e : Nat)
    (hspec : DiffSpec old new diffs) (hsorted : RangesSorted diffs)
    (h : rangeIntersects diffs s e = false) :
    ∀ i, s ≤ i → i < e → viewOf text old i = viewOf text new i := by
  intro i hs he
  by_cases hd : inR old i = inR new i
  · simp [viewOf, hd]
  · obtain ⟨d, hmem, h1, h2⟩ := hspec i hd
    have := rangeIntersects_sound diffs s e hsorted h d hmem
    exact absurd ⟨by omega, by omega⟩ this

/-- A lexer over the included view that is local: the token at `p` depends only on what is visible
in `[p, p + padding + size + lookahead)`.  NOTE: the pinned lexer satisfies this only if the window
of a token that peeked the END OF THE INCLUDED INPUT is taken to extend to the end of the address
space — finding `C01-eof-lookahead-range-added`, repaired by /repo 2da2be2
(`diffSpanEnd … (oldEnd := some …)`); and it is false across a range boundary that splits a
character (finding `C01-range-boundary-splits-character`, C13). -/
def LexLocalV {μ : Type} (lexV : μ → (Nat → Option Nat) → Nat → Tok) : Prop :=
  ∀ m v v' p, (∀ i, i < (lexV m v p).window → v (p + i) = v' (p + i)) → lexV m v' p = lexV m v p

/-- `relex_same_ranges`: a token whose examined window meets no included-range difference (the
gate's `rangeIntersects … = false` on the sorted differences) is lexed identically under the new
ranges — the range-change counterpart of `relex_before`/`relex_after`, which makes
`incr_eq_scratch` applicable to histories that change the included ranges. -/
theorem relex_same_ranges {μ : Type} (lexV : μ → (Nat → Option Nat) → Nat → Tok) (hl : LexLocalV lexV)
    (m : μ) (text : List Nat) (old new diffs : List (Nat × Nat)) (p : Nat)
    (hspec : DiffSpec old new diffs) (hsorted : RangesSorted diffs)
    (h : rangeIntersects diffs p (p + (lexV m (viewOf text old) p).window) = false) :
    lexV m (viewOf text new) p = lexV m (viewOf text old) p := by
  apply hl
  intro i hi
  exact view_agree text old new diffs p _ hspec hsorted h (p + i) (by omega) (by omega)

theorem step_input (T : LR.Table) (bottom : Nat) (st st' : LR.Stack) (inp inp' : List Tok)
    (h : LR.step T bottom st inp = some (st', inp')) : inp'.length ≤ inp.length := by
  unfold LR.step at h
  by_cases hnl : T.noLookahead (LR.top bottom st) = true
  · simp only [hnl, if_true] at h
    split at h
    · split at h
      · simp only [Option.some.injEq, Prod.mk.injEq] at h; rw [← h.2]; exact Nat.le_refl _
      · contradiction
    · contradiction
  · simp only [hnl] at h
    cases inp with
    | nil => simp at h
    | cons x rest =>
      simp only [Bool.false_eq_true, if_false] at h
      split at h
      · simp only [Option.some.injEq, Prod.mk.injEq] at h; rw [← h.2]; simp
      · simp only [Option.some.injEq, Prod.mk.injEq] at h; rw [← h.2]; simp
      · split at h
        · simp only [Option.some.injEq, Prod.mk.injEq] at h; rw [← h.2]; simp
        · contradiction
      · contradiction
      · contradiction

/-- `reused_not_lexed` / `lex_calls_bound` (C12): in an incremental run the tokens taken from the
lexer and the tokens skipped below reused subtrees add up to the tokens consumed; the tokens of a
reused subtree are never requested, and `lexed ≤ consumed − reused`. -/
theorem reused_not_lexed (T : LR.Table) (bottom : Nat) (l r : Nat) (c d : LR.Stack × List Tok)
    (h : LR.IncrRun T bottom l r c d) : l + r + d.2.length = c.2.length := by
  induction h with
  | done c => simp
  | lexStep hs _ ih =>
    have := step_input T bottom _ _ _ _ hs
    simp only at ih ⊢
    omega
  | reuse _ _ ih =>
    simp only [List.length_append] at ih ⊢
    omega

/-! ## The gate-driven re-parse loop is an incremental run -/

/-- `gloop_incr`: any number of iterations of the gate-driven loop (`LR.gstep`: descend into marked
or state-mismatched candidates, reuse unmarked candidates whose parse state is the current state,
reduce with the candidate as look-ahead, lex marked leaves) is an `LR.IncrRun`, and the certificates
of the remaining frontier are kept. -/
theorem gloop_incr (T : LR.Table) (bottom : Nat) : ∀ (fuel : Nat) (st : LR.Stack) (front : List LR.OTree),
    LR.CertL T front [] →
    (∃ l r, LR.IncrRun T bottom l r (st, LR.yieldL front)
      ((LR.gloop T bottom fuel st front).1, LR.yieldL (LR.gloop T bottom fuel st front).2)) ∧
    LR.CertL T (LR.gloop T bottom fuel st front).2 []
  | 0, st, front, hc => ⟨⟨0, 0, LR.IncrRun.done _⟩, hc⟩
  | fuel + 1, st, front, hc => by
    unfold LR.gloop
    cases hg : LR.gstep T bottom st front with
    | none => exact ⟨⟨0, 0, LR.IncrRun.done _⟩, hc⟩
    | some c =>
      obtain ⟨st', front'⟩ := c
      obtain ⟨⟨l1, r1, h1⟩, hc'⟩ := LR.gstep_incr T bottom st st' front front' hg hc
      obtain ⟨⟨l2, r2, h2⟩, hc''⟩ := gloop_incr T bottom fuel st' front' hc'
      obtain ⟨l, r, _, _, h⟩ := LR.IncrRun.trans h1 h2
      exact ⟨⟨l, r, h⟩, hc''⟩

/-- `gate_loop_eq_scratch_partial` — the full re-parse LOOP (old-tree frontier + reuse gate +
`breakdown_lookahead` + reduce-with-reused-look-ahead + re-lexing of marked leaves) for
deterministic tables without external scanner and without fragile nodes: if the loop comes to a
configuration where the machine halts, the from-scratch parse of the new token sequence halts in
exactly that configuration (same stack = same tree), and the tokens it lexed plus the tokens below
the subtrees it reused are the tokens it consumed.  Hypothesis: the certificates `CertL` (every
unmarked node of the old tree is what the machine builds from its tokens in its recorded state —
the property of an old tree that was itself produced by the machine; checked on the real reuse
events by `certifyReuse`).

NOT in the loop (so `_partial`): `ts_parser__breakdown_top_of_stack` (it only undoes earlier
reuse when the follower of a reused node changed), the first-leaf test across lex modes, fragile
nodes, external-scanner state, GLR, error recovery.
OPEN (C12 `stray = 0`): that the loop REUSES every maximal unmarked subtree, i.e. never descends into
an unmarked node because of a state mismatch — `gate_state_test_partial` shows the states agree with
the old parse after a same-symbol replacement; what is missing is the alignment of the loop's
position in the old run with the frontier. -/
theorem gate_loop_eq_scratch_partial (T : LR.Table) (bottom fuel : Nat) (front : List LR.OTree)
    (hc : LR.CertL T front [])
    (hhalt : LR.step T bottom (LR.gloop T bottom fuel [] front).1 (LR.yieldL (LR.gloop T bottom fuel [] front).2) = none) :
    (∃ n, ∀ m, LR.run T bottom (n + m) [] (LR.yieldL front) =
      ((LR.gloop T bottom fuel [] front).1, LR.yieldL (LR.gloop T bottom fuel [] front).2)) ∧
    (∃ l r, l + r + (LR.yieldL (LR.gloop T bottom fuel [] front).2).length = (LR.yieldL front).length) := by
  obtain ⟨⟨l, r, h⟩, _⟩ := gloop_incr T bottom fuel [] front hc
  exact ⟨incr_eq_scratch T bottom l r _ _ h hhalt, ⟨l, r, reused_not_lexed T bottom l r _ _ h⟩⟩

/-- A table for `S → A c`, `A → a b` (tokens a=1, b=2, c=3; non-terminal A=10): the hypothesis of
`subtree_reuse_sound` holds for `w = [a, b]`, `x = c`, `s = 0`, `k = 3`. -/
def toyTable : LR.Table :=
  { action := fun st tok =>
      match st, tok with
      | 0, 1 => .shift 1
      | 1, 2 => .shift 2
      | 2, _ => .reduce 10 2
      | 3, 3 => .shift 4
      | 5, 1 => .shift 1        -- another context with the same top state behaviour
      | _, _ => .error
    goto := fun st nt => if nt = 10 then (if st = 0 then 3 else 6) else 0 }

def tk (sym : Nat) : Tok := { sym := sym, pad := 0, size := 1, la := 1 }

/-- The certificate of `IncrRun.reuse` holds for the subtree `A(a b)` with follower `c`, and an
incremental run that reuses it exists (so `incr_eq_scratch` / `reused_not_lexed` are not vacuous):
2 tokens are skipped, 1 is lexed. -/
def toyA : LR.PTree := .node 10 [.leaf (tk 1), .leaf (tk 2)]

theorem toy_cert : LR.ReuseOK toyTable 0 10 toyA [tk 1, tk 2] [tk 3] :=
  ⟨3, 0, ([{ state := 3, tree := toyA, extra := false }], [tk 3]), by rfl, by rfl⟩

example : LR.IncrRun toyTable 0 (0 + 1) (0 + 2) ([], [tk 1, tk 2] ++ [tk 3] ++ [])
    ([{ state := 4, tree := .leaf (tk 3), extra := false }, { state := 3, tree := toyA, extra := false }], []) :=
  LR.IncrRun.reuse (st := []) toy_cert
    (LR.IncrRun.lexStep (inp := [tk 3]) (inp' := []) (by rfl) (LR.IncrRun.done _))

/-! ## Non-vacuity -/

/-- A lexer that is `LexLocal`: one-byte tokens whose symbol depends on the next byte as well
(so the look-ahead matters). -/
def toyLex (_ : Unit) (t : List Nat) (p : Nat) : Tok :=
  { sym := (t[p]?).getD 0 + (t[p + 1]?).getD 0, pad := 0, size := 1, la := 1 }

theorem toyLex_local : LexLocal toyLex := by
  intro m t t' p p' h
  have h0 := h 0 (by simp [toyLex, Tok.window])
  have h1 := h 1 (by simp [toyLex, Tok.window])
  simp at h0
  simp [toyLex, h0, h1]

/-- `relex_before` / `relex_after` apply to it on a concrete edit (hypotheses satisfiable,
conclusion non-trivial: the text really changes). -/
example : toyLex () (applyEdit [1, 2, 3, 4, 5, 6] 3 4 [9, 9]) 0 = toyLex () [1, 2, 3, 4, 5, 6] 0 ∧
    toyLex () (applyEdit [1, 2, 3, 4, 5, 6] 3 4 [9, 9]) (4 - 4 + (3 + 2)) = toyLex () [1, 2, 3, 4, 5, 6] 4 ∧
    applyEdit [1, 2, 3, 4, 5, 6] 3 4 [9, 9] = [1, 2, 3, 9, 9, 5, 6] :=
  ⟨relex_before toyLex toyLex_local () _ _ 3 4 0 (by decide) (by decide) (by decide),
   relex_after toyLex toyLex_local () _ _ 3 4 4 (by decide) (by decide) (by decide), by decide⟩

/-- `gate_refuses` is not vacuous: the gate does accept (here: a clean leaf at the position, in a
language whose every state has the same lex mode and an action for the leaf). -/
def toyLang : Lang :=
  { lexMode := fun _ => { lexState := 0, extLexState := 0, reservedSet := 0 }
    entry := fun _ _ => { actionCount := 1, reusable := true }
    keywordCaptureToken := 0 }

def toyLeaf : Tree :=
  .mk { (default : NodeData) with symbol := 3, size := { bytes := 2, extent := { row := 0, column := 2 } } } []

/-- The oracle does offer old leaves (so `incr_eq_scratch_tokens` is about real reuse): the old
leaf at 4 is offered at its shifted position 5, the leaf at 2 (window reaches the edit) is not. -/
example :
    let old := [(0, (), toyLex () [1, 2, 3, 4, 5, 6] 0), (2, (), toyLex () [1, 2, 3, 4, 5, 6] 2), (4, (), toyLex () [1, 2, 3, 4, 5, 6] 4)]
    reuseOracle old 3 4 5 () 5 = some (toyLex () [1, 2, 3, 4, 5, 6] 4) ∧ reuseOracle old 3 4 5 () 0 = some (toyLex () [1, 2, 3, 4, 5, 6] 0) ∧
    reuseOracle old 3 4 5 () 2 = none ∧ (∀ x ∈ old, x.2.2 = toyLex x.2.1 [1, 2, 3, 4, 5, 6] x.1) := by
  decide

example : reuseGate toyLang [] toyLeaf 5 5 1 true = .reuse := by decide
example : reuseGate toyLang [(6, 7)] toyLeaf 5 5 1 true = .rangeDiff := by decide
example : reuseGate toyLang [] (.mk { toyLeaf.data with hasChanges := true } []) 5 5 1 true = .hasChanges := by decide
example : RangesSorted [(1, 2), (2, 5), (9, 9)] := by simp [RangesSorted]

/-! ## Finding `column-token-range-change`, at the level of the gate

Document `" x"` of `fx_depends_on_column`; the old tree was parsed with the whole document
included, the new parse includes only `[1,2)`: the differences are `[0,1)` and `[2, 2³²−1)`.  The
zero-width, column-dependent `odd_column` token sits at offset 1 with look-ahead 1.  The gate of
the pinned tree (`lineDiffOf false …`) ACCEPTS it — its span `[1,2)` meets no difference — although
the scanner would now see column 0 and return `even_column` (the real runtime does exactly this:
`harness/src/bin/c01_repro.rs`).  With the repair `fixes/C01-column-token-range-change.diff`
(`lineDiffOf true …`) the gate refuses it.  A column-dependent scanner is not `LexLocal`, so the
witness lies outside the hypotheses of `relex_*` / `incr_eq_scratch_tokens`. -/
example :
    let t : Tree := .mk { (default : NodeData) with symbol := 3, lookahead := 1, dependsOnColumn := true } []
    let all := [(0, 1), (2, 4294967295)]
    reuseGate toyLang all t 1 1 2 true (lineDiffOf false all t 1 1) = .reuse ∧
    reuseGate toyLang all t 1 1 2 true (lineDiffOf true all t 1 1) = .rangeDiff := by decide

/-- `gate_state_test_partial` applies: replacing the token `b` by another token of the same symbol
(different size) in `a b c`. -/
example : ∃ c', LR.steps toyTable 0 3 [] ([tk 1] ++ ({ tk 2 with size := 7 } : Tok) :: [tk 3]) = some c' ∧
    c'.1.map (·.state) = [3] :=
  let ⟨c', h1, h2, _⟩ := gate_state_test_partial toyTable 0 3 [tk 1] [tk 3] (tk 2) { tk 2 with size := 7 } rfl
    ([{ state := 3, tree := toyA, extra := false }], [tk 3]) (by rfl)
  ⟨c', h1, by simpa using h2⟩

/-- A view-local lexer and a range change to which `relex_same_ranges` applies: old ranges `[0,2)`,
new `[0,2);[5,6)`, difference `[5,6)`; the token at 0 (window 1) is unaffected. -/
def toyLexV (_ : Unit) (v : Nat → Option Nat) (p : Nat) : Tok :=
  { sym := (v p).getD 0, pad := 0, size := 1, la := 0 }

theorem toyLexV_local : LexLocalV toyLexV := by
  intro m v v' p h
  have h0 := h 0 (by simp [toyLexV, Tok.window])
  simp at h0
  simp [toyLexV, h0]

theorem toy_diffspec : DiffSpec [(0, 2)] [(0, 2), (5, 6)] [(5, 6)] := by
  intro i h
  refine ⟨(5, 6), by simp, ?_⟩
  simp only [inR, List.any_cons, List.any_nil, Bool.or_false, ne_eq] at h
  by_cases h5 : 5 ≤ i ∧ i < 6
  · exact h5
  · exfalso
    apply h
    have : (decide (5 ≤ i) && decide (i < 6)) = false := by
      simp only [Bool.and_eq_false_iff, decide_eq_false_iff_not]
      omega
    simp [this]

example : toyLexV () (viewOf [7, 8, 9, 9, 9, 4] [(0, 2), (5, 6)]) 0 = toyLexV () (viewOf [7, 8, 9, 9, 9, 4] [(0, 2)]) 0 :=
  relex_same_ranges toyLexV toyLexV_local () _ _ _ [(5, 6)] 0 toy_diffspec (by simp [RangesSorted]) (by decide)

/-- The gate loop on the toy table: frontier = old subtree `A(a b)` (unmarked, built in state 0) and
the leaf `c`; the loop reuses `A` and shifts `c`; the certificates hold. -/
def toyFront : List LR.OTree := [.node false 0 10 [.leaf false (tk 1), .leaf false (tk 2)], .leaf false (tk 3)]

theorem toyFront_cert : LR.CertL toyTable toyFront [] := by
  refine LR.CertL.cons _ _ _ (LR.CertT.node _ _ _ _ _ (fun _ => ?_) ?_) (LR.CertL.cons _ _ _ (LR.CertT.leaf _ _ _) (LR.CertL.nil _))
  · exact ⟨3, 0, ([{ state := 3, tree := toyA, extra := false }], [tk 3]), by rfl, by rfl⟩
  · exact LR.CertL.cons _ _ _ (LR.CertT.leaf _ _ _) (LR.CertL.cons _ _ _ (LR.CertT.leaf _ _ _) (LR.CertL.nil _))

example : (LR.gloop toyTable 0 5 [] toyFront).1.map (·.state) = [4, 3] ∧ (LR.gloop toyTable 0 5 [] toyFront).2.length = 0 := by
  constructor <;> rfl

/-! ## Finding `eof-lookahead-range-added`, at the level of the gate

`lst`, text `"ab cd"`, old ranges `[0,2)`: the word `ab` (2 bytes, look-ahead 1) peeked the end of
the old input (old tree: 2 bytes).  New ranges `[0,2);[3,5)`: difference `[3,5)`.  The pinned gate
(`oldEnd = none`) accepts the word — `[0,3)` meets no difference — although from scratch the lexer
runs on into the added range; with the repair `fixes/C01-eof-lookahead-range-added.diff`
(`oldEnd = some 2`) the span is extended to the end of the address space and the gate refuses. -/
example :
    let t : Tree := .mk { (default : NodeData) with symbol := 3, size := { bytes := 2, extent := { row := 0, column := 2 } }, lookahead := 1 } []
    reuseGate toyLang [(3, 5)] t 0 0 1 true false none = .reuse ∧
    reuseGate toyLang [(3, 5)] t 0 0 1 true false (some 2) = .rangeDiff := by decide

end TsVerif.C01
