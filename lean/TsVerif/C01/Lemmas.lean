import TsVerif.C01.LR
/-! Helper lemmas for the LR machine: the frame property, independence of unread input,
composition of runs. -/
namespace TsVerif.C01.LR
open TsVerif.C01

theorem top_append (bottom : Nat) (rel base : Stack) :
    top bottom (rel ++ base) = top (top bottom base) rel := by
  cases rel with
  | nil => rfl
  | cons p r => rfl

theorem popN_append : ∀ (rel : Stack) (n : Nat) (base : Stack) (p : List Entry) (r : Stack),
    popN rel n = some (p, r) → popN (rel ++ base) n = some (p, r ++ base)
  | rel, 0, base, p, r, h => by
    cases rel <;> simp only [popN, Option.some.injEq, Prod.mk.injEq] at h <;>
      (obtain ⟨h1, h2⟩ := h; subst h1 h2)
    · cases base <;> simp [popN]
    · simp [popN]
  | [], n + 1, base, p, r, h => by simp [popN] at h
  | e :: rel, n + 1, base, p, r, h => by
    simp only [popN, List.cons_append] at h ⊢
    split at h
    · rename_i p1 r1 h1
      simp only [Option.some.injEq, Prod.mk.injEq] at h
      obtain ⟨hp, hr⟩ := h
      subst hp hr
      rw [popN_append rel _ base p1 r1 h1]
    · contradiction

theorem pushReduced_append (T : Table) (bottom : Nat) (A : Nat) (p : List Entry) (r base : Stack) (x : Bool) :
    pushReduced T bottom A p (r ++ base) x = pushReduced T (top bottom base) A p r x ++ base := by
  simp [pushReduced, top_append]

/-- A step that succeeds above a frame is the same step on the whole stack. -/
theorem step_frame (T : Table) (bottom : Nat) (rel base : Stack) (inp : List Tok) (rel' : Stack) (inp' : List Tok)
    (h : step T (top bottom base) rel inp = some (rel', inp')) :
    step T bottom (rel ++ base) inp = some (rel' ++ base, inp') := by
  unfold step at h ⊢
  rw [top_append]
  by_cases hnl : T.noLookahead (top (top bottom base) rel) = true
  · simp only [hnl, if_true] at h ⊢
    split at h
    · rename_i A n hact
      split at h
      · rename_i p r hp
        simp only [Option.some.injEq, Prod.mk.injEq] at h
        obtain ⟨h1, h2⟩ := h
        subst h1 h2
        simp only [popN_append rel n base p r hp, pushReduced_append]
      · contradiction
    · contradiction
  · simp only [hnl] at h ⊢
    cases inp with
    | nil => simp at h
    | cons x rest =>
      simp only [Bool.false_eq_true, if_false] at h ⊢
      split at h
      · simp only [Option.some.injEq, Prod.mk.injEq] at h
        obtain ⟨h1, h2⟩ := h
        subst h1 h2
        simp
      · simp only [Option.some.injEq, Prod.mk.injEq] at h
        obtain ⟨h1, h2⟩ := h
        subst h1 h2
        simp
      · rename_i A n hact
        split at h
        · rename_i p r hp
          simp only [Option.some.injEq, Prod.mk.injEq] at h
          obtain ⟨h1, h2⟩ := h
          subst h1 h2
          simp only [popN_append rel n base p r hp, pushReduced_append]
        · contradiction
      · contradiction
      · contradiction

theorem steps_frame (T : Table) (bottom : Nat) (base : Stack) :
    ∀ (k : Nat) (rel : Stack) (inp : List Tok) (rel' : Stack) (inp' : List Tok),
    steps T (top bottom base) k rel inp = some (rel', inp') →
    steps T bottom k (rel ++ base) inp = some (rel' ++ base, inp')
  | 0, rel, inp, rel', inp', h => by
    simp only [steps, Option.some.injEq, Prod.mk.injEq] at h ⊢
    exact ⟨by rw [h.1], h.2⟩
  | k + 1, rel, inp, rel', inp', h => by
    unfold steps at h ⊢
    split at h
    · rename_i st1 inp1 hs
      rw [step_frame T bottom rel base inp st1 inp1 hs]
      exact steps_frame T bottom base k st1 inp1 rel' inp' h
    · contradiction

/-- The machine only looks at the head of the input: appending unread input changes nothing. -/
theorem step_append (T : Table) (bottom : Nat) (st : Stack) (inp r : List Tok) (st' : Stack) (inp' : List Tok)
    (h : step T bottom st inp = some (st', inp')) :
    step T bottom st (inp ++ r) = some (st', inp' ++ r) := by
  unfold step at h ⊢
  by_cases hnl : T.noLookahead (top bottom st) = true
  · simp only [hnl, if_true] at h ⊢
    split at h
    · split at h
      · simp only [Option.some.injEq, Prod.mk.injEq] at h
        obtain ⟨h1, h2⟩ := h
        subst h1 h2
        rfl
      · contradiction
    · contradiction
  · simp only [hnl] at h ⊢
    cases inp with
    | nil => simp at h
    | cons x rest =>
      simp only [List.cons_append, Bool.false_eq_true, if_false] at h ⊢
      split at h
      · simp only [Option.some.injEq, Prod.mk.injEq] at h
        obtain ⟨h1, h2⟩ := h
        subst h1 h2
        simp
      · simp only [Option.some.injEq, Prod.mk.injEq] at h
        obtain ⟨h1, h2⟩ := h
        subst h1 h2
        simp
      · split at h
        · rename_i p r1 hp
          simp only [Option.some.injEq, Prod.mk.injEq] at h
          obtain ⟨h1, h2⟩ := h
          subst h1 h2
          simp
        · contradiction
      · contradiction
      · contradiction

theorem steps_append (T : Table) (bottom : Nat) (r : List Tok) :
    ∀ (k : Nat) (st : Stack) (inp : List Tok) (st' : Stack) (inp' : List Tok),
    steps T bottom k st inp = some (st', inp') → steps T bottom k st (inp ++ r) = some (st', inp' ++ r)
  | 0, st, inp, st', inp', h => by
    simp only [steps, Option.some.injEq, Prod.mk.injEq] at h ⊢
    exact ⟨h.1, by rw [h.2]⟩
  | k + 1, st, inp, st', inp', h => by
    unfold steps at h ⊢
    split at h
    · rename_i st1 inp1 hs
      rw [step_append T bottom st inp r st1 inp1 hs]
      exact steps_append T bottom r k st1 inp1 st' inp' h
    · contradiction

/-- Runs compose. -/
theorem steps_add (T : Table) (bottom : Nat) (b : Nat) :
    ∀ (a : Nat) (st : Stack) (inp : List Tok) (st' : Stack) (inp' : List Tok),
    steps T bottom a st inp = some (st', inp') →
    steps T bottom (a + b) st inp = steps T bottom b st' inp'
  | 0, st, inp, st', inp', h => by
    simp only [steps, Option.some.injEq, Prod.mk.injEq] at h
    rw [Nat.zero_add, h.1, h.2]
  | a + 1, st, inp, st', inp', h => by
    unfold steps at h
    split at h
    · rename_i st1 inp1 hs
      have h1 : steps T bottom (a + 1 + b) st inp = steps T bottom (a + b) st1 inp1 := by
        rw [show a + 1 + b = (a + b) + 1 by omega]
        simp [steps, hs]
      rw [h1]
      exact steps_add T bottom b a st1 inp1 st' inp' h
    · contradiction

/-- If `a + b` steps succeed, so do the first `a`. -/
theorem steps_prefix (T : Table) (bottom : Nat) (b : Nat) :
    ∀ (a : Nat) (st : Stack) (inp : List Tok) (d : Stack × List Tok),
    steps T bottom (a + b) st inp = some d → ∃ c, steps T bottom a st inp = some c
  | 0, st, inp, d, _ => ⟨(st, inp), rfl⟩
  | a + 1, st, inp, d, h => by
    rw [show a + 1 + b = (a + b) + 1 by omega] at h
    unfold steps at h
    split at h
    · rename_i st1 inp1 hs
      obtain ⟨c, hc⟩ := steps_prefix T bottom b a st1 inp1 d h
      exact ⟨c, by simp [steps, hs, hc]⟩
    · contradiction

/-- `k` successful steps followed by `m` more units of fuel. -/
theorem run_steps (T : Table) (bottom : Nat) (m : Nat) :
    ∀ (k : Nat) (st : Stack) (inp : List Tok) (st' : Stack) (inp' : List Tok),
    steps T bottom k st inp = some (st', inp') → run T bottom (k + m) st inp = run T bottom m st' inp'
  | 0, st, inp, st', inp', h => by
    simp only [steps, Option.some.injEq, Prod.mk.injEq] at h
    rw [Nat.zero_add, h.1, h.2]
  | k + 1, st, inp, st', inp', h => by
    unfold steps at h
    split at h
    · rename_i st1 inp1 hs
      have h1 : run T bottom (k + 1 + m) st inp = run T bottom (k + m) st1 inp1 := by
        rw [show k + 1 + m = (k + m) + 1 by omega]
        simp [run, hs]
      rw [h1]
      exact run_steps T bottom m k st1 inp1 st' inp' h
    · contradiction

end TsVerif.C01.LR
