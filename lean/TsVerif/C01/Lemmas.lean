import TsVerif.C01.LR
/-! Helper lemmas for the LR machine: the frame property and independence of unread input. -/
namespace TsVerif.C01.LR
open TsVerif.C01

theorem top_append (bottom : Nat) (rel base : Stack) :
    top bottom (rel ++ base) = top (top bottom base) rel := by
  cases rel with
  | nil => rfl
  | cons p r => obtain ⟨s, t⟩ := p; rfl

/-- A step that succeeds above a frame is the same step on the whole stack. -/
theorem step_frame (T : Table) (bottom : Nat) (rel base : Stack) (inp : List Tok) (rel' : Stack) (inp' : List Tok)
    (h : step T (top bottom base) rel inp = some (rel', inp')) :
    step T bottom (rel ++ base) inp = some (rel' ++ base, inp') := by
  unfold step at h ⊢
  cases inp with
  | nil => simp at h
  | cons x rest =>
    simp only at h ⊢
    rw [top_append]
    split at h
    · simp only [Option.some.injEq, Prod.mk.injEq] at h
      obtain ⟨h1, h2⟩ := h
      subst h1 h2
      simp
    · rename_i A n hact
      split at h
      · rename_i hn
        simp only [Option.some.injEq, Prod.mk.injEq] at h
        obtain ⟨h1, h2⟩ := h
        subst h1 h2
        have hlen : n ≤ (rel ++ base).length := by simp; omega
        simp only [hlen, if_true, Option.some.injEq, Prod.mk.injEq, and_true]
        rw [List.drop_append_of_le_length hn, List.take_append_of_le_length hn, top_append]
        simp
      · contradiction
    · contradiction
    · contradiction

theorem steps_frame (T : Table) (bottom : Nat) (base : Stack) :
    ∀ (k : Nat) (rel : Stack) (inp : List Tok) (rel' : Stack) (inp' : List Tok),
    steps T (top bottom base) k rel inp = some (rel', inp') →
    steps T bottom k (rel ++ base) inp = some (rel' ++ base, inp')
  | 0, rel, inp, rel', inp', h => by
    simp only [steps, Option.some.injEq, Prod.mk.injEq] at h ⊢
    exact ⟨by rw [h.1], h.2⟩
  | k + 1, rel, inp, rel', inp', h => by
    unfold steps at h ⊢
    split at h
    · rename_i st1 inp1 hs
      rw [step_frame T bottom rel base inp st1 inp1 hs]
      exact steps_frame T bottom base k st1 inp1 rel' inp' h
    · contradiction

/-- The machine only looks at the head of the input: appending unread input changes nothing. -/
theorem step_append (T : Table) (bottom : Nat) (st : Stack) (inp r : List Tok) (st' : Stack) (inp' : List Tok)
    (h : step T bottom st inp = some (st', inp')) :
    step T bottom st (inp ++ r) = some (st', inp' ++ r) := by
  unfold step at h ⊢
  cases inp with
  | nil => simp at h
  | cons x rest =>
    simp only [List.cons_append] at h ⊢
    split at h
    · rename_i s' hact
      simp only [Option.some.injEq, Prod.mk.injEq] at h
      obtain ⟨h1, h2⟩ := h
      subst h1 h2
      simp
    · rename_i A n hact
      split at h
      · rename_i hn
        simp only [Option.some.injEq, Prod.mk.injEq] at h
        obtain ⟨h1, h2⟩ := h
        subst h1 h2
        simp [hn]
      · contradiction
    · contradiction
    · contradiction

theorem steps_append (T : Table) (bottom : Nat) (r : List Tok) :
    ∀ (k : Nat) (st : Stack) (inp : List Tok) (st' : Stack) (inp' : List Tok),
    steps T bottom k st inp = some (st', inp') → steps T bottom k st (inp ++ r) = some (st', inp' ++ r)
  | 0, st, inp, st', inp', h => by
    simp only [steps, Option.some.injEq, Prod.mk.injEq] at h ⊢
    exact ⟨h.1, by rw [h.2]⟩
  | k + 1, st, inp, st', inp', h => by
    unfold steps at h ⊢
    split at h
    · rename_i st1 inp1 hs
      rw [step_append T bottom st inp r st1 inp1 hs]
      exact steps_append T bottom r k st1 inp1 st' inp' h
    · contradiction

/-- `k` successful steps followed by `m` more units of fuel. -/
theorem run_steps (T : Table) (bottom : Nat) (m : Nat) :
    ∀ (k : Nat) (st : Stack) (inp : List Tok) (st' : Stack) (inp' : List Tok),
    steps T bottom k st inp = some (st', inp') → run T bottom (k + m) st inp = run T bottom m st' inp'
  | 0, st, inp, st', inp', h => by
    simp only [steps, Option.some.injEq, Prod.mk.injEq] at h
    rw [Nat.zero_add, h.1, h.2]
  | k + 1, st, inp, st', inp', h => by
    unfold steps at h
    split at h
    · rename_i st1 inp1 hs
      have h1 : run T bottom (k + 1 + m) st inp = run T bottom (k + m) st1 inp1 := by
        rw [show k + 1 + m = (k + m) + 1 by omega]
        simp [run, hs]
      rw [h1]
      exact run_steps T bottom m k st1 inp1 st' inp' h
    · contradiction

end TsVerif.C01.LR
