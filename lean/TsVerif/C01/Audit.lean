import TsVerif.C01.Props
#print axioms TsVerif.C01.gate_refuses
#print axioms TsVerif.C01.gate_accepts
#print axioms TsVerif.C01.gate_verdict_complete
#print axioms TsVerif.C01.first_leaf_other_mode
#print axioms TsVerif.C01.first_leaf_same_mode
#print axioms TsVerif.C01.first_leaf_after_nonterminal_extra
#print axioms TsVerif.C01.first_leaf_keyword
#print axioms TsVerif.C01.first_leaf_needs_entry
#print axioms TsVerif.C01.rangeIntersects_complete
#print axioms TsVerif.C01.rangeIntersects_sound
#print axioms TsVerif.C01.rangeIntersects_skip
#print axioms TsVerif.C01.relex_before
#print axioms TsVerif.C01.relex_after
#print axioms TsVerif.C01.relex_same_unmarked_leaf
#print axioms TsVerif.C01.toyLex_local
