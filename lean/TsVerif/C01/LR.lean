import TsVerif.C01.Stream
/-!
# C01 stage 2 — a deterministic LR machine with extras and subtree-level reuse

`Table` is a deterministic parse table (one action per (state, token) — no GLR, no error
recovery): what `ts_language_table_entry` / `ts_language_next_state` give for conflict-free states
(a `repetition` shift next to a reduce is skipped by `ts_parser__advance` and is not an action here).
Token extras (`shift_extra`: comments, …) are pushed without changing the state; a reduction of `n`
symbols pops `n` NON-extra entries together with the extras between them, builds the parent from
them and pushes the extras that were on top again (`ts_stack_pop_count`,
`ts_subtree_array_remove_trailing_extras`, `ts_parser__reduce`).  Non-terminal extras: a state
with `noLookahead` reduces under the `end` symbol without lexing, and the parent is an extra when
the goto state equals the state below it.

The machine works on a stack ABOVE a frame whose top state is `bottom`; a reduction that would pop
below the frame stops the machine (`step = none`).  A whole parse is the case "frame = empty stack,
bottom = start state".

Subtree reuse (`ts_parser__advance` with a reused non-terminal look-ahead, after
`ts_parser__breakdown_lookahead` has made sure that `ts_subtree_parse_state(tree) == state`) is the
shortcut `reuseStep`: push the old subtree with the goto state instead of re-running the machine
over its tokens.
-/
namespace TsVerif.C01.LR
open TsVerif.C01

inductive Action where
  | shift (next : Nat)
  | shiftExtra
  | reduce (sym : Nat) (count : Nat)
  | accept
  | error
  deriving DecidableEq, Repr

structure Table where
  action : Nat → Nat → Action     -- state, token symbol
  goto : Nat → Nat → Nat          -- state, non-terminal
  /-- states at the end of a NON-TERMINAL EXTRA rule (`lex_modes[state].lex_state == -1`): the parser
  does not lex there but performs the reduction stored under the `end` symbol -/
  noLookahead : Nat → Bool := fun _ => false

inductive PTree where
  | leaf (tok : Tok)
  | node (sym : Nat) (kids : List PTree)
  deriving Repr

structure Entry where
  state : Nat
  tree : PTree
  extra : Bool

abbrev Stack := List Entry

/-- State on top of `st`, or the frame's top state. -/
def top (bottom : Nat) : Stack → Nat
  | [] => bottom
  | e :: _ => e.state

/-- `ts_stack_pop_count`: pop until `n` non-extra entries have been taken (extras between and
above them included).  Result: the popped entries (top first) and the rest. -/
def popN : Stack → Nat → Option (List Entry × Stack)
  | st, 0 => some ([], st)
  | [], _ + 1 => none
  | e :: st, n + 1 =>
    match popN st (if e.extra then n + 1 else n) with
    | some (p, r) => some (e :: p, r)
    | none => none

/-- The configuration after reducing the popped entries `p` (top first) to `A` above `r`. -/
def pushReduced (T : Table) (bottom : Nat) (A : Nat) (p : List Entry) (r : Stack) (ntExtra : Bool := false) : Stack :=
  let g := T.goto (top bottom r) A
  let trailing := p.takeWhile (·.extra)
  let kids := (p.dropWhile (·.extra)).reverse.map (·.tree)
  -- `ts_parser__reduce`: `if (end_of_non_terminal_extra && next_state == state) parent.extra = true`
  trailing.map (fun e => { e with state := g }) ++
    { state := g, tree := .node A kids, extra := ntExtra && g == top bottom r } :: r

/-- One machine step on look-ahead `inp.head`. -/
def step (T : Table) (bottom : Nat) (st : Stack) (inp : List Tok) : Option (Stack × List Tok) :=
  if T.noLookahead (top bottom st) then
    -- end of a non-terminal extra: no token is lexed, the reduction under `end` (symbol 0) is taken
    match T.action (top bottom st) 0 with
    | .reduce A n =>
      match popN st n with
      | some (p, r) => some (pushReduced T bottom A p r true, inp)
      | none => none
    | _ => none
  else
  match inp with
  | [] => none
  | x :: rest =>
    match T.action (top bottom st) x.sym with
    | .shift s' => some ({ state := s', tree := .leaf x, extra := false } :: st, rest)
    | .shiftExtra => some ({ state := top bottom st, tree := .leaf x, extra := true } :: st, rest)
    | .reduce A n =>
      match popN st n with
      | some (p, r) => some (pushReduced T bottom A p r, x :: rest)
      | none => none
    | .accept => none
    | .error => none

/-- Exactly `k` successful steps. -/
def steps (T : Table) (bottom : Nat) : Nat → Stack → List Tok → Option (Stack × List Tok)
  | 0, st, inp => some (st, inp)
  | k + 1, st, inp =>
    match step T bottom st inp with
    | some (st', inp') => steps T bottom k st' inp'
    | none => none

/-- Run until the machine stops or the fuel is used up. -/
def run (T : Table) (bottom : Nat) : Nat → Stack → List Tok → Stack × List Tok
  | 0, st, inp => (st, inp)
  | fuel + 1, st, inp =>
    match step T bottom st inp with
    | some (st', inp') => run T bottom fuel st' inp'
    | none => (st, inp)

/-- The reuse shortcut: an old subtree `t` for non-terminal `A` is pushed in one move. -/
def reuseStep (T : Table) (bottom : Nat) (st : Stack) (A : Nat) (t : PTree) : Stack :=
  { state := T.goto (top bottom st) A, tree := t, extra := false } :: st

/-- `ReuseOK T s A t w u`: pushing the old subtree `t` for `A` in state `s` and then running on the
following tokens `u` reaches the same configuration as running the machine from state `s` over the
tokens `w` of `t` and then `u` — the certificate that `t` is what the machine builds from `w` in
state `s` (with `u` = the extras and the first real token that follow). -/
def ReuseOK (T : Table) (s A : Nat) (t : PTree) (w u : List Tok) : Prop :=
  ∃ (k j : Nat) (c : Stack × List Tok),
    steps T s k [] (w ++ u) = some c ∧
    steps T s j [{ state := T.goto s A, tree := t, extra := false }] u = some c

/-- An incremental run: ordinary machine steps interleaved with reuse shortcuts, each justified
by a certificate.  `IncrRun T bottom lexed reused c d`: from configuration `c` to `d`, having
taken `lexed` tokens from the lexer and skipped `reused` tokens below reused subtrees. -/
inductive IncrRun (T : Table) (bottom : Nat) : Nat → Nat → Stack × List Tok → Stack × List Tok → Prop
  | done (c : Stack × List Tok) : IncrRun T bottom 0 0 c c
  | lexStep {st st' : Stack} {inp inp' : List Tok} {l r : Nat} {d : Stack × List Tok} :
      step T bottom st inp = some (st', inp') → IncrRun T bottom l r (st', inp') d →
      IncrRun T bottom (l + (inp.length - inp'.length)) r (st, inp) d
  | reuse {st : Stack} {A : Nat} {t : PTree} {w u rest : List Tok} {l r : Nat} {d : Stack × List Tok} :
      ReuseOK T (top bottom st) A t w u →
      IncrRun T bottom l r (reuseStep T bottom st A t, u ++ rest) d →
      IncrRun T bottom l (r + w.length) (st, w ++ u ++ rest) d

/-- Number of tokens below a tree (what the lexer would have had to deliver). -/
def PTree.tokens : PTree → Nat
  | .leaf _ => 1
  | .node _ kids => tokensL kids
where tokensL : List PTree → Nat
  | [] => 0
  | k :: ks => PTree.tokens k + tokensL ks

end TsVerif.C01.LR
