import TsVerif.C01.Stream
/-!
# C01 stage 2 (restricted) — a deterministic LR machine with subtree-level reuse

`Table` is a deterministic parse table (one action per (state, token) — no GLR, no error
recovery): what `ts_language_table_entry` / `ts_language_next_state` give for conflict-free states.
The machine works on a stack of (state, tree) pairs ABOVE a frame whose top state is `bottom`;
a reduction that would pop below the frame stops the machine (`step = none`).  The whole parse is
the case "frame = empty stack, bottom = start state".

Subtree reuse (`ts_parser__advance` with a reused non-terminal look-ahead, after
`ts_parser__breakdown_lookahead` has made sure that `ts_subtree_parse_state(tree) == state`) is the
shortcut `reuseStep`: push the old subtree with the goto state instead of re-running the machine
over its tokens.
-/
namespace TsVerif.C01.LR
open TsVerif.C01

inductive Action where
  | shift (next : Nat)
  | reduce (sym : Nat) (count : Nat)
  | accept
  | error
  deriving DecidableEq, Repr

structure Table where
  action : Nat → Nat → Action     -- state, token symbol
  goto : Nat → Nat → Nat          -- state, non-terminal

inductive PTree where
  | leaf (tok : Tok)
  | node (sym : Nat) (kids : List PTree)
  deriving Repr

abbrev Stack := List (Nat × PTree)

/-- State on top of `st`, or the frame's top state. -/
def top (bottom : Nat) : Stack → Nat
  | [] => bottom
  | (s, _) :: _ => s

/-- One machine step on look-ahead `inp.head`. -/
def step (T : Table) (bottom : Nat) (st : Stack) (inp : List Tok) : Option (Stack × List Tok) :=
  match inp with
  | [] => none
  | x :: rest =>
    match T.action (top bottom st) x.sym with
    | .shift s' => some ((s', .leaf x) :: st, rest)
    | .reduce A n =>
      if n ≤ st.length then
        some ((T.goto (top bottom (st.drop n)) A, .node A ((st.take n).reverse.map (·.2))) :: st.drop n, x :: rest)
      else none
    | .accept => none
    | .error => none

/-- Exactly `k` successful steps. -/
def steps (T : Table) (bottom : Nat) : Nat → Stack → List Tok → Option (Stack × List Tok)
  | 0, st, inp => some (st, inp)
  | k + 1, st, inp =>
    match step T bottom st inp with
    | some (st', inp') => steps T bottom k st' inp'
    | none => none

/-- Run until the machine stops or the fuel is used up. -/
def run (T : Table) (bottom : Nat) : Nat → Stack → List Tok → Stack × List Tok
  | 0, st, inp => (st, inp)
  | fuel + 1, st, inp =>
    match step T bottom st inp with
    | some (st', inp') => run T bottom fuel st' inp'
    | none => (st, inp)

/-- The reuse shortcut: an old subtree `t` for non-terminal `A` is pushed in one move. -/
def reuseStep (T : Table) (bottom : Nat) (st : Stack) (A : Nat) (t : PTree) : Stack :=
  (T.goto (top bottom st) A, t) :: st

end TsVerif.C01.LR
