import TsVerif.C18.Model
/-!
# C18 judge: the property's clauses decided on one real tag / one real tag list

`judgeTag src tag` uses only the source text and the tag the implementation emitted (spec
functions `posOf`, `lineSpec`, `utf16Spec`), never the ports of `line_range`/`utf16_len`/cache.
`judgeDocs`/`judgeLocal` additionally use the query matches obtained through the public API.
-/
namespace TsVerif.C18

/-- Row / byte column of offset `i`: number of newlines before `i`, bytes since the last one. -/
def posOf (src : Bytes) (i : Nat) : Pt :=
  let pre := src.take i
  ⟨pre.count 10, (pre.reverse.takeWhile (· != 10)).length⟩

inductive Verdict where
  | ok
  /-- a clause whose precondition does not hold for this tag (counted, not judged) -/
  | skip (why : String)
  /-- UTF-16 column differs from the spec and the line prefix / name is not well-formed UTF-8
  (LossyUtf8 defect, C17) -/
  | lossy (msg : String)
  | fail (clause : String) (msg : String)
  deriving Repr

/-- Clauses: `range` name ⊆ range ⊆ text; `span` = row/column of the name's ends; `line` =
`lineSpec`; `utf16` = UTF-16 length of the line prefix and of the name. -/
def judgeTag (src : Bytes) (t : Tag) : Verdict :=
  if t.isIgnored then
    .fail "ignored-emitted" s!"a Tag::ignored placeholder for name [{t.name.s},{t.name.e}) was returned (range = usize::MAX)"
  else if !(decide (t.range.s ≤ t.name.s) && decide (t.name.s ≤ t.name.e) && decide (t.name.e ≤ t.range.e)
       && decide (t.range.e ≤ src.length)) then
    .fail "range" s!"name [{t.name.s},{t.name.e}) range [{t.range.s},{t.range.e}) text {src.length}"
  else
    let ps := posOf src t.name.s
    let pe := posOf src t.name.e
    if !(decide (ps = t.spanS) && decide (pe = t.spanE)) then
      .fail "span" s!"span ({t.spanS.row},{t.spanS.col})-({t.spanE.row},{t.spanE.col}) expected ({ps.row},{ps.col})-({pe.row},{pe.col})"
    else
      let ls0 := t.name.s - ps.col
      let nameNonWs := match src[t.name.s]? with
        | some b => !isWs b
        | none => false
      if !nameNonWs then .skip "name-starts-with-whitespace-or-empty-at-eof"
      else
        let l := lineSpec src ls0 maxLineLen
        if !decide (l = t.line) then
          .fail "line" s!"line [{t.line.s},{t.line.e}) expected [{l.s},{l.e})"
        else
          let pre := slice src ls0 t.name.s
          let nm := slice src t.name.s t.name.e
          let us := utf16Spec pre
          let ue := us + utf16Spec nm
          if decide (us = t.u16.s) && decide (ue = t.u16.e) then .ok
          else if !validUtf8 (slice src ls0 t.name.e) || !validUtf8 pre then
            .lossy s!"utf16 [{t.u16.s},{t.u16.e}) expected [{us},{ue}) on ill-formed UTF-8"
          else .fail "utf16" s!"utf16 [{t.u16.s},{t.u16.e}) expected [{us},{ue})"

/-- `judgeTag`, with a failing `line`/`utf16` clause attributed to the multi-row-name cache defect
when some match's name spans rows and ends on the row of this tag. -/
def judgeTagM (src : Bytes) (cfg : Cfg) (ms : List Mat) (t : Tag) : Verdict :=
  match judgeTag src t with
  | .fail c msg =>
    if (c == "line" || c == "utf16") && ms.any (fun m =>
        match (capLoop cfg (cfg.pats[m.pat]?.getD {}) m.caps).name with
        | some n => decide (m.pat ≥ cfg.tagsFrom) && decide (n.sp.row < n.ep.row) && n.ep.row == t.spanS.row
        | none => false)
    then .fail "cache-after-multirow-name" (c ++ ": " ++ msg)
    else .fail c msg
  | v => v

/-- Emitted tags are strictly increasing in `(name.end, name.start)` (hence one per name range). -/
def judgeOrder : List Tag → Option String
  | a :: b :: rest =>
    if keyLt (key a) (key b) then judgeOrder (b :: rest)
    else some s!"[{a.name.s},{a.name.e}) before [{b.name.s},{b.name.e})"
  | _ => none

/-- First adjacent pair of emitted tags that is not strictly increasing. -/
def judgeOrderPair : List Tag → Option (Tag × Tag)
  | a :: b :: rest => if keyLt (key a) (key b) then judgeOrderPair (b :: rest) else some (a, b)
  | _ => none

/-! Docs and locals, judged against the matches (spec-level recomputation). -/

/-- Matches of tags patterns that produce a tag for name range `r` (name capture = r, a tag capture). -/
def matchesFor (cfg : Cfg) (ms : List Mat) (r : R) : List Mat :=
  ms.filter (fun m =>
    decide (m.pat ≥ cfg.tagsFrom) &&
    (let a := capLoop cfg (cfg.pats[m.pat]?.getD {}) m.caps
     match a.name, a.tag with
     | some n, some _ => n.sb == r.s && n.eb == r.e
     | _, _ => false))

/-- Docs clause: the tag's docs are the stripped texts of the doc captures of one of the matches
with the lowest pattern index for that name node, computed with the SPEC `docsSpec`. -/
def judgeDocs (cfg : Cfg) (src : Bytes) (ms : List Mat) (t : Tag) : Bool :=
  let cands := matchesFor cfg ms t.name
  match cands.map (·.pat) |>.min? with
  | none => false
  | some p =>
    (cands.filter (·.pat == p)).any (fun m =>
      let pi := cfg.pats[m.pat]?.getD {}
      let a := capLoop cfg pi m.caps
      docsSpec (pi.strip.map stripFn) src a.adj a.docs == t.docs)

/-- Kind clause (spec level, from the capture NAMES): for one of the lowest-index matches of the tag's name
node, the last capture named `definition.K` / `reference.K` decides `is_definition` and the tag's
`syntax_type_id` indexes `K` in the kinds table the implementation reports. -/
def judgeKind (cfg : Cfg) (names kinds : List String) (ms : List Mat) (t : Tag) : Bool :=
  let cands := matchesFor cfg ms t.name
  match cands.map (·.pat) |>.min? with
  | none => false
  | some p =>
    (cands.filter (·.pat == p)).any (fun m =>
      let kindsOf := m.caps.filterMap (fun c =>
        let n := names[c.idx]?.getD ""
        if n.startsWith "definition." then some (true, (n.drop 11).toString)
        else if n.startsWith "reference." then some (false, (n.drop 10).toString)
        else none)
      match kindsOf.getLast? with
      | some (d, k) => t.isDef == d && kinds[t.stid]? == some k
      | none => false)

/-- Hull clause: the tag range is the smallest range covering the tagged node and the name node of one of the
lowest-index matches of the tag's name node (so it covers the tagged node, not only the name). -/
def judgeHull (cfg : Cfg) (ms : List Mat) (t : Tag) : Bool :=
  let cands := matchesFor cfg ms t.name
  match cands.map (·.pat) |>.min? with
  | none => false
  | some p =>
    -- ties of equal index: the FIRST such match wins (replacement needs a strictly lower index)
    ((cands.filter (·.pat == p)).take 1).any (fun m =>
      let a := capLoop cfg (cfg.pats[m.pat]?.getD {}) m.caps
      match a.name, a.tag with
      | some n, some g => t.range.s == min g.sb n.sb && t.range.e == max g.eb n.eb
      | _, _ => false)

/-- Placement of the name node relative to the tagged node in one of the lowest-index matches of a tag:
0 inside, 1 equal, 2 in front (name starts before the node), 3 behind (name ends after the node). -/
def placementOf (cfg : Cfg) (ms : List Mat) (t : Tag) : Option Nat :=
  let cands := matchesFor cfg ms t.name
  match cands.map (·.pat) |>.min? with
  | none => none
  | some p =>
    match (cands.filter (·.pat == p)).head? with
    | none => none
    | some m =>
      let a := capLoop cfg (cfg.pats[m.pat]?.getD {}) m.caps
      match a.name, a.tag with
      | some n, some g =>
        if n.sb == g.sb && n.eb == g.eb then some 1
        else if decide (n.sb < g.sb) then some 2
        else if decide (n.eb > g.eb) then some 3
        else some 0
      | _, _ => none

/-! Local-scope clause: which names must be present, recomputed from the matches with the spec walk. -/

structure Cand where
  r : R
  pat : Nat
  isTag : Bool
  deriving Repr

/-- Candidates a match sequence inserts according to the SPEC (`isLocalSpec`): scopes and definitions
are accumulated from the locals-pattern matches seen so far. -/
def candidates (cfg : Cfg) (src : Bytes) : List Mat → Scopes → List Cand
  | [], _ => []
  | m :: ms, sc =>
    let pi := cfg.pats[m.pat]?.getD {}
    if m.pat < cfg.tagsFrom then candidates cfg src ms (processLocal cfg src pi m.caps sc)
    else
      let a := capLoop cfg pi m.caps
      let rest := candidates cfg src ms sc
      match a.name with
      | none => rest
      | some n =>
        let r : R := ⟨n.sb, n.eb⟩
        match a.tag with
        | some _ =>
          if n.err || (pi.nonLocal && isLocalSpec (slice src n.sb n.eb) r sc) then rest
          else ⟨r, m.pat, true⟩ :: rest
        | none => if a.ignored then ⟨r, m.pat, false⟩ :: rest else rest

/-- Name ranges for which a tag must be emitted: the first candidate with the lowest pattern index
for that range is a tag (not an ignore placeholder). -/
def expectedNames (cs : List Cand) : List R :=
  (cs.filter (fun c => c.isTag && cs.all (fun d => !(d.r == c.r) || decide (c.pat ≤ d.pat)) &&
      -- among equal lowest index the first wins: no earlier placeholder with the same index
      true)).map (·.r)

def placeholderWins (cs : List Cand) (r : R) : Bool :=
  match (cs.filter (·.r == r)).map (·.pat) |>.min? with
  | none => false
  | some p => match (cs.filter (fun c => c.r == r && c.pat == p)).head? with
    | some c => !c.isTag
    | none => false

/-- Local clause: a (non-placeholder) tag is present for exactly the name ranges the spec keeps. -/
def judgeLocal (cfg : Cfg) (src : Bytes) (ms : List Mat) (real : List Tag) : Option String :=
  let cs := candidates cfg src ms (initSt src).scopes
  let expected := (expectedNames cs).filter (fun r => !placeholderWins cs r)
  let actual := (real.filter (!·.isIgnored)).map (·.name)
  match actual.find? (fun r => !expected.contains r) with
  | some r => some s!"tag [{r.s},{r.e}) present but the spec omits it (local definition in a visible scope, error, or ignored)"
  | none =>
    match expected.find? (fun r => !actual.contains r) with
    | some r => some s!"tag [{r.s},{r.e}) missing: no visible enclosing scope defines the name"
    | none => none

def fieldsEq (a b : Tag) : Option String :=
  if a.range != b.range then some "range" else
  if a.name != b.name then some "name" else
  if a.line != b.line then some "line" else
  if a.spanS != b.spanS || a.spanE != b.spanE then some "span" else
  if a.u16 != b.u16 then some "utf16" else
  if a.docs != b.docs then some "docs" else
  if a.isDef != b.isDef then some "is_definition" else
  if a.stid != b.stid then some "syntax_type" else none

/-- Correspondence: model output vs real output, first difference. -/
def diffTags : List Tag → List Tag → Nat → Option String
  | [], [], _ => none
  | a :: ra, b :: rb, i =>
    match fieldsEq a b with
    | some f => some s!"tag#{i}.{f}"
    | none => diffTags ra rb (i + 1)
  | m, r, i => some s!"count model={i + m.length} real={i + r.length}"

end TsVerif.C18
