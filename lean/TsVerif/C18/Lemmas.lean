import TsVerif.C18.Judge
/-! Helper lemmas for C18 (cache, queue). -/
namespace TsVerif.C18

/-- `f` is additive on `src[ls..c)` at the cut `b`. -/
def CutOK (f : Bytes → Nat) (src : Bytes) (ls b c : Nat) : Prop :=
  f (slice src ls c) = f (slice src ls b) + f (slice src b c)

def OccOK (f : Bytes → Nat) (src : Bytes) (o : Occ) : Prop :=
  o.ls ≤ o.name.s ∧ o.name.s ≤ o.name.e ∧ CutOK f src o.ls o.name.s o.name.e ∧
  ∀ c, o.name.e ≤ c → CutOK f src o.ls o.name.e c

def Good (f : Bytes → Nat) (src : Bytes) (limit : Nat) (rowLs : Nat → Nat) (prev : Option LineInfo) : Prop :=
  ∀ info, prev = some info →
    info.pos.col = info.byte - rowLs info.pos.row ∧ rowLs info.pos.row ≤ info.byte ∧
    info.u16 = f (slice src (rowLs info.pos.row) info.byte) ∧
    (∀ c, info.byte ≤ c → CutOK f src (rowLs info.pos.row) info.byte c) ∧
    info.line = lineRange src (rowLs info.pos.row) 0 limit

theorem lineRange_col (src : Bytes) (s ls limit : Nat) (h : ls ≤ s) :
    lineRange src s (s - ls) limit = lineRange src ls 0 limit := by
  unfold lineRange
  have : s - (s - ls) = ls := by omega
  simp [this]

theorem good_mk (f : Bytes → Nat) (src : Bytes) (limit : Nat) (rowLs : Nat → Nat) (o : Occ)
    (hls : o.ls = rowLs o.row) (ho : OccOK f src o) (u : Nat) (hu : u = f (slice src o.ls o.name.e)) :
    Good f src limit rowLs (some { pos := ⟨o.row, o.name.e - o.ls⟩, byte := o.name.e, u16 := u,
                                   line := lineRange src o.ls 0 limit }) := by
  obtain ⟨h1, h2, _, h4⟩ := ho
  intro info hi
  have hi := (Option.some.inj hi).symm
  subst hi
  simp only [← hls]
  exact ⟨trivial, by omega, hu, h4, trivial⟩

theorem cacheStep_ok (f : Bytes → Nat) (src : Bytes) (limit : Nat) (rowLs : Nat → Nat)
    (prev : Option LineInfo) (o : Occ) (hg : Good f src limit rowLs prev)
    (hls : o.ls = rowLs o.row) (ho : OccOK f src o) :
    let co := cacheStep f src limit prev o.name o.sp o.ep
    co.u16 = ⟨f (slice src o.ls o.name.s), f (slice src o.ls o.name.e)⟩ ∧
    co.line = lineRange src o.ls 0 limit ∧ Good f src limit rowLs (some co.info) := by
  have hgood := good_mk f src limit rowLs o hls ho
  obtain ⟨h1, h2, h3, h4⟩ := ho
  have hsub : o.name.s - (o.name.s - o.ls) = o.ls := by omega
  have hline := lineRange_col src o.name.s o.ls limit h1
  unfold CutOK at h3
  cases prev with
  | none =>
    simp only [cacheStep, Option.filter, Occ.sp, Occ.ep, hsub, hline]
    exact ⟨by simp [h3], trivial, hgood _ (by simp [h3])⟩
  | some info =>
    obtain ⟨g1, g2, g3, g4, g5⟩ := hg info rfl
    by_cases hr : info.pos.row = o.row
    · have hrl : rowLs info.pos.row = o.ls := by rw [hr, hls]
      rw [hrl] at g1 g2 g3 g4 g5
      by_cases hc : info.pos.col ≤ o.name.s - o.ls
      · have hb : info.byte ≤ o.name.s := by omega
        have := g4 o.name.s hb
        unfold CutOK at this
        simp only [cacheStep, Option.filter, Occ.sp, Occ.ep, hr, beq_self_eq_true, if_true, hc, decide_true, g5]
        exact ⟨by simp [h3, this, g3], trivial, hgood _ (by simp [h3, this, g3])⟩
      · simp only [cacheStep, Option.filter, Occ.sp, Occ.ep, hr, beq_self_eq_true, if_true, hc, decide_false, g5, hsub]
        exact ⟨by simp [h3], trivial, hgood _ (by simp [h3])⟩
    · have : (info.pos.row == o.row) = false := by simp [hr]
      simp only [cacheStep, Option.filter, Occ.sp, Occ.ep, this, hsub, hline, Bool.false_eq_true, if_false]
      exact ⟨by simp [h3], trivial, hgood _ (by simp [h3])⟩



theorem cache_fold_ok (f : Bytes → Nat) (src : Bytes) (limit : Nat) (rowLs : Nat → Nat) (os : List Occ) :
    ∀ (prev : Option LineInfo), Good f src limit rowLs prev →
    (∀ o ∈ os, o.ls = rowLs o.row ∧ OccOK f src o) →
    (cacheFold f src limit prev os).map (fun co => (co.u16, co.line)) =
      os.map (fun o => ((⟨f (slice src o.ls o.name.s), f (slice src o.ls o.name.e)⟩ : R),
                        lineRange src o.ls 0 limit)) := by
  induction os with
  | nil => intro _ _ _; rfl
  | cons o os ih =>
    intro prev hg hos
    have ho := hos o (List.mem_cons_self)
    have st := cacheStep_ok f src limit rowLs prev o hg ho.1 ho.2
    simp only [cacheFold, List.map_cons]
    rw [ih _ st.2.2 (fun o' h => hos o' (List.mem_cons_of_mem _ h)), st.1, st.2.1]

def KeyLt (a b : Tag × Nat) : Prop := keyLt (key a.1) (key b.1) = true

def QSorted (q : Queue) : Prop := q.Pairwise KeyLt

theorem keyLt_trans {a b c : Nat × Nat} (h1 : keyLt a b = true) (h2 : keyLt b c = true) : keyLt a c = true := by
  simp [keyLt] at *; omega

theorem keyLt_total {a b : Nat × Nat} (h1 : (a == b) = false) (h2 : keyLt b a = false) : keyLt a b = true := by
  obtain ⟨a1, a2⟩ := a; obtain ⟨b1, b2⟩ := b
  simp [keyLt] at *; omega

theorem mem_qInsert {tag : Tag} {pat : Nat} {q : Queue} {x : Tag × Nat} (h : x ∈ qInsert tag pat q) :
    x ∈ q ∨ x = (tag, pat) := by
  induction q with
  | nil => simp [qInsert] at h; exact Or.inr h
  | cons hd rest ih =>
    obtain ⟨t, p⟩ := hd
    simp only [qInsert] at h
    split at h
    · split at h <;> simp at h <;> rcases h with h | h <;> simp [h]
    · split at h
      · simp at h; rcases h with h | h | h <;> simp [h]
      · simp at h
        rcases h with h | h
        · simp [h]
        · rcases ih h with h | h <;> simp [h]

theorem qInsert_sorted (tag : Tag) (pat : Nat) (q : Queue) (h : QSorted q) : QSorted (qInsert tag pat q) := by
  induction q with
  | nil => simp [qInsert, QSorted]
  | cons hd rest ih =>
    obtain ⟨t, p⟩ := hd
    unfold QSorted at h ih ⊢
    rw [List.pairwise_cons] at h
    simp only [qInsert]
    split
    · rename_i heq
      split
      · rw [List.pairwise_cons]
        refine ⟨fun x hx => ?_, h.2⟩
        have := h.1 x hx
        unfold KeyLt at *
        simp at heq
        simpa [← heq] using this
      · rw [List.pairwise_cons]; exact h
    · rename_i hne
      split
      · rename_i hlt
        rw [List.pairwise_cons, List.pairwise_cons]
        refine ⟨fun x hx => ?_, h⟩
        rcases List.mem_cons.mp hx with hx | hx
        · subst hx; exact hlt
        · exact keyLt_trans hlt (h.1 x hx)
      · rename_i hnlt
        rw [List.pairwise_cons]
        refine ⟨fun x hx => ?_, ih h.2⟩
        rcases mem_qInsert hx with hx | hx
        · exact h.1 x hx
        · subst hx
          unfold KeyLt
          exact keyLt_total (by simpa using hne) (by simpa using hnlt)

end TsVerif.C18
