import TsVerif.C18.Judge
set_option linter.unusedSimpArgs false
/-! Helper lemmas for C18 (cache, queue). -/
namespace TsVerif.C18

/-- `f` is additive on `src[ls..c)` at the cut `b`. -/
def CutOK (f : Bytes → Nat) (src : Bytes) (ls b c : Nat) : Prop :=
  f (slice src ls c) = f (slice src ls b) + f (slice src b c)

/-- `Bd ls c`: offset `c` is a boundary (of the line starting at `ls`) at which `f` may be cut. -/
def OccOK (f : Bytes → Nat) (src : Bytes) (Bd : Nat → Nat → Prop) (o : Occ) : Prop :=
  o.ls ≤ o.name.s ∧ o.name.s ≤ o.name.e ∧ Bd o.ls o.name.s ∧ CutOK f src o.ls o.name.s o.name.e ∧
  ∀ c, o.name.e ≤ c → Bd o.ls c → CutOK f src o.ls o.name.e c

def Good (f : Bytes → Nat) (src : Bytes) (Bd : Nat → Nat → Prop) (limit : Nat) (rowLs : Nat → Nat) (prev : Option LineInfo) : Prop :=
  ∀ info, prev = some info →
    info.pos.col = info.byte - rowLs info.pos.row ∧ rowLs info.pos.row ≤ info.byte ∧
    info.u16 = f (slice src (rowLs info.pos.row) info.byte) ∧
    (∀ c, info.byte ≤ c → Bd (rowLs info.pos.row) c → CutOK f src (rowLs info.pos.row) info.byte c) ∧
    info.line = lineRange src (rowLs info.pos.row) 0 limit

theorem lineRange_col (src : Bytes) (s ls limit : Nat) (h : ls ≤ s) :
    lineRange src s (s - ls) limit = lineRange src ls 0 limit := by
  unfold lineRange
  have : s - (s - ls) = ls := by omega
  simp [this]

theorem good_mk (f : Bytes → Nat) (src : Bytes) (Bd : Nat → Nat → Prop) (limit : Nat) (rowLs : Nat → Nat) (o : Occ)
    (hls : o.ls = rowLs o.row) (ho : OccOK f src Bd o) (u : Nat) (hu : u = f (slice src o.ls o.name.e)) :
    Good f src Bd limit rowLs
      (some { pos := ⟨o.row, o.name.e - o.ls⟩, byte := o.name.e, u16 := u, line := lineRange src o.ls 0 limit }) := by
  obtain ⟨h1, h2, _, _, h4⟩ := ho
  intro info hi
  have hi := (Option.some.inj hi).symm
  subst hi
  simp only [← hls]
  exact ⟨trivial, by omega, hu, h4, trivial⟩

theorem cacheStep_ok (f : Bytes → Nat) (src : Bytes) (Bd : Nat → Nat → Prop) (limit : Nat) (rowLs : Nat → Nat)
    (prev : Option LineInfo) (o : Occ) (hg : Good f src Bd limit rowLs prev)
    (hls : o.ls = rowLs o.row) (ho : OccOK f src Bd o) :
    let co := cacheStep f src limit prev o.name o.sp o.ep
    co.u16 = ⟨f (slice src o.ls o.name.s), f (slice src o.ls o.name.e)⟩ ∧
    co.line = lineRange src o.ls 0 limit ∧ Good f src Bd limit rowLs (some co.info) := by
  have hgood := good_mk f src Bd limit rowLs o hls ho
  obtain ⟨h1, h2, hbd, h3, h4⟩ := ho
  have hsub : o.name.s - (o.name.s - o.ls) = o.ls := by omega
  have hline := lineRange_col src o.name.s o.ls limit h1
  unfold CutOK at h3
  cases prev with
  | none =>
    simp only [cacheStep, Option.filter, Occ.sp, Occ.ep, hsub, hline]
    exact ⟨by simp [h3], trivial, hgood _ (by simp [h3])⟩
  | some info =>
    obtain ⟨g1, g2, g3, g4, g5⟩ := hg info rfl
    by_cases hr : info.pos.row = o.row
    · have hrl : rowLs info.pos.row = o.ls := by rw [hr, hls]
      rw [hrl] at g1 g2 g3 g4 g5
      by_cases hc : info.pos.col ≤ o.name.s - o.ls
      · have hb : info.byte ≤ o.name.s := by omega
        have := g4 o.name.s hb hbd
        unfold CutOK at this
        simp only [cacheStep, Option.filter, Occ.sp, Occ.ep, hr, beq_self_eq_true, if_true, hc, decide_true, g5]
        exact ⟨by simp [h3, this, g3], trivial, hgood _ (by simp [h3, this, g3])⟩
      · simp only [cacheStep, Option.filter, Occ.sp, Occ.ep, hr, beq_self_eq_true, if_true, hc, decide_false, g5, hsub]
        exact ⟨by simp [h3], trivial, hgood _ (by simp [h3])⟩
    · have : (info.pos.row == o.row) = false := by simp [hr]
      simp only [cacheStep, Option.filter, Occ.sp, Occ.ep, this, hsub, hline, Bool.false_eq_true, if_false]
      exact ⟨by simp [h3], trivial, hgood _ (by simp [h3])⟩



theorem cache_fold_ok (f : Bytes → Nat) (src : Bytes) (Bd : Nat → Nat → Prop) (limit : Nat) (rowLs : Nat → Nat) (os : List Occ) :
    ∀ (prev : Option LineInfo), Good f src Bd limit rowLs prev →
    (∀ o ∈ os, o.ls = rowLs o.row ∧ OccOK f src Bd o) →
    (cacheFold f src limit prev os).map (fun co => (co.u16, co.line)) =
      os.map (fun o => ((⟨f (slice src o.ls o.name.s), f (slice src o.ls o.name.e)⟩ : R),
                        lineRange src o.ls 0 limit)) := by
  induction os with
  | nil => intro _ _ _; rfl
  | cons o os ih =>
    intro prev hg hos
    have ho := hos o (List.mem_cons_self)
    have st := cacheStep_ok f src Bd limit rowLs prev o hg ho.1 ho.2
    simp only [cacheFold, List.map_cons]
    rw [ih _ st.2.2 (fun o' h => hos o' (List.mem_cons_of_mem _ h)), st.1, st.2.1]

def KeyLt (a b : Tag × Nat) : Prop := keyLt (key a.1) (key b.1) = true

def QSorted (q : Queue) : Prop := q.Pairwise KeyLt

theorem keyLt_trans {a b c : Nat × Nat} (h1 : keyLt a b = true) (h2 : keyLt b c = true) : keyLt a c = true := by
  simp [keyLt] at *; omega

theorem keyLt_total {a b : Nat × Nat} (h1 : (a == b) = false) (h2 : keyLt b a = false) : keyLt a b = true := by
  obtain ⟨a1, a2⟩ := a; obtain ⟨b1, b2⟩ := b
  simp [keyLt] at *; omega

theorem mem_qInsert {tag : Tag} {pat : Nat} {q : Queue} {x : Tag × Nat} (h : x ∈ qInsert tag pat q) :
    x ∈ q ∨ x = (tag, pat) := by
  induction q with
  | nil => simp [qInsert] at h; exact Or.inr h
  | cons hd rest ih =>
    obtain ⟨t, p⟩ := hd
    simp only [qInsert] at h
    split at h
    · split at h <;> simp at h <;> rcases h with h | h <;> simp [h]
    · split at h
      · simp at h; rcases h with h | h | h <;> simp [h]
      · simp at h
        rcases h with h | h
        · simp [h]
        · rcases ih h with h | h <;> simp [h]

theorem qInsert_sorted (tag : Tag) (pat : Nat) (q : Queue) (h : QSorted q) : QSorted (qInsert tag pat q) := by
  induction q with
  | nil => simp [qInsert, QSorted]
  | cons hd rest ih =>
    obtain ⟨t, p⟩ := hd
    unfold QSorted at h ih ⊢
    rw [List.pairwise_cons] at h
    simp only [qInsert]
    split
    · rename_i heq
      split
      · rw [List.pairwise_cons]
        refine ⟨fun x hx => ?_, h.2⟩
        have := h.1 x hx
        unfold KeyLt at *
        simp at heq
        simpa [← heq] using this
      · rw [List.pairwise_cons]; exact h
    · rename_i hne
      split
      · rename_i hlt
        rw [List.pairwise_cons, List.pairwise_cons]
        refine ⟨fun x hx => ?_, h⟩
        rcases List.mem_cons.mp hx with hx | hx
        · subst hx; exact hlt
        · exact keyLt_trans hlt (h.1 x hx)
      · rename_i hnlt
        rw [List.pairwise_cons]
        refine ⟨fun x hx => ?_, ih h.2⟩
        rcases mem_qInsert hx with hx | hx
        · exact h.1 x hx
        · subst hx
          unfold KeyLt
          exact keyLt_total (by simpa using hne) (by simpa using hnlt)


/-! ## UTF-8 scanning -/


theorem stepAt_char_append {x n : Nat} {rest : Bytes} (b : Bytes) (h : stepAt x rest = .char n) :
    stepAt x (rest ++ b) = .char n ∧ n - 1 ≤ rest.length ∧ 1 ≤ n := by
  unfold stepAt at h ⊢
  rcases rest with _ | ⟨r1, _ | ⟨r2, _ | ⟨r3, r4⟩⟩⟩ <;> simp only [List.nil_append, List.cons_append, List.length_cons, List.length_nil] at h ⊢ <;>
    (repeat' split at h) <;> (try cases h) <;> simp_all


theorem scan_cons_char {x n : Nat} {rest : Bytes} (h : stepAt x rest = .char n) :
    scan (x :: rest) = ⟨n + (scan (rest.drop (n - 1))).validUpTo, units n + (scan (rest.drop (n - 1))).u16,
                        (scan (rest.drop (n - 1))).err⟩ := by
  rw [scan]; simp [h]

theorem scan_append (a b : Bytes) (h : (scan a).err = none) :
    scan (a ++ b) = ⟨(scan a).validUpTo + (scan b).validUpTo, (scan a).u16 + (scan b).u16, (scan b).err⟩ := by
  fun_induction scan a with
  | case1 => simp
  | case2 x rest n hs r ih =>
    have ha := stepAt_char_append b hs
    have ih := ih h
    rw [List.cons_append, scan_cons_char ha.1, List.drop_append_of_le_length ha.2.1, ih]
    simp [r, Nat.add_assoc]
  | case3 x rest k hs => simp at h
  | case4 x rest hs => simp at h

theorem scan_valid_len (a : Bytes) (h : (scan a).err = none) : (scan a).validUpTo = a.length := by
  fun_induction scan a with
  | case1 => rfl
  | case2 x rest n hs r ih =>
    have ha := stepAt_char_append [] hs
    simp only at h
    have := ih h
    simp [r, this, List.length_drop]; omega
  | case3 x rest k hs => simp at h
  | case4 x rest hs => simp at h


/-! ## UTF-16 length -/


theorem utf16Len_valid (a : Bytes) (h : (scan a).err = none) : utf16Len a = (scan a).u16 := by
  unfold utf16Len
  rw [lossyUnits]
  by_cases ha : a = []
  · subst ha; simp [scan]
  · simp [ha, h]

theorem utf16Spec_valid (a : Bytes) (h : (scan a).err = none) : utf16Spec a = (scan a).u16 := by
  fun_induction scan a with
  | case1 => simp [utf16Spec]
  | case2 x rest n hs r ih =>
    rw [utf16Spec]; simp only [hs]; rw [ih h]
  | case3 x rest k hs => simp at h
  | case4 x rest hs => simp at h

theorem utf16Spec_append_valid (a b : Bytes) (h : (scan a).err = none) :
    utf16Spec (a ++ b) = utf16Spec a + utf16Spec b := by
  fun_induction scan a with
  | case1 => simp [utf16Spec]
  | case2 x rest n hs r ih =>
    have ha := stepAt_char_append b hs
    rw [List.cons_append, utf16Spec, utf16Spec]
    simp only [hs, ha.1]
    rw [List.drop_append_of_le_length ha.2.1, ih h]
    omega
  | case3 x rest k hs => simp at h
  | case4 x rest hs => simp at h

theorem slice_append (src : Bytes) (a b c : Nat) (h1 : a ≤ b) (h2 : b ≤ c) :
    slice src a c = slice src a b ++ slice src b c := by
  unfold slice
  have : c - a = (b - a) + (c - b) := by omega
  rw [this, List.take_add, List.drop_drop]
  congr 3
  omega

theorem valid_append (a b : Bytes) (ha : validUtf8 a = true) (hb : validUtf8 b = true) : validUtf8 (a ++ b) = true := by
  simp only [validUtf8, Option.isNone_iff_eq_none] at *
  rw [scan_append a b ha]; exact hb

theorem valid_suffix (a b : Bytes) (ha : validUtf8 a = true) (hab : validUtf8 (a ++ b) = true) : validUtf8 b = true := by
  simp only [validUtf8, Option.isNone_iff_eq_none] at *
  rw [scan_append a b ha] at hab; exact hab


/-! ## line_range -/


theorem takeWhile_append_neg {α} (p : α → Bool) (l1 l2 : List α) (h : ∃ x ∈ l1, p x = false) :
    (l1 ++ l2).takeWhile p = l1.takeWhile p := by
  induction l1 with
  | nil => simp at h
  | cons a l ih =>
    by_cases hp : p a = true
    · simp only [List.cons_append, List.takeWhile_cons, hp, if_true]
      congr 1
      apply ih
      obtain ⟨x, hx, hpx⟩ := h
      rcases List.mem_cons.mp hx with rfl | hx
      · simp [hp] at hpx
      · exact ⟨x, hx, hpx⟩
    · simp [List.takeWhile_cons, hp]

theorem takeWhile_all {α} {p : α → Bool} {l : List α} (h : ∀ x ∈ l, p x = true) : l.takeWhile p = l := by
  induction l with
  | nil => rfl
  | cons a l ih =>
    simp only [List.takeWhile_cons, h a List.mem_cons_self, if_true]
    rw [ih (fun x hx => h x (List.mem_cons_of_mem _ hx))]

theorem mem_takeWhile_sat {α} {p : α → Bool} {l : List α} {x : α} (h : x ∈ l.takeWhile p) : p x = true := by
  induction l with
  | nil => simp at h
  | cons a l ih =>
    by_cases hp : p a = true
    · simp only [List.takeWhile_cons, hp, if_true] at h
      rcases List.mem_cons.mp h with rfl | h
      · exact hp
      · exact ih h
    · simp [List.takeWhile_cons, hp] at h

theorem length_takeWhile_le' {α} (p : α → Bool) (l : List α) : (l.takeWhile p).length ≤ l.length := by
  induction l with
  | nil => simp
  | cons a l ih =>
    by_cases hp : p a = true <;> simp [List.takeWhile_cons, hp]; omega

theorem dropWhile_head_neg {α} {p : α → Bool} {l : List α} {a : α} {t : List α} (h : l.dropWhile p = a :: t) :
    p a = false := by
  induction l with
  | nil => simp at h
  | cons b l ih =>
    by_cases hp : p b = true
    · simp only [List.dropWhile_cons, hp, if_true] at h; exact ih h
    · simp only [List.dropWhile_cons, hp] at h
      simp at h
      rw [← h.1]; simpa using hp

/-- The part of `line_range` after the line start is known, as a function of `rest = text[ls0..]`. -/
def codeCore (rest : Bytes) (limit : Nat) : Nat × Nat :=
  let lead := (rest.takeWhile isWs).length
  let maxLen := min limit (rest.length - lead)
  let window := (rest.drop lead).take maxLen
  let nl := (window.takeWhile (· != 10)).length
  let lineLen :=
    if nl < window.length then nl
    else
      let r := scan window
      if r.err.isSome then r.validUpTo else maxLen
  (lead, (((window.take lineLen).reverse.dropWhile isWs)).length)

theorem lineRange_core (text : Bytes) (sb col limit : Nat) :
    lineRange text sb col limit =
      ⟨sb - col + (codeCore (text.drop (sb - col)) limit).1,
       sb - col + (codeCore (text.drop (sb - col)) limit).1 + (codeCore (text.drop (sb - col)) limit).2⟩ := by
  simp only [lineRange, codeCore, List.drop_drop, List.length_drop]
  have : text.length - (sb - col + (List.takeWhile isWs (List.drop (sb - col) text)).length) =
         text.length - (sb - col) - (List.takeWhile isWs (List.drop (sb - col) text)).length := by omega
  rw [this]

def specCore (rest : Bytes) (limit : Nat) : Nat × Nat :=
  let line := rest.takeWhile (· != 10)
  let lead := (line.takeWhile isWs).length
  let body := line.drop lead
  let terminated := decide (line.length < rest.length)
  let cut :=
    if terminated && decide (body.length < limit) then body
    else
      let w := body.take limit
      w.take (scan w).validUpTo
  (lead, (cut.reverse.dropWhile isWs).length)

theorem lineSpec_core (text : Bytes) (ls0 limit : Nat) :
    lineSpec text ls0 limit =
      ⟨ls0 + (specCore (text.drop ls0) limit).1,
       ls0 + (specCore (text.drop ls0) limit).1 + (specCore (text.drop ls0) limit).2⟩ := by
  simp only [lineSpec, specCore]


theorem take_min_length {α} (n : Nat) (l : List α) : l.take (min n l.length) = l.take n := by
  by_cases h : n ≤ l.length
  · rw [Nat.min_eq_left h]
  · have h' : l.length ≤ n := by omega
    rw [Nat.min_eq_right h', List.take_of_length_le h', List.take_of_length_le (Nat.le_refl _)]

/-- Shape of `codeCore` once the window is known to contain no newline. -/
theorem lineLen_no_nl (w : Bytes) (maxLen : Nat) (hw : ∀ x ∈ w, (x != 10) = true) (hl : w.length = maxLen) :
    w.take (if (w.takeWhile (· != 10)).length < w.length then (w.takeWhile (· != 10)).length
            else if (scan w).err.isSome then (scan w).validUpTo else maxLen) = w.take (scan w).validUpTo := by
  have : w.takeWhile (· != 10) = w := takeWhile_all hw
  rw [this]
  simp only [Nat.lt_irrefl, if_false]
  cases he : (scan w).err with
  | none =>
    rw [scan_valid_len w he]; simp [hl]
  | some e => simp

theorem core_eq (rest : Bytes) (limit : Nat) (h : ∃ b ∈ rest.takeWhile (· != 10), isWs b = false) :
    codeCore rest limit = specCore rest limit := by
  have hsplit : rest.takeWhile (· != 10) ++ rest.dropWhile (· != 10) = rest := List.takeWhile_append_dropWhile
  have hline_ne : ∀ x ∈ rest.takeWhile (· != 10), (x != 10) = true := fun x hx => mem_takeWhile_sat (p := (· != 10)) hx
  have htail : rest.dropWhile (· != 10) = [] ∨ ∃ t, rest.dropWhile (· != 10) = 10 :: t := by
    cases hd : rest.dropWhile (· != 10) with
    | nil => exact Or.inl rfl
    | cons a t =>
      have := dropWhile_head_neg hd
      simp at this
      exact Or.inr ⟨t, by rw [this]⟩
  generalize rest.takeWhile (· != 10) = line at *
  generalize rest.dropWhile (· != 10) = tail at *
  subst hsplit
  have hlead : (line ++ tail).takeWhile isWs = line.takeWhile isWs := takeWhile_append_neg _ _ _ h
  have hleadle : (line.takeWhile isWs).length ≤ line.length := length_takeWhile_le' _ _
  have hbody_ne : ∀ x ∈ line.drop (line.takeWhile isWs).length, (x != 10) = true :=
    fun x hx => hline_ne x (List.mem_of_mem_drop hx)
  have htw : (line ++ tail).takeWhile (· != 10) = line := by
    rcases htail with rfl | ⟨t, rfl⟩
    · simp; exact takeWhile_all hline_ne
    · rw [List.takeWhile_append_of_pos (by simpa using hline_ne)]; simp
  simp only [codeCore, specCore, hlead, htw, List.drop_append_of_le_length hleadle, List.length_append]
  generalize hb : line.drop (line.takeWhile isWs).length = body at *
  have hlen : line.length + tail.length - (line.takeWhile isWs).length = body.length + tail.length := by
    rw [← hb, List.length_drop]; omega
  rw [hlen]
  have hwin : (body ++ tail).take (min limit (body.length + tail.length)) = (body ++ tail).take limit := by
    rw [← List.length_append]; exact take_min_length _ _
  rw [hwin]
  congr 1
  by_cases hA : tail ≠ [] ∧ body.length < limit
  · obtain ⟨hne, hlt⟩ := hA
    rcases htail with rfl | ⟨t, rfl⟩
    · exact absurd rfl hne
    · have hterm : decide (line.length < line.length + (10 :: t).length) = true := by simp
      simp only [hterm, hlt, decide_true, Bool.and_self, if_true]
      obtain ⟨k, hk⟩ : ∃ k, limit - body.length = k + 1 := ⟨limit - body.length - 1, by omega⟩
      have hw : (body ++ 10 :: t).take limit = body ++ 10 :: t.take k := by
        rw [List.take_append, hk, List.take_of_length_le (by omega : body.length ≤ limit)]; simp
      rw [hw]
      have htk : (body ++ 10 :: t.take k).takeWhile (· != 10) = body := by
        rw [List.takeWhile_append_of_pos (by simpa using hbody_ne)]; simp
      rw [htk]
      have : body.length < (body ++ 10 :: List.take k t).length := by simp
      simp only [this, if_true, List.take_left']
  · have hcond : (decide (line.length < line.length + tail.length) && decide (body.length < limit)) = false := by
      rcases htail with rfl | ⟨t, rfl⟩
      · simp
      · simp at hA; simp; omega
    simp only [hcond, Bool.false_eq_true, if_false]
    have hw : (body ++ tail).take limit = body.take limit := by
      rcases htail with rfl | ⟨t, rfl⟩
      · simp
      · simp at hA; exact List.take_append_of_le_length hA
    rw [hw]
    have hml : (body.take limit).length = min limit (body.length + tail.length) := by
      rcases htail with rfl | ⟨t, rfl⟩
      · simp [List.length_take]
      · simp at hA; simp [List.length_take]; omega
    rw [lineLen_no_nl (body.take limit) _ (fun x hx => hbody_ne x (List.mem_of_mem_take hx)) hml]


end TsVerif.C18

namespace TsVerif.C18
theorem length_dropWhile_le' {α} (p : α → Bool) (l : List α) : (l.dropWhile p).length ≤ l.length := by
  induction l with
  | nil => simp
  | cons a l ih =>
    by_cases hp : p a = true <;> simp [List.dropWhile_cons, hp]; omega
end TsVerif.C18

/-! ## The whole loop: emission order -/
namespace TsVerif.C18




theorem tagOf_name (v : Variant) (cfg : Cfg) (src : Bytes) (m : Mat) (st : St) (t : Tag) (pv : Option LineInfo)
    (hp : ¬ m.pat < cfg.tagsFrom) (h : tagOf v cfg src (cfg.pats[m.pat]?.getD {}) m st = some (t, pv)) :
    nameOf cfg m = some t.name := by
  unfold nameOf
  simp only [hp, if_false]
  unfold tagOf at h
  generalize capLoop cfg (cfg.pats[m.pat]?.getD {}) m.caps = a at h ⊢
  obtain ⟨name, docs, tag, stid, isDef, adj, ignored⟩ := a
  cases name with
  | none => simp at h
  | some nameNode =>
    cases tag with
    | some tagNode =>
      simp only at h
      split at h
      · simp at h
      · split at h
        · simp at h
        · simp only [Option.some.injEq, Prod.mk.injEq] at h
          rw [← h.1]
          rfl
    | none =>
      simp only at h
      split at h
      · simp only [Option.some.injEq, Prod.mk.injEq] at h
        rw [← h.1]; rfl
      · simp at h

theorem inserted_name {v : Variant} {cfg : Cfg} {src : Bytes} {m : Mat} {st : St} {e : Tag × Nat}
    (h : inserted v cfg src m st = some e) : nameOf cfg m = some e.1.name ∧ e.2 = m.pat := by
  unfold inserted at h
  by_cases hp : m.pat < cfg.tagsFrom
  · simp [hp] at h
  · simp only [hp, if_false] at h
    cases ht : tagOf v cfg src (cfg.pats[m.pat]?.getD {}) m st with
    | none => simp [ht] at h
    | some x =>
      obtain ⟨t, pv⟩ := x
      simp [ht] at h
      subst h
      exact ⟨tagOf_name v cfg src m st t pv hp ht, rfl⟩

/-- The queue after a match: unchanged, or the inserted entry went through `qInsert`. -/
theorem processMatch_queue' (v : Variant) (cfg : Cfg) (src : Bytes) (m : Mat) (st : St) :
    (processMatch v cfg src m st).queue =
      match inserted v cfg src m st with
      | none => st.queue
      | some e => qInsert e.1 e.2 st.queue := by
  unfold processMatch inserted
  by_cases hp : m.pat < cfg.tagsFrom
  · simp [hp]
  · simp only [hp, if_false]
    unfold processTag
    cases ht : tagOf v cfg src (cfg.pats[m.pat]?.getD {}) m st with
    | none => simp
    | some x => obtain ⟨t, pv⟩ := x; simp

theorem processMatch_queue (v : Variant) (cfg : Cfg) (src : Bytes) (m : Mat) (st : St) :
    (processMatch v cfg src m st).queue = st.queue ∨
    ∃ t, nameOf cfg m = some t.name ∧ (processMatch v cfg src m st).queue = qInsert t m.pat st.queue := by
  rw [processMatch_queue']
  cases hi : inserted v cfg src m st with
  | none => exact Or.inl rfl
  | some e =>
    have := inserted_name hi
    exact Or.inr ⟨e.1, this.1, by simp only [this.2]⟩

def TagLt (a b : Tag) : Prop := keyLt (key a) (key b) = true

theorem qsorted_map (q : Queue) (h : QSorted q) : (q.map Prod.fst).Pairwise TagLt := by
  unfold QSorted at h
  rw [List.pairwise_map]
  exact h

theorem drain_sublist (skip : Bool) : ∀ (n : Nat) (q : Queue), (drain skip n q).Sublist (q.map Prod.fst) := by
  intro n
  induction n with
  | zero => intro q; simp [drain]
  | succ n ih =>
    intro q
    cases q with
    | nil => simp [drain]
    | cons hd rest =>
      obtain ⟨t, p⟩ := hd
      simp only [drain, List.map_cons]
      split
      · split
        · exact (ih rest).cons _
        · exact (ih rest).cons_cons _
      · split
        · exact (ih rest).cons _
        · exact (ih rest).cons_cons _

/-- What `flushReady` does: it pops a prefix `pre`, each popped entry ends before the start of some
queued entry, and the emitted tags are a sublist of the popped ones. -/
theorem flush_spec : ∀ (n : Nat) (q : Queue),
    ∃ pre, q = pre ++ (flushReady n q).2 ∧ (flushReady n q).1.Sublist (pre.map Prod.fst) ∧
      ∀ x ∈ pre, ∃ y ∈ q, x.1.name.e < y.1.name.s := by
  intro n
  induction n with
  | zero => intro q; exact ⟨[], by simp [flushReady]⟩
  | succ n ih =>
    intro q
    by_cases hr : ready q = true
    · cases q with
      | nil => simp [ready] at hr
      | cons hd rest =>
        obtain ⟨t, p⟩ := hd
        obtain ⟨pre, h1, h2, h3⟩ := ih rest
        refine ⟨(t, p) :: pre, ?_, ?_, ?_⟩
        · simp only [flushReady, hr, if_true, List.cons_append]; rw [← h1]
        · simp only [flushReady, hr, if_true, List.map_cons]
          split
          · exact h2.cons _
          · exact h2.cons_cons _
        · intro x hx
          rcases List.mem_cons.mp hx with rfl | hx
          · -- the head: ready says it ends before the last entry starts
            simp only [ready] at hr
            cases hl : ((t, p) :: rest).getLast? with
            | none => simp [hl] at hr
            | some last =>
              simp [hl] at hr
              exact ⟨last, List.mem_of_getLast? hl, hr.2⟩
          · obtain ⟨y, hy, hlt⟩ := h3 x hx
            exact ⟨y, List.mem_cons_of_mem _ hy, hlt⟩
    · refine ⟨[], ?_, ?_, ?_⟩
      · simp [flushReady, hr]
      · simp [flushReady, hr]
      · intro x hx; simp at hx



theorem keyLt_of_fst_lt {a b : Tag} (h : a.name.e < b.name.e) : TagLt a b := by
  simp [TagLt, keyLt, key, h]

theorem run_sorted (v : Variant) (cfg : Cfg) (src : Bytes) : ∀ (ms : List Mat) (st : St),
    QSorted st.queue →
    (∀ y ∈ st.queue, ∀ r ∈ names cfg ms, y.1.name.s ≤ r.e) →
    (names cfg ms).Pairwise (fun a b => a.s ≤ b.e) →
    (run v cfg src ms st).Pairwise TagLt ∧
    ∀ x ∈ run v cfg src ms st, (∃ y ∈ st.queue, x = y.1) ∨ (∃ r ∈ names cfg ms, x.name = r) := by
  intro ms
  induction ms with
  | nil =>
    intro st hs _ _
    simp only [run]
    have hsub := drain_sublist v.drainSkips st.queue.length st.queue
    refine ⟨(qsorted_map _ hs).sublist hsub, fun x hx => Or.inl ?_⟩
    have := hsub.subset hx
    simp only [List.mem_map] at this
    obtain ⟨y, hy, rfl⟩ := this
    exact ⟨y, hy, rfl⟩
  | cons m ms ih =>
    intro st hs hc hp
    obtain ⟨pre, h1, h2, h3⟩ := flush_spec st.queue.length st.queue
    simp only [run]
    generalize hfr : flushReady st.queue.length st.queue = fr at h1 h2
    obtain ⟨out, q'⟩ := fr
    simp only at h1 h2 ⊢
    have hs' : QSorted st.queue := hs
    unfold QSorted at hs
    rw [h1, List.pairwise_append] at hs
    obtain ⟨hpre, hq', hcross⟩ := hs
    have hsubq : ∀ y ∈ q', y ∈ st.queue := fun y hy => by rw [h1]; exact List.mem_append_right _ hy
    have hsubp : ∀ y ∈ pre, y ∈ st.queue := fun y hy => by rw [h1]; exact List.mem_append_left _ hy
    have hnames : ∀ r ∈ names cfg ms, r ∈ names cfg (m :: ms) := by
      intro r hr
      simp only [names, List.filterMap_cons]
      split
      · exact hr
      · exact List.mem_cons_of_mem _ hr
    have hp' : (names cfg ms).Pairwise (fun a b => a.s ≤ b.e) := by
      simp only [names, List.filterMap_cons] at hp
      split at hp
      · exact hp
      · exact (List.pairwise_cons.mp hp).2
    -- the state after the match
    generalize hst : processMatch v cfg src m { st with queue := q' } = st'
    have hq := processMatch_queue v cfg src m { st with queue := q' }
    rw [hst] at hq
    simp only at hq
    -- every entry of the new queue is an old one or the tag of this match
    have hmem : ∀ y ∈ st'.queue, y ∈ q' ∨ (nameOf cfg m = some y.1.name) := by
      intro y hy
      rcases hq with hq | ⟨t, hn, hq⟩
      · rw [hq] at hy; exact Or.inl hy
      · rw [hq] at hy
        rcases mem_qInsert hy with hy | hy
        · exact Or.inl hy
        · subst hy; exact Or.inr hn
    have hhead : ∀ r, nameOf cfg m = some r → r ∈ names cfg (m :: ms) ∧ ∀ r' ∈ names cfg ms, r.s ≤ r'.e := by
      intro r hr
      simp only [names, List.filterMap_cons, hr] at hp ⊢
      exact ⟨List.mem_cons_self, (List.pairwise_cons.mp hp).1⟩
    have hsq : QSorted st'.queue := by
      rcases hq with hq | ⟨t, _, hq⟩
      · rw [hq]; exact hq'
      · rw [hq]; exact qInsert_sorted _ _ _ hq'
    have hcq : ∀ y ∈ st'.queue, ∀ r ∈ names cfg ms, y.1.name.s ≤ r.e := by
      intro y hy r hr
      rcases hmem y hy with hy | hy
      · exact hc y (hsubq y hy) r (hnames r hr)
      · exact (hhead _ hy).2 r hr
    obtain ⟨ihs, ihm⟩ := ih st' hsq hcq hp'
    -- popped entries end before every later name ends
    have hlow : ∀ p ∈ pre, ∀ r ∈ names cfg (m :: ms), p.1.name.e < r.e := by
      intro p hp r hr
      obtain ⟨y0, hy0, hlt⟩ := h3 p hp
      have := hc y0 hy0 r hr
      omega
    refine ⟨?_, ?_⟩
    · rw [List.pairwise_append]
      refine ⟨(qsorted_map pre hpre).sublist h2, ihs, ?_⟩
      intro a ha b hb
      have ha' := h2.subset ha
      simp only [List.mem_map] at ha'
      obtain ⟨p, hpp, rfl⟩ := ha'
      rcases ihm b hb with ⟨y, hy, rfl⟩ | ⟨r, hr, hbr⟩
      · rcases hmem y hy with hy | hy
        · exact hcross p hpp y hy
        · exact keyLt_of_fst_lt (hlow p hpp _ (hhead _ hy).1)
      · exact keyLt_of_fst_lt (by rw [hbr]; exact hlow p hpp r (hnames r hr))
    · intro x hx
      rcases List.mem_append.mp hx with hx | hx
      · have hx' := h2.subset hx
        simp only [List.mem_map] at hx'
        obtain ⟨p, hpp, rfl⟩ := hx'
        exact Or.inl ⟨p, hsubp p hpp, rfl⟩
      · rcases ihm x hx with ⟨y, hy, rfl⟩ | ⟨r, hr, hxr⟩
        · rcases hmem y hy with hy | hy
          · exact Or.inl ⟨y, hsubq y hy, rfl⟩
          · exact Or.inr ⟨_, (hhead _ hy).1, rfl⟩
        · exact Or.inr ⟨r, hnames r hr, hxr⟩


/-- Pattern indices stored in the queue only decrease, and the entry for the inserted key carries an
index ≤ the inserted one. -/
theorem qInsert_pat_le (tag : Tag) (pat : Nat) (q : Queue) :
    (∃ x ∈ qInsert tag pat q, key x.1 = key tag ∧ x.2 ≤ pat) ∧
    ∀ y ∈ q, ∃ x ∈ qInsert tag pat q, key x.1 = key y.1 ∧ x.2 ≤ y.2 := by
  induction q with
  | nil => simp [qInsert]
  | cons hd rest ih =>
    obtain ⟨t, p⟩ := hd
    simp only [qInsert]
    split
    · rename_i heq
      have heq' : key t = key tag := by simpa using heq
      split
      · rename_i hgt
        refine ⟨⟨(tag, pat), List.mem_cons_self, rfl, Nat.le_refl _⟩, ?_⟩
        intro y hy
        rcases List.mem_cons.mp hy with rfl | hy
        · exact ⟨(tag, pat), List.mem_cons_self, heq'.symm, by simp; omega⟩
        · exact ⟨y, List.mem_cons_of_mem _ hy, rfl, Nat.le_refl _⟩
      · rename_i hgt
        refine ⟨⟨(t, p), List.mem_cons_self, heq', by simp; omega⟩, ?_⟩
        intro y hy
        exact ⟨y, hy, rfl, Nat.le_refl _⟩
    · split
      · refine ⟨⟨(tag, pat), List.mem_cons_self, rfl, Nat.le_refl _⟩, ?_⟩
        intro y hy
        exact ⟨y, List.mem_cons_of_mem _ hy, rfl, Nat.le_refl _⟩
      · obtain ⟨⟨x, hx, hk, hle⟩, ih2⟩ := ih
        refine ⟨⟨x, List.mem_cons_of_mem _ hx, hk, hle⟩, ?_⟩
        intro y hy
        rcases List.mem_cons.mp hy with rfl | hy
        · exact ⟨(t, p), List.mem_cons_self, rfl, Nat.le_refl _⟩
        · obtain ⟨x, hx, hk, hle⟩ := ih2 y hy
          exact ⟨x, List.mem_cons_of_mem _ hx, hk, hle⟩


end TsVerif.C18

/-! ## Local scopes; the loop with pattern indices -/
namespace TsVerif.C18


theorem isLocal_eq_spec (name : Bytes) (r : R) (scopes : Scopes) :
    isLocal name r scopes = isLocalSpec name r scopes := by
  unfold isLocalSpec
  induction scopes with
  | nil => simp [isLocal, visibleScopes]
  | cons s rest ih =>
    by_cases hc : s.contains r = true
    · simp only [isLocal, hc, if_true, List.filter_cons, visibleScopes]
      by_cases hd : s.defs.any (· == name) = true
      · by_cases hi : s.inherits = true <;> simp [hd, hi]
      · by_cases hi : s.inherits = true
        · simp only [hd, hi, if_true, List.any_cons, Bool.false_eq_true, if_false, Bool.not_true]
          rw [ih]; simp [hd]
        · simp [hd, hi]
    · simp only [isLocal, hc, List.filter_cons, Bool.false_eq_true, if_false]
      exact ih

/-- The visible-scope walk in words. -/
theorem visible_any_iff (p : Scope → Bool) (l : List Scope) :
    (visibleScopes l).any p = true ↔
      ∃ pre s post, l = pre ++ s :: post ∧ (∀ x ∈ pre, x.inherits = true) ∧ p s = true := by
  induction l with
  | nil => simp [visibleScopes]
  | cons a l ih =>
    constructor
    · intro h
      by_cases hi : a.inherits = true
      · simp only [visibleScopes, hi, if_true, List.any_cons, Bool.or_eq_true] at h
        rcases h with h | h
        · exact ⟨[], a, l, rfl, by simp, h⟩
        · obtain ⟨pre, s, post, hl, hpre, hs⟩ := ih.mp h
          refine ⟨a :: pre, s, post, by rw [hl]; rfl, ?_, hs⟩
          intro x hx
          rcases List.mem_cons.mp hx with rfl | hx
          · exact hi
          · exact hpre x hx
      · simp only [visibleScopes, hi, List.any_cons, List.any_nil, Bool.or_false] at h
        exact ⟨[], a, l, rfl, by simp, by simpa using h⟩
    · rintro ⟨pre, s, post, hl, hpre, hs⟩
      cases pre with
      | nil =>
        simp only [List.nil_append, List.cons.injEq] at hl
        obtain ⟨rfl, rfl⟩ := hl
        by_cases hi : a.inherits = true <;> simp [visibleScopes, hi, hs]
      | cons b pre =>
        simp only [List.cons_append, List.cons.injEq] at hl
        obtain ⟨rfl, hl⟩ := hl
        have hi : a.inherits = true := hpre a List.mem_cons_self
        simp only [visibleScopes, hi, if_true, List.any_cons, Bool.or_eq_true]
        exact Or.inr (ih.mpr ⟨pre, s, post, hl, fun x hx => hpre x (List.mem_cons_of_mem _ hx), hs⟩)



theorem flushReady_eq_P : ∀ (n : Nat) (q : Queue),
    flushReady n q = ((flushReadyP n q).1.map Prod.fst, (flushReadyP n q).2) := by
  intro n
  induction n with
  | zero => intro q; simp [flushReady, flushReadyP]
  | succ n ih =>
    intro q
    by_cases hr : ready q = true
    · cases q with
      | nil => simp [ready] at hr
      | cons hd rest =>
        obtain ⟨t, p⟩ := hd
        simp only [flushReady, flushReadyP, hr, if_true, ih rest]
        split <;> simp
    · simp [flushReady, flushReadyP, hr]

theorem drain_eq_P (skip : Bool) : ∀ (n : Nat) (q : Queue), drain skip n q = (drainP skip n q).map Prod.fst := by
  intro n
  induction n with
  | zero => intro q; simp [drain, drainP]
  | succ n ih =>
    intro q
    cases q with
    | nil => simp [drain, drainP]
    | cons hd rest =>
      obtain ⟨t, p⟩ := hd
      simp only [drain, drainP, ih rest]
      split
      · split <;> simp
      · split <;> simp

theorem run_eq_P (v : Variant) (cfg : Cfg) (src : Bytes) : ∀ (ms : List Mat) (st : St),
    run v cfg src ms st = (runP v cfg src ms st).map Prod.fst := by
  intro ms
  induction ms with
  | nil => intro st; simp [run, runP, drain_eq_P]
  | cons m ms ih =>
    intro st
    simp only [run, runP, flushReady_eq_P, List.map_append, ih]

theorem drainP_sublist (skip : Bool) : ∀ (n : Nat) (q : Queue), (drainP skip n q).Sublist q := by
  intro n
  induction n with
  | zero => intro q; simp [drainP]
  | succ n ih =>
    intro q
    cases q with
    | nil => simp [drainP]
    | cons hd rest =>
      obtain ⟨t, p⟩ := hd
      simp only [drainP]
      split
      · split
        · exact (ih rest).cons _
        · exact (ih rest).cons_cons _
      · split
        · exact (ih rest).cons _
        · exact (ih rest).cons_cons _

theorem flushP_spec : ∀ (n : Nat) (q : Queue),
    ∃ pre, q = pre ++ (flushReadyP n q).2 ∧ (flushReadyP n q).1.Sublist pre ∧
      ∀ x ∈ pre, ∃ y ∈ q, x.1.name.e < y.1.name.s := by
  intro n
  induction n with
  | zero => intro q; exact ⟨[], by simp [flushReadyP]⟩
  | succ n ih =>
    intro q
    by_cases hr : ready q = true
    · cases q with
      | nil => simp [ready] at hr
      | cons hd rest =>
        obtain ⟨t, p⟩ := hd
        obtain ⟨pre, h1, h2, h3⟩ := ih rest
        refine ⟨(t, p) :: pre, ?_, ?_, ?_⟩
        · simp only [flushReadyP, hr, if_true, List.cons_append]; rw [← h1]
        · simp only [flushReadyP, hr, if_true]
          split
          · exact h2.cons _
          · exact h2.cons_cons _
        · intro x hx
          rcases List.mem_cons.mp hx with rfl | hx
          · simp only [ready] at hr
            cases hl : ((t, p) :: rest).getLast? with
            | none => simp [hl] at hr
            | some last =>
              simp [hl] at hr
              exact ⟨last, List.mem_of_getLast? hl, hr.2⟩
          · obtain ⟨y, hy, hlt⟩ := h3 x hx
            exact ⟨y, List.mem_cons_of_mem _ hy, hlt⟩
    · refine ⟨[], ?_, ?_, ?_⟩
      · simp [flushReadyP, hr]
      · simp [flushReadyP, hr]
      · intro x hx; simp at hx

theorem keyLt_irrefl_of_eq {a b : Nat × Nat} (h : a = b) : keyLt a b = false := by
  subst h; simp [keyLt]

theorem qsorted_key_inj {q : Queue} (h : QSorted q) {a b : Tag × Nat} (ha : a ∈ q) (hb : b ∈ q)
    (hk : key a.1 = key b.1) : a = b := by
  induction q with
  | nil => simp at ha
  | cons hd rest ih =>
    unfold QSorted at h ih
    rw [List.pairwise_cons] at h
    rcases List.mem_cons.mp ha with ha1 | ha1 <;> rcases List.mem_cons.mp hb with hb1 | hb1
    · rw [ha1, hb1]
    · subst ha1
      have := h.1 b hb1; unfold KeyLt at this; rw [keyLt_irrefl_of_eq hk] at this; simp at this
    · subst hb1
      have := h.1 a ha1; unfold KeyLt at this; rw [keyLt_irrefl_of_eq hk.symm] at this; simp at this
    · exact ih h.2 ha1 hb1

theorem arrivals_names (v : Variant) (cfg : Cfg) (src : Bytes) : ∀ (ms : List Mat) (st : St),
    ∀ a ∈ arrivals v cfg src ms st, a.1.name ∈ names cfg ms := by
  intro ms
  induction ms with
  | nil => intro st a ha; simp [arrivals] at ha
  | cons m ms ih =>
    intro st a ha
    simp only [arrivals, List.mem_append] at ha
    rcases ha with ha | ha
    · have hi : inserted v cfg src m { st with queue := (flushReadyP st.queue.length st.queue).2 } = some a := by
        cases h : inserted v cfg src m { st with queue := (flushReadyP st.queue.length st.queue).2 } with
        | none => simp [h] at ha
        | some e => simp [h] at ha; rw [ha]
      have := (inserted_name hi).1
      simp only [names, List.filterMap_cons, this]
      exact List.mem_cons_self
    · have := ih _ a ha
      simp only [names, List.filterMap_cons]
      split
      · exact this
      · exact List.mem_cons_of_mem _ this


theorem key_ne_of_e_lt {a b : Tag} (h : a.name.e < b.name.e) : key a ≠ key b := by
  intro hk; simp [key] at hk; omega

theorem runP_lowest (v : Variant) (cfg : Cfg) (src : Bytes) : ∀ (ms : List Mat) (st : St),
    QSorted st.queue →
    (∀ y ∈ st.queue, ∀ r ∈ names cfg ms, y.1.name.s ≤ r.e) →
    (names cfg ms).Pairwise (fun a b => a.s ≤ b.e) →
    ∀ e ∈ runP v cfg src ms st,
      (e ∈ st.queue ∨ e ∈ arrivals v cfg src ms st) ∧
      (∀ a ∈ arrivals v cfg src ms st, key a.1 = key e.1 → e.2 ≤ a.2) ∧
      (∀ y ∈ st.queue, key y.1 = key e.1 → e.2 ≤ y.2) := by
  intro ms
  induction ms with
  | nil =>
    intro st hs _ _ e he
    simp only [runP] at he
    have hmem := (drainP_sublist v.drainSkips st.queue.length st.queue).subset he
    refine ⟨Or.inl hmem, by simp [arrivals], ?_⟩
    intro y hy hk
    rw [qsorted_key_inj hs hy hmem hk]; exact Nat.le_refl _
  | cons m ms ih =>
    intro st hs hc hp e he
    obtain ⟨pre, h1, h2, h3⟩ := flushP_spec st.queue.length st.queue
    simp only [runP] at he
    simp only [arrivals]
    generalize hfr : flushReadyP st.queue.length st.queue = fr at h1 h2 he
    obtain ⟨out, q'⟩ := fr
    simp only at h1 h2 he ⊢
    have hs0 : QSorted st.queue := hs
    unfold QSorted at hs
    rw [h1, List.pairwise_append] at hs
    obtain ⟨hpre, hq', hcross⟩ := hs
    have hsubq : ∀ y ∈ q', y ∈ st.queue := fun y hy => by rw [h1]; exact List.mem_append_right _ hy
    have hsubp : ∀ y ∈ pre, y ∈ st.queue := fun y hy => by rw [h1]; exact List.mem_append_left _ hy
    have hnames : ∀ r ∈ names cfg ms, r ∈ names cfg (m :: ms) := by
      intro r hr
      simp only [names, List.filterMap_cons]
      split
      · exact hr
      · exact List.mem_cons_of_mem _ hr
    have hp' : (names cfg ms).Pairwise (fun a b => a.s ≤ b.e) := by
      simp only [names, List.filterMap_cons] at hp
      split at hp
      · exact hp
      · exact (List.pairwise_cons.mp hp).2
    generalize hst1 : ({ st with queue := q' } : St) = st1 at he ⊢
    have hst1q : st1.queue = q' := by rw [← hst1]
    generalize hst : processMatch v cfg src m st1 = st' at he ⊢
    have hq := processMatch_queue' v cfg src m st1
    rw [hst, hst1q] at hq
    -- facts about the inserted entry
    have hins : ∀ a, inserted v cfg src m st1 = some a →
        a.1.name ∈ names cfg (m :: ms) ∧ (∀ r' ∈ names cfg ms, a.1.name.s ≤ r'.e) := by
      intro a ha
      have hn := (inserted_name ha).1
      simp only [names, List.filterMap_cons, hn] at hp ⊢
      exact ⟨List.mem_cons_self, (List.pairwise_cons.mp hp).1⟩
    have hmem : ∀ y ∈ st'.queue, y ∈ q' ∨ inserted v cfg src m st1 = some y := by
      intro y hy
      rw [hq] at hy
      cases hi : inserted v cfg src m st1 with
      | none => rw [hi] at hy; exact Or.inl hy
      | some a =>
        rw [hi] at hy
        rcases mem_qInsert hy with hy | hy
        · exact Or.inl hy
        · right; rw [hy]
    have hsq : QSorted st'.queue := by
      rw [hq]
      cases inserted v cfg src m st1 with
      | none => exact hq'
      | some a => exact qInsert_sorted _ _ _ hq'
    have hcq : ∀ y ∈ st'.queue, ∀ r ∈ names cfg ms, y.1.name.s ≤ r.e := by
      intro y hy r hr
      rcases hmem y hy with hy | hy
      · exact hc y (hsubq y hy) r (hnames r hr)
      · exact (hins y hy).2 r hr
    have hlow : ∀ p ∈ pre, ∀ r ∈ names cfg (m :: ms), p.1.name.e < r.e := by
      intro p hp r hr
      obtain ⟨y0, hy0, hlt⟩ := h3 p hp
      have := hc y0 hy0 r hr
      omega
    -- every later arrival is named by a later match
    have harr : ∀ a, (a ∈ (inserted v cfg src m st1).toList ∨ a ∈ arrivals v cfg src ms st') →
        a.1.name ∈ names cfg (m :: ms) := by
      intro a ha
      rcases ha with ha | ha
      · cases hi : inserted v cfg src m st1 with
        | none => simp [hi] at ha
        | some b => simp [hi] at ha; rw [ha]; exact (hins b hi).1
      · exact hnames _ (arrivals_names v cfg src ms st' a ha)
    rcases List.mem_append.mp he with he | he
    · -- popped now: it ends before every later name ends
      have hep : e ∈ pre := h2.subset he
      refine ⟨Or.inl (hsubp e hep), ?_, ?_⟩
      · intro a ha hk
        have := hlow e hep _ (harr a (List.mem_append.mp ha))
        exact absurd hk.symm (key_ne_of_e_lt this)
      · intro y hy hk
        rw [qsorted_key_inj hs0 hy (hsubp e hep) hk]; exact Nat.le_refl _
    · obtain ⟨iA, iB, iC⟩ := ih st' hsq hcq hp' e he
      -- where the emitted entry comes from: its key is beyond every popped key
      have hbeyond : ∀ p ∈ pre, key p.1 ≠ key e.1 := by
        intro p hp
        rcases iA with hy | ha
        · rcases hmem e hy with hy | hy
          · intro hk
            have := hcross p hp e hy
            unfold KeyLt at this
            rw [keyLt_irrefl_of_eq hk] at this; simp at this
          · exact key_ne_of_e_lt (hlow p hp _ (hins e hy).1)
        · exact key_ne_of_e_lt (hlow p hp _ (hnames _ (arrivals_names v cfg src ms st' e ha)))
      refine ⟨?_, ?_, ?_⟩
      · rcases iA with hy | ha
        · rcases hmem e hy with hy | hy
          · exact Or.inl (hsubq e hy)
          · exact Or.inr (List.mem_append_left _ (by simp [hy]))
        · exact Or.inr (List.mem_append_right _ ha)
      · intro a ha hk
        rcases List.mem_append.mp ha with ha | ha
        · cases hi : inserted v cfg src m st1 with
          | none => simp [hi] at ha
          | some b =>
            simp [hi] at ha
            subst ha
            obtain ⟨⟨x, hx, hxk, hxle⟩, _⟩ := qInsert_pat_le a.1 a.2 q'
            have hx' : x ∈ st'.queue := by rw [hq, hi]; exact hx
            have := iC x hx' (by rw [hxk, hk])
            omega
        · exact iB a ha hk
      · intro y hy hk
        rw [h1] at hy
        rcases List.mem_append.mp hy with hy | hy
        · exact absurd hk (hbeyond y hy)
        · cases hi : inserted v cfg src m st1 with
          | none =>
            have hy' : y ∈ st'.queue := by rw [hq, hi]; exact hy
            exact iC y hy' hk
          | some b =>
            obtain ⟨_, h2nd⟩ := qInsert_pat_le b.1 b.2 q'
            obtain ⟨x, hx, hxk, hxle⟩ := h2nd y hy
            have hx' : x ∈ st'.queue := by rw [hq, hi]; exact hx
            have := iC x hx' (by rw [hxk, hk])
            omega


end TsVerif.C18

/-! ## Unconditional facts about the loop; the no-late-arrival condition -/
namespace TsVerif.C18


theorem run_eq_flatten (v : Variant) (cfg : Cfg) (src : Bytes) : ∀ (ms : List Mat) (st : St),
    run v cfg src ms st = (runB v cfg src ms st).flatten := by
  intro ms
  induction ms with
  | nil => intro st; simp [run, runB]
  | cons m ms ih => intro st; simp only [run, runB, List.flatten_cons, ih]

/-- Unconditional: every batch is strictly sorted (for ANY match sequence). -/
theorem runB_sorted (v : Variant) (cfg : Cfg) (src : Bytes) : ∀ (ms : List Mat) (st : St),
    QSorted st.queue → ∀ b ∈ runB v cfg src ms st, b.Pairwise TagLt := by
  intro ms
  induction ms with
  | nil =>
    intro st hs b hb
    simp only [runB, List.mem_singleton] at hb
    subst hb
    exact (qsorted_map _ hs).sublist (drain_sublist _ _ _)
  | cons m ms ih =>
    intro st hs b hb
    obtain ⟨pre, h1, h2, _⟩ := flush_spec st.queue.length st.queue
    simp only [runB] at hb
    generalize hfr : flushReady st.queue.length st.queue = fr at h1 h2 hb
    obtain ⟨out, q'⟩ := fr
    simp only at h1 h2 hb
    unfold QSorted at hs
    rw [h1, List.pairwise_append] at hs
    obtain ⟨hpre, hq', _⟩ := hs
    rcases List.mem_cons.mp hb with rfl | hb
    · exact (qsorted_map pre hpre).sublist h2
    · refine ih _ ?_ b hb
      rw [processMatch_queue']
      cases inserted v cfg src m { st with queue := q' } with
      | none => exact hq'
      | some a => exact qInsert_sorted _ _ _ hq'

/-- Unconditional: every emitted entry is one of the inserted entries (or was queued initially). -/
theorem runP_mem (v : Variant) (cfg : Cfg) (src : Bytes) : ∀ (ms : List Mat) (st : St),
    ∀ e ∈ runP v cfg src ms st, e ∈ st.queue ∨ e ∈ arrivals v cfg src ms st := by
  intro ms
  induction ms with
  | nil =>
    intro st e he
    exact Or.inl ((drainP_sublist _ _ _).subset he)
  | cons m ms ih =>
    intro st e he
    obtain ⟨pre, h1, h2, _⟩ := flushP_spec st.queue.length st.queue
    simp only [runP] at he
    simp only [arrivals]
    generalize hfr : flushReadyP st.queue.length st.queue = fr at h1 h2 he
    obtain ⟨out, q'⟩ := fr
    simp only at h1 h2 he ⊢
    rcases List.mem_append.mp he with he | he
    · exact Or.inl (by rw [h1]; exact List.mem_append_left _ (h2.subset he))
    · rcases ih _ e he with hq | ha
      · rw [processMatch_queue'] at hq
        cases hi : inserted v cfg src m { st with queue := q' } with
        | none => rw [hi] at hq; exact Or.inl (by rw [h1]; exact List.mem_append_right _ hq)
        | some a =>
          rw [hi] at hq
          rcases mem_qInsert hq with hq | hq
          · exact Or.inl (by rw [h1]; exact List.mem_append_right _ hq)
          · exact Or.inr (List.mem_append_left _ (by simp [hq]))
      · exact Or.inr (List.mem_append_right _ ha)



theorem bLt_trans {b : Option (Nat × Nat)} {k k' : Nat × Nat} (h1 : bLt b k = true) (h2 : keyLt k k' = true) :
    bLt b k' = true := by
  cases b with
  | none => rfl
  | some b => exact keyLt_trans h1 h2

theorem sorted_le_last {l : Queue} (h : QSorted l) {a z : Tag × Nat} (ha : a ∈ l) (hz : l.getLast? = some z) :
    a = z ∨ KeyLt a z := by
  induction l with
  | nil => simp at ha
  | cons hd rest ih =>
    unfold QSorted at h ih
    rw [List.pairwise_cons] at h
    cases rest with
    | nil =>
      simp at hz ha
      left; rw [ha, hz]
    | cons r rs =>
      have hz' : (r :: rs).getLast? = some z := by simpa [List.getLast?_cons_cons] using hz
      rcases List.mem_cons.mp ha with rfl | ha
      · right; exact h.1 z (List.mem_of_getLast? hz')
      · exact ih h.2 ha hz'

theorem take_pre {α} (pre q' : List α) : (pre ++ q').take ((pre ++ q').length - q'.length) = pre := by
  simp

/-- Sortedness of the whole emission under the semantic condition "no late arrival". -/
theorem run_sorted_noLate (v : Variant) (cfg : Cfg) (src : Bytes) : ∀ (ms : List Mat) (st : St) (bound : Option (Nat × Nat)),
    QSorted st.queue → (∀ y ∈ st.queue, bLt bound (key y.1) = true) →
    noLate v cfg src bound ms st = true →
    (run v cfg src ms st).Pairwise TagLt ∧ ∀ x ∈ run v cfg src ms st, bLt bound (key x) = true := by
  intro ms
  induction ms with
  | nil =>
    intro st bound hs hb _
    simp only [run]
    have hsub := drain_sublist v.drainSkips st.queue.length st.queue
    refine ⟨(qsorted_map _ hs).sublist hsub, fun x hx => ?_⟩
    have := hsub.subset hx
    simp only [List.mem_map] at this
    obtain ⟨y, hy, rfl⟩ := this
    exact hb y hy
  | cons m ms ih =>
    intro st bound hs hb hn
    obtain ⟨pre, h1, _, _⟩ := flushP_spec st.queue.length st.queue
    simp only [run, flushReady_eq_P]
    simp only [noLate, Bool.and_eq_true] at hn
    generalize hfr : flushReadyP st.queue.length st.queue = fr at h1 hn
    obtain ⟨outP, q'⟩ := fr
    simp only at h1 hn ⊢
    obtain ⟨pre', h1', h2', _⟩ := flushP_spec st.queue.length st.queue
    rw [hfr] at h1' h2'
    simp only at h1' h2'
    have hpp : pre' = pre := List.append_cancel_right (by rw [← h1, ← h1'])
    subst hpp
    have htake : st.queue.take (st.queue.length - q'.length) = pre' := by
      rw [h1]; exact take_pre pre' q'
    rw [htake] at hn
    have hs0 := hs
    unfold QSorted at hs
    rw [h1, List.pairwise_append] at hs
    obtain ⟨hpre, hq', hcross⟩ := hs
    generalize hb' : newBound pre' bound = bound' at hn
    unfold newBound at hb'
    -- bound' dominates bound and every popped key
    have hbpre : ∀ p ∈ pre', ∀ k, bLt bound' k = true → keyLt (key p.1) k = true := by
      intro p hp k hk
      cases hl : pre'.getLast? with
      | none => simp [List.getLast?_eq_none_iff] at hl; subst hl; simp at hp
      | some z =>
        rw [hl] at hb'; subst hb'
        rcases sorted_le_last hpre hp hl with rfl | hlt
        · exact hk
        · exact keyLt_trans hlt hk
    have hbb : ∀ k, bLt bound' k = true → bLt bound k = true := by
      intro k hk
      cases hl : pre'.getLast? with
      | none => rw [hl] at hb'; subst hb'; exact hk
      | some z =>
        rw [hl] at hb'; subst hb'
        have hz : z ∈ st.queue := by rw [h1]; exact List.mem_append_left _ (List.mem_of_getLast? hl)
        exact bLt_trans (hb z hz) hk
    have hbq' : ∀ y ∈ q', bLt bound' (key y.1) = true := by
      intro y hy
      cases hl : pre'.getLast? with
      | none => rw [hl] at hb'; subst hb'; exact hb y (by rw [h1]; exact List.mem_append_right _ hy)
      | some z =>
        rw [hl] at hb'; subst hb'
        exact hcross z (List.mem_of_getLast? hl) y hy
    generalize hst' : processMatch v cfg src m { st with queue := q' } = st' at hn
    have hq := processMatch_queue' v cfg src m { st with queue := q' }
    rw [hst'] at hq
    have hsq : QSorted st'.queue ∧ ∀ y ∈ st'.queue, bLt bound' (key y.1) = true := by
      rw [hq]
      cases hi : inserted v cfg src m { st with queue := q' } with
      | none => exact ⟨hq', hbq'⟩
      | some a =>
        rw [hi] at hn
        refine ⟨qInsert_sorted _ _ _ hq', fun y hy => ?_⟩
        rcases mem_qInsert hy with hy | hy
        · exact hbq' y hy
        · rw [hy]; simpa using hn.1
    obtain ⟨ihs, ihb⟩ := ih st' bound' hsq.1 hsq.2 hn.2
    refine ⟨?_, ?_⟩
    · rw [List.pairwise_append]
      refine ⟨(qsorted_map pre' hpre).sublist (h2'.map _), ihs, ?_⟩
      intro a ha b hb2
      have := (h2'.map Prod.fst).subset ha
      simp only [List.mem_map] at this
      obtain ⟨p, hp, rfl⟩ := this
      exact hbpre p hp _ (ihb b hb2)
    · intro x hx
      rcases List.mem_append.mp hx with hx | hx
      · have := (h2'.map Prod.fst).subset hx
        simp only [List.mem_map] at this
        obtain ⟨p, hp, rfl⟩ := this
        exact hb p (by rw [h1]; exact List.mem_append_left _ hp)
      · exact hbb _ (ihb x hx)



theorem noLate_of_arrival (v : Variant) (cfg : Cfg) (src : Bytes) : ∀ (ms : List Mat) (st : St) (bound : Option (Nat × Nat)),
    QSorted st.queue →
    (∀ y ∈ st.queue, ∀ r ∈ names cfg ms, y.1.name.s ≤ r.e) →
    (names cfg ms).Pairwise (fun a b => a.s ≤ b.e) →
    (∀ b, bound = some b → ∀ r ∈ names cfg ms, b.1 < r.e) →
    noLate v cfg src bound ms st = true := by
  intro ms
  induction ms with
  | nil => intro st bound _ _ _ _; rfl
  | cons m ms ih =>
    intro st bound hs hc hp hbd
    obtain ⟨pre, h1, _, h3⟩ := flushP_spec st.queue.length st.queue
    simp only [noLate, Bool.and_eq_true]
    generalize hfr : flushReadyP st.queue.length st.queue = fr at h1
    obtain ⟨outP, q'⟩ := fr
    simp only at h1 ⊢
    have htake : st.queue.take (st.queue.length - q'.length) = pre := by
      rw [h1]; simp
    rw [htake]
    unfold QSorted at hs
    rw [h1, List.pairwise_append] at hs
    obtain ⟨hpre, hq', hcross⟩ := hs
    have hsubq : ∀ y ∈ q', y ∈ st.queue := fun y hy => by rw [h1]; exact List.mem_append_right _ hy
    have hnames : ∀ r ∈ names cfg ms, r ∈ names cfg (m :: ms) := by
      intro r hr
      simp only [names, List.filterMap_cons]
      split
      · exact hr
      · exact List.mem_cons_of_mem _ hr
    have hp' : (names cfg ms).Pairwise (fun a b => a.s ≤ b.e) := by
      simp only [names, List.filterMap_cons] at hp
      split at hp
      · exact hp
      · exact (List.pairwise_cons.mp hp).2
    have hlow : ∀ p ∈ pre, ∀ r ∈ names cfg (m :: ms), p.1.name.e < r.e := by
      intro p hp r hr
      obtain ⟨y0, hy0, hlt⟩ := h3 p hp
      have := hc y0 hy0 r hr
      omega
    have hbd' : ∀ b, newBound pre bound = some b → ∀ r ∈ names cfg (m :: ms), b.1 < r.e := by
      intro b hb r hr
      unfold newBound at hb
      cases hl : pre.getLast? with
      | none => rw [hl] at hb; exact hbd b hb r hr
      | some z =>
        rw [hl] at hb
        simp only [Option.some.injEq] at hb
        rw [← hb]
        exact hlow z (List.mem_of_getLast? hl) r hr
    have hins : ∀ a, inserted v cfg src m { st with queue := q' } = some a →
        a.1.name ∈ names cfg (m :: ms) ∧ (∀ r' ∈ names cfg ms, a.1.name.s ≤ r'.e) := by
      intro a ha
      have hn := (inserted_name ha).1
      simp only [names, List.filterMap_cons, hn] at hp ⊢
      exact ⟨List.mem_cons_self, (List.pairwise_cons.mp hp).1⟩
    refine ⟨?_, ?_⟩
    · cases hi : inserted v cfg src m { st with queue := q' } with
      | none => rfl
      | some a =>
        simp only
        cases hb : newBound pre bound with
        | none => rfl
        | some b =>
          have := hbd' b hb _ (hins a hi).1
          simp [bLt, keyLt, key, this]
    · apply ih
      · rw [processMatch_queue']
        cases inserted v cfg src m { st with queue := q' } with
        | none => exact hq'
        | some a => exact qInsert_sorted _ _ _ hq'
      · intro y hy r hr
        rw [processMatch_queue'] at hy
        cases hi : inserted v cfg src m { st with queue := q' } with
        | none => rw [hi] at hy; exact hc y (hsubq y hy) r (hnames r hr)
        | some a =>
          rw [hi] at hy
          rcases mem_qInsert hy with hy | hy
          · exact hc y (hsubq y hy) r (hnames r hr)
          · rw [hy]; exact (hins a hi).2 r hr
      · exact hp'
      · intro b hb r hr; exact hbd' b hb r (hnames r hr)


end TsVerif.C18

/-! ## Scope recording; the repaired LossyUtf8 -/
namespace TsVerif.C18


/-- `addDef`: the definition goes to the most recently pushed scope that contains it, and nowhere else. -/
theorem addDef_eq (name : Bytes) (r : R) (scopes : Scopes) :
    ((∀ s ∈ scopes, s.contains r = false) ∧ addDef name r scopes = scopes) ∨
    ∃ pre s post, scopes = pre ++ s :: post ∧ (∀ x ∈ pre, x.contains r = false) ∧ s.contains r = true ∧
      addDef name r scopes = pre ++ { s with defs := s.defs ++ [name] } :: post := by
  induction scopes with
  | nil => left; simp [addDef]
  | cons a rest ih =>
    by_cases hc : a.contains r = true
    · right
      exact ⟨[], a, rest, rfl, by simp, hc, by simp [addDef, hc]⟩
    · have hc' : a.contains r = false := by simpa using hc
      rcases ih with ⟨hno, heq⟩ | ⟨pre, s, post, hsp, hpre, hs, heq⟩
      · left
        refine ⟨?_, by simp [addDef, hc', heq]⟩
        intro s hs
        rcases List.mem_cons.mp hs with rfl | hs
        · exact hc'
        · exact hno s hs
      · right
        refine ⟨a :: pre, s, post, by rw [hsp]; rfl, ?_, hs, by simp [addDef, hc', heq]⟩
        intro x hx
        rcases List.mem_cons.mp hx with rfl | hx
        · exact hc'
        · exact hpre x hx

def scopeShape (s : Scope) : R × Bool := (s.range, s.inherits)

theorem addDef_shape (name : Bytes) (r : R) (scopes : Scopes) :
    (addDef name r scopes).map scopeShape = scopes.map scopeShape := by
  induction scopes with
  | nil => rfl
  | cons a rest ih =>
    by_cases hc : a.contains r = true
    · simp [addDef, hc, scopeShape]
    · simp [addDef, hc, ih]

/-- One capture of a locals-pattern match. -/
def recordStep (cfg : Cfg) (src : Bytes) (pi : PatInfo) (sc : Scopes) (c : Cap) : Scopes :=
  if some c.idx == cfg.scopeIdx then { inherits := pi.inherits, range := ⟨c.sb, c.eb⟩, defs := [] } :: sc
  else if some c.idx == cfg.defIdx then addDef (slice src c.sb c.eb) ⟨c.sb, c.eb⟩ sc
  else sc

theorem processLocal_eq_foldl (cfg : Cfg) (src : Bytes) (pi : PatInfo) (caps : List Cap) (sc : Scopes) :
    processLocal cfg src pi caps sc = caps.foldl (recordStep cfg src pi) sc := rfl

/-- Scopes are never dropped, reordered or resized: the old stack's (range, inherits) list is a suffix
of the new one; the new scopes are exactly the `@local.scope` captures, most recent first. -/
theorem processLocal_shape (cfg : Cfg) (src : Bytes) (pi : PatInfo) : ∀ (caps : List Cap) (sc : Scopes),
    (processLocal cfg src pi caps sc).map scopeShape =
      ((caps.filter (fun c => some c.idx == cfg.scopeIdx)).reverse.map
          (fun c => ((⟨c.sb, c.eb⟩ : R), pi.inherits))) ++ sc.map scopeShape := by
  intro caps
  induction caps with
  | nil => intro sc; simp [processLocal]
  | cons c cs ih =>
    intro sc
    rw [processLocal_eq_foldl, List.foldl_cons, ← processLocal_eq_foldl, ih]
    unfold recordStep
    by_cases h1 : (some c.idx == cfg.scopeIdx) = true
    · simp [h1, scopeShape, List.filter_cons]
    · by_cases h2 : (some c.idx == cfg.defIdx) = true
      · simp [h1, h2, List.filter_cons, addDef_shape]
      · simp [h1, h2, List.filter_cons]



/-- `utf16Spec` in terms of one `from_utf8` call. -/
theorem utf16Spec_scan (b : Bytes) :
    utf16Spec b = match (scan b).err with
      | none => (scan b).u16
      | some (some k) => (scan b).u16 + (1 + utf16Spec (b.drop ((scan b).validUpTo + (k + 1))))
      | some none => (scan b).u16 + 1 := by
  fun_induction scan b with
  | case1 => simp [utf16Spec]
  | case2 x rest n hs r ih =>
    have hn := (stepAt_char_append [] hs).2.2
    rw [utf16Spec]
    simp only [hs]
    rw [ih]
    cases he : (scan (List.drop (n - 1) rest)).err with
    | none => simp [r, he]
    | some e =>
      cases e with
      | none => simp [r, he]; omega
      | some k =>
        simp only [r, he]
        have : (x :: rest).drop (n + (scan (List.drop (n - 1) rest)).validUpTo + (k + 1)) =
            (rest.drop (n - 1)).drop ((scan (List.drop (n - 1) rest)).validUpTo + (k + 1)) := by
          rw [List.drop_drop]
          have : n + (scan (List.drop (n - 1) rest)).validUpTo + (k + 1) =
              (n - 1 + ((scan (List.drop (n - 1) rest)).validUpTo + (k + 1))) + 1 := by omega
          rw [this, List.drop_succ_cons]
        rw [this]; omega
  | case3 x rest k hs =>
    rw [utf16Spec]; simp [hs]
  | case4 x rest hs =>
    rw [utf16Spec]; simp [hs]

theorem scan_u16_zero (b : Bytes) (h : (scan b).validUpTo = 0) : (scan b).u16 = 0 := by
  fun_induction scan b with
  | case1 => rfl
  | case2 x rest n hs r ih =>
    have hn := (stepAt_char_append [] hs).2.2
    simp at h; omega
  | case3 x rest k hs => rfl
  | case4 x rest hs => rfl

theorem lossyF_eq_spec (b : Bytes) (inRepl : Bool) :
    lossyUnitsF b inRepl = (if inRepl then 1 else 0) + utf16Spec b := by
  induction b, inRepl using lossyUnitsF.induct with
  | case1 bytes ih => rw [lossyUnitsF]; simp [ih]
  | case2 inRepl hr => rw [lossyUnitsF]; simp [hr, utf16Spec]
  | case3 bytes inRepl hr hne r he =>
    rw [lossyUnitsF, utf16Spec_scan]; simp only [r] at he; simp [hr, hne, he]
  | case4 bytes inRepl hr hne r k he hv ih =>
    rw [lossyUnitsF, utf16Spec_scan bytes]; simp only [r] at he hv ih
    simp [hr, hne, he, hv, ih]
  | case5 bytes inRepl hr hne r k he hv ih =>
    rw [lossyUnitsF, utf16Spec_scan bytes]; simp only [r] at he hv ih
    have hv0 : (scan bytes).validUpTo = 0 := by omega
    simp [hr, hne, he, hv0, ih, scan_u16_zero bytes hv0]
  | case6 bytes inRepl hr hne r he hv ih =>
    rw [lossyUnitsF, utf16Spec_scan bytes]; simp only [r] at he hv ih
    have : bytes.drop ((scan bytes).validUpTo + (bytes.length - (scan bytes).validUpTo)) = [] := by
      apply List.drop_eq_nil_of_le; omega
    rw [this] at ih
    simp [hr, hne, he, hv, ih, this, utf16Spec]
  | case7 bytes inRepl hr hne r he hv ih =>
    rw [lossyUnitsF, utf16Spec_scan bytes]; simp only [r] at he hv ih
    have hv0 : (scan bytes).validUpTo = 0 := by omega
    rw [hv0] at ih
    simp at ih
    simp [hr, hne, he, hv0, ih, utf16Spec, scan_u16_zero bytes hv0]


end TsVerif.C18

/-! ## Docs selection -/
namespace TsVerif.C18


theorem suffixes_snoc {α : Type} (l : List α) (d : α) :
    suffixes (l ++ [d]) = (suffixes l).map (· ++ [d]) ++ [[]] := by
  induction l with
  | nil => simp [suffixes]
  | cons a l ih => simp [suffixes, ih]

theorem chainOK_snoc (s : List Cap) (d : Cap) (row : Nat) :
    chainOK (s ++ [d]) row = (chainOK s d.sp.row && decide (d.ep.row + 1 ≥ row)) := by
  induction s with
  | nil => simp [chainOK]
  | cons a s ih =>
    cases s with
    | nil => simp [chainOK]
    | cons b s =>
      simp only [List.cons_append, chainOK] at ih ⊢
      rw [ih]; simp [Bool.and_assoc]

theorem nil_mem_suffixes {α : Type} (l : List α) : [] ∈ suffixes l := by
  induction l with
  | nil => simp [suffixes]
  | cons a l ih => simp [suffixes, ih]

theorem selectSpec_snoc (l : List Cap) (d : Cap) (row : Nat) :
    selectSpec (l ++ [d]) row = if d.ep.row + 1 ≥ row then selectSpec l d.sp.row ++ [d] else [] := by
  unfold selectSpec
  rw [suffixes_snoc, List.find?_append, List.find?_map]
  by_cases h : d.ep.row + 1 ≥ row
  · simp only [h, if_true]
    have hf : ((fun x => chainOK x row) ∘ fun x => x ++ [d]) = fun x => chainOK x d.sp.row := by
      funext x; simp [chainOK_snoc, h]
    rw [hf]
    cases hfind : (suffixes l).find? (fun x => chainOK x d.sp.row) with
    | none =>
      have := List.find?_eq_none.mp hfind [] (nil_mem_suffixes l)
      simp [chainOK] at this
    | some t => simp
  · simp only [h, if_false]
    have hf : ((fun x => chainOK x row) ∘ fun x => x ++ [d]) = fun _ => false := by
      funext x; simp [chainOK_snoc, h]
    rw [hf]
    have : (suffixes l).find? (fun _ => false) = none := List.find?_eq_none.mpr (by simp)
    simp [this, chainOK]

theorem adjacentDocs_eq (rev : List Cap) : ∀ (row : Nat) (kept : List Cap),
    adjacentDocs rev row kept = selectSpec rev.reverse row ++ kept := by
  induction rev with
  | nil => intro row kept; simp [adjacentDocs, selectSpec, suffixes, chainOK]
  | cons d rest ih =>
    intro row kept
    simp only [adjacentDocs, List.reverse_cons, selectSpec_snoc]
    by_cases h : d.ep.row + 1 ≥ row
    · simp [h, ih]
    · simp [h]

theorem selectAdjacent_eq_spec (docs : List Cap) (row : Nat) : selectAdjacent docs row = selectSpec docs row := by
  unfold selectAdjacent
  rw [adjacentDocs_eq]; simp


theorem selectSpec_cons (a : Cap) (l : List Cap) (row : Nat) :
    selectSpec (a :: l) row = if chainOK (a :: l) row then a :: l else selectSpec l row := by
  unfold selectSpec
  simp only [suffixes, List.find?_cons]
  by_cases h : chainOK (a :: l) row = true <;> simp [h]

theorem selectSpec_props (docs : List Cap) (row : Nat) :
    (∃ pre, docs = pre ++ selectSpec docs row) ∧ chainOK (selectSpec docs row) row = true ∧
    ∀ pre s, docs = pre ++ s → chainOK s row = true → s.length ≤ (selectSpec docs row).length := by
  induction docs with
  | nil =>
    refine ⟨⟨[], by simp [selectSpec, suffixes, chainOK]⟩, by simp [selectSpec, suffixes, chainOK], ?_⟩
    intro pre s h _
    have : s = [] := by
      have := congrArg List.length h; simp at this; exact List.eq_nil_of_length_eq_zero (by omega)
    simp [this]
  | cons a l ih =>
    rw [selectSpec_cons]
    by_cases h : chainOK (a :: l) row = true
    · simp only [h, if_true]
      refine ⟨⟨[], rfl⟩, trivial, ?_⟩
      intro pre s hs _
      have := congrArg List.length hs; simp at this ⊢; omega
    · simp only [h, Bool.false_eq_true, if_false]
      obtain ⟨⟨pre, hpre⟩, hc, hmax⟩ := ih
      refine ⟨⟨a :: pre, by rw [List.cons_append, ← hpre]⟩, hc, ?_⟩
      intro pre' s hs hcs
      cases pre' with
      | nil => simp at hs; rw [← hs] at hcs; exact absurd hcs h
      | cons b p =>
        simp only [List.cons_append, List.cons.injEq] at hs
        exact hmax p s hs.2 hcs

theorem docsOfP_eq_spec (strip : Option (Bytes → Bytes)) (src : Bytes) (adj : Option Cap) (docs : List Cap) :
    docsOfP strip src adj docs = docsSpec strip src adj docs := by
  unfold docsOfP docsSpec
  cases adj with
  | none => rfl
  | some a =>
    cases docs with
    | nil => simp [selectSpec, suffixes, chainOK]
    | cons d ds => simp [selectAdjacent_eq_spec]


end TsVerif.C18

/-! ## Residence histories -/
namespace TsVerif.C18


theorem projH_qInsertH (tag : Tag) (pat : Nat) (q : QueueH) :
    projH (qInsertH tag pat q) = qInsert tag pat (projH q) := by
  induction q with
  | nil => simp [qInsertH, qInsert, projH]
  | cons hd rest ih =>
    obtain ⟨⟨t, p⟩, h⟩ := hd
    simp only [projH, List.map_cons] at ih ⊢
    simp only [qInsertH, qInsert]
    split
    · split <;> simp
    · split
      · simp
      · simp [ih]

theorem flushReadyH_proj : ∀ (n : Nat) (q : QueueH),
    projH (flushReadyH n q).1 = (flushReadyP n (projH q)).1 ∧ projH (flushReadyH n q).2 = (flushReadyP n (projH q)).2 := by
  intro n
  induction n with
  | zero => intro q; simp [flushReadyH, flushReadyP, projH]
  | succ n ih =>
    intro q
    by_cases hr : ready (projH q) = true
    · cases q with
      | nil => simp [flushReadyH, flushReadyP, projH]
      | cons hd rest =>
        obtain ⟨⟨t, p⟩, h⟩ := hd
        have := ih rest
        simp only [projH, List.map_cons] at hr this ⊢
        simp only [flushReadyH, flushReadyP, projH, List.map_cons, hr, if_true]
        split <;> simp [this.1, this.2]
    · have hr' : ¬ ready (List.map Prod.fst q) = true := by simpa [projH] using hr
      simp [flushReadyH, flushReadyP, hr', projH]

theorem drainH_proj (skip : Bool) : ∀ (n : Nat) (q : QueueH), projH (drainH skip n q) = drainP skip n (projH q) := by
  intro n
  induction n with
  | zero => intro q; simp [drainH, drainP, projH]
  | succ n ih =>
    intro q
    cases q with
    | nil => simp [drainH, drainP, projH]
    | cons hd rest =>
      obtain ⟨⟨t, p⟩, h⟩ := hd
      have := ih rest
      simp only [projH, List.map_cons] at this ⊢
      simp only [drainH, drainP, projH, List.map_cons]
      split
      · split <;> simp [this]
      · split <;> simp [this]

theorem runH_proj (v : Variant) (cfg : Cfg) (src : Bytes) : ∀ (ms : List Mat) (st : St) (qh : QueueH),
    st.queue = projH qh → projH (runH v cfg src ms st qh) = runP v cfg src ms st := by
  intro ms
  induction ms with
  | nil =>
    intro st qh hq
    simp only [runH, runP, drainH_proj, hq]
    simp [projH]
  | cons m ms ih =>
    intro st qh hq
    have hlen : qh.length = st.queue.length := by rw [hq]; simp [projH]
    have hf := flushReadyH_proj qh.length qh
    simp only [runH, runP]
    rw [hq] at *
    simp only [projH, List.length_map] at hf ⊢
    generalize flushReadyH qh.length qh = fr at hf
    obtain ⟨outH, qh'⟩ := fr
    generalize hfp : flushReadyP qh.length (List.map Prod.fst qh) = fp at hf
    obtain ⟨outP, q'⟩ := fp
    simp only at hf ⊢
    rw [List.map_append, hf.1]
    congr 1
    have h2 : List.map Prod.fst qh' = q' := hf.2
    rw [h2]
    apply ih
    rw [processMatch_queue']
    cases inserted v cfg src m { st with queue := q' } with
    | none => simp [projH, h2]
    | some a => simp only; rw [projH_qInsertH]; simp [projH, h2]


/-- The entry is one of the arrivals merged into it, all of them have its name range, and its pattern
index is minimal among them. -/
def HistOK (x : (Tag × Nat) × List (Tag × Nat)) : Prop :=
  x.1 ∈ x.2 ∧ ∀ a ∈ x.2, key a.1 = key x.1.1 ∧ x.1.2 ≤ a.2

theorem qInsertH_hist (tag : Tag) (pat : Nat) (q : QueueH) (h : ∀ x ∈ q, HistOK x) :
    ∀ x ∈ qInsertH tag pat q, HistOK x := by
  induction q with
  | nil =>
    intro x hx
    simp [qInsertH] at hx; subst hx
    exact ⟨by simp, by intro a ha; simp at ha; subst ha; exact ⟨rfl, Nat.le_refl _⟩⟩
  | cons hd rest ih =>
    obtain ⟨⟨t, p⟩, hs⟩ := hd
    have hhd := h ((t, p), hs) List.mem_cons_self
    have hrest : ∀ x ∈ rest, HistOK x := fun x hx => h x (List.mem_cons_of_mem _ hx)
    intro x hx
    simp only [qInsertH] at hx
    split at hx
    · rename_i heq
      have heq' : key t = key tag := by simpa using heq
      rcases List.mem_cons.mp hx with rfl | hx
      · obtain ⟨h1, h2⟩ := hhd
        simp only at h1 h2
        by_cases hgt : p > pat
        · simp only [hgt, if_true]
          refine ⟨by simp, ?_⟩
          intro a ha
          rcases List.mem_append.mp ha with ha | ha
          · have := h2 a ha; exact ⟨by rw [this.1, heq'], by simp; omega⟩
          · simp at ha; subst ha; exact ⟨rfl, Nat.le_refl _⟩
        · simp only [hgt, if_false]
          refine ⟨List.mem_append_left _ h1, ?_⟩
          intro a ha
          rcases List.mem_append.mp ha with ha | ha
          · exact h2 a ha
          · simp at ha; subst ha; exact ⟨heq'.symm, by simp; omega⟩
      · exact hrest x hx
    · split at hx
      · rcases List.mem_cons.mp hx with rfl | hx
        · exact ⟨by simp, by intro a ha; simp at ha; subst ha; exact ⟨rfl, Nat.le_refl _⟩⟩
        · exact h x hx
      · rcases List.mem_cons.mp hx with rfl | hx
        · exact hhd
        · exact ih hrest x hx

theorem flushReadyH_mem : ∀ (n : Nat) (q : QueueH),
    (∀ x ∈ (flushReadyH n q).1, x ∈ q) ∧ (∀ x ∈ (flushReadyH n q).2, x ∈ q) := by
  intro n
  induction n with
  | zero => intro q; simp [flushReadyH]
  | succ n ih =>
    intro q
    by_cases hr : ready (projH q) = true
    · cases q with
      | nil => simp [flushReadyH]
      | cons hd rest =>
        obtain ⟨⟨t, p⟩, h⟩ := hd
        have := ih rest
        simp only [flushReadyH, hr, if_true]
        constructor
        · intro x hx
          split at hx
          · exact List.mem_cons_of_mem _ (this.1 x hx)
          · rcases List.mem_cons.mp hx with rfl | hx
            · exact List.mem_cons_self
            · exact List.mem_cons_of_mem _ (this.1 x hx)
        · intro x hx; exact List.mem_cons_of_mem _ (this.2 x hx)
    · simp [flushReadyH, hr]

theorem drainH_mem (skip : Bool) : ∀ (n : Nat) (q : QueueH), ∀ x ∈ drainH skip n q, x ∈ q := by
  intro n
  induction n with
  | zero => intro q x hx; simp [drainH] at hx
  | succ n ih =>
    intro q x hx
    cases q with
    | nil => simp [drainH] at hx
    | cons hd rest =>
      obtain ⟨⟨t, p⟩, h⟩ := hd
      simp only [drainH] at hx
      split at hx
      · split at hx
        · exact List.mem_cons_of_mem _ (ih rest x hx)
        · rcases List.mem_cons.mp hx with rfl | hx
          · exact List.mem_cons_self
          · exact List.mem_cons_of_mem _ (ih rest x hx)
      · split at hx
        · exact List.mem_cons_of_mem _ (ih rest x hx)
        · rcases List.mem_cons.mp hx with rfl | hx
          · exact List.mem_cons_self
          · exact List.mem_cons_of_mem _ (ih rest x hx)

theorem runH_hist (v : Variant) (cfg : Cfg) (src : Bytes) : ∀ (ms : List Mat) (st : St) (qh : QueueH),
    (∀ x ∈ qh, HistOK x) → ∀ x ∈ runH v cfg src ms st qh, HistOK x := by
  intro ms
  induction ms with
  | nil => intro st qh h x hx; exact h x (drainH_mem _ _ _ x hx)
  | cons m ms ih =>
    intro st qh h x hx
    simp only [runH] at hx
    have hm := flushReadyH_mem qh.length qh
    generalize flushReadyH qh.length qh = fr at hm hx
    obtain ⟨out, qh'⟩ := fr
    simp only at hm hx
    rcases List.mem_append.mp hx with hx | hx
    · exact h x (hm.1 x hx)
    · refine ih _ _ ?_ x hx
      have hq' : ∀ y ∈ qh', HistOK y := fun y hy => h y (hm.2 y hy)
      cases inserted v cfg src m { st with queue := projH qh' } with
      | none => exact hq'
      | some a => exact qInsertH_hist _ _ _ hq'


theorem qInsertH_src (tag : Tag) (pat : Nat) (q : QueueH) :
    ∀ x ∈ qInsertH tag pat q, ∀ a ∈ x.2, a = (tag, pat) ∨ ∃ y ∈ q, a ∈ y.2 := by
  induction q with
  | nil => intro x hx a ha; simp [qInsertH] at hx; subst hx; simp at ha; exact Or.inl ha
  | cons hd rest ih =>
    obtain ⟨⟨t, p⟩, hs⟩ := hd
    intro x hx a ha
    simp only [qInsertH] at hx
    split at hx
    · rcases List.mem_cons.mp hx with rfl | hx
      · rcases List.mem_append.mp ha with ha | ha
        · exact Or.inr ⟨_, List.mem_cons_self, ha⟩
        · simp at ha; exact Or.inl ha
      · exact Or.inr ⟨x, List.mem_cons_of_mem _ hx, ha⟩
    · split at hx
      · rcases List.mem_cons.mp hx with rfl | hx
        · simp at ha; exact Or.inl ha
        · exact Or.inr ⟨x, hx, ha⟩
      · rcases List.mem_cons.mp hx with rfl | hx
        · exact Or.inr ⟨_, List.mem_cons_self, ha⟩
        · rcases ih x hx a ha with h | ⟨y, hy, hay⟩
          · exact Or.inl h
          · exact Or.inr ⟨y, List.mem_cons_of_mem _ hy, hay⟩

theorem runH_src (v : Variant) (cfg : Cfg) (src : Bytes) : ∀ (ms : List Mat) (st : St) (qh : QueueH),
    st.queue = projH qh →
    ∀ x ∈ runH v cfg src ms st qh, ∀ a ∈ x.2, (∃ y ∈ qh, a ∈ y.2) ∨ a ∈ arrivals v cfg src ms st := by
  intro ms
  induction ms with
  | nil => intro st qh _ x hx a ha; exact Or.inl ⟨x, drainH_mem _ _ _ x hx, ha⟩
  | cons m ms ih =>
    intro st qh hq x hx a ha
    simp only [runH] at hx
    simp only [arrivals]
    have hm := flushReadyH_mem qh.length qh
    have hp := (flushReadyH_proj qh.length qh).2
    have hlen : st.queue.length = qh.length := by rw [hq]; simp [projH]
    rw [hlen, hq]
    generalize flushReadyH qh.length qh = fr at hm hx hp
    obtain ⟨out, qh'⟩ := fr
    simp only at hm hx hp
    rw [← hp]
    rcases List.mem_append.mp hx with hx | hx
    · exact Or.inl ⟨x, hm.1 x hx, ha⟩
    · have hsync : (processMatch v cfg src m { st with queue := projH qh' }).queue =
          projH (match inserted v cfg src m { st with queue := projH qh' } with
            | some a => qInsertH a.1 a.2 qh'
            | none => qh') := by
        rw [processMatch_queue']
        cases inserted v cfg src m { st with queue := projH qh' } with
        | none => rfl
        | some b => simp only; rw [projH_qInsertH]
      rcases ih _ _ hsync x hx a ha with ⟨y, hy, hay⟩ | harr
      · cases hi : inserted v cfg src m { st with queue := projH qh' } with
        | none => rw [hi] at hy; exact Or.inl ⟨y, hm.2 y hy, hay⟩
        | some b =>
          rw [hi] at hy
          rcases qInsertH_src _ _ _ y hy a hay with h | ⟨z, hz, haz⟩
          · right; apply List.mem_append_left; simp [h]
          · exact Or.inl ⟨z, hm.2 z hz, haz⟩
      · exact Or.inr (List.mem_append_right _ harr)


end TsVerif.C18

/-! ## Spec decoder -/
namespace TsVerif.C18


theorem decodeStep_stepAt {a : Nat} {rest : Bytes} {cp n : Nat} (h : decodeStep (a :: rest) = some (cp, n)) :
    stepAt a rest = .char n ∧ units n = (if cp ≥ 0x10000 then 2 else 1) := by
  cases rest with
  | nil =>
    simp only [decodeStep] at h
    unfold stepAt width units
    (repeat' split at h) <;> simp only [Option.some.injEq, Prod.mk.injEq, reduceCtorEq] at h <;> (try (obtain ⟨h1, h2⟩ := h; subst h2)) <;> simp_all <;> omega
  | cons r1 rest =>
    cases rest with
    | nil =>
      simp only [decodeStep] at h
      unfold stepAt width units
      (repeat' split at h) <;> simp only [Option.some.injEq, Prod.mk.injEq, reduceCtorEq] at h <;> (try (obtain ⟨h1, h2⟩ := h; subst h2)) <;> simp_all [second3ok, second4ok, isCont] <;> first | omega | (refine ⟨?_, by omega⟩; (repeat' split) <;> first | rfl | (exfalso; omega))
    | cons r2 rest =>
      cases rest with
      | nil =>
        simp only [decodeStep] at h
        unfold stepAt width units
        (repeat' split at h) <;> simp only [Option.some.injEq, Prod.mk.injEq, reduceCtorEq] at h <;> (try (obtain ⟨h1, h2⟩ := h; subst h2)) <;> simp_all [second3ok, second4ok, isCont] <;> first | omega | (refine ⟨?_, by omega⟩; (repeat' split) <;> first | rfl | (exfalso; omega))
      | cons r3 r4 =>
        simp only [decodeStep] at h
        unfold stepAt width units
        (repeat' split at h) <;> simp only [Option.some.injEq, Prod.mk.injEq, reduceCtorEq] at h <;> (try (obtain ⟨h1, h2⟩ := h; subst h2)) <;> simp_all [second3ok, second4ok, isCont] <;> first | omega | (refine ⟨?_, by omega⟩; (repeat' split) <;> first | rfl | (exfalso; omega))


theorem decode_scan : ∀ (fuel : Nat) (b : Bytes) (cps : List Nat), decodeUtf8 fuel b = some cps →
    (scan b).err = none ∧ (scan b).u16 = utf16Units cps := by
  intro fuel
  induction fuel with
  | zero =>
    intro b cps h
    cases b with
    | nil => simp [decodeUtf8] at h; subst h; simp [scan, utf16Units]
    | cons a rest => simp [decodeUtf8] at h
  | succ fuel ih =>
    intro b cps h
    cases b with
    | nil => simp [decodeUtf8] at h; subst h; simp [scan, utf16Units]
    | cons a rest =>
      simp only [decodeUtf8] at h
      cases hd : decodeStep (a :: rest) with
      | none => simp [hd] at h
      | some x =>
        obtain ⟨cp, n⟩ := x
        simp only [hd] at h
        cases ht : decodeUtf8 fuel (rest.drop (n - 1)) with
        | none => simp [ht] at h
        | some tl =>
          simp [ht] at h
          subst h
          obtain ⟨hs, hu⟩ := decodeStep_stepAt hd
          obtain ⟨e1, e2⟩ := ih _ _ ht
          rw [scan_cons_char hs]
          refine ⟨e1, ?_⟩
          simp only [e2, hu, utf16Units, List.map_cons, List.sum_cons]

/-- `utf16_len` (pinned and repaired port) of a well-formed byte string = UTF-16 units of its decoding. -/
theorem utf16Len_decode (fuel : Nat) (b : Bytes) (cps : List Nat) (h : decodeUtf8 fuel b = some cps) :
    utf16Len b = utf16Units cps ∧ utf16LenF b = utf16Units cps ∧ utf16Spec b = utf16Units cps := by
  obtain ⟨e1, e2⟩ := decode_scan fuel b cps h
  have hf : utf16LenF b = utf16Spec b := by unfold utf16LenF; rw [lossyF_eq_spec]; simp
  rw [hf, utf16Len_valid b e1, utf16Spec_valid b e1, e2]
  exact ⟨rfl, rfl, rfl⟩

theorem decode_valid (fuel : Nat) (b : Bytes) (cps : List Nat) (h : decodeUtf8 fuel b = some cps) :
    validUtf8 b = true := by
  simp [validUtf8, (decode_scan fuel b cps h).1]


end TsVerif.C18

/-! ## Character boundaries of the line range -/
namespace TsVerif.C18


theorem stepAt_char_prefix {x n : Nat} {rest : Bytes} (z : Bytes) (h : stepAt x rest = .char n) :
    stepAt x (rest.take (n - 1) ++ z) = .char n := by
  unfold stepAt at h ⊢
  rcases rest with _ | ⟨r1, _ | ⟨r2, _ | ⟨r3, r4⟩⟩⟩ <;> simp only [List.length_cons, List.length_nil] at h ⊢ <;>
    (repeat' split at h) <;> (try cases h) <;> simp_all

theorem stepAt_invalid_append {x k : Nat} {rest : Bytes} (z : Bytes) (h : stepAt x rest = .invalid k) :
    stepAt x (rest ++ z) = .invalid k := by
  unfold stepAt at h ⊢
  rcases rest with _ | ⟨r1, _ | ⟨r2, _ | ⟨r3, r4⟩⟩⟩ <;> simp only [List.nil_append, List.cons_append] at h ⊢ <;>
    (repeat' split at h) <;> (try cases h) <;> simp_all

def Step.isInvalid : Step → Bool
  | .invalid _ => true
  | _ => false

theorem stepAt_incomplete_ascii {x c : Nat} {rest : Bytes} (hc : c < 0x80) (h : stepAt x rest = .incomplete) :
    (stepAt x (rest ++ [c])).isInvalid = true := by
  unfold stepAt at h ⊢
  rcases rest with _ | ⟨r1, _ | ⟨r2, _ | ⟨r3, r4⟩⟩⟩ <;> simp only [List.nil_append, List.cons_append] at h ⊢ <;>
    (repeat' split at h) <;> (try cases h) <;> simp_all [isCont, second3ok, second4ok] <;>
    (repeat' split) <;> simp_all [Step.isInvalid] <;> omega


theorem scan_cons_invalid {x k : Nat} {rest : Bytes} (h : stepAt x rest = .invalid k) :
    (scan (x :: rest)).err = some (some k) := by rw [scan]; simp [h]

theorem scan_snoc_ascii (c : Nat) (hc : c < 0x80) (x : Bytes) (h : (scan (x ++ [c])).err = none) :
    (scan x).err = none := by
  fun_induction scan x with
  | case1 => rfl
  | case2 a rest n hs r ih =>
    have ha := stepAt_char_append [c] hs
    rw [List.cons_append, scan_cons_char ha.1, List.drop_append_of_le_length ha.2.1] at h
    exact ih h
  | case3 a rest k hs =>
    rw [List.cons_append, scan_cons_invalid (stepAt_invalid_append [c] hs)] at h; simp at h
  | case4 a rest hs =>
    have := stepAt_incomplete_ascii hc hs
    cases hst : stepAt a (rest ++ [c]) with
    | char n => simp [hst, Step.isInvalid] at this
    | incomplete => simp [hst, Step.isInvalid] at this
    | invalid k => rw [List.cons_append, scan_cons_invalid hst] at h; simp at h

theorem valid_of_append_ascii (w : Bytes) : ∀ (x : Bytes), (∀ c ∈ w, c < 0x80) →
    validUtf8 (x ++ w) = true → validUtf8 x = true := by
  induction w with
  | nil => intro x _ h; simpa using h
  | cons c w ih =>
    intro x hw h
    have h' : validUtf8 ((x ++ [c]) ++ w) = true := by simpa using h
    have := ih (x ++ [c]) (fun d hd => hw d (List.mem_cons_of_mem _ hd)) h'
    simp only [validUtf8, Option.isNone_iff_eq_none] at this ⊢
    exact scan_snoc_ascii c (hw c List.mem_cons_self) x this

theorem ascii_valid (l : Bytes) (h : ∀ c ∈ l, c < 0x80) : validUtf8 l = true := by
  induction l with
  | nil => simp [validUtf8, scan]
  | cons a l ih =>
    have ha : a < 0x80 := h a List.mem_cons_self
    have hs : stepAt a l = .char 1 := by simp [stepAt, ha]
    have := ih (fun c hc => h c (List.mem_cons_of_mem _ hc))
    simp only [validUtf8, Option.isNone_iff_eq_none] at this ⊢
    rw [scan_cons_char hs]; simpa using this

theorem scan_take_valid (w : Bytes) : validUtf8 (w.take (scan w).validUpTo) = true := by
  fun_induction scan w with
  | case1 => simp [validUtf8, scan]
  | case2 a rest n hs r ih =>
    have ha := stepAt_char_append [] hs
    have hn : n = (n - 1) + 1 := by omega
    simp only [r]
    have : (a :: rest).take (n + (scan (rest.drop (n - 1))).validUpTo) =
        a :: (rest.take (n - 1) ++ (rest.drop (n - 1)).take (scan (rest.drop (n - 1))).validUpTo) := by
      rw [hn, Nat.add_right_comm, List.take_succ_cons, List.take_add]
      simp
    rw [this]
    have hp := stepAt_char_prefix ((rest.drop (n - 1)).take (scan (rest.drop (n - 1))).validUpTo) hs
    simp only [validUtf8, Option.isNone_iff_eq_none] at ih ⊢
    rw [scan_cons_char hp]
    have hlen : (rest.take (n - 1)).length = n - 1 := by rw [List.length_take]; omega
    rw [List.drop_append_of_le_length (by omega), List.drop_of_length_le (by omega)]
    simpa using ih
  | case3 a rest k hs => simp [validUtf8, scan]
  | case4 a rest hs => simp [validUtf8, scan]

theorem isWs_ascii {c : Nat} (h : isWs c = true) : c < 0x80 := by
  simp [isWs] at h; omega

theorem rev_dropWhile_split (p : Nat → Bool) (l : Bytes) :
    l = (l.reverse.dropWhile p).reverse ++ (l.reverse.takeWhile p).reverse ∧
    l.take (l.reverse.dropWhile p).length = (l.reverse.dropWhile p).reverse := by
  have h : l.reverse = l.reverse.takeWhile p ++ l.reverse.dropWhile p := List.takeWhile_append_dropWhile.symm
  have h2 : l = (l.reverse.dropWhile p).reverse ++ (l.reverse.takeWhile p).reverse := by
    have h3 : l.reverse.reverse = (l.reverse.takeWhile p ++ l.reverse.dropWhile p).reverse := by rw [← h]
    rw [List.reverse_reverse, List.reverse_append] at h3
    exact h3
  refine ⟨h2, ?_⟩
  conv => lhs; arg 2; rw [h2]
  rw [← List.length_reverse (as := List.dropWhile p l.reverse)]
  exact List.take_left' rfl


/-- The bytes of the `lineSpec` range, and their well-formedness. -/
theorem specCore_valid (rest : Bytes) (limit : Nat)
    (hv : validUtf8 (rest.takeWhile (· != 10)) = true) :
    validUtf8 ((rest.drop (specCore rest limit).1).take (specCore rest limit).2) = true := by
  have hsplit : rest.takeWhile (· != 10) ++ rest.dropWhile (· != 10) = rest := List.takeWhile_append_dropWhile
  simp only [specCore]
  generalize rest.takeWhile (· != 10) = line at *
  generalize rest.dropWhile (· != 10) = tail at *
  subst hsplit
  have hleadle : (line.takeWhile isWs).length ≤ line.length := length_takeWhile_le' _ _
  have hlsplit : line.takeWhile isWs ++ line.dropWhile isWs = line := List.takeWhile_append_dropWhile
  have hbody : line.drop (line.takeWhile isWs).length = line.dropWhile isWs := by
    conv => lhs; arg 2; rw [← hlsplit]
    exact List.drop_left' rfl
  rw [List.drop_append_of_le_length hleadle, hbody]
  have hbv : validUtf8 (line.dropWhile isWs) = true := by
    apply valid_suffix (line.takeWhile isWs)
    · exact ascii_valid _ (fun c hc => isWs_ascii (mem_takeWhile_sat hc))
    · rw [hlsplit]; exact hv
  generalize line.dropWhile isWs = body at *
  -- the cut is a well-formed prefix of the body
  generalize hcut : (if (decide (line.length < (line ++ tail).length) && decide (body.length < limit)) = true then body
      else (body.take limit).take (scan (body.take limit)).validUpTo) = cut
  have hcv : validUtf8 cut = true ∧ ∃ m, cut = body.take m := by
    rw [← hcut]
    split
    · exact ⟨hbv, body.length, by simp⟩
    · exact ⟨scan_take_valid _, _, by rw [List.take_take]⟩
  obtain ⟨hcv, m, hm⟩ := hcv
  obtain ⟨hsp, htk⟩ := rev_dropWhile_split isWs cut
  have hkept : (cut.reverse.dropWhile isWs).length ≤ cut.length := by
    have := length_dropWhile_le' isWs cut.reverse; simpa using this
  have hx : validUtf8 (cut.reverse.dropWhile isWs).reverse = true := by
    apply valid_of_append_ascii (cut.reverse.takeWhile isWs).reverse
    · intro c hc
      exact isWs_ascii (mem_takeWhile_sat (List.mem_reverse.mp hc))
    · rw [← hsp]; exact hcv
  have hcl : cut.length ≤ body.length := by rw [hm, List.length_take]; omega
  have : (body ++ tail).take (cut.reverse.dropWhile isWs).length = (cut.reverse.dropWhile isWs).reverse := by
    rw [List.take_append_of_le_length (by omega), ← htk, hm, List.take_take]
    congr 1
    rw [hm, List.length_take] at hkept
    omega
  rw [this]; exact hx


theorem takeWhile_len_le_of_neg {p : Nat → Bool} : ∀ (l : Bytes) (j b : Nat), l[j]? = some b → p b = false →
    (l.takeWhile p).length ≤ j := by
  intro l
  induction l with
  | nil => intro j b h; simp at h
  | cons a l ih =>
    intro j b h hb
    cases j with
    | zero => simp at h; subst h; simp [List.takeWhile_cons, hb]
    | succ j =>
      simp at h
      by_cases hp : p a = true
      · simp [List.takeWhile_cons, hp]; exact ih j b h hb
      · simp [List.takeWhile_cons, hp]

theorem lt_rev_dropWhile_of_neg (p : Nat → Bool) (l : Bytes) (i b : Nat) (h : l[i]? = some b) (hb : p b = false) :
    i < (l.reverse.dropWhile p).length := by
  obtain ⟨hsp, _⟩ := rev_dropWhile_split p l
  by_cases hlt : i < (l.reverse.dropWhile p).length
  · exact hlt
  · exfalso
    rw [hsp, List.getElem?_append_right (by simp; omega)] at h
    have hm : b ∈ (l.reverse.takeWhile p).reverse := List.mem_of_getElem? h
    have := mem_takeWhile_sat (List.mem_reverse.mp hm)
    rw [hb] at this; exact absurd this (by simp)

/-- The untrimmed cut of `lineSpec` (a prefix of the row without its leading blanks). -/
def cutOf (rest : Bytes) (limit : Nat) : Bytes :=
  let line := rest.takeWhile (· != 10)
  let body := line.drop (line.takeWhile isWs).length
  if decide (line.length < rest.length) && decide (body.length < limit) then body
  else (body.take limit).take (scan (body.take limit)).validUpTo

theorem specCore_contains (rest : Bytes) (limit j b : Nat)
    (hrow : j < (rest.takeWhile (· != 10)).length) (hb : rest[j]? = some b) (hnw : isWs b = false)
    (hcut : j < (specCore rest limit).1 + (cutOf rest limit).length) :
    (specCore rest limit).1 ≤ j ∧ j < (specCore rest limit).1 + (specCore rest limit).2 := by
  have hsplit : rest.takeWhile (· != 10) ++ rest.dropWhile (· != 10) = rest := List.takeWhile_append_dropWhile
  have hline : (rest.takeWhile (· != 10))[j]? = some b := by
    rw [← hsplit, List.getElem?_append_left hrow] at hb; exact hb
  simp only [specCore, cutOf] at hcut ⊢
  generalize rest.takeWhile (· != 10) = line at *
  have hlead := takeWhile_len_le_of_neg line j b hline hnw
  refine ⟨hlead, ?_⟩
  generalize hc : (if (decide (line.length < rest.length) && decide ((line.drop (line.takeWhile isWs).length).length < limit)) = true
      then line.drop (line.takeWhile isWs).length
      else ((line.drop (line.takeWhile isWs).length).take limit).take
        (scan ((line.drop (line.takeWhile isWs).length).take limit)).validUpTo) = cut at hcut ⊢
  have hm : ∃ m, cut = (line.drop (line.takeWhile isWs).length).take m := by
    rw [← hc]; split
    · exact ⟨_, (List.take_length).symm⟩
    · exact ⟨_, by rw [List.take_take]⟩
  obtain ⟨m, hm⟩ := hm
  have hjc : cut[j - (line.takeWhile isWs).length]? = some b := by
    have hlt : j - (line.takeWhile isWs).length < cut.length := by omega
    rw [hm] at hlt ⊢
    rw [List.getElem?_take_of_lt (by rw [List.length_take] at hlt; omega), List.getElem?_drop]
    have : (line.takeWhile isWs).length + (j - (line.takeWhile isWs).length) = j := by omega
    rw [this]; exact hline
  have := lt_rev_dropWhile_of_neg isWs cut _ b hjc hnw
  omega


end TsVerif.C18

/-! ## Tag construction -/
namespace TsVerif.C18


theorem foldl_inv {α β : Type} (P : β → Prop) (f : β → α → β) (S : List α)
    (hf : ∀ b a, a ∈ S → P b → P (f b a)) : ∀ (l : List α) (b : β), (∀ a ∈ l, a ∈ S) → P b → P (l.foldl f b) := by
  intro l
  induction l with
  | nil => intro b _ h; exact h
  | cons a l ih =>
    intro b hl h
    exact ih _ (fun x hx => hl x (List.mem_cons_of_mem _ hx)) (hf b a (hl a List.mem_cons_self) h)

theorem capLoop_mem (cfg : Cfg) (pi : PatInfo) (caps : List Cap) :
    (∀ c, (capLoop cfg pi caps).name = some c → c ∈ caps) ∧ (∀ c, (capLoop cfg pi caps).tag = some c → c ∈ caps) := by
  unfold capLoop
  apply foldl_inv (fun a : Acc => (∀ c, a.name = some c → c ∈ caps) ∧ (∀ c, a.tag = some c → c ∈ caps))
  · intro b a ha hP
    obtain ⟨h1, h2⟩ := hP
    constructor
    · intro c hc
      simp only at hc
      (repeat' split at hc) <;> simp_all <;> first | (subst hc; exact ha) | exact h1 c hc | (rcases hc with rfl; exact ha)
    · intro c hc
      simp only at hc
      (repeat' split at hc) <;> simp_all <;> first | (subst hc; exact ha) | exact h2 c hc | (rcases hc with rfl; exact ha)
  · intro a h; exact h
  · simp


/-- What `tagOf` builds: an ignore placeholder, or a tag whose name range and span are those of a capture
of the match and whose range is the hull of that capture and the tag capture. -/
theorem tagOf_shape (v : Variant) (cfg : Cfg) (src : Bytes) (pi : PatInfo) (m : Mat) (st : St) (t : Tag)
    (pv : Option LineInfo) (h : tagOf v cfg src pi m st = some (t, pv)) :
    t.isIgnored = true ∨
    ∃ nameC ∈ m.caps, ∃ tagC ∈ m.caps, t.name = ⟨nameC.sb, nameC.eb⟩ ∧
      t.range = ⟨min tagC.sb nameC.sb, max tagC.eb nameC.eb⟩ ∧ t.spanS = nameC.sp ∧ t.spanE = nameC.ep := by
  have hmem := capLoop_mem cfg pi m.caps
  unfold tagOf at h
  generalize capLoop cfg pi m.caps = a at h hmem
  obtain ⟨name, docs, tag, stid, isDef, adj, ignored⟩ := a
  cases name with
  | none => simp at h
  | some nameNode =>
    have hn := hmem.1 nameNode rfl
    cases tag with
    | some tagNode =>
      have ht := hmem.2 tagNode rfl
      simp only at h
      split at h
      · simp at h
      · split at h
        · simp at h
        · simp only [Option.some.injEq, Prod.mk.injEq] at h
          right
          refine ⟨nameNode, hn, tagNode, ht, ?_⟩
          rw [← h.1]; exact ⟨rfl, rfl, rfl, rfl⟩
    | none =>
      simp only at h
      split at h
      · simp only [Option.some.injEq, Prod.mk.injEq] at h
        left; rw [← h.1]; simp [Tag.ignored, Tag.isIgnored]
      · simp at h

theorem arrivals_from_tagOf (v : Variant) (cfg : Cfg) (src : Bytes) : ∀ (ms : List Mat) (st : St),
    ∀ a ∈ arrivals v cfg src ms st, ∃ m ∈ ms, ∃ st' pv, tagOf v cfg src (cfg.pats[m.pat]?.getD {}) m st' = some (a.1, pv) := by
  intro ms
  induction ms with
  | nil => intro st a ha; simp [arrivals] at ha
  | cons m ms ih =>
    intro st a ha
    simp only [arrivals, List.mem_append] at ha
    rcases ha with ha | ha
    · generalize hst1 : ({ st with queue := (flushReadyP st.queue.length st.queue).2 } : St) = st1 at ha
      unfold inserted at ha
      by_cases hp : m.pat < cfg.tagsFrom
      · simp [hp] at ha
      · simp only [hp, if_false] at ha
        cases ht : tagOf v cfg src (cfg.pats[m.pat]?.getD {}) m st1 with
        | none => simp [ht] at ha
        | some x =>
          obtain ⟨t, pv⟩ := x
          simp [ht] at ha
          refine ⟨m, List.mem_cons_self, st1, pv, ?_⟩
          rw [ha]; exact ht
    · obtain ⟨m', hm', rest⟩ := ih _ a ha
      exact ⟨m', List.mem_cons_of_mem _ hm', rest⟩


end TsVerif.C18
