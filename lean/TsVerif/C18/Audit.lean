import TsVerif.C18.Props
#print axioms TsVerif.C18.cache_correct
#print axioms TsVerif.C18.cache_reset_ok
#print axioms TsVerif.C18.queue_insert_sorted
