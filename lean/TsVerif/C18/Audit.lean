import TsVerif.C18.Props
#print axioms TsVerif.C18.line_range_spec
#print axioms TsVerif.C18.line_spec_bounds
#print axioms TsVerif.C18.utf16_len_append_partial
#print axioms TsVerif.C18.utf16_spec_append
#print axioms TsVerif.C18.utf16_len_eq_spec
#print axioms TsVerif.C18.cache_correct
#print axioms TsVerif.C18.cache_reset_ok
#print axioms TsVerif.C18.cache_correct_utf16
#print axioms TsVerif.C18.queue_insert_sorted
#print axioms TsVerif.C18.queue_sorted_dedup_partial
#print axioms TsVerif.C18.queue_lowest_pattern_wins
#print axioms TsVerif.C18.drain_skips_ignored
#print axioms TsVerif.C18.queue_lowest_pattern_run_partial
#print axioms TsVerif.C18.local_filter_spec
#print axioms TsVerif.C18.local_filter_iff
