import TsVerif.C18.Lemmas
/-!
# C18 — Tags describe the source consistently (ranges, lines, columns, docs)

Property text: "Every emitted tag has its name range inside its tag range inside the text, a line
range that is the trimmed line containing the name (cut at the length limit on a character
boundary), a row/column span equal to the name's position, and a UTF-16 column range equal to the
UTF-16 length of the line prefix and of the name. Docs are the text of the captured doc nodes after
the configured stripping, and names that resolve to a local definition in an enclosing scope are
omitted where the query asks for it."

Theorems are about the hand ports in `Model.lean` (tied to the Rust code by correspondence on every
run); the same spec functions (`lineSpec`, `utf16Spec`, `posOf`) are what `judgeTag` evaluates on
the real tags.

Clause map (property text of /verif/properties.jsonl, phrase by phrase).  Status: **proved** = ∀-theorem about the
port, no hypothesis beyond well-formed inputs; **partial** = proved under the stated hypothesis (witness for dropping
it in this file); **judged only** = no theorem, decided on every real tag by the Lean judge.  EVERY theorem speaks
about the hand ports of `Model.lean`; the ports are tied to tags.rs / c_lib.rs / LossyUtf8 by correspondence on the
explored inputs (sampled), never by proof.

1. "Every emitted tag has its name range inside its tag range inside the text" —
   `tag_ranges_and_span` (**partial**: assumes every capture of every match is a node range of the text,
   `sb ≤ eb ≤ |src|` — a property of the parse tree, C02): every tag the loop emits is an ignore placeholder or has
   `range.s ≤ name.s ≤ name.e ≤ range.e ≤ |src|`.  The tag range is the HULL of tag node and name node, so no
   "ancestor-or-equal" assumption is needed; the name may lie inside, on, in FRONT of or BEHIND the tagged node
   (example at the end of this file; all four placements are exercised on real tags, obligation `inputs:every-name-placement`).  Placeholders: `drain_skips_ignored` (**proved** for the repaired
   drain: none is emitted).  Judge clause `range` / `ignored-emitted` on every real tag.
2. "a line range that is the trimmed line containing the name (cut at the length limit on a character boundary)" —
   `line_range_spec` (**partial**: the row has a non-blank byte; implied by a non-blank name start; witness: all-blank
   row), `line_spec_bounds` (**proved**), `line_range_char_boundary` (**partial**: the row is well-formed UTF-8 — for an
   ill-formed row "character boundary" is the end of the longest well-formed prefix, by definition of `lineSpec`),
   `line_range_contains_name_start` (**partial**: name start non-blank and inside the untrimmed cut);
   that a tag carries the line range of ITS OWN row: `cache_correct`, second component (**partial**: single-row
   names; witness = finding C18-cache-after-multirow-name, repaired).  GAP: the row start is taken as
   `name.start − column`, i.e. the name node's column is trusted (see 3).  Judge clause `line`.
3. "a row/column span equal to the name's position" — `tag_ranges_and_span` (**partial**: assumes the points of
   each capture are the row/column of its bytes, `sp = posOf src sb`, `ep = posOf src eb` — tree/text consistency,
   C02/C10): `span = posOf name.start .. posOf name.end`.  The port copies the name node's points, so without that
   assumption the clause is **judged only** (`span`, recomputed from the text).
4. "a UTF-16 column range equal to the UTF-16 length of the line prefix and of the name" — `cache_correct`,
   `cache_reset_ok`, `cache_correct_utf16_fixed`, `utf16_column_prefix` (**partial**: names start and end at character
   boundaries of a well-formed row prefix — intrinsic, a cut inside an ill-formed part is not additive even for the
   spec — and single-row names); length function: `utf16_len_fixed_eq_spec`, `utf16_len_append` (**proved**, repaired
   `LossyUtf8`), `utf16_len_valid_prefix` (**proved**), `utf16_len_append_partial` (pinned code, **partial** with
   counterexamples).  GAP: `cacheFold` models the sequence of `prev_line_info` updates for single-row names; that the
   loop feeds the cache exactly with the non-omitted tags, and the repaired branch `prev := none` after a multi-row
   name, are covered by correspondence and judge only.  Judge clause `utf16`.
5. "Docs are the text of the captured doc nodes after the configured stripping" — `docs_spec`, `docs_select_spec`,
   `docs_chain_maximal` (**proved**, for every strip FUNCTION).  GAP: the regex → function step (Rust `regex`) is a
   parameter; the two regex shapes of the check's queries are tied by correspondence only.  Which match's docs a
   name node gets: `queue_lowest_pattern_wins`, `queue_lowest_within_residence` (**proved**),
   `queue_release_strict`, `queue_touching_head_replaced` (**proved**, round 11: a queued tag is not released while
   the next name starts at or before its end, so a later lower-index match still replaces it),
   `queue_lowest_pattern_run_partial` (**partial**: arrival order).  Judge clause `docs`.
6. "names that resolve to a local definition in an enclosing scope are omitted where the query asks for it" —
   `local_filter_spec`, `local_filter_iff` (**proved**), `record_def_spec`, `record_scopes_shape` (**proved**).
   Reading fixed by the code: "enclosing" = range containment, innermost = most recently pushed, walking outwards
   stops after the first scope that does not inherit; "where the query asks" = `(#is-not? local)` on the pattern
   (re-derived by the harness, correspondence only).  Judge clause `local`.
Not in the property's sentence but anchored: queue order/dedup — `queue_insert_sorted`, `queue_batches_sorted`,
`queue_emitted_are_arrivals`, `queue_sorted_of_no_late`, `no_late_of_arrival_order`, `queue_sorted_dedup_partial`
(global order is FALSE without a hypothesis: known finding C18-late-match-duplicate); kinds / `is_definition`:
**judged only** (`kind`) + correspondence of the ported `mkCfg`.

Boundary conventions the English leaves open (read off the code, see `lineSpec`): whitespace = ASCII
space/TAB/LF/FF/CR; limit 180 bytes; a row not newline-terminated within the limit is cut at its first
ill-formed byte even if shorter than the limit; ill-formed UTF-8 counts one U+FFFD per maximal
ill-formed subpart (`utf16Spec`); doc adjacency = END row of the earlier node + 1 ≥ START row of the later one.
-/
set_option linter.unusedSimpArgs false
namespace TsVerif.C18

/-! ## `line_range` -/

/-- **line_range_spec.**  For a start byte whose row (starting at `startByte - col`) contains a
non-whitespace byte — in particular whenever the name itself starts with one — the port of
`line_range` returns exactly `lineSpec`: the line containing the start byte, ASCII whitespace
trimmed at both ends, cut after at most `limit` bytes at the end of the longest well-formed UTF-8
prefix of the first `limit` bytes (`valid_up_to`).
The hypothesis is what the proof forces: on an all-whitespace row the code's leading trim runs
across the newline into later lines (witness below); tags cannot name such a row. -/
theorem line_range_spec (text : Bytes) (startByte col limit : Nat)
    (h : ∃ b ∈ (text.drop (startByte - col)).takeWhile (· != 10), isWs b = false) :
    lineRange text startByte col limit = lineSpec text (startByte - col) limit := by
  rw [lineRange_core, lineSpec_core, core_eq _ _ h]

/-- Non-vacuity: `"  foo \nbar"`, start byte 2 column 2 — the row contains `f`. -/
example : ∃ b ∈ (([32, 32, 102, 111, 111, 32, 10, 98, 97, 114] : Bytes).drop (2 - 2)).takeWhile (· != 10), isWs b = false :=
  ⟨102, by decide, by decide⟩

/-- Witness for the dropped hypothesis (OPEN as a full-strength statement: `lineRange = lineSpec`
for every row): on the all-blank first row of `" \nab"` the code answers `[2,4)`, a range on the
NEXT row, while the trimmed first row is the empty range `[1,1)`. -/
example : lineRange [32, 10, 97, 98] 0 0 180 = ⟨2, 4⟩ ∧ lineSpec [32, 10, 97, 98] 0 180 = ⟨1, 1⟩ := by
  constructor <;> simp [lineRange, lineSpec, isWs, scan, stepAt, width, units]

/-- **line_spec_bounds.**  `lineSpec` stays inside the row that starts at `ls0` and is at most
`limit` bytes long. -/
theorem line_spec_bounds (text : Bytes) (ls0 limit : Nat) :
    let r := lineSpec text ls0 limit
    ls0 ≤ r.s ∧ r.s ≤ r.e ∧ r.e ≤ ls0 + ((text.drop ls0).takeWhile (· != 10)).length ∧ r.e - r.s ≤ limit := by
  simp only [lineSpec]
  generalize (text.drop ls0).takeWhile (· != 10) = line
  have h1 := length_takeWhile_le' isWs line
  generalize hcut : (if (decide (line.length < (text.drop ls0).length) &&
      decide ((line.drop (line.takeWhile isWs).length).length < limit)) = true
      then line.drop (line.takeWhile isWs).length
      else ((line.drop (line.takeWhile isWs).length).take limit).take
        (scan ((line.drop (line.takeWhile isWs).length).take limit)).validUpTo) = cut
  have hc : cut.length ≤ line.length - (line.takeWhile isWs).length ∧ cut.length ≤ limit := by
    rw [← hcut]
    split
    · rename_i hc; simp at hc; simp [List.length_drop]; omega
    · simp [List.length_take, List.length_drop]; omega
  have hk : (cut.reverse.dropWhile isWs).length ≤ cut.length := by
    have := length_dropWhile_le' isWs cut.reverse
    simpa using this
  omega

/-! ## UTF-16 length (`LossyUtf8`, `utf16_len`) -/

/-- **utf16_len_append_partial.**  `utf16_len` is additive when both parts are well-formed UTF-8
(i.e. the split is a character boundary of a well-formed line).
OPEN (false for the pinned code, see the witnesses): additivity at every character boundary with an
arbitrary right part, which is what `utf16Spec` — the `from_utf8_lossy` reading — satisfies
(`utf16_spec_append`). -/
theorem utf16_len_append_partial (a b : Bytes) (ha : validUtf8 a = true) (hb : validUtf8 b = true) :
    utf16Len (a ++ b) = utf16Len a + utf16Len b := by
  have ha' : (scan a).err = none := by simpa [validUtf8] using ha
  have hb' : (scan b).err = none := by simpa [validUtf8] using hb
  have hab : (scan (a ++ b)).err = none := by rw [scan_append a b ha']; exact hb'
  rw [utf16Len_valid _ hab, utf16Len_valid _ ha', utf16Len_valid _ hb', scan_append a b ha']

example : validUtf8 [0xC3, 0xA9] = true ∧ validUtf8 [0xF0, 0x9F, 0x98, 0x80] = true := by
  constructor <;> simp [validUtf8, scan, stepAt, width, isCont, second4ok]

/-- Witnesses for the dropped hypothesis (the LossyUtf8 defect, C17): after the well-formed `"a"`,
a lone `0xFF` is dropped (its replacement character would be the last chunk), and a truncated
`0xE2` makes the whole chunk — the `a` included — disappear. -/
example : utf16Len ([97] ++ [0xFF]) = 1 ∧ utf16Len [97] + utf16Len [0xFF] = 2 := by
  constructor <;> simp [utf16Len, lossyUnits, scan, stepAt, width, isCont, units]
example : utf16Len ([97] ++ [0xE2]) = 0 ∧ utf16Len [97] = 1 := by
  constructor <;> simp [utf16Len, lossyUnits, scan, stepAt, width, isCont, units]

/-- **utf16_spec_append.**  The spec length (lossy decoding à la `from_utf8_lossy`) is additive at
every character boundary, whatever follows. -/
theorem utf16_spec_append (a b : Bytes) (ha : validUtf8 a = true) :
    utf16Spec (a ++ b) = utf16Spec a + utf16Spec b :=
  utf16Spec_append_valid a b (by simpa [validUtf8] using ha)

/-- **utf16_len_eq_spec.**  On well-formed UTF-8 the port of `utf16_len` equals the spec
(Σ `char::len_utf16`), so the judge's `utf16Spec` and the code agree there. -/
theorem utf16_len_eq_spec (a : Bytes) (ha : validUtf8 a = true) : utf16Len a = utf16Spec a := by
  have ha' : (scan a).err = none := by simpa [validUtf8] using ha
  rw [utf16Len_valid _ ha', utf16Spec_valid _ ha']

/-! ## UTF-16 columns: the `prev_line_info` cache -/

/-- **cache_correct.**  Fold the port of the `prev_line_info` block over ANY sequence of
single-row names (rows and columns in any order: increasing, decreasing, changing rows), where a
row determines its line start (`o.ls = rowLs o.row`) and the length function `f` is additive at the
ends of each name (`OccOK`).  Then every tag gets `utf16_column_range = f(line prefix) ..
f(line prefix ++ name)` and the `line_range` of its own row — i.e. reuse of the cached column when
the column does not decrease, recomputation from the line start when it decreases or the row
changes (`cache_reset_ok` is the second half made explicit). -/
theorem cache_correct (f : Bytes → Nat) (src : Bytes) (Bd : Nat → Nat → Prop) (limit : Nat)
    (rowLs : Nat → Nat) (os : List Occ)
    (hos : ∀ o ∈ os, o.ls = rowLs o.row ∧ OccOK f src Bd o) :
    (cacheFold f src limit none os).map (fun co => (co.u16, co.line)) =
      os.map (fun o => ((⟨f (slice src o.ls o.name.s), f (slice src o.ls o.name.e)⟩ : R),
                        lineRange src o.ls 0 limit)) :=
  cache_fold_ok f src Bd limit rowLs os none (fun _ h => by cases h) hos

/-- **cache_reset_ok.**  Whatever is cached, when the row differs or the column decreased the
start column is recomputed from the line start `name.s - column`. -/
theorem cache_reset_ok (f : Bytes → Nat) (src : Bytes) (limit : Nat) (prev : Option LineInfo)
    (name : R) (sp ep : Pt)
    (h : ∀ info, prev = some info → info.pos.row ≠ sp.row ∨ sp.col < info.pos.col) :
    (cacheStep f src limit prev name sp ep).u16.s = f (slice src (name.s - sp.col) name.s) := by
  cases prev with
  | none => simp [cacheStep, Option.filter]
  | some info =>
    rcases h info rfl with hr | hc
    · have : (info.pos.row == sp.row) = false := by simp [hr]
      simp [cacheStep, Option.filter, this]
    · have : ¬ info.pos.col ≤ sp.col := by omega
      by_cases hr : (info.pos.row == sp.row) = true <;> simp [cacheStep, Option.filter, hr, this]

/-- `utf16_len` may be cut at well-formed prefixes of a line. -/
theorem cut_ok_utf16 (src : Bytes) (ls b c : Nat) (h1 : ls ≤ b) (h2 : b ≤ c)
    (hb : validUtf8 (slice src ls b) = true) (hc : validUtf8 (slice src ls c) = true) :
    CutOK utf16Len src ls b c := by
  unfold CutOK
  have hs := slice_append src ls b c h1 h2
  have hm : validUtf8 (slice src b c) = true := valid_suffix _ _ hb (by rw [← hs]; exact hc)
  rw [hs, utf16_len_append_partial _ _ hb hm]

/-- **cache_correct_utf16.**  The instance the property is about: if every name on the explored
rows starts and ends at a character boundary of its row (the row prefixes up to the name's start
and end are well-formed UTF-8; names are single-row, `o.ls = rowLs o.row`), then for tags
processed in ANY order the cache yields
`utf16_column_range = utf16Spec(row prefix) .. utf16Spec(row prefix ++ name)`.
What is missing for full strength (OPEN): ill-formed prefixes (there the pinned `LossyUtf8` is not
additive, see the witnesses above) and multi-row names (witness below). -/
theorem cache_correct_utf16 (src : Bytes) (limit : Nat) (rowLs : Nat → Nat) (os : List Occ)
    (hos : ∀ o ∈ os, o.ls = rowLs o.row ∧ o.ls ≤ o.name.s ∧ o.name.s ≤ o.name.e ∧
             validUtf8 (slice src o.ls o.name.s) = true ∧ validUtf8 (slice src o.ls o.name.e) = true) :
    (cacheFold utf16Len src limit none os).map (·.u16) =
      os.map (fun o => (⟨utf16Spec (slice src o.ls o.name.s), utf16Spec (slice src o.ls o.name.e)⟩ : R)) := by
  have h := cache_correct utf16Len src (fun ls c => validUtf8 (slice src ls c) = true) limit rowLs os
    (fun o ho => by
      obtain ⟨h0, h1, h2, h3, h4⟩ := hos o ho
      exact ⟨h0, h1, h2, h3, cut_ok_utf16 src _ _ _ h1 h2 h3 h4,
             fun c hc hv => cut_ok_utf16 src _ _ _ (by omega) hc h4 hv⟩)
  have h' := congrArg (List.map Prod.fst) h
  simp only [List.map_map] at h'
  rw [show (fun co : CacheOut => co.u16) = Prod.fst ∘ (fun co => (co.u16, co.line)) from rfl, h']
  apply List.map_congr_left
  intro o ho
  obtain ⟨_, _, _, h3, h4⟩ := hos o ho
  simp [utf16_len_eq_spec _ h3, utf16_len_eq_spec _ h4]

/-- Non-vacuity of `cache_correct_utf16`: `"é = 'é'; b"` — names `'é'` [5,9) and `b` [11,12) on row 0. -/
example :
    let src : Bytes := [0xC3, 0xA9, 32, 61, 32, 39, 0xC3, 0xA9, 39, 59, 32, 98]
    ∀ o ∈ ([⟨⟨5, 9⟩, 0, 0⟩, ⟨⟨11, 12⟩, 0, 0⟩] : List Occ), o.ls = (fun _ => 0) o.row ∧ o.ls ≤ o.name.s ∧ o.name.s ≤ o.name.e ∧
      validUtf8 (slice src o.ls o.name.s) = true ∧ validUtf8 (slice src o.ls o.name.e) = true := by
  intro src o ho
  simp at ho
  rcases ho with rfl | rfl <;> simp [src, slice, validUtf8, scan, stepAt, width, isCont]

/-- Witness for the dropped "single-row names" hypothesis: a name spanning rows 0–1 of
`"(a\nb) c;"` (`[0,5)`, ending at row 1 column 2) leaves `utf16_column = 5` and the `line_range` of
row 0 in the cache; the next name `c` at row 1 column 3 then gets column 6 instead of 3 and the
line of row 0 instead of `[3,8)`.  Reproduced on the real code with `(parenthesized) @name`
(finding C18-cache-after-multirow-name, corpus/c18.txt; repair fixes/C18-cache-multirow.diff =
model variant `multiRowFixed`). -/
example :
    let src : Bytes := [40, 97, 10, 98, 41, 32, 99, 59]
    let c1 := cacheStep utf16Len src 180 none ⟨0, 5⟩ ⟨0, 0⟩ ⟨1, 2⟩
    let c2 := cacheStep utf16Len src 180 (some c1.info) ⟨6, 7⟩ ⟨1, 3⟩ ⟨1, 4⟩
    c2.u16 = ⟨6, 7⟩ ∧ c2.line = ⟨0, 2⟩ ∧ lineSpec src 3 180 = ⟨3, 8⟩ := by
  simp [cacheStep, Option.filter, utf16Len, lossyUnits, slice, scan, stepAt, width, units, lineRange, lineSpec, isWs]

/-! ## The tag queue -/

/-- **queue_insert_sorted.**  `binary_search_by_key` + insert/replace keeps the queue strictly
sorted by `(name_range.end, name_range.start)` — hence at most one entry per name range. -/
theorem queue_insert_sorted (tag : Tag) (pat : Nat) (q : Queue) (h : QSorted q) :
    QSorted (qInsert tag pat q) := qInsert_sorted tag pat q h

/-- **queue_sorted_dedup_partial.**  Run the port of the whole `TagsIter::next` loop (`runTags`: flush
ready entries, process the next match, insert/replace, finally drain) on ANY configuration, source and
match sequence in which a later match's name never ends before an earlier match's name starts
(`names cfg ms` pairwise `a.s ≤ b.e` — the arrival discipline the pop condition relies on).  Then the
emitted tags are strictly increasing in `(name_range.end, name_range.start)` — so they leave in that
order and there is at most one per name range — and every emitted tag is named by one of the matches.
OPEN (false for the code without the arrival hypothesis, witness below): the same for every match
sequence. -/
theorem queue_sorted_dedup_partial (v : Variant) (cfg : Cfg) (src : Bytes) (ms : List Mat)
    (h : (names cfg ms).Pairwise (fun a b => a.s ≤ b.e)) :
    (runTags v cfg src ms).Pairwise TagLt ∧ ∀ x ∈ runTags v cfg src ms, x.name ∈ names cfg ms := by
  have := run_sorted v cfg src ms (initSt src) (by simp [initSt, QSorted]) (by simp [initSt]) h
  refine ⟨this.1, fun x hx => ?_⟩
  rcases this.2 x hx with ⟨y, hy, _⟩ | ⟨r, hr, hxr⟩
  · simp [initSt] at hy
  · rw [hxr]; exact hr

/-- Non-vacuity and witness.  Configuration: capture 0 = `@name`, capture 1 = a reference kind.
Names arriving as `[4,7) [20,23) [30,31)` satisfy the hypothesis; arriving as `[4,7) [20,23) [0,1)`
they do not, and the code emits `[4,7)` (flushed when `[20,23)` arrived) BEFORE `[0,1)`. -/
example : (names wcfg [wm 4 7, wm 20 23, wm 30 31]).Pairwise (fun a b => a.s ≤ b.e) := by
  simp [names, nameOf, wcfg, wm, capLoop, Cfg.lookup]
example : (runTags {} wcfg [] [wm 4 7, wm 20 23, wm 0 1]).map (·.name) = [⟨4, 7⟩, ⟨0, 1⟩, ⟨20, 23⟩] := by
  simp [runTags, run, initSt, wcfg, wm, flushReady, ready, processMatch, processTag, tagOf, capLoop, Cfg.lookup, qInsert, key, keyLt,
    drain, cacheStep, utf16LenV, utf16Len, lossyUnits, slice, lineRange, docsOf, docsOfP, docTexts, joinDocs, Tag.isIgnored, usizeMax, isLocal,
    Option.filter, scan, maxLineLen]

/-- **queue_lowest_pattern_wins.**  After an insertion the entry for the inserted name range carries
a pattern index ≤ the inserted one, and no entry's pattern index ever grows: the tag that finally
leaves for a name range is one with the lowest pattern index among the matches inserted for it
while it was queued (the first such match, since replacement needs a strictly lower index). -/
theorem queue_lowest_pattern_wins (tag : Tag) (pat : Nat) (q : Queue) :
    (∃ x ∈ qInsert tag pat q, key x.1 = key tag ∧ x.2 ≤ pat) ∧
    ∀ y ∈ q, ∃ x ∈ qInsert tag pat q, key x.1 = key y.1 ∧ x.2 ≤ y.2 :=
  qInsert_pat_le tag pat q

/-- The fix variant of the drain never returns an ignored placeholder; the pinned code does
(finding C18-ignored-placeholder-emitted): witness `a 1` of grammar `lst`, reduced to the queue. -/
theorem drain_skips_ignored : ∀ (n : Nat) (q : Queue), ∀ x ∈ drain true n q, x.isIgnored = false := by
  intro n
  induction n with
  | zero => intro q x hx; simp [drain] at hx
  | succ n ih =>
    intro q x hx
    cases q with
    | nil => simp [drain] at hx
    | cons hd rest =>
      obtain ⟨t, p⟩ := hd
      simp only [drain] at hx
      split at hx
      · split at hx
        · exact ih rest x hx
        · rename_i hni
          rcases List.mem_cons.mp hx with rfl | hx
          · simpa using hni
          · exact ih rest x hx
      · split at hx
        · exact ih rest x hx
        · rename_i hni
          rcases List.mem_cons.mp hx with rfl | hx
          · simp at hni; simpa using hni
          · exact ih rest x hx

example : (drain false 1 [(Tag.ignored ⟨2, 3⟩, 0)]).map (·.isIgnored) = [true] := by
  simp [drain, ready, Tag.ignored, Tag.isIgnored]

/-- **queue_lowest_pattern_run_partial.**  The per-insertion fact lifted to the whole loop: under the
same arrival hypothesis as `queue_sorted_dedup_partial`, `runTags` is `runP` (the loop keeping the
pattern indices) with the indices forgotten, every emitted entry is one of the entries inserted
(`arrivals`), and its pattern index is minimal among ALL entries inserted for the same name range
during the run.  Without the hypothesis it is false for the real code: see the finding
C18-late-match-duplicate (a lower-index match arriving after its name range was flushed is
emitted as a second tag). -/
theorem queue_lowest_pattern_run_partial (v : Variant) (cfg : Cfg) (src : Bytes) (ms : List Mat)
    (h : (names cfg ms).Pairwise (fun a b => a.s ≤ b.e)) :
    runTags v cfg src ms = (runP v cfg src ms (initSt src)).map Prod.fst ∧
    ∀ e ∈ runP v cfg src ms (initSt src),
      e ∈ arrivals v cfg src ms (initSt src) ∧
      ∀ a ∈ arrivals v cfg src ms (initSt src), key a.1 = key e.1 → e.2 ≤ a.2 := by
  refine ⟨run_eq_P v cfg src ms (initSt src), fun e he => ?_⟩
  have := runP_lowest v cfg src ms (initSt src) (by simp [initSt, QSorted]) (by simp [initSt]) h e he
  refine ⟨?_, this.2.1⟩
  rcases this.1 with hq | ha
  · simp [initSt] at hq
  · exact ha

/-! ## What the loop guarantees for ARBITRARY arrival order -/

/-- **queue_batches_sorted** (unconditional).  For every configuration, source and match sequence the
emission is the concatenation of flush batches (one per `flushReady` call plus the final drain), and
every batch is strictly increasing in `(name_range.end, name_range.start)`. -/
theorem queue_batches_sorted (v : Variant) (cfg : Cfg) (src : Bytes) (ms : List Mat) :
    runTags v cfg src ms = (runB v cfg src ms (initSt src)).flatten ∧
    ∀ b ∈ runB v cfg src ms (initSt src), b.Pairwise TagLt :=
  ⟨run_eq_flatten v cfg src ms (initSt src),
   runB_sorted v cfg src ms (initSt src) (by simp [initSt, QSorted])⟩

/-- **queue_emitted_are_arrivals** (unconditional).  Every emitted entry is one of the entries the
matches inserted (tag and pattern index unchanged): the queue never invents or alters a tag. -/
theorem queue_emitted_are_arrivals (v : Variant) (cfg : Cfg) (src : Bytes) (ms : List Mat) :
    runTags v cfg src ms = (runP v cfg src ms (initSt src)).map Prod.fst ∧
    ∀ e ∈ runP v cfg src ms (initSt src), e ∈ arrivals v cfg src ms (initSt src) := by
  refine ⟨run_eq_P v cfg src ms (initSt src), fun e he => ?_⟩
  rcases runP_mem v cfg src ms (initSt src) e he with hq | ha
  · simp [initSt] at hq
  · exact ha

/-- **queue_sorted_of_no_late.**  The exact condition the pop rule needs: if no match arrives late
(`noLate`: every inserted entry's key exceeds the key of every entry popped before it — a
decidable property of the run, measured on every real run as `late=`), the whole emission is
strictly increasing (sorted, one tag per name range).  Together with `queue_batches_sorted`: the
only way order or dedup can fail is a late arrival, which then starts a new increasing run. -/
theorem queue_sorted_of_no_late (v : Variant) (cfg : Cfg) (src : Bytes) (ms : List Mat)
    (h : noLate v cfg src none ms (initSt src) = true) : (runTags v cfg src ms).Pairwise TagLt :=
  (run_sorted_noLate v cfg src ms (initSt src) none (by simp [initSt, QSorted]) (by simp [initSt]) h).1

/-- **no_late_of_arrival_order.**  The name-based hypothesis of the `_partial` theorems implies
`noLate`; so `queue_sorted_dedup_partial`'s order claim is a corollary of `queue_sorted_of_no_late`. -/
theorem no_late_of_arrival_order (v : Variant) (cfg : Cfg) (src : Bytes) (ms : List Mat)
    (h : (names cfg ms).Pairwise (fun a b => a.s ≤ b.e)) : noLate v cfg src none ms (initSt src) = true :=
  noLate_of_arrival v cfg src ms (initSt src) none (by simp [initSt, QSorted]) (by simp [initSt]) h
    (by intro b hb; cases hb)

example (v : Variant) (cfg : Cfg) (src : Bytes) (ms : List Mat)
    (h : (names cfg ms).Pairwise (fun a b => a.s ≤ b.e)) : (runTags v cfg src ms).Pairwise TagLt :=
  queue_sorted_of_no_late v cfg src ms (no_late_of_arrival_order v cfg src ms h)

/-- Witness that the unconditional GLOBAL statement is false (the real stream of finding
C18-late-match-duplicate: `x = f(1) + g(2) + 3;`, patterns 0 = definition finishing at the far `3`,
1 = call, 2 = identifier): `x` [0,1) leaves with pattern 2, is flushed when `g` arrives, and the
pattern-0 match for the same node arrives late — emitted again, after `f`, with the lower index. -/
example : (runP {} wcfg3 [] [wmp 2 0 1, wmp 1 4 5, wmp 2 4 5, wmp 1 11 12, wmp 2 11 12, wmp 0 0 1] (initSt [])).map
      (fun e => (e.1.name, e.2)) = [(⟨0, 1⟩, 2), (⟨4, 5⟩, 1), (⟨0, 1⟩, 0), (⟨11, 12⟩, 1)] ∧
    noLate {} wcfg3 [] none [wmp 2 0 1, wmp 1 4 5, wmp 2 4 5, wmp 1 11 12, wmp 2 11 12, wmp 0 0 1] (initSt []) = false := by
  constructor <;>
  simp [noLate, newBound, bLt, inserted, runP, initSt, wcfg3, wcfg, wm, wmp, flushReadyP, ready, processMatch, processTag, tagOf,
    capLoop, Cfg.lookup, qInsert, key, keyLt, drainP, cacheStep, utf16LenV, utf16Len, lossyUnits, slice, lineRange, docsOf, docsOfP, docTexts,
    joinDocs, Tag.isIgnored, usizeMax, isLocal, Option.filter, scan, maxLineLen]

/-! ## Local scopes -/

/-- **local_filter_spec.**  For every name, range and scope stack, the port of the
`name_must_be_non_local` walk answers exactly the spec: among the scopes that enclose the name (most
recently pushed first), walking outwards while `inherits` holds — up to and including the first scope
that does not inherit — some scope holds a definition with the same text. -/
theorem local_filter_spec (name : Bytes) (r : R) (scopes : Scopes) :
    isLocal name r scopes = isLocalSpec name r scopes := isLocal_eq_spec name r scopes

/-- **local_filter_iff.**  The spec in words: the name is omitted iff the enclosing scopes split as
`pre ++ s :: post` with every scope of `pre` inheriting and `s` defining the same text. -/
theorem local_filter_iff (name : Bytes) (r : R) (scopes : Scopes) :
    isLocal name r scopes = true ↔
      ∃ pre s post, scopes.filter (·.contains r) = pre ++ s :: post ∧
        (∀ x ∈ pre, x.inherits = true) ∧ s.defs.any (· == name) = true := by
  rw [isLocal_eq_spec]; exact visible_any_iff _ _

/-- Non-vacuity: `x` defined in the outer scope, seen from an inheriting inner scope (omitted) and
from a non-inheriting one (kept). -/
example : isLocal [120] ⟨5, 6⟩ [⟨true, ⟨4, 8⟩, []⟩, ⟨false, ⟨0, 10⟩, [[120]]⟩] = true ∧
          isLocal [120] ⟨5, 6⟩ [⟨false, ⟨4, 8⟩, []⟩, ⟨false, ⟨0, 10⟩, [[120]]⟩] = false := by decide

/-- **record_def_spec.**  Recording a `@local.definition`: either no scope contains its range and
nothing changes, or the stack splits as `pre ++ s :: post` where no scope of `pre` (the more recently
pushed ones) contains the range, `s` does, and exactly `s` gains the definition (at the end of its
list).  I.e. "the most recently pushed scope that contains it, and nowhere else". -/
theorem record_def_spec (name : Bytes) (r : R) (scopes : Scopes) :
    ((∀ s ∈ scopes, s.contains r = false) ∧ addDef name r scopes = scopes) ∨
    ∃ pre s post, scopes = pre ++ s :: post ∧ (∀ x ∈ pre, x.contains r = false) ∧ s.contains r = true ∧
      addDef name r scopes = pre ++ { s with defs := s.defs ++ [name] } :: post :=
  addDef_eq name r scopes

/-- **record_scopes_shape.**  Processing the captures of a locals-pattern match (`processLocal` =
fold of `recordStep`: push a scope for `@local.scope`, `addDef` for `@local.definition`, nothing
otherwise) never drops, reorders or resizes a scope: the (range, inherits) list of the new stack is
the `@local.scope` captures of this match, most recent first, in front of the old list.  (The code
never pops a scope; enclosure is decided by range containment alone — `local_filter_spec`.) -/
theorem record_scopes_shape (cfg : Cfg) (src : Bytes) (pi : PatInfo) (caps : List Cap) (sc : Scopes) :
    (processLocal cfg src pi caps sc).map scopeShape =
      ((caps.filter (fun c => some c.idx == cfg.scopeIdx)).reverse.map
          (fun c => ((⟨c.sb, c.eb⟩ : R), pi.inherits))) ++ sc.map scopeShape :=
  processLocal_shape cfg src pi caps sc

/-! ## `utf16_len` over the repaired `LossyUtf8` (the code as committed) -/

/-- **utf16_len_fixed_eq_spec.**  For EVERY byte string the port of `utf16_len` over the repaired
`LossyUtf8` equals the spec (`from_utf8_lossy` reading): one U+FFFD per maximal ill-formed subpart,
including a final one and a truncated final sequence. -/
theorem utf16_len_fixed_eq_spec (b : Bytes) : utf16LenF b = utf16Spec b := by
  unfold utf16LenF; rw [lossyF_eq_spec]; simp

/-- **utf16_len_append** (full strength, for the repaired code): additive at every character
boundary, whatever follows.  (`utf16_len_append_partial` is what held for the code pinned before the
repair; its counterexamples no longer apply.) -/
theorem utf16_len_append (a b : Bytes) (ha : validUtf8 a = true) :
    utf16LenF (a ++ b) = utf16LenF a + utf16LenF b := by
  simp only [utf16_len_fixed_eq_spec]; exact utf16_spec_append a b ha

/-- **cache_correct_utf16_fixed.**  `cache_correct` for the repaired code: names that start and end at
character boundaries of their row get `utf16Spec(prefix) .. utf16Spec(prefix ++ name)` in any
processing order — no assumption on the rest of the row (it may be ill-formed). -/
theorem cache_correct_utf16_fixed (src : Bytes) (limit : Nat) (rowLs : Nat → Nat) (os : List Occ)
    (hos : ∀ o ∈ os, o.ls = rowLs o.row ∧ o.ls ≤ o.name.s ∧ o.name.s ≤ o.name.e ∧
             validUtf8 (slice src o.ls o.name.s) = true ∧ validUtf8 (slice src o.ls o.name.e) = true) :
    (cacheFold utf16LenF src limit none os).map (·.u16) =
      os.map (fun o => (⟨utf16Spec (slice src o.ls o.name.s), utf16Spec (slice src o.ls o.name.e)⟩ : R)) := by
  have cut : ∀ ls b c, ls ≤ b → b ≤ c → validUtf8 (slice src ls b) = true → CutOK utf16LenF src ls b c := by
    intro ls b c h1 h2 hb
    unfold CutOK
    rw [slice_append src ls b c h1 h2, utf16_len_append _ _ hb]
  have h := cache_correct utf16LenF src (fun _ _ => True) limit rowLs os
    (fun o ho => by
      obtain ⟨h0, h1, h2, h3, h4⟩ := hos o ho
      exact ⟨h0, h1, h2, trivial, cut _ _ _ h1 h2 h3, fun c hc _ => cut _ _ _ (by omega) hc h4⟩)
  have h' := congrArg (List.map Prod.fst) h
  simp only [List.map_map] at h'
  rw [show (fun co : CacheOut => co.u16) = Prod.fst ∘ (fun co => (co.u16, co.line)) from rfl, h']
  apply List.map_congr_left
  intro o _
  simp [utf16_len_fixed_eq_spec]

/-! ## Docs -/

/-- **docs_spec.**  For every strip function (the regex is a parameter), source, `select-adjacent!` node
and list of `@doc` captures, the port of the docs pipeline equals the spec: the stripped texts (not-UTF-8
nodes skipped) of all doc captures — or, with `select-adjacent!`, of `selectSpec` — joined by `\n`.
Full strength. -/
theorem docs_spec (strip : Option (Bytes → Bytes)) (src : Bytes) (adj : Option Cap) (docs : List Cap) :
    docsOfP strip src adj docs = docsSpec strip src adj docs := docsOfP_eq_spec strip src adj docs

/-- **docs_select_spec.**  What `selectSpec` (hence the `docs_start_index` loop) selects: a suffix of the
doc captures that is a chain (every node — single- or multi-row — ENDS on the row just above the next one's FIRST row, or later;
the last one just above the selected node) and is the LONGEST such suffix. -/
theorem docs_select_spec (docs : List Cap) (row : Nat) :
    selectAdjacent docs row = selectSpec docs row ∧
    (∃ pre, docs = pre ++ selectSpec docs row) ∧ chainOK (selectSpec docs row) row = true ∧
    ∀ pre s, docs = pre ++ s → chainOK s row = true → s.length ≤ (selectSpec docs row).length :=
  ⟨selectAdjacent_eq_spec docs row, selectSpec_props docs row⟩

/-- Multi-row doc nodes: a comment on row 0, a block comment on rows 1–2, the node on row 3 — adjacency compares
the END row of the earlier node with the START row of the later one, so both are selected (a walk that
compared with the END row of the block comment would drop the first: seeded C18-r4). -/
example : (selectSpec [⟨5, 0, 5, ⟨0, 0⟩, ⟨0, 5⟩, false⟩, ⟨5, 6, 20, ⟨1, 0⟩, ⟨2, 8⟩, false⟩] 3).map (·.sb) = [0, 6] := by decide

/-- Non-vacuity: comments on rows 0, 2, 3 above a node on row 4 — the row-0 comment is cut off by the gap. -/
example : (selectSpec [⟨5, 0, 6, ⟨0, 0⟩, ⟨0, 6⟩, false⟩, ⟨5, 8, 14, ⟨2, 0⟩, ⟨2, 6⟩, false⟩,
                       ⟨5, 15, 21, ⟨3, 0⟩, ⟨3, 6⟩, false⟩] 4).map (·.sb) = [8, 15] := by decide

/-! ## Lowest pattern index within one residence (no arrival hypothesis) -/

/-- **queue_lowest_within_residence** (unconditional).  Run the loop on a queue whose entries carry the
arrivals merged into them since they entered the queue (`runH`/`qInsertH`: an arrival is appended to the
history of the queued entry with the same name range, or starts the history of a new entry).  For EVERY
configuration, source and match sequence: forgetting the histories gives exactly `runP` (hence
`runTags`); every emitted entry is one of the arrivals of its own residence, all of them have its name
range, and its pattern index is minimal among them; and every recorded arrival is an entry some match
inserted.  (A later residence of the same name range — finding C18-late-match-duplicate — has its own
history; across residences nothing is promised, and nothing holds.) -/
theorem queue_lowest_within_residence (v : Variant) (cfg : Cfg) (src : Bytes) (ms : List Mat) :
    projH (runH v cfg src ms (initSt src) []) = runP v cfg src ms (initSt src) ∧
    (∀ x ∈ runH v cfg src ms (initSt src) [],
       x.1 ∈ x.2 ∧ (∀ a ∈ x.2, key a.1 = key x.1.1 ∧ x.1.2 ≤ a.2) ∧
       ∀ a ∈ x.2, a ∈ arrivals v cfg src ms (initSt src)) := by
  refine ⟨runH_proj v cfg src ms (initSt src) [] (by simp [initSt, projH]), fun x hx => ?_⟩
  have h1 := runH_hist v cfg src ms (initSt src) [] (by simp) x hx
  refine ⟨h1.1, h1.2, fun a ha => ?_⟩
  rcases runH_src v cfg src ms (initSt src) [] (by simp [initSt, projH]) x hx a ha with ⟨y, hy, _⟩ | h
  · simp at hy
  · exact h

/-- Non-vacuity on the late-match stream: `x` [0,1) has two residences with histories
`[(x,2)]` and `[(x,0)]`; `f` [4,5) merges patterns 1 and 2 and leaves with 1. -/
example : (runH {} wcfg3 [] [wmp 2 0 1, wmp 1 4 5, wmp 2 4 5, wmp 1 11 12, wmp 2 11 12, wmp 0 0 1] (initSt []) []).map
      (fun x => (x.1.1.name, x.1.2, x.2.map (·.2))) =
    [(⟨0, 1⟩, 2, [2]), (⟨4, 5⟩, 1, [1, 2]), (⟨0, 1⟩, 0, [0]), (⟨11, 12⟩, 1, [1, 2])] := by
  simp [runH, flushReadyH, drainH, qInsertH, projH, inserted, initSt, wcfg3, wcfg, wm, wmp, ready, processMatch, processTag, tagOf,
    capLoop, Cfg.lookup, qInsert, key, keyLt, cacheStep, utf16LenV, utf16Len, lossyUnits, slice, lineRange, docsOf, docsOfP, docTexts,
    joinDocs, Tag.isIgnored, usizeMax, isLocal, Option.filter, scan, maxLineLen]



/-! ## Round 5: the statements as the lead words them -/

/-- **docs_chain_maximal.**  The selected docs are the MAXIMAL chain: if one more (earlier) doc node `d`
stands right in front of the selected suffix, prepending it breaks the chain condition. -/
theorem docs_chain_maximal (docs pre : List Cap) (d : Cap) (row : Nat)
    (h : docs = pre ++ d :: selectSpec docs row) : chainOK (d :: selectSpec docs row) row = false := by
  cases hc : chainOK (d :: selectSpec docs row) row with
  | false => rfl
  | true =>
    have := (selectSpec_props docs row).2.2 pre (d :: selectSpec docs row) h hc
    simp at this; omega

/-- helper: a decodable byte string is well-formed and its spec length is `unitsOf`. -/
theorem unitsOf_eq {b : Bytes} (h : (decodeUtf8 b.length b).isSome = true) :
    utf16Spec b = unitsOf b ∧ validUtf8 b = true := by
  cases hd : decodeUtf8 b.length b with
  | none => simp [hd] at h
  | some cps =>
    exact ⟨by simp [unitsOf, hd, (utf16Len_decode _ _ _ hd).2.2], decode_valid _ _ _ hd⟩

/-- **utf16_column_prefix.**  For tags (processed in any order) whose row prefix up to the name and whose
name decode as UTF-8, `utf16_column_range.start` = UTF-16 code units of the row prefix and `.end` = start +
units of the name — for the repaired `LossyUtf8` port and for the port pinned before the repair. -/
theorem utf16_column_prefix (src : Bytes) (limit : Nat) (rowLs : Nat → Nat) (os : List Occ)
    (hos : ∀ o ∈ os, o.ls = rowLs o.row ∧ o.ls ≤ o.name.s ∧ o.name.s ≤ o.name.e ∧
             (decodeUtf8 (slice src o.ls o.name.s).length (slice src o.ls o.name.s)).isSome = true ∧
             (decodeUtf8 (slice src o.name.s o.name.e).length (slice src o.name.s o.name.e)).isSome = true) :
    let expected := os.map (fun o => (⟨unitsOf (slice src o.ls o.name.s),
                                       unitsOf (slice src o.ls o.name.s) + unitsOf (slice src o.name.s o.name.e)⟩ : R))
    (cacheFold utf16LenF src limit none os).map (·.u16) = expected ∧
    (cacheFold utf16Len src limit none os).map (·.u16) = expected := by
  have hv : ∀ o ∈ os, o.ls = rowLs o.row ∧ o.ls ≤ o.name.s ∧ o.name.s ≤ o.name.e ∧
      validUtf8 (slice src o.ls o.name.s) = true ∧ validUtf8 (slice src o.ls o.name.e) = true := by
    intro o ho
    obtain ⟨h0, h1, h2, h3, h4⟩ := hos o ho
    refine ⟨h0, h1, h2, (unitsOf_eq h3).2, ?_⟩
    rw [slice_append src _ _ _ h1 h2]
    exact valid_append _ _ (unitsOf_eq h3).2 (unitsOf_eq h4).2
  have hexp : os.map (fun o => (⟨utf16Spec (slice src o.ls o.name.s), utf16Spec (slice src o.ls o.name.e)⟩ : R)) =
      os.map (fun o => (⟨unitsOf (slice src o.ls o.name.s),
                         unitsOf (slice src o.ls o.name.s) + unitsOf (slice src o.name.s o.name.e)⟩ : R)) := by
    apply List.map_congr_left
    intro o ho
    obtain ⟨h0, h1, h2, h3, h4⟩ := hos o ho
    rw [slice_append src _ _ _ h1 h2, utf16_spec_append _ _ (unitsOf_eq h3).2, (unitsOf_eq h3).1, (unitsOf_eq h4).1]
  intro expected
  exact ⟨by rw [cache_correct_utf16_fixed src limit rowLs os hv]; exact hexp,
         by rw [cache_correct_utf16 src limit rowLs os hv]; exact hexp⟩


/-- **utf16_len_valid_prefix.**  For a VALID UTF-8 byte string (the spec decoder `decodeUtf8`, Unicode
Table 3-7, yields scalar values `cps`) the port of `utf16_len` — over the pinned and over the repaired
`LossyUtf8` — equals the number of UTF-16 code units of the decoding: 1 per BMP scalar, 2 per
supplementary scalar. -/
theorem utf16_len_valid_prefix (b : Bytes) (cps : List Nat) (h : decodeUtf8 b.length b = some cps) :
    utf16Len b = utf16Units cps ∧ utf16LenF b = utf16Units cps :=
  ⟨(utf16Len_decode _ b cps h).1, (utf16Len_decode _ b cps h).2.1⟩

/-- Non-vacuity with 1-, 2-, 3- and 4-byte characters: `aé€😀` decodes to U+61, U+E9, U+20AC, U+1F600 = 5 units. -/
example : decodeUtf8 10 [0x61, 0xC3, 0xA9, 0xE2, 0x82, 0xAC, 0xF0, 0x9F, 0x98, 0x80] = some [0x61, 0xE9, 0x20AC, 0x1F600] ∧
          utf16Units [0x61, 0xE9, 0x20AC, 0x1F600] = 5 := by decide
/-- … and ill-formed input does not decode (overlong `C0 AF`, surrogate `ED A0 80`, truncated `E2 82`). -/
example : decodeUtf8 2 [0xC0, 0xAF] = none ∧ decodeUtf8 3 [0xED, 0xA0, 0x80] = none ∧ decodeUtf8 2 [0xE2, 0x82] = none := by decide

theorem slice_drop_take (text : Bytes) (ls0 a k : Nat) :
    slice text (ls0 + a) (ls0 + a + k) = ((text.drop ls0).drop a).take k := by
  unfold slice; rw [List.drop_drop]; congr 1; omega

/-- **line_range_char_boundary.**  If the row of the tag is well-formed UTF-8, the bytes of the returned
line range are well-formed UTF-8: the cut at `MAX_LINE_LEN` (and the trimming) never splits a character —
the range starts and ends on character boundaries.  Stated for `lineSpec` and, under the hypothesis of
`line_range_spec`, for the port of `line_range`. -/
theorem line_range_char_boundary (text : Bytes) (startByte col limit : Nat)
    (hv : validUtf8 ((text.drop (startByte - col)).takeWhile (· != 10)) = true) :
    validUtf8 (slice text (lineSpec text (startByte - col) limit).s (lineSpec text (startByte - col) limit).e) = true ∧
    ((∃ b ∈ (text.drop (startByte - col)).takeWhile (· != 10), isWs b = false) →
      validUtf8 (slice text (lineRange text startByte col limit).s (lineRange text startByte col limit).e) = true) := by
  have h1 : validUtf8 (slice text (lineSpec text (startByte - col) limit).s (lineSpec text (startByte - col) limit).e) = true := by
    rw [lineSpec_core]; simp only []
    rw [slice_drop_take]; exact specCore_valid _ limit hv
  exact ⟨h1, fun h => by rw [line_range_spec text startByte col limit h]; exact h1⟩

/-- Non-vacuity: limit 4 on `é€x` (2+3+1 bytes): the cut falls inside `€` and retreats to `[0,2)` = `é`. -/
example : lineSpec [0xC3, 0xA9, 0xE2, 0x82, 0xAC, 0x78] 0 4 = ⟨0, 2⟩ ∧
          lineSpec [0xF0, 0x9F, 0x98, 0x80, 0xF0, 0x9F, 0x98, 0x80] 0 6 = ⟨0, 4⟩ := by
  constructor <;> simp [lineSpec, isWs, scan, stepAt, width, units, isCont, second3ok, second4ok]

/-- **line_range_contains_name_start.**  Hypotheses: the name starts at `startByte` in column `col` of its
row (`col ≤ startByte`, the column lies on the row), with a non-whitespace byte, inside the untrimmed cut
(`cutOf`: the row without leading blanks, cut at the limit on a character boundary).  Then the returned
range contains the name start. -/
theorem line_range_contains_name_start (text : Bytes) (startByte col limit b : Nat) (hcol : col ≤ startByte)
    (hrow : col < ((text.drop (startByte - col)).takeWhile (· != 10)).length)
    (hb : text[startByte]? = some b) (hnw : isWs b = false)
    (hcut : col < (specCore (text.drop (startByte - col)) limit).1 + (cutOf (text.drop (startByte - col)) limit).length) :
    (lineRange text startByte col limit).s ≤ startByte ∧ startByte < (lineRange text startByte col limit).e := by
  have hb' : (text.drop (startByte - col))[col]? = some b := by
    rw [List.getElem?_drop]; have : startByte - col + col = startByte := by omega
    rw [this]; exact hb
  have hex : ∃ c ∈ (text.drop (startByte - col)).takeWhile (· != 10), isWs c = false := by
    have hsplit : (text.drop (startByte - col)).takeWhile (· != 10) ++ (text.drop (startByte - col)).dropWhile (· != 10) =
        text.drop (startByte - col) := List.takeWhile_append_dropWhile
    refine ⟨b, ?_, hnw⟩
    rw [← hsplit, List.getElem?_append_left hrow] at hb'
    exact List.mem_of_getElem? hb'
  have := specCore_contains (text.drop (startByte - col)) limit col b hrow hb' hnw hcut
  rw [line_range_spec text startByte col limit hex, lineSpec_core]
  simp only []
  omega

/-- Non-vacuity: `  é = foo(1);` — the name `foo` starts at byte 7, column 7. -/
example : lineRange [32, 32, 0xC3, 0xA9, 32, 61, 32, 102, 111, 111, 40, 49, 41, 59] 7 7 180 = ⟨2, 14⟩ := by
  simp [lineRange, isWs, scan, stepAt, width, units, isCont]

/-- **tag_ranges_and_span.**  ASSUMING every capture of every match is a node of the text (`sb ≤ eb ≤ |src|`) whose
points are the row/column of its bytes (`posOf`) — properties of the parse tree the tags code takes for granted —
every tag emitted by the whole loop is an ignore placeholder or satisfies
`range.s ≤ name.s ≤ name.e ≤ range.e ≤ |src|` and `span = posOf name.s .. posOf name.e`. -/
theorem tag_ranges_and_span (v : Variant) (cfg : Cfg) (src : Bytes) (ms : List Mat)
    (hcaps : ∀ m ∈ ms, ∀ c ∈ m.caps, c.sb ≤ c.eb ∧ c.eb ≤ src.length ∧ c.sp = posOf src c.sb ∧ c.ep = posOf src c.eb) :
    ∀ t ∈ runTags v cfg src ms, t.isIgnored = true ∨
      (t.range.s ≤ t.name.s ∧ t.name.s ≤ t.name.e ∧ t.name.e ≤ t.range.e ∧ t.range.e ≤ src.length ∧
       t.spanS = posOf src t.name.s ∧ t.spanE = posOf src t.name.e) := by
  intro t ht
  obtain ⟨hmap, harr⟩ := queue_emitted_are_arrivals v cfg src ms
  rw [hmap, List.mem_map] at ht
  obtain ⟨e, he, rfl⟩ := ht
  obtain ⟨m, hm, st', pv, htag⟩ := arrivals_from_tagOf v cfg src ms (initSt src) e (harr e he)
  rcases tagOf_shape v cfg src _ m st' e.1 pv htag with hi | ⟨nameC, hn, tagC, htc, h1, h2, h3, h4⟩
  · exact Or.inl hi
  · right
    obtain ⟨n1, n2, n3, n4⟩ := hcaps m hm nameC hn
    obtain ⟨t1, t2, _, _⟩ := hcaps m hm tagC htc
    rw [h1, h2, h3, h4]
    simp only
    refine ⟨by omega, n1, by omega, by omega, n3, n4⟩

/-- Non-vacuity: the test matches `wm` are such captures for a one-row text of 40 bytes without newline. -/
example : ∀ c ∈ (wm 4 7).caps, c.sb ≤ c.eb ∧ c.eb ≤ (List.replicate 40 97).length ∧
    c.sp = posOf (List.replicate 40 97) c.sb ∧ c.ep = posOf (List.replicate 40 97) c.eb := by decide

/-- The hull in both directions: tagged node [4,7) with the name BEHIND it at [10,12) gives range [4,12); tagged
node [10,12) with the name in FRONT at [4,7) gives the same hull (seeded C18-r6 dropped the `max` on the end). -/
example :
    (runTags {} wcfg [] [{ pat := 0, caps := [⟨1, 4, 7, ⟨0, 4⟩, ⟨0, 7⟩, false⟩, ⟨0, 10, 12, ⟨0, 10⟩, ⟨0, 12⟩, false⟩] }]).map
      (fun t => (t.name, t.range)) = [(⟨10, 12⟩, ⟨4, 12⟩)] ∧
    (runTags {} wcfg [] [{ pat := 0, caps := [⟨0, 4, 7, ⟨0, 4⟩, ⟨0, 7⟩, false⟩, ⟨1, 10, 12, ⟨0, 10⟩, ⟨0, 12⟩, false⟩] }]).map
      (fun t => (t.name, t.range)) = [(⟨4, 7⟩, ⟨4, 12⟩)] := by
  constructor <;>
  simp [runTags, run, initSt, wcfg, flushReady, ready, processMatch, processTag, tagOf, capLoop, Cfg.lookup, qInsert, key, keyLt,
    drain, cacheStep, utf16LenV, utf16Len, lossyUnits, slice, lineRange, docsOf, docsOfP, docTexts, joinDocs, Tag.isIgnored, usizeMax,
    isLocal, Option.filter, scan, maxLineLen]

/-! ## Round 11: the release test of the queue is strict -/

/-- **queue_release_strict (round 11).**  A queued tag is released only when the most recently queued tag starts
STRICTLY behind its end: while the last entry's name starts at or before the head's name end (in particular when
the two names TOUCH, `first.name.e = last.name.s`), `flushReady` pops nothing and the queue is unchanged. -/
theorem queue_release_strict (n : Nat) (q : Queue) (first last : Tag × Nat)
    (hf : q.head? = some first) (hl : q.getLast? = some last) (h : last.1.name.s ≤ first.1.name.e) :
    ready q = false ∧ flushReady n q = ([], q) := by
  have hr : ready q = false := by
    unfold ready
    rw [hl, hf]
    simp
    omega
  refine ⟨hr, ?_⟩
  cases n with
  | zero => rfl
  | succ k => unfold flushReady; simp [hr]

/-- **queue_touching_head_replaced (round 11).**  "A tag is released only when no pending match can still replace it",
the touching case: if the next name starts exactly where (or before) the head's name ends, the head survives the
release step, and a match that arrives afterwards for the same name range with a lower pattern index replaces it. -/
theorem queue_touching_head_replaced (n : Nat) (t : Tag) (p : Nat) (rest : Queue) (last : Tag × Nat)
    (hl : ((t, p) :: rest).getLast? = some last) (h : last.1.name.s ≤ t.name.e)
    (tag : Tag) (pat : Nat) (hk : key tag = key t) (hp : pat < p) :
    qInsert tag pat (flushReady n ((t, p) :: rest)).2 = (tag, pat) :: rest := by
  rw [(queue_release_strict n ((t, p) :: rest) (t, p) last rfl hl h).2]
  simp [qInsert, hk, hp]

/-- Non-vacuity: `a1b` — `a` [0,1) queued by pattern 2, `1` [1,2) queued behind it (touching), then the pattern-0
match for `a` arrives: it replaces the queued tag; with one byte between the names the head is released instead. -/
example :
    let a : Tag := { (default : Tag) with name := ⟨0, 1⟩ }
    let one : Tag := { (default : Tag) with name := ⟨1, 2⟩ }
    let far : Tag := { (default : Tag) with name := ⟨2, 3⟩ }
    ready [(a, 2), (one, 1)] = false ∧ ready [(a, 2), (far, 1)] = true := by
  decide

end TsVerif.C18
