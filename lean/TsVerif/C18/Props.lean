import TsVerif.C18.Lemmas
/-!
# C18 — Tags describe the source consistently (ranges, lines, columns, docs)

Property text: "Every emitted tag has its name range inside its tag range inside the text, a line
range that is the trimmed line containing the name (cut at the length limit on a character
boundary), a row/column span equal to the name's position, and a UTF-16 column range equal to the
UTF-16 length of the line prefix and of the name. Docs are the text of the captured doc nodes after
the configured stripping, and names that resolve to a local definition in an enclosing scope are
omitted where the query asks for it."

Theorems are about the hand ports in `Model.lean` (tied to the Rust code by correspondence on every
run); the same spec functions (`lineSpec`, `utf16Spec`, `posOf`) are what `judgeTag` evaluates on
the real tags.
-/
namespace TsVerif.C18

/-! ## UTF-16 columns: the `prev_line_info` cache -/

/-- **cache_correct.**  Fold the port of the `prev_line_info` block over ANY sequence of
single-row names (rows and columns in any order: increasing, decreasing, changing rows), where a
row determines its line start (`o.ls = rowLs o.row`) and the length function `f` is additive at the
ends of each name (`OccOK`).  Then every tag gets `utf16_column_range = f(line prefix) ..
f(line prefix ++ name)` and the `line_range` of its own row — i.e. reuse of the cached column when
the column does not decrease, recomputation from the line start when it decreases or the row
changes (`cache_reset_ok` is the second half made explicit). -/
theorem cache_correct (f : Bytes → Nat) (src : Bytes) (limit : Nat) (rowLs : Nat → Nat) (os : List Occ)
    (hos : ∀ o ∈ os, o.ls = rowLs o.row ∧ OccOK f src o) :
    (cacheFold f src limit none os).map (fun co => (co.u16, co.line)) =
      os.map (fun o => ((⟨f (slice src o.ls o.name.s), f (slice src o.ls o.name.e)⟩ : R),
                        lineRange src o.ls 0 limit)) :=
  cache_fold_ok f src limit rowLs os none (fun _ h => by cases h) hos

/-- **cache_reset_ok.**  Whatever is cached, when the row differs or the column decreased the
start column is recomputed from the line start `name.s - column`. -/
theorem cache_reset_ok (f : Bytes → Nat) (src : Bytes) (limit : Nat) (prev : Option LineInfo)
    (name : R) (sp ep : Pt)
    (h : ∀ info, prev = some info → info.pos.row ≠ sp.row ∨ sp.col < info.pos.col) :
    (cacheStep f src limit prev name sp ep).u16.s = f (slice src (name.s - sp.col) name.s) := by
  cases prev with
  | none => simp [cacheStep, Option.filter]
  | some info =>
    rcases h info rfl with hr | hc
    · have : (info.pos.row == sp.row) = false := by simp [hr]
      simp [cacheStep, Option.filter, this]
    · have : ¬ info.pos.col ≤ sp.col := by omega
      by_cases hr : (info.pos.row == sp.row) = true <;> simp [cacheStep, Option.filter, hr, this]

/-! ## The tag queue -/

/-- **queue_insert_sorted.**  `binary_search_by_key` + insert/replace keeps the queue strictly
sorted by `(name_range.end, name_range.start)` — hence at most one entry per name range. -/
theorem queue_insert_sorted (tag : Tag) (pat : Nat) (q : Queue) (h : QSorted q) :
    QSorted (qInsert tag pat q) := qInsert_sorted tag pat q h

end TsVerif.C18
