/-!
# C18 model: hand ports of the tag pipeline of `crates/tags/src/tags.rs`

Code-shaped ports (Rust → Lean, bytes are `List Nat`, every value < 256 when read from a dump):

* `stepAt`, `scan`           — `core::str::from_utf8` (`run_utf8_validation`): `valid_up_to`, `error_len`
* `lossyUnits`, `utf16Len`   — `tree_sitter::LossyUtf8` (lib/binding_rust/lib.rs) + `tags.rs:utf16_len`
* `lineRange`                — `tags.rs:line_range`
* `cacheStep`                — the `prev_line_info` block of `TagsIter::next`
* `qInsert`, `ready`, `flushReady`, `drain` — the `tag_queue` of `TagsIter::next`
* `mkCfg`                    — the capture-name loop of `TagsConfiguration::new`
* `processLocal`, `processTag`, `run` — the match loop of `TagsIter::next`

The ports are faithful to the code as it is, including `LossyUtf8` yielding nothing for a chunk
that ends inside a multi-byte sequence and dropping a replacement character that would come last
(known defect handled under C17), and including the drain branch of `next` that returns ignored tags.
-/
namespace TsVerif.C18

abbrev Bytes := List Nat

/-- `text[s..e]` -/
def slice (src : Bytes) (s e : Nat) : Bytes := (src.drop s).take (e - s)

/-! ## `core::str::from_utf8` -/

def isCont (b : Nat) : Bool := decide (0x80 ≤ b) && decide (b ≤ 0xBF)

/-- `utf8_char_width` -/
def width (b : Nat) : Nat :=
  if b < 0x80 then 1
  else if 0xC2 ≤ b ∧ b ≤ 0xDF then 2
  else if 0xE0 ≤ b ∧ b ≤ 0xEF then 3
  else if 0xF0 ≤ b ∧ b ≤ 0xF4 then 4
  else 0

def second3ok (a b : Nat) : Bool :=
  (a == 0xE0 && decide (0xA0 ≤ b) && decide (b ≤ 0xBF)) ||
  (decide (0xE1 ≤ a) && decide (a ≤ 0xEC) && isCont b) ||
  (a == 0xED && decide (0x80 ≤ b) && decide (b ≤ 0x9F)) ||
  (decide (0xEE ≤ a) && decide (a ≤ 0xEF) && isCont b)

def second4ok (a b : Nat) : Bool :=
  (a == 0xF0 && decide (0x90 ≤ b) && decide (b ≤ 0xBF)) ||
  (decide (0xF1 ≤ a) && decide (a ≤ 0xF3) && isCont b) ||
  (a == 0xF4 && decide (0x80 ≤ b) && decide (b ≤ 0x8F))

/-- One round of the validation loop at a non-empty position. -/
inductive Step where
  /-- a well-formed scalar value of `len` bytes -/
  | char (len : Nat)
  /-- `error_len = Some (k + 1)` -/
  | invalid (k : Nat)
  /-- `error_len = None`: the input ends inside a sequence -/
  | incomplete
  deriving DecidableEq, Repr

def stepAt (a : Nat) (rest : Bytes) : Step :=
  if a < 0x80 then .char 1
  else if width a = 2 then
    match rest with
    | [] => .incomplete
    | b :: _ => if isCont b then .char 2 else .invalid 0
  else if width a = 3 then
    match rest with
    | [] => .incomplete
    | b :: r2 =>
      if !second3ok a b then .invalid 0
      else match r2 with
        | [] => .incomplete
        | c :: _ => if isCont c then .char 3 else .invalid 1
  else if width a = 4 then
    match rest with
    | [] => .incomplete
    | b :: r2 =>
      if !second4ok a b then .invalid 0
      else match r2 with
        | [] => .incomplete
        | c :: r3 =>
          if !isCont c then .invalid 1
          else match r3 with
            | [] => .incomplete
            | d :: _ => if isCont d then .char 4 else .invalid 2
  else .invalid 0

/-- `char::len_utf16` of a scalar encoded in `n` bytes. -/
def units (n : Nat) : Nat := if n = 4 then 2 else 1

/-- Result of `from_utf8`: `err = none` is `Ok`; `some none` is `error_len = None`;
`some (some k)` is `error_len = Some (k+1)`.  `u16` = Σ `len_utf16` over the valid prefix. -/
structure Utf8Res where
  validUpTo : Nat
  u16 : Nat
  err : Option (Option Nat)
  deriving DecidableEq, Repr

def scan : Bytes → Utf8Res
  | [] => ⟨0, 0, none⟩
  | a :: rest =>
    match stepAt a rest with
    | .char n =>
      let r := scan (rest.drop (n - 1))
      ⟨n + r.validUpTo, units n + r.u16, r.err⟩
    | .invalid k => ⟨0, 0, some (some k)⟩
    | .incomplete => ⟨0, 0, some none⟩
termination_by b => b.length
decreasing_by simp only [List.length_drop, List.length_cons]; omega

def validUtf8 (b : Bytes) : Bool := (scan b).err.isNone

/-! ## `LossyUtf8` and `utf16_len` -/

/-- Σ over the chunks yielded by `LossyUtf8 { bytes, in_replacement }` of their UTF-16 length. -/
def lossyUnits (bytes : Bytes) (inRepl : Bool) : Nat :=
  if h : bytes = [] then 0
  else if inRepl then 1 + lossyUnits bytes false
  else
    let r := scan bytes
    match r.err with
    | none => r.u16
    | some (some k) =>
      if r.validUpTo > 0 then r.u16 + lossyUnits (bytes.drop (r.validUpTo + (k + 1))) true
      else 1 + lossyUnits (bytes.drop (k + 1)) false
    | some none => 0
termination_by (bytes.length, if inRepl then 1 else 0)
decreasing_by
  · simp_all [Prod.lex_def]
  · have : 0 < bytes.length := List.length_pos_iff.mpr h
    simp [Prod.lex_def, List.length_drop]; omega
  · have : 0 < bytes.length := List.length_pos_iff.mpr h
    simp [Prod.lex_def, List.length_drop]; omega

/-- `tags.rs:utf16_len` -/
def utf16Len (bytes : Bytes) : Nat := lossyUnits bytes false

/-- Spec: UTF-16 length of the lossy decoding in the sense of `String::from_utf8_lossy`
(every maximal ill-formed subpart and a truncated final sequence become one U+FFFD). -/
def utf16Spec : Bytes → Nat
  | [] => 0
  | a :: rest =>
    match stepAt a rest with
    | .char n => units n + utf16Spec (rest.drop (n - 1))
    | .invalid k => 1 + utf16Spec (rest.drop k)
    | .incomplete => 1
termination_by b => b.length
decreasing_by all_goals (simp only [List.length_drop, List.length_cons]; omega)

/-- Code variants the correspondence accepts.  The default is the pinned code as it is.
`drainSkips`: the drain branch of `next` skips ignored placeholders (fixes/C18-drain-ignored.diff).
`lossyFixed`: `LossyUtf8` behaves like `String::from_utf8_lossy` (the repair handled under C17).
`multiRowFixed`: see the field. -/
structure Variant where
  drainSkips : Bool := false
  lossyFixed : Bool := false
  /-- the cache is dropped after a name that spans rows (fixes/C18-cache-multirow.diff) -/
  multiRowFixed : Bool := false
  deriving DecidableEq, Repr, Inhabited

/-- `LossyUtf8` as committed with the C17 repair (HEAD of /repo): a pending replacement is emitted even
at the end of the input, and a truncated final sequence is an ill-formed part reaching to the end. -/
def lossyUnitsF (bytes : Bytes) (inRepl : Bool) : Nat :=
  if inRepl then 1 + lossyUnitsF bytes false
  else if h : bytes = [] then 0
  else
    let r := scan bytes
    match r.err with
    | none => r.u16
    | some (some k) =>            -- error_len = Some(k + 1)
      if hv : r.validUpTo > 0 then r.u16 + lossyUnitsF (bytes.drop (r.validUpTo + (k + 1))) true
      else 1 + lossyUnitsF (bytes.drop (k + 1)) false
    | some none =>                -- error_len = None: unwrap_or(len - error_start)
      if hv : r.validUpTo > 0 then
        r.u16 + lossyUnitsF (bytes.drop (r.validUpTo + (bytes.length - r.validUpTo))) true
      else 1 + lossyUnitsF (bytes.drop (bytes.length - r.validUpTo)) false
termination_by (bytes.length, if inRepl then 1 else 0)
decreasing_by
  all_goals first
    | (simp_all [Prod.lex_def]; done)
    | (have : 0 < bytes.length := List.length_pos_iff.mpr h
       simp [Prod.lex_def, List.length_drop]; omega)
    | (have : 0 < bytes.length := List.length_pos_iff.mpr h
       simp only [r] at hv
       simp [Prod.lex_def, List.length_drop]; omega)

/-- `utf16_len` over the repaired `LossyUtf8`. -/
def utf16LenF (bytes : Bytes) : Nat := lossyUnitsF bytes false

def utf16LenV (v : Variant) (b : Bytes) : Nat := if v.lossyFixed then utf16LenF b else utf16Len b

/-! ## `line_range` -/

/-- `u8::is_ascii_whitespace`: space, TAB, LF, FF, CR. -/
def isWs (b : Nat) : Bool := b == 32 || b == 9 || b == 10 || b == 12 || b == 13

structure R where
  s : Nat
  e : Nat
  deriving DecidableEq, Repr, Inhabited

/-- Port of `line_range(text, start_byte, start_point, max_line_len)`; only the column of the
point is used.  Subtractions are guarded in the Rust (they panic on underflow): callers have
`col ≤ startByte` and `startByte - col ≤ |text|`. -/
def lineRange (text : Bytes) (startByte col limit : Nat) : R :=
  let ls0 := startByte - col
  -- while line_start_byte < len && text[line_start_byte].is_ascii_whitespace()
  let ls := ls0 + ((text.drop ls0).takeWhile isWs).length
  let maxLen := min limit (text.length - ls)
  let window := (text.drop ls).take maxLen
  let nl := (window.takeWhile (· != 10)).length       -- memchr(b'\n', window)
  let lineLen :=
    if nl < window.length then nl
    else
      let r := scan window
      if r.err.isSome then r.validUpTo else maxLen
  -- while line_end_byte > line_start_byte && text[line_end_byte-1].is_ascii_whitespace()
  let kept := (((window.take lineLen).reverse.dropWhile isWs)).length
  ⟨ls, ls + kept⟩

/-- Spec of the `line_range` field: the line that starts at `ls0`, without leading and trailing
ASCII whitespace, cut after at most `limit` bytes at the end of the longest well-formed UTF-8
prefix.  Convention read off the code for a line that is not newline-terminated within the limit:
the cut also applies when the line has exactly `limit` bytes or ends the text. -/
def lineSpec (text : Bytes) (ls0 limit : Nat) : R :=
  let rest := text.drop ls0
  let line := rest.takeWhile (· != 10)
  let lead := (line.takeWhile isWs).length
  let body := line.drop lead
  let terminated := decide (line.length < rest.length)
  let cut :=
    if terminated && decide (body.length < limit) then body
    else
      let w := body.take limit
      w.take (scan w).validUpTo
  let kept := (cut.reverse.dropWhile isWs).length
  ⟨ls0 + lead, ls0 + lead + kept⟩

/-! ## Tags, captures, configuration -/

structure Pt where
  row : Nat
  col : Nat
  deriving DecidableEq, Repr, Inhabited

structure Tag where
  range : R
  name : R
  line : R
  spanS : Pt
  spanE : Pt
  u16 : R
  docs : Option Bytes
  isDef : Bool
  stid : Nat
  deriving DecidableEq, Repr, Inhabited

def usizeMax : Nat := 18446744073709551615

/-- `Tag::ignored` -/
def Tag.ignored (name : R) : Tag :=
  { range := ⟨usizeMax, usizeMax⟩, name := name, line := ⟨0, 0⟩, spanS := ⟨0, 0⟩, spanE := ⟨0, 0⟩,
    u16 := ⟨0, 0⟩, docs := none, isDef := false, stid := 0 }

def Tag.isIgnored (t : Tag) : Bool := t.range.s == usizeMax

structure Cap where
  idx : Nat
  sb : Nat
  eb : Nat
  sp : Pt
  ep : Pt
  err : Bool
  deriving Repr, Inhabited

structure Mat where
  pat : Nat
  caps : List Cap
  deriving Repr, Inhabited

structure PatInfo where
  adjacent : Option Nat := none
  inherits : Bool := true
  nonLocal : Bool := false
  strip : Option Nat := none
  deriving Repr, Inhabited

structure Cfg where
  nameIdx : Option Nat := none
  ignoreIdx : Option Nat := none
  docIdx : Option Nat := none
  scopeIdx : Option Nat := none
  defIdx : Option Nat := none
  /-- capture index ↦ (syntax_type_id, is_definition) -/
  capMap : List (Nat × Nat × Bool) := []
  kinds : List String := []
  tagsFrom : Nat := 0
  pats : Array PatInfo := #[]
  invalid : Bool := false
  deriving Repr, Inhabited

/-- `str::trim_start_matches(prefix)` (removes the prefix repeatedly). -/
def trimStartMatches (p : List Char) : Nat → List Char → List Char
  | 0, s => s
  | fuel + 1, s => if p ≠ [] ∧ p.isPrefixOf s then trimStartMatches p fuel (s.drop p.length) else s

/-- The capture-name loop of `TagsConfiguration::new`. -/
def mkCfgStep (c : Cfg) (i : Nat) (name : String) : Cfg :=
  if name == "name" then { c with nameIdx := some i }
  else if name == "ignore" then { c with ignoreIdx := some i }
  else if name == "doc" then { c with docIdx := some i }
  else if name == "local.scope" then { c with scopeIdx := some i }
  else if name == "local.definition" then { c with defIdx := some i }
  else if name == "local.reference" || name == "" then c
  else
    let cs := name.toList
    let isDef := "definition.".toList.isPrefixOf cs
    if !isDef && !"reference.".toList.isPrefixOf cs then { c with invalid := true }
    else
      let kind := String.ofList (trimStartMatches (if isDef then "definition.".toList else "reference.".toList) cs.length cs)
      match c.kinds.idxOf? kind with
      | some k => { c with capMap := c.capMap ++ [(i, k, isDef)] }
      | none => { c with kinds := c.kinds ++ [kind], capMap := c.capMap ++ [(i, c.kinds.length, isDef)] }

def mkCfgLoop (c : Cfg) (i : Nat) : List String → Cfg
  | [] => c
  | n :: ns => mkCfgLoop (mkCfgStep c i n) (i + 1) ns

def mkCfg (names : List String) (tagsFrom : Nat) (pats : Array PatInfo) : Cfg :=
  { mkCfgLoop {} 0 names with tagsFrom := tagsFrom, pats := pats }

def Cfg.lookup (c : Cfg) (i : Nat) : Option (Nat × Bool) :=
  (c.capMap.find? (·.1 == i)).map (·.2)

/-! ## The per-line cache (`prev_line_info`) -/

structure LineInfo where
  pos : Pt          -- utf8_position = span.end of the previous tag
  byte : Nat        -- utf8_byte = name_range.end
  u16 : Nat         -- utf16_column = utf16 end column
  line : R
  deriving DecidableEq, Repr, Inhabited

structure CacheOut where
  line : R
  u16 : R
  info : LineInfo
  deriving DecidableEq, Repr

/-- Port of the block "Compute tag properties that depend on the text of the containing line". -/
def cacheStep (u16len : Bytes → Nat) (src : Bytes) (limit : Nat) (prev : Option LineInfo) (name : R) (sp ep : Pt) : CacheOut :=
  let lineInfo := prev.filter (fun info => info.pos.row == sp.row)
  let reuse := match lineInfo with
    | some info => decide (info.pos.col ≤ sp.col)
    | none => false
  let prevU16 := match lineInfo with
    | some info => if reuse then info.u16 else 0
    | none => 0
  let prevByte := match lineInfo with
    | some info => if reuse then info.byte else name.s - sp.col
    | none => name.s - sp.col
  let line := match lineInfo with
    | some info => info.line
    | none => lineRange src name.s sp.col limit
  let u16s := prevU16 + u16len (slice src prevByte name.s)
  let u16e := u16s + u16len (slice src name.s name.e)
  { line := line, u16 := ⟨u16s, u16e⟩, info := { pos := ep, byte := name.e, u16 := u16e, line := line } }

/-! ## The tag queue -/

abbrev Queue := List (Tag × Nat)

def key (t : Tag) : Nat × Nat := (t.name.e, t.name.s)

def keyLt (a b : Nat × Nat) : Bool := decide (a.1 < b.1) || (a.1 == b.1 && decide (a.2 < b.2))

/-- `binary_search_by_key` + replace-or-insert, on a queue sorted strictly by `key`
(there the binary search is characterised by: `Ok i` for the unique equal key, else `Err` of the
insertion point). -/
def qInsert (tag : Tag) (pat : Nat) : Queue → Queue
  | [] => [(tag, pat)]
  | (t, p) :: rest =>
    if key t == key tag then
      (if p > pat then (tag, pat) else (t, p)) :: rest
    else if keyLt (key tag) (key t) then (tag, pat) :: (t, p) :: rest
    else (t, p) :: qInsert tag pat rest

/-- The condition of "If there is a queued tag for an earlier node in the syntax tree". -/
def ready (q : Queue) : Bool :=
  match q.getLast?, q.head? with
  | some last, some first => decide (q.length > 1) && decide (first.1.name.e < last.1.name.s)
  | _, _ => false

/-- Pop while ready; ignored tags popped here are skipped. -/
def flushReady : Nat → Queue → List Tag × Queue
  | 0, q => ([], q)
  | fuel + 1, q =>
    if ready q then
      match q with
      | [] => ([], q)
      | (t, _) :: rest =>
        let (out, q') := flushReady fuel rest
        (if t.isIgnored then out else t :: out, q')
    else ([], q)

/-- The loop once `matches.next()` is `None`: a ready head is popped (skipped if ignored),
otherwise the head is returned as it is — ignored or not. -/
def drain (skip : Bool) : Nat → Queue → List Tag
  | 0, _ => []
  | fuel + 1, q =>
    match q with
    | [] => []
    | (t, _) :: rest =>
      if ready q then (if t.isIgnored then drain skip fuel rest else t :: drain skip fuel rest)
      else if skip && t.isIgnored then drain skip fuel rest
      else t :: drain skip fuel rest

/-! ## Local scopes -/

structure Scope where
  inherits : Bool
  range : R
  defs : List Bytes
  deriving Repr, Inhabited

/-- `scopes` with the most recently pushed scope first (the Rust iterates `.rev()`). -/
abbrev Scopes := List Scope

def Scope.contains (s : Scope) (r : R) : Bool := decide (s.range.s ≤ r.s) && decide (s.range.e ≥ r.e)

/-- `self.scopes.iter_mut().rev().find(contains)` then `local_defs.push`. -/
def addDef (name : Bytes) (r : R) : Scopes → Scopes
  | [] => []
  | s :: rest => if s.contains r then { s with defs := s.defs ++ [name] } :: rest else s :: addDef name r rest

/-- The scope walk of `name_must_be_non_local`. -/
def isLocal (name : Bytes) (r : R) : Scopes → Bool
  | [] => false
  | s :: rest =>
    if s.contains r then
      if s.defs.any (· == name) then true
      else if !s.inherits then false
      else isLocal name r rest
    else isLocal name r rest

/-- Spec of the scope walk.  Of the scopes that enclose the name (most recently pushed first), the
*visible* ones are those reached walking outwards while `inherits` holds — up to and including the
first scope that does not inherit. -/
def visibleScopes : List Scope → List Scope
  | [] => []
  | s :: rest => if s.inherits then s :: visibleScopes rest else [s]

/-- Spec: the name resolves to a local definition iff some visible enclosing scope holds a
definition with the same text. -/
def isLocalSpec (name : Bytes) (r : R) (scopes : Scopes) : Bool :=
  (visibleScopes (scopes.filter (·.contains r))).any (fun s => s.defs.any (· == name))

/-! ## One match -/

structure St where
  queue : Queue := []
  prev : Option LineInfo := none
  scopes : Scopes := []
  deriving Repr, Inhabited

def processLocal (cfg : Cfg) (src : Bytes) (pi : PatInfo) (caps : List Cap) (scopes : Scopes) : Scopes :=
  caps.foldl (fun sc c =>
    let r : R := ⟨c.sb, c.eb⟩
    if some c.idx == cfg.scopeIdx then { inherits := pi.inherits, range := r, defs := [] } :: sc
    else if some c.idx == cfg.defIdx then addDef (slice src c.sb c.eb) r sc
    else sc) scopes

/-- Accumulator of the capture loop of a tags pattern. -/
structure Acc where
  name : Option Cap := none
  docs : List Cap := []
  tag : Option Cap := none
  stid : Nat := 0
  isDef : Bool := false
  adj : Option Cap := none
  ignored : Bool := false
  deriving Inhabited

def capLoop (cfg : Cfg) (pi : PatInfo) (caps : List Cap) : Acc :=
  caps.foldl (fun a c =>
    let a := if some c.idx == cfg.ignoreIdx then { a with ignored := true, name := some c } else a
    let a := if some c.idx == pi.adjacent then { a with adj := some c } else a
    let a := if some c.idx == cfg.nameIdx then { a with name := some c }
             else if some c.idx == cfg.docIdx then { a with docs := a.docs ++ [c] } else a
    match cfg.lookup c.idx with
    | some (st, d) => { a with tag := some c, stid := st, isDef := d }
    | none => a) {}

/-- "select only the slice of doc nodes adjacent to some specified node": walks backwards while
`prev_doc_end_row + 1 >= start_row`; returns the kept suffix. -/
def adjacentDocs : List Cap → Nat → List Cap → List Cap
  | [], _, kept => kept
  | d :: revRest, startRow, kept =>
    if d.ep.row + 1 ≥ startRow then adjacentDocs revRest d.sp.row (d :: kept) else kept

def joinDocs : List Bytes → Option Bytes
  | [] => none
  | d :: ds => some (ds.foldl (fun acc x => acc ++ [10] ++ x) d)

/-- Length of a leading character matched by the regex class `\s` (Unicode White_Space, as the Rust
`regex` crate defines it), 0 if there is none. -/
def wsLen : Bytes → Nat
  | 9 :: _ | 10 :: _ | 11 :: _ | 12 :: _ | 13 :: _ | 32 :: _ => 1
  | 0xC2 :: 0x85 :: _ | 0xC2 :: 0xA0 :: _ => 2
  | 0xE1 :: 0x9A :: 0x80 :: _ => 3
  | 0xE2 :: 0x80 :: c :: _ => if (0x80 ≤ c ∧ c ≤ 0x8A) ∨ c = 0xA8 ∨ c = 0xA9 ∨ c = 0xAF then 3 else 0
  | 0xE2 :: 0x81 :: 0x9F :: _ => 3
  | 0xE3 :: 0x80 :: 0x80 :: _ => 3
  | _ => 0

/-- The strip regexes used by the check's queries, as functions (Rust `regex` is not modelled; the
docs pipeline below takes the strip function as a PARAMETER):
id 0 = `^//[ \t]*` (literal prefix, then a greedy ASCII class);
id 1 = `^/+\s?` (greedy run of a one-character class, then at most one `\s` character). -/
def stripFn (id : Nat) (b : Bytes) : Bytes :=
  match id, b with
  | 0, 47 :: 47 :: rest => rest.dropWhile (fun c => c == 32 || c == 9)
  | 1, 47 :: rest =>
    let r := rest.dropWhile (· == 47)
    r.drop (wsLen r)
  | _, b => b

/-- Spec of adjacency: a doc node is adjacent to what follows when it ends on the row just above it
(or later): `end_row + 1 >= start_row`.  `chainOK ds row`: every node of `ds` is adjacent to the next
one and the last is adjacent to `row` (the start row of the `select-adjacent!` node). -/
def chainOK : List Cap → Nat → Bool
  | [], _ => true
  | [d], row => decide (d.ep.row + 1 ≥ row)
  | d :: e :: rest, row => decide (d.ep.row + 1 ≥ e.sp.row) && chainOK (e :: rest) row

/-- All suffixes, longest first. -/
def suffixes {α : Type} : List α → List (List α)
  | [] => [[]]
  | a :: l => (a :: l) :: suffixes l

/-- SPEC of `select-adjacent!`: the longest suffix of the doc captures that is a chain ending at `row`. -/
def selectSpec (docs : List Cap) (row : Nat) : List Cap :=
  ((suffixes docs).find? (chainOK · row)).getD []

/-- PORT of the selection (`docs_start_index` loop). -/
def selectAdjacent (docs : List Cap) (row : Nat) : List Cap := adjacentDocs docs.reverse row []

/-- Texts of doc nodes: not-UTF-8 nodes are skipped, the strip function (if any) is applied per node. -/
def docTexts (strip : Option (Bytes → Bytes)) (src : Bytes) (docs : List Cap) : List Bytes :=
  docs.filterMap (fun d =>
    let b := slice src d.sb d.eb
    if validUtf8 b then some (match strip with | some f => f b | none => b) else none)

/-- PORT of the docs pipeline of `TagsIter::next`, the strip regex being a parameter. -/
def docsOfP (strip : Option (Bytes → Bytes)) (src : Bytes) (adj : Option Cap) (docs : List Cap) : Option Bytes :=
  let sel := match adj, docs with
    | some adj, _ :: _ => selectAdjacent docs adj.sp.row
    | _, _ => docs
  joinDocs (docTexts strip src sel)

/-- SPEC: the docs of a tag are the stripped texts of the doc captures — with `select-adjacent!`, of the
maximal run of captures adjacent to each other ending just above (or at) the selected node — joined by
`\n`; no text, no docs. -/
def docsSpec (strip : Option (Bytes → Bytes)) (src : Bytes) (adj : Option Cap) (docs : List Cap) : Option Bytes :=
  joinDocs (docTexts strip src (match adj with
    | some adj => selectSpec docs adj.sp.row
    | none => docs))

def docsOf (src : Bytes) (pi : PatInfo) (a : Acc) : Option Bytes :=
  docsOfP (pi.strip.map stripFn) src a.adj a.docs

def maxLineLen : Nat := 180

/-- What a match of a tags pattern contributes: `none` = `continue`; otherwise the tag to insert
under the match's pattern index and the new `prev_line_info`. -/
def tagOf (v : Variant) (cfg : Cfg) (src : Bytes) (pi : PatInfo) (m : Mat) (st : St) : Option (Tag × Option LineInfo) :=
  let a := capLoop cfg pi m.caps
  match a.name with
  | none => none
  | some nameNode =>
    let nameR : R := ⟨nameNode.sb, nameNode.eb⟩
    match a.tag with
    | some tagNode =>
      if nameNode.err then none
      else if pi.nonLocal && isLocal (slice src nameR.s nameR.e) nameR st.scopes then none
      else
        let docs := docsOf src pi a
        let range : R := ⟨min tagNode.sb nameR.s, max tagNode.eb nameR.e⟩
        let co := cacheStep (utf16LenV v) src maxLineLen st.prev nameR nameNode.sp nameNode.ep
        let tag : Tag := { range := range, name := nameR, line := co.line, spanS := nameNode.sp,
                           spanE := nameNode.ep, u16 := co.u16, docs := docs, isDef := a.isDef, stid := a.stid }
        let prev' := if v.multiRowFixed && nameNode.sp.row != nameNode.ep.row then none else some co.info
        some (tag, prev')
    | none =>
      if a.ignored then some (Tag.ignored nameR, st.prev) else none

/-- The body of `if let Some(mat) = self.matches.next()` for a pattern of the tags query. -/
def processTag (v : Variant) (cfg : Cfg) (src : Bytes) (pi : PatInfo) (m : Mat) (st : St) : St :=
  match tagOf v cfg src pi m st with
  | none => st
  | some (tag, prev') => { st with prev := prev', queue := qInsert tag m.pat st.queue }

/-- The entry a match inserts into the queue, if any. -/
def inserted (v : Variant) (cfg : Cfg) (src : Bytes) (m : Mat) (st : St) : Option (Tag × Nat) :=
  if m.pat < cfg.tagsFrom then none
  else (tagOf v cfg src (cfg.pats[m.pat]?.getD {}) m st).map (fun x => (x.1, m.pat))

def processMatch (v : Variant) (cfg : Cfg) (src : Bytes) (m : Mat) (st : St) : St :=
  let pi := cfg.pats[m.pat]?.getD {}
  if m.pat < cfg.tagsFrom then { st with scopes := processLocal cfg src pi m.caps st.scopes }
  else processTag v cfg src pi m st

/-- `TagsIter::next` called until `None`: the emitted tags in order. -/
def run (v : Variant) (cfg : Cfg) (src : Bytes) : List Mat → St → List Tag
  | [], st => drain v.drainSkips st.queue.length st.queue
  | m :: ms, st =>
    let (out, q) := flushReady st.queue.length st.queue
    out ++ run v cfg src ms (processMatch v cfg src m { st with queue := q })

def initSt (src : Bytes) : St :=
  { scopes := [{ inherits := false, range := ⟨0, src.length⟩, defs := [] }] }

def runTags (v : Variant) (cfg : Cfg) (src : Bytes) (ms : List Mat) : List Tag := run v cfg src ms (initSt src)

end TsVerif.C18

namespace TsVerif.C18

/-! ## Folding the cache over a sequence of names (used by the theorems) -/

/-- A single-row name occurrence: byte range, row, and the byte offset `ls` at which that row starts. -/
structure Occ where
  name : R
  row : Nat
  ls : Nat
  deriving Repr

def Occ.sp (o : Occ) : Pt := ⟨o.row, o.name.s - o.ls⟩
def Occ.ep (o : Occ) : Pt := ⟨o.row, o.name.e - o.ls⟩

def cacheFold (f : Bytes → Nat) (src : Bytes) (limit : Nat) : Option LineInfo → List Occ → List CacheOut
  | _, [] => []
  | prev, o :: os =>
    let co := cacheStep f src limit prev o.name o.sp o.ep
    co :: cacheFold f src limit (some co.info) os

end TsVerif.C18

namespace TsVerif.C18

/-- The name node of a match, as the capture loop of `TagsIter::next` determines it. -/
def nameOf (cfg : Cfg) (m : Mat) : Option R :=
  if m.pat < cfg.tagsFrom then none
  else ((capLoop cfg (cfg.pats[m.pat]?.getD {}) m.caps).name).map (fun c => (⟨c.sb, c.eb⟩ : R))

def names (cfg : Cfg) (ms : List Mat) : List R := ms.filterMap (nameOf cfg)

/-- Test configuration for the examples: capture 0 = `@name`, capture 1 = a reference kind. -/
def wcfg : Cfg := { nameIdx := some 0, capMap := [(1, 0, false)], tagsFrom := 0, pats := #[{}] }
def wm (s e : Nat) : Mat := { pat := 0, caps := [⟨0, s, e, ⟨0, s⟩, ⟨0, e⟩, false⟩, ⟨1, s, e, ⟨0, s⟩, ⟨0, e⟩, false⟩] }

end TsVerif.C18

namespace TsVerif.C18

/-! ## The loop with pattern indices kept (used by the theorems about "lowest pattern index wins") -/

/-- `flushReady` returning the popped non-ignored ENTRIES (tag and pattern index). -/
def flushReadyP : Nat → Queue → Queue × Queue
  | 0, q => ([], q)
  | fuel + 1, q =>
    if ready q then
      match q with
      | [] => ([], q)
      | (t, p) :: rest =>
        let (out, q') := flushReadyP fuel rest
        (if t.isIgnored then out else (t, p) :: out, q')
    else ([], q)

def drainP (skip : Bool) : Nat → Queue → Queue
  | 0, _ => []
  | fuel + 1, q =>
    match q with
    | [] => []
    | (t, p) :: rest =>
      if ready q then (if t.isIgnored then drainP skip fuel rest else (t, p) :: drainP skip fuel rest)
      else if skip && t.isIgnored then drainP skip fuel rest
      else (t, p) :: drainP skip fuel rest

/-- `run`, emitting entries. -/
def runP (v : Variant) (cfg : Cfg) (src : Bytes) : List Mat → St → Queue
  | [], st => drainP v.drainSkips st.queue.length st.queue
  | m :: ms, st =>
    let (out, q) := flushReadyP st.queue.length st.queue
    out ++ runP v cfg src ms (processMatch v cfg src m { st with queue := q })

/-- The entries inserted into the queue while `run` processes the matches, in order. -/
def arrivals (v : Variant) (cfg : Cfg) (src : Bytes) : List Mat → St → Queue
  | [], _ => []
  | m :: ms, st =>
    let st1 : St := { st with queue := (flushReadyP st.queue.length st.queue).2 }
    (inserted v cfg src m st1).toList ++ arrivals v cfg src ms (processMatch v cfg src m st1)

end TsVerif.C18

namespace TsVerif.C18

/-- `run`, keeping the flush batches apart: one list per `flushReady` call and one for the final drain. -/
def runB (v : Variant) (cfg : Cfg) (src : Bytes) : List Mat → St → List (List Tag)
  | [], st => [drain v.drainSkips st.queue.length st.queue]
  | m :: ms, st =>
    let (out, q) := flushReady st.queue.length st.queue
    out :: runB v cfg src ms (processMatch v cfg src m { st with queue := q })

end TsVerif.C18

namespace TsVerif.C18

/-- `bound < k` where `none` is "no bound yet". -/
def bLt (b : Option (Nat × Nat)) (k : Nat × Nat) : Bool :=
  match b with
  | none => true
  | some b => keyLt b k

/-- The largest key popped so far, after popping the (sorted) prefix `popped`. -/
def newBound (popped : Queue) (bound : Option (Nat × Nat)) : Option (Nat × Nat) :=
  match popped.getLast? with
  | some l => some (key l.1)
  | none => bound

/-- **No late arrival**: every entry a match inserts has a key larger than the key of every entry
popped (flushed) before it; `bound` is the largest key popped so far. -/
def noLate (v : Variant) (cfg : Cfg) (src : Bytes) : Option (Nat × Nat) → List Mat → St → Bool
  | _, [], _ => true
  | bound, m :: ms, st =>
    let q := (flushReadyP st.queue.length st.queue).2
    let popped := st.queue.take (st.queue.length - q.length)
    let bound' := newBound popped bound
    let st1 : St := { st with queue := q }
    (match inserted v cfg src m st1 with
     | some a => bLt bound' (key a.1)
     | none => true) && noLate v cfg src bound' ms (processMatch v cfg src m st1)

end TsVerif.C18

namespace TsVerif.C18
/-- Test matches with a pattern index (three patterns, all plain). -/
def wcfg3 : Cfg := { wcfg with pats := #[{}, {}, {}] }
def wmp (p s e : Nat) : Mat := { wm s e with pat := p }
end TsVerif.C18

namespace TsVerif.C18

/-! ## The loop with residence histories (for "lowest pattern index within one residence") -/

/-- A queue entry together with the arrivals merged into it since it entered the queue. -/
abbrev QueueH := List ((Tag × Nat) × List (Tag × Nat))

/-- `qInsert` that also records the arrival: appended to the history of the queued entry with the same
name range, or starting the history of a new entry. -/
def qInsertH (tag : Tag) (pat : Nat) : QueueH → QueueH
  | [] => [((tag, pat), [(tag, pat)])]
  | ((t, p), h) :: rest =>
    if key t == key tag then
      ((if p > pat then (tag, pat) else (t, p)), h ++ [(tag, pat)]) :: rest
    else if keyLt (key tag) (key t) then ((tag, pat), [(tag, pat)]) :: ((t, p), h) :: rest
    else ((t, p), h) :: qInsertH tag pat rest

def projH (q : QueueH) : Queue := q.map Prod.fst

def flushReadyH : Nat → QueueH → QueueH × QueueH
  | 0, q => ([], q)
  | fuel + 1, q =>
    if ready (projH q) then
      match q with
      | [] => ([], q)
      | ((t, p), h) :: rest =>
        let (out, q') := flushReadyH fuel rest
        (if t.isIgnored then out else ((t, p), h) :: out, q')
    else ([], q)

def drainH (skip : Bool) : Nat → QueueH → QueueH
  | 0, _ => []
  | fuel + 1, q =>
    match q with
    | [] => []
    | ((t, p), h) :: rest =>
      if ready (projH q) then (if t.isIgnored then drainH skip fuel rest else ((t, p), h) :: drainH skip fuel rest)
      else if skip && t.isIgnored then drainH skip fuel rest
      else ((t, p), h) :: drainH skip fuel rest

/-- `runP` on a queue with histories (`st.queue` is kept equal to `projH qh`). -/
def runH (v : Variant) (cfg : Cfg) (src : Bytes) : List Mat → St → QueueH → QueueH
  | [], _, qh => drainH v.drainSkips qh.length qh
  | m :: ms, st, qh =>
    let (out, qh') := flushReadyH qh.length qh
    let st1 : St := { st with queue := projH qh' }
    let qh'' := match inserted v cfg src m st1 with
      | some a => qInsertH a.1 a.2 qh'
      | none => qh'
    out ++ runH v cfg src ms (processMatch v cfg src m st1) qh''

end TsVerif.C18

namespace TsVerif.C18

/-! ## Spec decoder (Unicode Table 3-7, well-formed UTF-8 byte sequences) -/

/-- One well-formed scalar at the head: `(scalar value, number of bytes)`. -/
def decodeStep : Bytes → Option (Nat × Nat)
  | [] => none
  | a :: rest =>
    if a < 0x80 then some (a, 1)
    else if 0xC2 ≤ a ∧ a ≤ 0xDF then
      match rest with
      | b :: _ => if 0x80 ≤ b ∧ b ≤ 0xBF then some ((a - 0xC0) * 64 + (b - 0x80), 2) else none
      | _ => none
    else if 0xE0 ≤ a ∧ a ≤ 0xEF then
      match rest with
      | b :: c :: _ =>
        if ((a = 0xE0 ∧ 0xA0 ≤ b ∧ b ≤ 0xBF) ∨ (0xE1 ≤ a ∧ a ≤ 0xEC ∧ 0x80 ≤ b ∧ b ≤ 0xBF) ∨
            (a = 0xED ∧ 0x80 ≤ b ∧ b ≤ 0x9F) ∨ (0xEE ≤ a ∧ 0x80 ≤ b ∧ b ≤ 0xBF)) ∧ 0x80 ≤ c ∧ c ≤ 0xBF
        then some ((a - 0xE0) * 4096 + (b - 0x80) * 64 + (c - 0x80), 3) else none
      | _ => none
    else if 0xF0 ≤ a ∧ a ≤ 0xF4 then
      match rest with
      | b :: c :: d :: _ =>
        if ((a = 0xF0 ∧ 0x90 ≤ b ∧ b ≤ 0xBF) ∨ (0xF1 ≤ a ∧ a ≤ 0xF3 ∧ 0x80 ≤ b ∧ b ≤ 0xBF) ∨
            (a = 0xF4 ∧ 0x80 ≤ b ∧ b ≤ 0x8F)) ∧ 0x80 ≤ c ∧ c ≤ 0xBF ∧ 0x80 ≤ d ∧ d ≤ 0xBF
        then some ((a - 0xF0) * 262144 + (b - 0x80) * 4096 + (c - 0x80) * 64 + (d - 0x80), 4) else none
      | _ => none
    else none

/-- Spec: the scalar values of a well-formed UTF-8 byte string (`none` if it is ill-formed). -/
def decodeUtf8 (fuel : Nat) (b : Bytes) : Option (List Nat) :=
  match fuel, b with
  | _, [] => some []
  | 0, _ :: _ => none
  | fuel + 1, a :: rest =>
    match decodeStep (a :: rest) with
    | some (cp, n) => (decodeUtf8 fuel (rest.drop (n - 1))).map (cp :: ·)
    | none => none

/-- UTF-16 code units of a list of scalar values: 1 per BMP scalar, 2 per supplementary one. -/
def utf16Units (cps : List Nat) : Nat := (cps.map (fun cp => if cp ≥ 0x10000 then 2 else 1)).sum

end TsVerif.C18

namespace TsVerif.C18
/-- UTF-16 code units of the decoding of `b` (0 if `b` is not well-formed UTF-8). -/
def unitsOf (b : Bytes) : Nat := ((decodeUtf8 b.length b).map utf16Units).getD 0
end TsVerif.C18
