import TsVerif.C12.Model
/-!
# C12 lemmas — the level-wise counting argument

`Chain lo hi xs`: the items of `xs` lie in document order between `lo` and `hi`, each starting at or
after the end of the previous one.  The nodes of one depth of a byte-tiling tree form such a chain
(`level_chain`), and in a chain at most `(E − S) + λ + 2` items of positive width can reach the
window `[S, E]` (`reach_chain_bound`), zero-width items costing one each.
-/
namespace TsVerif.C12
open TsGen TsVerif

def Chain : Nat → Nat → List (Nat × Tree) → Prop
  | lo, hi, [] => lo ≤ hi
  | lo, hi, x :: rest => lo ≤ x.1 ∧ Chain (x.1 + x.2.totalBytes) hi rest

theorem chain_bounds : ∀ (xs : List (Nat × Tree)) (lo hi : Nat), Chain lo hi xs → lo ≤ hi
  | [], _, _, h => h
  | x :: rest, lo, hi, h => by
    have := chain_bounds rest _ hi h.2
    have := h.1
    omega

theorem chain_append : ∀ (xs ys : List (Nat × Tree)) (lo mid hi : Nat),
    Chain lo mid xs → Chain mid hi ys → Chain lo hi (xs ++ ys)
  | [], ys, lo, mid, hi, h1, h2 => by
    cases ys with
    | nil => have := chain_bounds [] mid hi h2; simp only [List.nil_append, Chain] at h1 h2 ⊢; omega
    | cons y r => exact ⟨by have := h2.1; simp only [Chain] at h1; omega, h2.2⟩
  | x :: rest, ys, lo, mid, hi, h1, h2 => ⟨h1.1, chain_append rest ys _ mid hi h1.2 h2⟩

theorem sumTb_tiles (d : NodeData) (ks : List Tree) (h : tiles (.mk d ks) = true) :
    ks = [] ∨ sumTb ks = (Tree.mk d ks).totalBytes := by
  simp only [tiles, Bool.and_eq_true, Bool.or_eq_true, decide_eq_true_eq, List.isEmpty_iff] at h
  rcases h.1 with h1 | h1
  · exact Or.inl h1
  · exact Or.inr (by simp [Tree.totalBytes, Tree.data, h1])

mutual
  /-- The nodes at depth `d` of a tiling tree form a chain inside the tree's byte range. -/
  theorem level_chain : ∀ (t : Tree) (off d : Nat), tiles t = true →
      Chain off (off + t.totalBytes) (levelList t off d)
    | t, off, 0, _ => by
      unfold levelList
      exact ⟨Nat.le_refl _, Nat.le_refl _⟩
    | .mk nd ks, off, d + 1, h => by
      unfold levelList
      have hk : tilesL ks = true := by
        simp only [tiles, Bool.and_eq_true] at h; exact h.2
      have hc := levelKids_chain ks off d hk
      rcases sumTb_tiles nd ks h with h0 | h0
      · subst h0
        simp only [levelKids, Chain]
        omega
      · rw [← h0]; exact hc
  theorem levelKids_chain : ∀ (ks : List Tree) (off d : Nat), tilesL ks = true →
      Chain off (off + sumTb ks) (levelKids ks off d)
    | [], off, d, _ => by simp [levelKids, Chain, sumTb]
    | k :: rest, off, d, h => by
      simp only [tilesL, Bool.and_eq_true] at h
      unfold levelKids
      have h1 := level_chain k off d h.1
      have h2 := levelKids_chain rest (off + k.totalBytes) d h.2
      have : off + sumTb (k :: rest) = off + k.totalBytes + sumTb rest := by simp [sumTb]; omega
      rw [this]
      exact chain_append _ _ _ _ _ h1 h2
end

theorem reachL_cons (x : Nat × Tree) (rest : List (Nat × Tree)) (S E : Nat) :
    (reachL (x :: rest) S E).length = (if reaches x.2 x.1 S E then 1 else 0) + (reachL rest S E).length := by
  unfold reachL
  simp only [List.filter_cons]
  split <;> simp <;> omega

theorem zerosL_cons (x : Nat × Tree) (rest : List (Nat × Tree)) :
    zerosL (x :: rest) = (if x.2.totalBytes = 0 then 1 else 0) + zerosL rest := by
  unfold zerosL
  simp only [List.filter_cons]
  by_cases h : x.2.totalBytes = 0 <;> simp [h] <;> omega

/-- `reach_chain_bound`: potential argument along a chain. -/
theorem reach_chain_bound (lam S E : Nat) (hSE : S ≤ E) :
    ∀ (xs : List (Nat × Tree)) (lo hi : Nat), Chain lo hi xs → (∀ x ∈ xs, x.2.data.lookahead ≤ lam) →
      (E < lo → (reachL xs S E).length = 0) ∧
      (lo ≤ E → (reachL xs S E).length + max lo (S - lam - 1) ≤ E + 1 + zerosL xs)
  | [], lo, hi, _, _ => by simp [reachL, zerosL]; omega
  | x :: rest, lo, hi, hc, hl => by
    have hx := hl x (by simp)
    have ih := reach_chain_bound lam S E hSE rest _ hi hc.2 (fun y hy => hl y (by simp [hy]))
    have hlo := hc.1
    rw [reachL_cons, zerosL_cons]
    constructor
    · intro hgt
      have : reaches x.2 x.1 S E = false := by simp [reaches]; omega
      rw [this, ih.1 (by omega)]
      simp
    · intro hle
      by_cases hr : reaches x.2 x.1 S E = true
      · simp only [hr, if_true]
        simp only [reaches, Bool.and_eq_true, decide_eq_true_eq] at hr
        by_cases hnext : x.1 + x.2.totalBytes ≤ E
        · have := ih.2 hnext
          by_cases hz : x.2.totalBytes = 0 <;> simp only [hz, if_true, if_false] <;> omega
        · rw [ih.1 (by omega)]
          by_cases hz : x.2.totalBytes = 0 <;> simp only [hz, if_true, if_false] <;> omega
      · simp only [hr]
        by_cases hnext : x.1 + x.2.totalBytes ≤ E
        · have := ih.2 hnext
          by_cases hz : x.2.totalBytes = 0 <;> simp only [hz, if_true, if_false, Bool.false_eq_true] <;> omega
        · rw [ih.1 (by omega)]
          by_cases hz : x.2.totalBytes = 0 <;> simp only [hz, if_true, if_false, Bool.false_eq_true] <;> omega

mutual
  theorem level_la : ∀ (t : Tree) (off d : Nat) (x : Nat × Tree), x ∈ levelList t off d → x.2.data.lookahead ≤ maxLa t
    | t, off, 0, x, h => by
      unfold levelList at h
      simp only [List.mem_singleton] at h
      subst h
      cases t with
      | mk nd ks => simp [maxLa, Tree.data]; omega
    | .mk nd ks, off, d + 1, x, h => by
      unfold levelList at h
      have := levelKids_la ks off d x h
      simp only [maxLa]; omega
  theorem levelKids_la : ∀ (ks : List Tree) (off d : Nat) (x : Nat × Tree), x ∈ levelKids ks off d → x.2.data.lookahead ≤ maxLaL ks
    | [], _, _, x, h => by simp [levelKids] at h
    | k :: rest, off, d, x, h => by
      unfold levelKids at h
      simp only [List.mem_append] at h
      simp only [maxLaL]
      rcases h with h | h
      · have := level_la k off d x h; omega
      · have := levelKids_la rest _ d x h; omega
end

/-- Membership: the subtree at path `p` sits in level `|p|` with its offset. -/
theorem levelKids_mem : ∀ (ks : List Tree) (off d i : Nat) (k : Tree) (x : Nat × Tree),
    ks[i]? = some k → x ∈ levelList k (off + kidsOffset ks i) d → x ∈ levelKids ks off d
  | [], _, _, _, _, _, h, _ => by simp at h
  | c :: rest, off, d, 0, k, x, h, hx => by
    simp only [List.getElem?_cons_zero, Option.some.injEq] at h
    subst h
    unfold levelKids
    simp only [kidsOffset, List.take_zero, List.map_nil, List.sum_nil, Nat.add_zero] at hx
    exact List.mem_append_left _ hx
  | c :: rest, off, d, i + 1, k, x, h, hx => by
    simp only [List.getElem?_cons_succ] at h
    unfold levelKids
    apply List.mem_append_right
    apply levelKids_mem rest (off + c.totalBytes) d i k x h
    have : off + kidsOffset (c :: rest) (i + 1) = off + c.totalBytes + kidsOffset rest i := by
      simp [kidsOffset]; omega
    rw [← this]; exact hx

theorem level_mem : ∀ (p : List Nat) (t : Tree) (off : Nat) (s : Tree) (o : Nat),
    subtreeAt t p = some s → offsetAt t p = some o → (off + o, s) ∈ levelList t off p.length
  | [], t, off, s, o, hs, ho => by
    simp only [subtreeAt, offsetAt, Option.some.injEq] at hs ho
    subst hs ho
    simp [levelList]
  | i :: q, .mk nd ks, off, s, o, hs, ho => by
    simp only [subtreeAt, offsetAt] at hs ho
    cases hk : ks[i]? with
    | none => rw [hk] at hs; contradiction
    | some k =>
      rw [hk] at hs ho
      simp only at hs ho
      cases ho' : offsetAt k q with
      | none => rw [ho'] at ho; simp at ho
      | some o' =>
        rw [ho'] at ho
        simp only [Option.map_some, Option.some.injEq] at ho
        have ih := level_mem q k (off + kidsOffset ks i) s o' hs ho'
        simp only [List.length_cons]
        unfold levelList
        apply levelKids_mem ks off q.length i k _ hk
        have : off + o = off + kidsOffset ks i + o' := by omega
        rw [this]; exact ih

mutual
  /-- The uncovered nodes of a level are a sublist of the level. -/
  theorem levelListU_sublist (sh : Tree → Bool) : ∀ (t : Tree) (off d : Nat),
      (levelListU sh t off d).Sublist (levelList t off d)
    | t, off, 0 => by
      unfold levelListU levelList
      split
      · exact List.nil_sublist _
      · exact List.Sublist.refl _
    | .mk nd ks, off, d + 1 => by
      unfold levelListU levelList
      split
      · exact List.nil_sublist _
      · exact levelKidsU_sublist sh ks off d
  theorem levelKidsU_sublist (sh : Tree → Bool) : ∀ (ks : List Tree) (off d : Nat),
      (levelKidsU sh ks off d).Sublist (levelKids ks off d)
    | [], _, _ => by simp [levelKidsU, levelKids]
    | k :: rest, off, d => by
      unfold levelKidsU levelKids
      exact List.Sublist.append (levelListU_sublist sh k off d) (levelKidsU_sublist sh rest _ d)
end

/-- Split a level's uncovered nodes into those that reach the window and the stray ones. -/
theorem uncovered_level_split (sh : Tree → Bool) (t : Tree) (d S E : Nat) :
    (levelListU sh t 0 d).length ≤ (reachL (levelList t 0 d) S E).length +
      ((levelListU sh t 0 d).filter (fun x => !reaches x.2 x.1 S E)).length := by
  have hsub := levelListU_sublist sh t 0 d
  have h1 : ((levelListU sh t 0 d).filter (fun x => reaches x.2 x.1 S E)).length ≤ (reachL (levelList t 0 d) S E).length :=
    (List.Sublist.filter _ hsub).length_le
  have h2 : (levelListU sh t 0 d).length =
      ((levelListU sh t 0 d).filter (fun x => reaches x.2 x.1 S E)).length +
      ((levelListU sh t 0 d).filter (fun x => !reaches x.2 x.1 S E)).length := by
    generalize levelListU sh t 0 d = xs
    induction xs with
    | nil => rfl
    | cons x rest ih =>
      simp only [List.filter_cons, List.length_cons]
      by_cases hr : reaches x.2 x.1 S E = true <;> simp [hr] <;> omega
  omega

end TsVerif.C12
