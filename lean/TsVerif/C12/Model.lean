import TsVerif.C10.Model
/-!
# C12 — vocabulary for "which nodes does one edit mark, and which stay the very same value"

Paths address subtrees (list of child indices); `offsetAt` is the byte offset of the start of a
subtree's padding relative to the start of the root's padding, computed by prefix sums over the
ORIGINAL tree (the edit is given in the original coordinates).
-/
namespace TsVerif.C12
open TsGen TsVerif

/-- The subtree at a path. -/
def subtreeAt : Tree → List Nat → Option Tree
  | t, [] => some t
  | .mk _ ks, i :: p =>
    match ks[i]? with
    | some k => subtreeAt k p
    | none => none

/-- Total bytes of the first `i` children. -/
def kidsOffset (ks : List Tree) (i : Nat) : Nat := ((ks.take i).map Tree.totalBytes).sum

/-- Byte offset (relative to the root's padding start) of the subtree at a path. -/
def offsetAt : Tree → List Nat → Option Nat
  | _, [] => some 0
  | .mk _ ks, i :: p =>
    match ks[i]? with
    | some k => (offsetAt k p).map (· + kidsOffset ks i)
    | none => none

/-- Does a child that starts (padding) at `off` reach the edit window: `off ≤ E` and
`S ≤ off + total_bytes + lookahead_bytes`?  (`marked_bound` ∧ `marked_upper` for that child.) -/
def reaches (k : Tree) (off S E : Nat) : Bool :=
  decide (off ≤ E) && decide (S ≤ off + k.totalBytes + k.data.lookahead)

/-- Number of children (laid out from `off`) that reach the window `[S, E]`. -/
def countReachKids : List Tree → Nat → Nat → Nat → Nat
  | [], _, _, _ => 0
  | k :: rest, off, S, E => (if reaches k off S E then 1 else 0) + countReachKids rest (off + k.totalBytes) S E

mutual
  /-- No node of the tree is column-dependent (`depends_on_column`, set only for tokens of
  external scanners that called `get_column`). -/
  def noCol : Tree → Bool
    | .mk d ks => !d.dependsOnColumn && noColL ks
  def noColL : List Tree → Bool
    | [] => true
    | k :: rest => noCol k && noColL rest
end

end TsVerif.C12
