import TsVerif.C10.Model
/-!
# C12 — vocabulary for "which nodes does one edit mark, and which stay the very same value"

Paths address subtrees (list of child indices); `offsetAt` is the byte offset of the start of a
subtree's padding relative to the start of the root's padding, computed by prefix sums over the
ORIGINAL tree (the edit is given in the original coordinates).
-/
namespace TsVerif.C12
open TsGen TsVerif

/-- The subtree at a path. -/
def subtreeAt : Tree → List Nat → Option Tree
  | t, [] => some t
  | .mk _ ks, i :: p =>
    match ks[i]? with
    | some k => subtreeAt k p
    | none => none

/-- Total bytes of the first `i` children. -/
def kidsOffset (ks : List Tree) (i : Nat) : Nat := ((ks.take i).map Tree.totalBytes).sum

/-- Byte offset (relative to the root's padding start) of the subtree at a path. -/
def offsetAt : Tree → List Nat → Option Nat
  | _, [] => some 0
  | .mk _ ks, i :: p =>
    match ks[i]? with
    | some k => (offsetAt k p).map (· + kidsOffset ks i)
    | none => none

/-- Does a child that starts (padding) at `off` reach the edit window: `off ≤ E` and
`S ≤ off + total_bytes + lookahead_bytes`?  (`marked_bound` ∧ `marked_upper` for that child.) -/
def reaches (k : Tree) (off S E : Nat) : Bool :=
  decide (off ≤ E) && decide (S ≤ off + k.totalBytes + k.data.lookahead)

/-- Number of children (laid out from `off`) that reach the window `[S, E]`. -/
def countReachKids : List Tree → Nat → Nat → Nat → Nat
  | [], _, _, _ => 0
  | k :: rest, off, S, E => (if reaches k off S E then 1 else 0) + countReachKids rest (off + k.totalBytes) S E

mutual
  /-- No node of the tree is column-dependent (`depends_on_column`, set only for tokens of
  external scanners that called `get_column`). -/
  def noCol : Tree → Bool
    | .mk d ks => !d.dependsOnColumn && noColL ks
  def noColL : List Tree → Bool
    | [] => true
    | k :: rest => noCol k && noColL rest
end

/-! ## Levels: the nodes at one depth, in document order, with their byte offsets -/

mutual
  /-- Nodes at depth `d` below `t` (laid out at `off`), in document order. -/
  def levelList (t : Tree) (off d : Nat) : List (Nat × Tree) :=
    match d with
    | 0 => [(off, t)]
    | d + 1 => match t with
      | .mk _ ks => levelKids ks off d
  def levelKids (ks : List Tree) (off d : Nat) : List (Nat × Tree) :=
    match ks with
    | [] => []
    | k :: rest => levelList k off d ++ levelKids rest (off + k.totalBytes) d
end

def sumTb : List Tree → Nat
  | [] => 0
  | k :: rest => k.totalBytes + sumTb rest

mutual
  /-- Byte tiling: every inner node's total equals the sum of its children's totals (what
  `ts_subtree_summarize_children` establishes; C10's `WFb`).  Decidable, evaluated on real dumps. -/
  def tiles : Tree → Bool
    | .mk d ks => (ks.isEmpty || decide (sumTb ks = d.padding.bytes + d.size.bytes)) && tilesL ks
  def tilesL : List Tree → Bool
    | [] => true
    | k :: rest => tiles k && tilesL rest
end

mutual
  /-- Largest `lookahead_bytes` in the tree (the `λ` of the bounds). -/
  def maxLa : Tree → Nat
    | .mk d ks => max d.lookahead (maxLaL ks)
  def maxLaL : List Tree → Nat
    | [] => 0
    | k :: rest => max (maxLa k) (maxLaL rest)
end

mutual
  def height : Tree → Nat
    | .mk _ ks => heightL ks
  def heightL : List Tree → Nat
    | [] => 0
    | k :: rest => max (height k + 1) (heightL rest)
end

/-! ## Uncovered nodes: what a re-parse has to lex / create

`sh` marks the nodes of the NEW tree that were taken over from the old tree (on the implementation:
the heap address occurs in the old tree).  A node is *covered* when it or an ancestor is shared;
the uncovered leaves are the tokens the lexer had to deliver (C01 `reused_not_lexed`: the tokens
below a reused subtree are never requested), the uncovered inner nodes are the nodes the parser had
to create. -/

mutual
  /-- Uncovered nodes at depth `d` below `t`, in document order. -/
  def levelListU (sh : Tree → Bool) (t : Tree) (off d : Nat) : List (Nat × Tree) :=
    if sh t then [] else
    match d with
    | 0 => [(off, t)]
    | d + 1 => match t with
      | .mk _ ks => levelKidsU sh ks off d
  def levelKidsU (sh : Tree → Bool) (ks : List Tree) (off d : Nat) : List (Nat × Tree) :=
    match ks with
    | [] => []
    | k :: rest => levelListU sh k off d ++ levelKidsU sh rest (off + k.totalBytes) d
end

/-- All uncovered nodes down to depth `h`. -/
def uncoveredTotal (sh : Tree → Bool) (t : Tree) : Nat → Nat
  | 0 => (levelListU sh t 0 0).length
  | h + 1 => uncoveredTotal sh t h + (levelListU sh t 0 (h + 1)).length

/-- Uncovered nodes that do NOT reach the window `[S, E]` (on the pinned runtime: the rebuilt
fragile repeat spine, re-parsed statements that start with the word token, …). -/
def strayTotal (sh : Tree → Bool) (t : Tree) (S E : Nat) : Nat → Nat
  | 0 => ((levelListU sh t 0 0).filter (fun x => !reaches x.2 x.1 S E)).length
  | h + 1 => strayTotal sh t S E h + ((levelListU sh t 0 (h + 1)).filter (fun x => !reaches x.2 x.1 S E)).length

/-- Items of a level that reach the window `[S, E]`. -/
def reachL (xs : List (Nat × Tree)) (S E : Nat) : List (Nat × Tree) :=
  xs.filter (fun x => reaches x.2 x.1 S E)

/-- Zero-width items of a level (EOF leaf, zero-width external tokens, empty reductions). -/
def zerosL (xs : List (Nat × Tree)) : Nat := (xs.filter (fun x => x.2.totalBytes == 0)).length

/-- Sum over the levels `0 … h`. -/
def reachTotal (t : Tree) (S E : Nat) : Nat → Nat
  | 0 => (reachL (levelList t 0 0) S E).length
  | h + 1 => reachTotal t S E h + (reachL (levelList t 0 (h + 1)) S E).length

def zerosTotal (t : Tree) : Nat → Nat
  | 0 => zerosL (levelList t 0 0)
  | h + 1 => zerosTotal t h + zerosL (levelList t 0 (h + 1))

end TsVerif.C12
