import TsVerif.C01.GateLoop
import TsVerif.C01.Props
/-!
# C12 round 11 (c) — an interrupted and resumed re-parse in the gate-loop model

`ts_parser_parse` can be cancelled by the progress callback (it returns NULL with the parse stack
and the old-tree cursor `self->reusable_node` left as they are) and resumed by calling it again
(`ts_parser_has_outstanding_parse` → `resume_parsing`: the per-parse initialisation, including
`reusable_node_reset(old_tree->root)`, is skipped).  In C01's `GateLoop` model the state of the
re-parse is the pair (stack, frontier) and a run is `gloop` with fuel; an interruption after `m`
iterations followed by a resumption that continues FROM THE SAVED PAIR for `n` more iterations is

  `gloop T bottom n (gloop T bottom m st front).1 (gloop T bottom m st front).2`.

`gloop_resume` says this is the uninterrupted run with fuel `m + n`: in the model cancelling and
resuming costs nothing — same stack, same remaining frontier, hence the same reused subtrees and
the same lexed tokens.  The hypothesis hidden in the statement is exactly that the resumed run
starts from the saved frontier; that the REAL runtime keeps `self->reusable_node` (and the stack)
across a cancelled `ts_parser_parse` is NOT proved — it is judged by the interrupted drives of
`harness/src/bin/c12.rs` (sums of lexed tokens / served bytes / fresh nodes over the interrupted and
the resumed runs against the same thresholds).  The last `example` is the witness that the
hypothesis matters: resuming C01's toy run with an emptied frontier (what a cleared `reusable_node`
amounts to in the model) does not reach the state of the uninterrupted run.
-/
namespace TsVerif.C12
open TsVerif.C01 TsVerif.C01.LR

/-- A run that is stuck stays where it is, whatever fuel is left. -/
theorem gloop_stuck (T : Table) (bottom : Nat) (st : Stack) (front : List OTree)
    (h : gstep T bottom st front = none) : ∀ n, gloop T bottom n st front = (st, front)
  | 0 => by simp [gloop]
  | n + 1 => by simp [gloop, h]

/-- Interrupt after `m` iterations, resume from the saved (stack, frontier) for `n` more = the
uninterrupted run with fuel `m + n`. -/
theorem gloop_resume (T : Table) (bottom : Nat) : ∀ (m n : Nat) (st : Stack) (front : List OTree),
    gloop T bottom (m + n) st front
      = gloop T bottom n (gloop T bottom m st front).1 (gloop T bottom m st front).2
  | 0, n, st, front => by simp [gloop]
  | m + 1, n, st, front => by
    have e : m + 1 + n = (m + n) + 1 := by omega
    rw [e]
    cases h : gstep T bottom st front with
    | none => simp [gloop, h, gloop_stuck T bottom st front h n]
    | some p =>
      obtain ⟨st', front'⟩ := p
      simp [gloop, h, gloop_resume T bottom m n st' front']

/-- Two interruptions (fuel `a`, then `b`, then `c`) — the "twice" drives. -/
theorem gloop_resume_twice (T : Table) (bottom a b c : Nat) (st : Stack) (front : List OTree) :
    gloop T bottom (a + b + c) st front
      = (let r1 := gloop T bottom a st front
         let r2 := gloop T bottom b r1.1 r1.2
         gloop T bottom c r2.1 r2.2) := by
  simp only [gloop_resume T bottom (a + b) c, gloop_resume T bottom a b]

/-- Non-vacuity on C01's toy table: interrupted after 1 of 5 iterations and resumed from the saved pair
= the uninterrupted run (old subtree `A(a b)` reused, `c` shifted: states 4, 3, frontier consumed). -/
example : (gloop toyTable 0 4 (gloop toyTable 0 1 [] toyFront).1 (gloop toyTable 0 1 [] toyFront).2).1.map (·.state) = [4, 3]
    ∧ (gloop toyTable 0 1 [] toyFront).2.length = 1 := by
  constructor <;> rfl

/-- The hypothesis "resume from the SAVED frontier" matters: with the frontier dropped at the
interruption the resumed run stops where it was interrupted. -/
example : (gloop toyTable 0 4 (gloop toyTable 0 1 [] toyFront).1 []).1.map (·.state) = [3]
    ∧ (gloop toyTable 0 5 [] toyFront).1.map (·.state) = [4, 3] := by
  constructor <;> rfl

end TsVerif.C12
