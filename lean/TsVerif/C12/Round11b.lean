import TsVerif.C12.Round11
/-!
# C12 round 11 (b) — the number of marked paths is bounded by the width of the edit

`tips (editTree t e) ≤ (old_end − start) + λ + 2 + zeros t` for a byte-tiling tree `t` without marks
and without column-dependent nodes: closes the parameter `tips` of `edit_candidates_bound`.

Two steps: `tips_le_gt` (the tips of the edited tree are dominated by the purely geometric count
`gt` on the tree BEFORE the edit: nodes that reach the window and have no reaching descendant chain
below them) and `gt_pot` (potential argument: the counted nodes are pairwise unrelated, laid out in
document order, every one of positive width advances the clamped position by at least one).
-/
namespace TsVerif.C12
open TsGen TsVerif TsVerif.C10

mutual
  /-- Geometric tips: walk down through nodes that reach `[S, E]`; a reaching node none of whose
  descendants is counted counts 1. -/
  def gt (S E : Nat) : Tree → Nat → Nat
    | .mk d ks, off =>
      if reaches (.mk d ks) off S E then (if gtL S E ks off = 0 then 1 else gtL S E ks off) else 0
  def gtL (S E : Nat) : List Tree → Nat → Nat
    | [], _ => 0
    | k :: rest, off => gt S E k off + gtL S E rest (off + k.totalBytes)
end

/-- Position clamped to `[S − lam − 1, E + 1]`. -/
def pos (lam S E x : Nat) : Nat := min (max x (S - lam - 1)) (E + 1)

theorem pos_mono (lam S E x y : Nat) (h : x ≤ y) : pos lam S E x ≤ pos lam S E y := by
  unfold pos; omega

theorem pos_step (lam S E off w : Nat) (hSE : S ≤ E) (h1 : off ≤ E) (h2 : S ≤ off + w + lam) (hw : 0 < w) :
    pos lam S E off + 1 ≤ pos lam S E (off + w) := by
  unfold pos; omega

mutual
  theorem gt_pot (lam S E : Nat) (hSE : S ≤ E) : ∀ (t : Tree) (off : Nat), tiles t = true → maxLa t ≤ lam →
      gt S E t off + pos lam S E off ≤ pos lam S E (off + t.totalBytes) + zeros t
    | .mk d ks, off, ht, hl => by
      have htk : tilesL ks = true := by
        simp only [tiles, Bool.and_eq_true] at ht; exact ht.2
      simp only [maxLa] at hl
      have ih := gtL_pot lam S E hSE ks off htk (by omega)
      have htb : (Tree.mk d ks).totalBytes = d.padding.bytes + d.size.bytes := rfl
      unfold gt zeros
      by_cases hr : reaches (.mk d ks) off S E = true
      · simp only [hr, if_true]
        simp only [reaches, Bool.and_eq_true, decide_eq_true_eq, Tree.data] at hr
        by_cases h0 : gtL S E ks off = 0
        · simp only [h0, if_true]
          by_cases hz : d.padding.bytes + d.size.bytes = 0
          · simp only [hz, if_true, htb]
            have := pos_mono lam S E off (off + 0) (by omega)
            omega
          · simp only [hz, if_false, htb]
            have := pos_step lam S E off (d.padding.bytes + d.size.bytes) hSE hr.1
              (by have h2 := hr.2; simp only [decide_eq_true_eq, htb] at h2; omega) (by omega)
            omega
        · simp only [h0, if_false]
          rcases sumTb_tiles d ks ht with he | he
          · subst he; simp [gtL] at h0
          · rw [he] at ih
            omega
      · simp only [hr]
        simp only [Bool.false_eq_true, if_false]
        have := pos_mono lam S E off (off + (Tree.mk d ks).totalBytes) (by omega)
        omega
  theorem gtL_pot (lam S E : Nat) (hSE : S ≤ E) : ∀ (ks : List Tree) (off : Nat), tilesL ks = true → maxLaL ks ≤ lam →
      gtL S E ks off + pos lam S E off ≤ pos lam S E (off + sumTb ks) + zerosLst ks
    | [], off, _, _ => by simp [gtL, sumTb, zerosLst]
    | k :: rest, off, ht, hl => by
      simp only [tilesL, Bool.and_eq_true] at ht
      simp only [maxLaL] at hl
      have h1 := gt_pot lam S E hSE k off ht.1 (by omega)
      have h2 := gtL_pot lam S E hSE rest (off + k.totalBytes) ht.2 (by omega)
      simp only [gtL, sumTb, zerosLst]
      have : off + (k.totalBytes + sumTb rest) = off + k.totalBytes + sumTb rest := by omega
      rw [this]
      omega
end

/-- `gt_bound`: at most `(E − S) + λ + 2` pairwise unrelated nodes of positive width reach the
window; every zero-width node may add one. -/
theorem gt_bound (t : Tree) (S E : Nat) (hSE : S ≤ E) (ht : tiles t = true) :
    gt S E t 0 ≤ (E - S) + maxLa t + 2 + zeros t := by
  have h := gt_pot (maxLa t) S E hSE t 0 ht (Nat.le_refl _)
  unfold pos at h
  omega

/-! ## The tips of the edited tree are dominated by the geometric tips of the old tree -/

mutual
  theorem clean_tips : ∀ (t : Tree), clean t = true → tips t = 0 ∧ desc t = 0
    | .mk d ks, h => by
      simp only [clean, Bool.and_eq_true, Bool.not_eq_true'] at h
      simp [tips, desc, h.1]
  theorem cleanL_tips : ∀ (ks : List Tree), cleanL ks = true → tipsL ks = 0 ∧ descL ks = 0
    | [], _ => by simp [tipsL, descL]
    | k :: rest, h => by
      simp only [cleanL, Bool.and_eq_true] at h
      have h1 := clean_tips k h.1
      have h2 := cleanL_tips rest h.2
      simp [tipsL, descL, h1.1, h1.2, h2.1, h2.2]
end

mutual
  theorem tips_le_gt (S E : Nat) : ∀ (t : Tree) (e : Edit) (off : Nat),
      clean t = true → noCol t = true → e.start.bytes ≤ e.old_end.bytes →
      S ≤ e.start.bytes + off → e.old_end.bytes + off ≤ E →
      tips (editTree t e) ≤ gt S E t off
    | .mk d ks, e, off, hc, hn, hle, hS, hE => by
      rcases editTree_cases d ks e with h1 | ⟨hb, d', cx, ne, hd', ⟨hcs, hco, hcp⟩, h1⟩
      · rw [h1, (clean_tips _ hc).1]; exact Nat.zero_le _
      · rw [h1]
        have hck : cleanL ks = true := by
          simp only [clean, Bool.and_eq_true] at hc; exact hc.2
        simp only [noCol, Bool.and_eq_true, Bool.not_eq_true'] at hn
        have ih := tipsL_le_gtL S E ks cx ne length_zero 0 off hck hn.2 (by rw [hcp]; exact hn.1)
          (by rw [hcs, hco]; exact hle) (by rw [hcs]; exact hS) (by rw [hco]; exact hE)
        rw [show off + length_zero.bytes = off from by simp [length_zero]] at ih
        have hr : reaches (.mk d ks) off S E = true := by
          simp only [reaches, Bool.and_eq_true, decide_eq_true_eq]
          simp only [Tree.data] at hb ⊢
          omega
        have hdt := descL_tipsL_aux (editKids ks cx ne length_zero 0) _ (Nat.le_refl _)
        unfold tips gt
        simp only [hd', hr, if_true]
        by_cases h0 : descL (editKids ks cx ne length_zero 0) = 0
        · simp only [h0, if_true]
          split <;> omega
        · simp only [h0, if_false]
          have hpos : 1 ≤ tipsL (editKids ks cx ne length_zero 0) := by
            rcases Nat.eq_zero_or_pos (tipsL (editKids ks cx ne length_zero 0)) with hz | hp
            · rw [hz, Nat.zero_mul] at hdt; omega
            · exact hp
          split <;> omega
  theorem tipsL_le_gtL (S E : Nat) : ∀ (ks : List Tree) (cx : Ctx) (ne cr : Length) (i off : Nat),
      cleanL ks = true → noColL ks = true → cx.parentDependsOnColumn = false →
      cx.start.bytes ≤ cx.oldEnd.bytes →
      S ≤ cx.start.bytes + off → cx.oldEnd.bytes + off ≤ E →
      tipsL (editKids ks cx ne cr i) ≤ gtL S E ks (off + cr.bytes)
    | [], cx, ne, cr, i, off, _, _, _, _, _, _ => by
      unfold editKids; simp [tipsL]
    | c :: rest, cx, ne, cr, i, off, hc, hn, hp, hle, hS, hE => by
      have hc0 := hc
      simp only [cleanL, Bool.and_eq_true] at hc
      simp only [noColL, Bool.and_eq_true] at hn
      have hcr : (length_add cr c.totalSize).bytes = cr.bytes + c.totalBytes := by
        simp [length_add, Tree.totalSize, Tree.totalBytes]
      have hcd : c.data.dependsOnColumn = false := by
        obtain ⟨kd, kks⟩ := c
        have := hn.1
        simp only [noCol, Bool.and_eq_true, Bool.not_eq_true'] at this
        exact this.1
      unfold editKids
      simp only
      split
      · have ih := tipsL_le_gtL S E rest cx ne (length_add cr c.totalSize) (i + 1) off hc.2 hn.2 hp hle hS hE
        rw [hcr, ← Nat.add_assoc] at ih
        simp only [tipsL, gtL, (clean_tips c hc.1).1]
        omega
      · split
        · rw [(cleanL_tips _ hc0).1]; exact Nat.zero_le _
        · rename_i hstop
          have hup : cr.bytes ≤ cx.oldEnd.bytes := by
            unfold stopsAt at hstop
            simp [hp, hcd] at hstop
            omega
          split
          · have ih := tipsL_le_gtL S E rest cx cx.start (length_add cr c.totalSize) (i + 1) off hc.2 hn.2 hp hle hS hE
            rw [hcr, ← Nat.add_assoc] at ih
            have hk := tips_le_gt S E c
              { start := length_saturating_sub cx.start cr, old_end := length_saturating_sub cx.oldEnd cr,
                new_end := length_saturating_sub ne cr } (off + cr.bytes) hc.1 hn.1
              (by simp only [saturating_sub_bytes]; omega)
              (by simp only [saturating_sub_bytes]; omega)
              (by simp only [saturating_sub_bytes]; omega)
            simp only [tipsL, gtL]
            omega
          · have ih := tipsL_le_gtL S E rest cx ne (length_add cr c.totalSize) (i + 1) off hc.2 hn.2 hp hle hS hE
            rw [hcr, ← Nat.add_assoc] at ih
            have hk := tips_le_gt S E c
              { start := length_saturating_sub cx.start cr, old_end := length_saturating_sub cx.start cr,
                new_end := length_saturating_sub cx.start cr } (off + cr.bytes) hc.1 hn.1
              (by simp only [saturating_sub_bytes]; omega)
              (by simp only [saturating_sub_bytes]; omega)
              (by simp only [saturating_sub_bytes]; omega)
            simp only [tipsL, gtL]
            omega
end

/-- `tips_bound`: one edit of a byte-tiling tree without marks and without column-dependent nodes
leaves at most `(old_end − start) + λ + 2 + Z` marked paths (`Z` = zero-width nodes of the tree). -/
theorem tips_bound (t : Tree) (e : Edit) (hc : clean t = true) (hn : noCol t = true)
    (ht : tiles t = true) (hle : e.start.bytes ≤ e.old_end.bytes) :
    tips (editTree t e) ≤ (e.old_end.bytes - e.start.bytes) + maxLa t + 2 + zeros t := by
  have h1 := tips_le_gt e.start.bytes e.old_end.bytes t e 0 hc hn hle (by omega) (by omega)
  have h2 := gt_bound t e.start.bytes e.old_end.bytes hle ht
  omega

/-- `edit_candidates_total_bound` — the statement the notes kept OPEN as "a bound
`c · (depth + fan-out)` in terms of the tree shape": after ONE edit of a tree as the parser returns
it (no marks), byte-tiling and without column-dependent nodes, the marked nodes that the re-parse
descends through number at most `(w + λ + 2 + Z) · (height + 1)` and the maximal unmarked subtrees
(the reuse candidates, each of them the very same value as in the old tree) at most
`1 + (w + λ + 2 + Z) · (height + 1) · fan-out`; `w` = width of the edit, `λ` = largest
`lookahead_bytes`, `Z` = zero-width nodes.  The size of the document does not occur. -/
theorem edit_candidates_total_bound (t : Tree) (e : Edit) (hc : clean t = true) (hn : noCol t = true)
    (ht : tiles t = true) (hle : e.start.bytes ≤ e.old_end.bytes) :
    desc (editTree t e) ≤ ((e.old_end.bytes - e.start.bytes) + maxLa t + 2 + zeros t) * (height t + 1) ∧
    front (editTree t e) ≤
      1 + ((e.old_end.bytes - e.start.bytes) + maxLa t + 2 + zeros t) * (height t + 1) * maxFan t := by
  have hT := tips_bound t e hc hn ht hle
  have hd := desc_tips_bound (editTree t e) (height t + 1) (by rw [(edit_shape t e).1]; omega)
  have hf := (edit_candidates_bound t e).1
  have h1 : tips (editTree t e) * (height t + 1) ≤
      ((e.old_end.bytes - e.start.bytes) + maxLa t + 2 + zeros t) * (height t + 1) :=
    Nat.mul_le_mul_right _ hT
  have h2 := Nat.mul_le_mul_right (maxFan t) h1
  exact ⟨Nat.le_trans hd h1, by omega⟩

/-- Non-vacuity: the hypotheses hold for `root9`/`edit9`; 1 tip ≤ (10−9)+0+2+0 = 3; 3 descended
≤ 3·3; 4 candidates ≤ 1 + 3·3·3. -/
example : clean root9 = true ∧ noCol root9 = true ∧ tiles root9 = true ∧
    edit9.start.bytes ≤ edit9.old_end.bytes ∧ zeros root9 = 0 ∧ maxLa root9 = 0 ∧
    gt 9 10 root9 0 = 2 ∧ tips (editTree root9 edit9) = 1 := by decide

end TsVerif.C12
