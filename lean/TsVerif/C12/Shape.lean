import TsVerif.C12.Model
/-!
# C12 — counting functions for the top-down walk over the marks of an edited tree

Executable definitions (no Mathlib; used by the theorems of `Round11.lean` / `Round11b.lean` and
evaluated by the driver on the real dumps of `ts_tree_edit`).
-/
namespace TsVerif.C12
open TsGen TsVerif

mutual
  /-- Descended nodes: marked (`has_changes`) nodes all of whose ancestors are marked. -/
  def desc : Tree → Nat
    | .mk d ks => if d.hasChanges then 1 + descL ks else 0
  def descL : List Tree → Nat
    | [] => 0
    | k :: rest => desc k + descL rest
end

mutual
  /-- Reuse candidates: unmarked nodes all of whose ancestors are marked (the maximal unmarked
  subtrees met by the top-down walk). -/
  def front : Tree → Nat
    | .mk d ks => if d.hasChanges then frontL ks else 1
  def frontL : List Tree → Nat
    | [] => 0
    | k :: rest => front k + frontL rest
end

mutual
  /-- Ends of the marked paths: descended nodes that have no marked child. -/
  def tips : Tree → Nat
    | .mk d ks => if d.hasChanges then (if descL ks = 0 then 1 else tipsL ks) else 0
  def tipsL : List Tree → Nat
    | [] => 0
    | k :: rest => tips k + tipsL rest
end

mutual
  /-- Largest number of children of a node. -/
  def maxFan : Tree → Nat
    | .mk _ ks => max ks.length (maxFanL ks)
  def maxFanL : List Tree → Nat
    | [] => 0
    | k :: rest => max (maxFan k) (maxFanL rest)
end

mutual
  /-- No node carries `has_changes` (a tree as the parser returns it). -/
  def clean : Tree → Bool
    | .mk d ks => !d.hasChanges && cleanL ks
  def cleanL : List Tree → Bool
    | [] => true
    | k :: rest => clean k && cleanL rest
end

mutual
  /-- Zero-width nodes of the whole tree (EOF leaf, zero-width external tokens, empty reductions). -/
  def zeros : Tree → Nat
    | .mk d ks => (if d.padding.bytes + d.size.bytes = 0 then 1 else 0) + zerosLst ks
  def zerosLst : List Tree → Nat
    | [] => 0
    | k :: rest => zeros k + zerosLst rest
end

end TsVerif.C12
