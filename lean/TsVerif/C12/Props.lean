import TsVerif.C12.Judge
import TsVerif.C12.Levels
import TsVerif.C01.Props
/-!
# C12 — Re-parsing after a small edit reuses the unchanged parts of the old tree

Property text: "When a large error-free document receives a single small edit, the re-parse lexes
only a small fraction of the document's tokens, asks the input callback for only a small part of
the text, and the new tree shares the overwhelming majority of its nodes (same node identity) with
the old tree.  The fractions do not grow with document size."

CLAUSE-BY-CLAUSE MAP (property text → theorems; PROVED on the model / PARTIAL (hypothesis and how
often it holds on real data) / JUDGED ONLY on the real runtime, Judge.lean + checks/c12.py)

| phrase of the property | theorems / judge clause | status |
|---|---|---|
| "a large error-free document receives a single small edit" | premise of every case: `incr_error = scratch_error = 0`, incremental s-expression = scratch s-expression (`judgeCase`) | JUDGED (setup) |
| "the re-parse lexes only a small fraction of the document's tokens" | `lex_calls_bound` (C01 machine: lexed ≤ consumed − reused), `reparse_work_bound_partial` (uncovered nodes of the new tree ≤ (h+1)(w+λ+2)+Z+stray), `gate_state_test_partial` (C01: the gate's state test succeeds everywhere after a same-kind replacement) | PARTIAL: premise `stray = 0` holds in 0 of 84 evaluated re-parses (fragile repeat spine), `uncovered − stray` is 10–30; measured fraction JUDGED against thresholds |
| "asks the input callback for only a small part of the text" | bytes served by the counting 4-byte-chunk callback | JUDGED ONLY |
| "the new tree shares the overwhelming majority of its nodes (same node identity)" | on the edit: `edit_same_or_marked`, `unmarked_shared` (every unmarked subtree IS the old value), `marked_bound`, `marked_upper`, `rebuilt_kid_reaches`, `marked_fanout_bound`, `marked_total_bound_partial` (rebuilt nodes ≤ (h+1)(w+λ+2)+Z); on the re-parse: `reparse_work_bound_partial` | edit level PROVED (hypotheses `tiles`, `noCol`: evaluated, hold on every real tree); re-parse level PARTIAL (stray); fractions JUDGED (all heap nodes / visible nodes) |
| "The fractions do not grow with document size" | no term of `marked_total_bound_partial` / `reparse_work_bound_partial` depends on the document size except through `height`; `balanced` (repeat chains ≤ 2·log₂+4 deep) | bound PROVED, `balanced` and the growth comparison (≤ 1.5× + 1 %) JUDGED |
| quantifier "calibrated zoo grammars, 10^3..10^5 tokens, single-token edits at every relative position" | lst, arith, jsonish, stmt, cdecl (GLR), pyish, markscan, declscan × 10^3, 10^4 (thorough 10^5) × 6 positions | JUDGED |

Details per group of theorems
committed thresholds — see Judge.lean and checks/c12.py; what is proved is why the amount of work
is bounded by the edit, on the model of `ts_subtree_edit` that C10 ties to the code):
* "the edit marks only the touched path" — `marked_bound`: every subtree that `editTree` does not
  return as the very same value has an extended span `[start of padding, end + lookahead_bytes]`
  that reaches the start of the edit; `edit_same_or_marked`: a subtree is either returned
  unchanged or carries `has_changes`.
  OPEN (upper side): a rebuilt subtree also starts at or before the old end of the edit unless it
  is column-dependent on the edited row (`stopsAt` of C10) — judged on the dumps (`marksOk`), not
  proved.
* "the touched path is thin" — `rebuilt_kid_reaches` + `marked_fanout_bound`: of the children of ANY
  node at most `(old_end − start) + λ + 2` can be rebuilt (children of positive width, look-ahead
  ≤ λ), independent of the number of children; together with `balanced` (judged on the dumps:
  repeat chains are logarithmically deep) the marked set of a one-token edit is O(depth) nodes.
  Global: `level_reach_bound`, `reach_total_bound`, `rebuilt_in_level`,
  `marked_total_bound_partial` — for byte-tiling trees (`tiles`, decidable, an OBLIGATION evaluated
  on every real tree) the rebuilt nodes are among at most `(height+1)·(w+λ+2) + Z` nodes, `Z` =
  zero-width nodes (EOF leaf, zero-width external tokens, empty reductions — counted, not assumed
  away); the bound itself is evaluated on the real trees (`bound_ok`).  The FULL statement about
  the re-parse (lexer calls + created nodes) is kept as OPEN in the doc comment of
  `marked_total_bound_partial`.
* "unchanged parts are shared" — `unmarked_shared`: every subtree of the edited tree without
  `has_changes` IS the subtree at the same path of the tree before the edit (same value; in the C
  code the same pointer, which `marksOk` checks on the dumps by comparing addresses).
* "reuse instead of lexing" — the gate accepts exactly the unmarked, non-fragile, non-error
  candidates (C01 `gate_accepts`); on C01's LR machine (`TsVerif/C01/LR.lean`, validated against
  the real parser on the dumped tables): `reused_not_lexed` (C01) — tokens taken from the lexer +
  tokens below reused subtrees = tokens consumed, so the tokens of a reused subtree are never
  requested — and `lex_calls_bound` below.  A bound in terms of depth and fan-out
  (`c · (depth + fan-out)`) needs the `Balanced` hypothesis, which is JUDGED on the dumps
  (`Judge.lean: balanced`), and is OPEN.
-/
namespace TsVerif.C12
open TsGen TsVerif TsVerif.C10

theorem totalSize_bytes (t : Tree) : t.totalSize.bytes = t.totalBytes := by
  simp [Tree.totalSize, Tree.totalBytes, length_add]

theorem saturating_sub_bytes (a b : Length) : (length_saturating_sub a b).bytes = a.bytes - b.bytes := by
  unfold length_saturating_sub
  split
  · simp [length_sub]; omega
  · simp [length_zero]; omega

theorem kidsOffset_zero (ks : List Tree) : kidsOffset ks 0 = 0 := by simp [kidsOffset]

theorem kidsOffset_succ (c : Tree) (rest : List Tree) (j : Nat) :
    kidsOffset (c :: rest) (j + 1) = c.totalBytes + kidsOffset rest j := by
  simp [kidsOffset]

/-- Every output of the child loop is the input child itself, or `editTree` of it with an edit
whose start is the parent's edit start translated into the child's coordinates. -/
theorem editKids_get : ∀ (ks : List Tree) (cx : Ctx) (ne cr : Length) (i j : Nat) (k' : Tree),
    (editKids ks cx ne cr i)[j]? = some k' →
    ∃ k, ks[j]? = some k ∧
      (k' = k ∨ ∃ e' : Edit, k' = editTree k e' ∧
        e'.start.bytes = cx.start.bytes - (cr.bytes + kidsOffset ks j) ∧
        (e'.old_end.bytes = cx.oldEnd.bytes - (cr.bytes + kidsOffset ks j) ∨
          e'.old_end.bytes = cx.start.bytes - (cr.bytes + kidsOffset ks j)) ∧
        (cx.parentDependsOnColumn = false → k.data.dependsOnColumn = false →
          cr.bytes + kidsOffset ks j ≤ cx.oldEnd.bytes))
  | [], cx, ne, cr, i, j, k', h => by
    unfold editKids at h
    simp at h
  | c :: rest, cx, ne, cr, i, j, k', h => by
    unfold editKids at h
    simp only at h
    have hcr : (length_add cr c.totalSize).bytes = cr.bytes + c.totalBytes := by
      simp [length_add, Tree.totalSize, Tree.totalBytes]
    split at h
    · -- child skipped: entirely before the edit
      cases j with
      | zero => exact ⟨c, by simp, Or.inl (by simpa using h.symm)⟩
      | succ j =>
        simp only [List.getElem?_cons_succ] at h
        obtain ⟨k, hk, hr⟩ := editKids_get rest cx ne _ (i + 1) j k' h
        refine ⟨k, by simpa using hk, ?_⟩
        rcases hr with hr | ⟨e', he, hs, ho, hu⟩
        · exact Or.inl hr
        · rw [hcr] at hs ho hu
          rw [kidsOffset_succ]
          refine Or.inr ⟨e', he, by omega, ?_, fun a b => by have := hu a b; omega⟩
          rcases ho with ho | ho
          · exact Or.inl (by omega)
          · exact Or.inr (by omega)
    · split at h
      · -- loop stops: this child and everything after it are returned as they are
        exact ⟨k', h, Or.inl rfl⟩
      · rename_i hstop
        have hup : cx.parentDependsOnColumn = false → c.data.dependsOnColumn = false →
            cr.bytes + kidsOffset (c :: rest) 0 ≤ cx.oldEnd.bytes := by
          intro a b
          rw [kidsOffset_zero]
          unfold stopsAt at hstop
          simp [a, b] at hstop
          omega
        split at h
        all_goals
          cases j with
          | zero =>
            refine ⟨c, by simp, Or.inr ⟨_, by simpa using h.symm, ?_, ?_, hup⟩⟩
            · rw [saturating_sub_bytes, kidsOffset_zero]; omega
            · simp only [saturating_sub_bytes, kidsOffset_zero]
              first
                | exact Or.inl (by omega)
                | exact Or.inr (by omega)
          | succ j =>
            simp only [List.getElem?_cons_succ] at h
            obtain ⟨k, hk, hr⟩ := editKids_get rest cx _ _ (i + 1) j k' h
            refine ⟨k, by simpa using hk, ?_⟩
            rcases hr with hr | ⟨e', he, hs, ho, hu⟩
            · exact Or.inl hr
            · rw [hcr] at hs ho hu
              rw [kidsOffset_succ]
              refine Or.inr ⟨e', he, by omega, ?_, fun a b => by have := hu a b; omega⟩
              rcases ho with ho | ho
              · exact Or.inl (by omega)
              · exact Or.inr (by omega)

/-- The two outcomes of `editTree` on a node. -/
theorem editTree_cases (d : NodeData) (ks : List Tree) (e : Edit) :
    (editTree (.mk d ks) e = .mk d ks) ∨
    (e.start.bytes ≤ (Tree.mk d ks).totalBytes + d.lookahead ∧
      ∃ (d' : NodeData) (cx : Ctx) (ne : Length), d'.hasChanges = true ∧
        (cx.start = e.start ∧ cx.oldEnd = e.old_end ∧ cx.parentDependsOnColumn = d.dependsOnColumn) ∧
        editTree (.mk d ks) e = .mk d' (editKids ks cx ne length_zero 0)) := by
  unfold editTree
  simp only
  split
  · exact Or.inl rfl
  · rename_i h
    refine Or.inr ⟨?_, _, _, _, ?_, ⟨rfl, rfl, rfl⟩, rfl⟩
    · have : (length_add d.padding d.size).bytes = d.padding.bytes + d.size.bytes := by simp [length_add]
      simp only [Tree.totalBytes, Tree.data]
      omega
    · unfold store
      split
      · split <;> rfl
      · rfl

/-- `edit_same_or_marked`: `ts_subtree_edit` either returns a subtree as the very same value or
marks it. -/
theorem edit_same_or_marked (t : Tree) (e : Edit) :
    editTree t e = t ∨ (editTree t e).data.hasChanges = true := by
  obtain ⟨d, ks⟩ := t
  rcases editTree_cases d ks e with h | ⟨_, d', cx, ne, hd, _, h⟩
  · exact Or.inl h
  · exact Or.inr (by rw [h]; exact hd)

/-- `unmarked_shared`: every subtree of the edited tree that does not carry `has_changes` is the
subtree at the same path of the tree before the edit — the very same value. -/
theorem unmarked_shared : ∀ (p : List Nat) (t : Tree) (e : Edit) (s : Tree),
    subtreeAt (editTree t e) p = some s → s.data.hasChanges = false → subtreeAt t p = some s
  | [], t, e, s, h, hu => by
    simp only [subtreeAt, Option.some.injEq] at h ⊢
    rcases edit_same_or_marked t e with h1 | h1
    · rw [← h, h1]
    · rw [h] at h1; rw [h1] at hu; contradiction
  | i :: q, .mk d ks, e, s, h, hu => by
    rcases editTree_cases d ks e with h1 | ⟨_, d', cx, ne, _, _, h1⟩
    · rw [h1] at h; exact h
    · rw [h1] at h
      simp only [subtreeAt] at h ⊢
      split at h
      · rename_i k' hk'
        obtain ⟨k, hk, hr⟩ := editKids_get ks cx ne length_zero 0 i k' hk'
        rw [hk]
        rcases hr with hr | ⟨e', he, _, _, _⟩
        · rw [← hr]; exact h
        · rw [he] at h
          exact unmarked_shared q k e' s h hu
      · contradiction

/-- `marked_bound`: a subtree that the edit does not return as the very same value has an
extended span (padding start … end + lookahead_bytes) that reaches the start of the edit:
`e.start ≤ offset + total_bytes + lookahead_bytes`.  Hence everything whose extended span ends
before the edit starts is shared, whatever the size of the document. -/
theorem marked_bound : ∀ (p : List Nat) (t : Tree) (e : Edit) (s s' : Tree) (o : Nat),
    subtreeAt t p = some s → subtreeAt (editTree t e) p = some s' → offsetAt t p = some o → s' ≠ s →
    e.start.bytes ≤ o + s.totalBytes + s.data.lookahead
  | [], .mk d ks, e, s, s', o, hs, hs', ho, hne => by
    simp only [subtreeAt, offsetAt, Option.some.injEq] at hs hs' ho
    subst hs ho
    rcases editTree_cases d ks e with h1 | ⟨hb, _⟩
    · rw [h1] at hs'; exact absurd hs'.symm hne
    · simpa [Tree.data] using hb
  | i :: q, .mk d ks, e, s, s', o, hs, hs', ho, hne => by
    rcases editTree_cases d ks e with h1 | ⟨_, d', cx, ne, _, ⟨hcx, _, _⟩, h1⟩
    · rw [h1, hs] at hs'
      exact absurd (Option.some.inj hs').symm hne
    · rw [h1] at hs'
      simp only [subtreeAt, offsetAt] at hs hs' ho
      split at hs'
      · rename_i k' hk'
        obtain ⟨k, hk, hr⟩ := editKids_get ks cx ne length_zero 0 i k' hk'
        rw [hk] at hs ho
        simp only at hs ho
        rcases hr with hr | ⟨e', he, hst, _, _⟩
        · rw [hr, hs] at hs'
          exact absurd (Option.some.inj hs').symm hne
        · rw [he] at hs'
          cases ho' : offsetAt k q with
          | none => rw [ho'] at ho; simp at ho
          | some o' =>
            rw [ho'] at ho
            simp only [Option.map_some, Option.some.injEq] at ho
            have ih := marked_bound q k e' s s' o' hs hs' ho' hne
            rw [hst, hcx] at ih
            simp [length_zero] at ih
            omega
      · contradiction

theorem noColL_get : ∀ (ks : List Tree) (i : Nat) (k : Tree), noColL ks = true → ks[i]? = some k → noCol k = true
  | [], _, _, _, h => by simp at h
  | c :: rest, 0, k, hn, h => by
    simp only [noColL, Bool.and_eq_true] at hn
    simp only [List.getElem?_cons_zero, Option.some.injEq] at h
    rw [← h]; exact hn.1
  | c :: rest, i + 1, k, hn, h => by
    simp only [noColL, Bool.and_eq_true] at hn
    simp only [List.getElem?_cons_succ] at h
    exact noColL_get rest i k hn.2 h

/-- `marked_upper`: in a tree without column-dependent nodes, a subtree that the edit does not
return as the very same value starts (padding included) at or before the old end of the edit. -/
theorem marked_upper : ∀ (p : List Nat) (t : Tree) (e : Edit) (s s' : Tree) (o : Nat),
    noCol t = true → e.start.bytes ≤ e.old_end.bytes →
    subtreeAt t p = some s → subtreeAt (editTree t e) p = some s' → offsetAt t p = some o → s' ≠ s →
    o ≤ e.old_end.bytes
  | [], .mk d ks, e, s, s', o, _, _, _, _, ho, _ => by
    simp only [offsetAt, Option.some.injEq] at ho
    omega
  | i :: q, .mk d ks, e, s, s', o, hn, hle, hs, hs', ho, hne => by
    simp only [noCol, Bool.and_eq_true, Bool.not_eq_true'] at hn
    rcases editTree_cases d ks e with h1 | ⟨_, d', cx, ne, _, ⟨hcs, hco, hcp⟩, h1⟩
    · rw [h1, hs] at hs'
      exact absurd (Option.some.inj hs').symm hne
    · rw [h1] at hs'
      simp only [subtreeAt, offsetAt] at hs hs' ho
      split at hs'
      · rename_i k' hk'
        obtain ⟨k, hk, hr⟩ := editKids_get ks cx ne length_zero 0 i k' hk'
        rw [hk] at hs ho
        simp only at hs ho
        have hnk := noColL_get ks i k hn.2 hk
        rcases hr with hr | ⟨e', he, hst, hoe, hup⟩
        · rw [hr, hs] at hs'
          exact absurd (Option.some.inj hs').symm hne
        · rw [he] at hs'
          cases ho' : offsetAt k q with
          | none => rw [ho'] at ho; simp at ho
          | some o' =>
            rw [ho'] at ho
            simp only [Option.map_some, Option.some.injEq] at ho
            have hkd : k.data.dependsOnColumn = false := by
              obtain ⟨kd, kks⟩ := k
              simp only [noCol, Bool.and_eq_true, Bool.not_eq_true'] at hnk
              exact hnk.1
            have hoff := hup (by rw [hcp]; exact hn.1) hkd
            rw [hcs] at hst hoe
            rw [hco] at hoe hoff
            simp only [length_zero, Nat.zero_add] at hst hoe hoff
            have hle' : e'.start.bytes ≤ e'.old_end.bytes := by
              rcases hoe with hoe | hoe <;> omega
            have ih := marked_upper q k e' s s' o' hnk hle' hs hs' ho' hne
            rcases hoe with hoe | hoe <;> omega
      · contradiction

/-! ## Fan-out of the marked set: bounded by the width of the edit, not by the number of children -/

/-- Counting lemma: among children of positive width whose look-ahead is at most `lam`, laid out
from `off`, those that reach the window `[S, E]` fit between `max off (S − lam − 1)` and `E`. -/
theorem countReachKids_le (lam S E : Nat) (hSE : S ≤ E) :
    ∀ (ks : List Tree) (off : Nat), (∀ k ∈ ks, 1 ≤ k.totalBytes ∧ k.data.lookahead ≤ lam) →
      (E < off → countReachKids ks off S E = 0) ∧
      (off ≤ E → countReachKids ks off S E + max off (S - lam - 1) ≤ E + 1)
  | [], off, _ => by simp [countReachKids]; omega
  | k :: rest, off, h => by
    have hk := h k (by simp)
    have ih := countReachKids_le lam S E hSE rest (off + k.totalBytes) (fun x hx => h x (by simp [hx]))
    unfold countReachKids
    constructor
    · intro hgt
      have : reaches k off S E = false := by simp [reaches]; omega
      rw [this, ih.1 (by omega)]
      simp
    · intro hle
      by_cases hr : reaches k off S E = true
      · simp only [hr, if_true]
        simp only [reaches, Bool.and_eq_true, decide_eq_true_eq] at hr
        by_cases hnext : off + k.totalBytes ≤ E
        · have := ih.2 hnext
          omega
        · rw [ih.1 (by omega)]
          omega
      · simp only [hr]
        by_cases hnext : off + k.totalBytes ≤ E
        · have := ih.2 hnext
          simp only [Bool.false_eq_true, if_false, Nat.zero_add]
          omega
        · rw [ih.1 (by omega)]
          simp only [Bool.false_eq_true, if_false, Nat.zero_add]
          omega

/-- `marked_fanout_bound`: however many children a node has, at most
`(old_end − start) + lam + 2` of them can reach the edit — and only those can be rebuilt
(`rebuilt_kid_reaches`).  With `balanced` (every repeat chain logarithmically deep, judged on the
dumps) this is why a one-token edit marks O(depth) nodes. -/
theorem marked_fanout_bound (lam : Nat) (ks : List Tree) (e : Edit) (hle : e.start.bytes ≤ e.old_end.bytes)
    (h : ∀ k ∈ ks, 1 ≤ k.totalBytes ∧ k.data.lookahead ≤ lam) :
    countReachKids ks 0 e.start.bytes e.old_end.bytes ≤ (e.old_end.bytes - e.start.bytes) + lam + 2 := by
  have := (countReachKids_le lam e.start.bytes e.old_end.bytes hle ks 0 h).2 (by omega)
  omega

/-- `rebuilt_kid_reaches`: a child that `ts_subtree_edit` does not return as the very same value
reaches the edit window (so it is one of the children counted by `countReachKids`). -/
theorem rebuilt_kid_reaches (d : NodeData) (ks : List Tree) (e : Edit) (j : Nat) (k k' : Tree)
    (hn : noCol (.mk d ks) = true) (hle : e.start.bytes ≤ e.old_end.bytes)
    (hk : ks[j]? = some k) (hk' : subtreeAt (editTree (.mk d ks) e) [j] = some k') (hne : k' ≠ k) :
    reaches k (kidsOffset ks j) e.start.bytes e.old_end.bytes = true := by
  have hs : subtreeAt (.mk d ks) [j] = some k := by simp [subtreeAt, hk]
  have ho : offsetAt (.mk d ks) [j] = some (kidsOffset ks j) := by simp [offsetAt, hk]
  have h1 := marked_bound [j] (.mk d ks) e k k' _ hs hk' ho hne
  have h2 := marked_upper [j] (.mk d ks) e k k' _ hn hle hs hk' ho hne
  simp only [reaches, Bool.and_eq_true, decide_eq_true_eq]
  exact ⟨h2, h1⟩

/-! ## The global bound: marked nodes ≤ (height + 1) · (edit width + λ + 2) + zero-width nodes -/

/-- `level_reach_bound`: in a byte-tiling tree, at every depth at most
`(E − S) + λ + 2` nodes of positive width reach the window `[S, E]` (`λ` = largest
`lookahead_bytes`); each zero-width node of that depth (EOF leaf, zero-width external tokens,
empty reductions) may add one. -/
theorem level_reach_bound (t : Tree) (d S E : Nat) (hSE : S ≤ E) (ht : tiles t = true) :
    (reachL (levelList t 0 d) S E).length ≤ (E - S) + maxLa t + 2 + zerosL (levelList t 0 d) := by
  have h := (reach_chain_bound (maxLa t) S E hSE (levelList t 0 d) 0 _ (level_chain t 0 d ht)
    (fun x hx => level_la t 0 d x hx)).2 (by omega)
  omega

/-- `reach_total_bound`: summed over the depths `0 … h`. -/
theorem reach_total_bound (t : Tree) (S E : Nat) (hSE : S ≤ E) (ht : tiles t = true) :
    ∀ h, reachTotal t S E h ≤ (h + 1) * ((E - S) + maxLa t + 2) + zerosTotal t h
  | 0 => by
    have := level_reach_bound t 0 S E hSE ht
    simp only [reachTotal, zerosTotal]; omega
  | h + 1 => by
    have ih := reach_total_bound t S E hSE ht h
    have := level_reach_bound t (h + 1) S E hSE ht
    simp only [reachTotal, zerosTotal]
    have e : (h + 1 + 1) * ((E - S) + maxLa t + 2) = (h + 1) * ((E - S) + maxLa t + 2) + ((E - S) + maxLa t + 2) := by
      rw [Nat.add_mul, Nat.one_mul]
    rw [e]; omega

/-- `rebuilt_in_level`: every subtree that `ts_subtree_edit` does not return as the very same value
is one of the counted nodes — it sits in the level of its depth and reaches the edit window. -/
theorem rebuilt_in_level (p : List Nat) (t : Tree) (e : Edit) (s s' : Tree) (o : Nat)
    (hn : noCol t = true) (hle : e.start.bytes ≤ e.old_end.bytes)
    (hs : subtreeAt t p = some s) (hs' : subtreeAt (editTree t e) p = some s')
    (ho : offsetAt t p = some o) (hne : s' ≠ s) :
    (o, s) ∈ reachL (levelList t 0 p.length) e.start.bytes e.old_end.bytes := by
  have h1 := marked_bound p t e s s' o hs hs' ho hne
  have h2 := marked_upper p t e s s' o hn hle hs hs' ho hne
  have hm := level_mem p t 0 s o hs ho
  simp only [Nat.zero_add] at hm
  unfold reachL
  simp only [List.mem_filter, reaches, Bool.and_eq_true, decide_eq_true_eq]
  exact ⟨hm, h2, h1⟩

/-- `marked_total_bound_partial` — the part of "re-parse work after a one-token edit is
O(depth + edit width), not O(document)" that is about `ts_subtree_edit`: for a byte-tiling tree
without column-dependent nodes, of height `h`, every rebuilt (marked) node is among the
`reachTotal` nodes, and there are at most `(h + 1) · (edit width + λ + 2) + Z` of those, `Z` = the
zero-width nodes — no term grows with the size of the document.

FULL STATEMENT (OPEN): the re-parse itself — lexer calls + nodes created by
`ts_parser_parse(edited tree)` ≤ c · ((h + 1) · (w + λ + 2) + Z) for error-free, GLR-free parses of
`Balanced` trees.  Missing: the LR driver with the real gate inside the machine (first-leaf test,
fragile repeat spine: on the pinned tree the number of gate EVENTS is linear in the document,
see notes/C12.md, so the full statement can hold for lexing and node creation only).  What is
proved towards it: this theorem (marking), `unmarked_shared` (everything else is shared),
C01 `gate_accepts` (unmarked, non-fragile, non-error candidates are accepted), C01
`incr_eq_scratch` + `lex_calls_bound` (reused subtrees are not lexed).  `height ≤ c·log n` for
repeat chains is JUDGED on the dumps (`balanced`). -/
theorem marked_total_bound_partial (t : Tree) (e : Edit) (h : Nat)
    (hn : noCol t = true) (ht : tiles t = true) (hle : e.start.bytes ≤ e.old_end.bytes) :
    (∀ (p : List Nat) (s s' : Tree) (o : Nat), p.length ≤ h →
        subtreeAt t p = some s → subtreeAt (editTree t e) p = some s' → offsetAt t p = some o → s' ≠ s →
        (o, s) ∈ reachL (levelList t 0 p.length) e.start.bytes e.old_end.bytes) ∧
    reachTotal t e.start.bytes e.old_end.bytes h ≤
      (h + 1) * ((e.old_end.bytes - e.start.bytes) + maxLa t + 2) + zerosTotal t h :=
  ⟨fun p s s' o _ hs hs' ho hne => rebuilt_in_level p t e s s' o hn hle hs hs' ho hne,
   reach_total_bound t e.start.bytes e.old_end.bytes hle ht h⟩

/-- `uncovered_split`: the nodes a re-parse had to lex or create (uncovered nodes of the new tree,
down to depth `h`) are at most the nodes that reach the window plus the stray ones. -/
theorem uncovered_split (sh : Tree → Bool) (t : Tree) (S E : Nat) :
    ∀ h, uncoveredTotal sh t h ≤ reachTotal t S E h + strayTotal sh t S E h
  | 0 => by
    have := uncovered_level_split sh t 0 S E
    simp only [uncoveredTotal, reachTotal, strayTotal]; omega
  | h + 1 => by
    have ih := uncovered_split sh t S E h
    have := uncovered_level_split sh t (h + 1) S E
    simp only [uncoveredTotal, reachTotal, strayTotal]; omega

/-- `reparse_work_bound_partial` — "re-parse work after a small edit is O(depth + edit width), not
O(document)", as far as it can be stated on the result of the re-parse: let `t` be the NEW tree,
`[S, E]` the edit in new coordinates, `sh` the nodes taken over from the old tree.  The uncovered
nodes — leaves = tokens the lexer had to deliver (C01 `reused_not_lexed`), inner nodes = nodes the
parser had to create — number at most
`(h + 1) · ((E − S) + λ + 2) + Z + stray`, where `stray` counts uncovered nodes that do not even
reach the edit.  Under the DECIDABLE premise `stray = 0` ("everything the edit does not reach was
reused": no fragile repeat spine, no first-leaf refusals, no scanner-state skips) this is the bound
the property wants; the premise and `stray` are evaluated on every real re-parse.

FULL STATEMENT (OPEN): `stray = 0` (or `stray ≤ c·depth`) as a THEOREM about the reuse gate inside
the LR machine for tables whose repeat reductions are not fragile and whose first leaves are
reusable — needs the iterator + gate + `breakdown_top_of_stack` as a machine (C01's `IncrRun` takes
the reuse events as given). -/
theorem reparse_work_bound_partial (sh : Tree → Bool) (t : Tree) (S E h : Nat)
    (hSE : S ≤ E) (ht : tiles t = true) :
    uncoveredTotal sh t h ≤ (h + 1) * ((E - S) + maxLa t + 2) + zerosTotal t h + strayTotal sh t S E h := by
  have h1 := uncovered_split sh t S E h
  have h2 := reach_total_bound t S E hSE ht h
  omega

/-- `lex_calls_bound`: in every incremental run of the LR machine the number of lexer calls is at
most the number of tokens consumed minus the tokens that lie below reused subtrees. -/
theorem lex_calls_bound (T : C01.LR.Table) (bottom l r : Nat) (c d : C01.LR.Stack × List C01.Tok)
    (h : C01.LR.IncrRun T bottom l r c d) : l ≤ c.2.length - d.2.length - r := by
  have := C01.reused_not_lexed T bottom l r c d h
  omega

/-! ## Non-vacuity: a concrete tree and edit to which the three theorems apply non-trivially -/

/-- A two-byte leaf without look-ahead. -/
def leaf2 (sym : Nat) : Tree :=
  .mk { (default : NodeData) with symbol := sym, size := { bytes := 2, extent := { row := 0, column := 2 } } } []

/-- `root3` covers six bytes with three leaves `[0,2) [2,4) [4,6)`. -/
def root3 : Tree :=
  .mk { (default : NodeData) with symbol := 9, size := { bytes := 6, extent := { row := 0, column := 6 } } }
    [leaf2 1, leaf2 2, leaf2 3]

/-- Replace byte 3 (inside the middle leaf) by two bytes. -/
def edit3 : Edit :=
  { start := { bytes := 3, extent := { row := 0, column := 3 } }
    old_end := { bytes := 4, extent := { row := 0, column := 4 } }
    new_end := { bytes := 5, extent := { row := 0, column := 5 } } }

/-- The outer leaves are returned as the very same values (`unmarked_shared` applies: they are
unmarked), the middle one is rebuilt and marked, its offset 2 satisfies both bounds
(`3 ≤ 2 + 2 + 0`, `2 ≤ 4`), and `root3` has no column-dependent node. -/
example :
    subtreeAt (editTree root3 edit3) [0] = some (leaf2 1) ∧
    subtreeAt (editTree root3 edit3) [2] = some (leaf2 3) ∧
    (∃ s', subtreeAt (editTree root3 edit3) [1] = some s' ∧ s'.data.hasChanges = true ∧
      s'.data.size.bytes = 3) ∧
    subtreeAt root3 [1] = some (leaf2 2) ∧ offsetAt root3 [1] = some 2 ∧ noCol root3 = true ∧
    edit3.start.bytes ≤ edit3.old_end.bytes :=
  ⟨by rfl, by rfl, ⟨_, by rfl, by rfl, by rfl⟩, by rfl, by rfl, by rfl, by decide⟩

/-- The fan-out bound on the concrete tree: two of the three leaves reach the edit `[3,4]`
(the bound is `(4 − 3) + 0 + 2 = 3`), and the hypotheses of `marked_fanout_bound` hold. -/
example : countReachKids [leaf2 1, leaf2 2, leaf2 3] 0 3 4 = 2 ∧
    (∀ k ∈ [leaf2 1, leaf2 2, leaf2 3], 1 ≤ k.totalBytes ∧ k.data.lookahead ≤ 0) := by
  refine ⟨by decide, ?_⟩
  intro k hk
  simp only [List.mem_cons, List.not_mem_nil, or_false] at hk
  rcases hk with rfl | rfl | rfl <;> decide

/-- The global bound on the concrete tree: hypotheses hold, 3 nodes reach the edit (root + two
leaves), the bound is `(1+1)·((4−3)+0+2) + 0 = 6`. -/
example : tiles root3 = true ∧ noCol root3 = true ∧ height root3 = 1 ∧ maxLa root3 = 0 ∧
    reachTotal root3 3 4 1 = 3 ∧ zerosTotal root3 1 = 0 := by decide

/-- `reparse_work_bound_partial` on the concrete tree with the middle leaf fresh and the outer
leaves shared: 2 uncovered nodes (root, middle leaf), no stray node. -/
example : let sh : Tree → Bool := fun t => t.data.symbol == 1 || t.data.symbol == 3
    uncoveredTotal sh root3 1 = 2 ∧ strayTotal sh root3 3 4 1 = 0 := by decide

end TsVerif.C12
