import Std.Data.HashSet
import TsVerif.C12.Model
/-!
# C12 judge, evaluated on the real runtime's dumps and counters

* `shareStats`: how many heap nodes of the NEW tree are the very same node (address) as a node of
  the old (edited) tree that was handed to the parser.  Inline leaves are values without identity
  and are not counted.
* `marksOk`: the statements of `marked_bound` / `unmarked_shared` (and the OPEN upper side) decided
  on the real `before` / `edited` dumps of `ts_tree_edit`.
* `judgeCase`: the measured fractions (parts per million) against the committed thresholds.
* `growthOk`: the fraction at a larger size is not larger than 1.5 × the fraction at the smallest
  size (plus 1 % absolute slack for small-sample noise).
-/
namespace TsVerif.C12
open TsGen TsVerif

mutual
  def collectAddrs (t : Tree) (acc : Std.HashSet Nat) : Std.HashSet Nat :=
    match t with
    | .mk d ks => collectAddrsL ks (if d.addr == 0 then acc else acc.insert d.addr)
  def collectAddrsL (ks : List Tree) (acc : Std.HashSet Nat) : Std.HashSet Nat :=
    match ks with
    | [] => acc
    | k :: rest => collectAddrsL rest (collectAddrs k acc)
end

structure Share where
  nodes : Nat := 0
  heap : Nat := 0
  shared : Nat := 0
  visHeap : Nat := 0      -- visible heap nodes (the nodes the public API can hand out)
  visShared : Nat := 0
  leaves : Nat := 0
  deriving Repr

mutual
  def shareTree (old : Std.HashSet Nat) (t : Tree) (s : Share) : Share :=
    match t with
    | .mk d ks =>
      let s := { s with nodes := s.nodes + 1, leaves := if ks.isEmpty then s.leaves + 1 else s.leaves }
      let s := if d.addr == 0 then s
               else
                 let sh := old.contains d.addr
                 { s with heap := s.heap + 1, shared := if sh then s.shared + 1 else s.shared
                          visHeap := if d.visible then s.visHeap + 1 else s.visHeap
                          visShared := if d.visible && sh then s.visShared + 1 else s.visShared }
      shareKids old ks s
  def shareKids (old : Std.HashSet Nat) (ks : List Tree) (s : Share) : Share :=
    match ks with
    | [] => s
    | k :: rest => shareKids old rest (shareTree old k s)
end

def shareStats (old new : Tree) : Share := shareTree (collectAddrs old {}) new {}

def ppm (a b : Nat) : Nat := if b == 0 then 1000000 else a * 1000000 / b

structure Marks where
  marked : Nat := 0
  unmarked : Nat := 0
  maxDepth : Nat := 0
  maxMarkedKids : Nat := 0     -- largest number of marked children of one node (cf. `marked_fanout_bound`)
  fail : Option String := none
  deriving Repr

def Marks.bad (m : Marks) (msg : String) : Marks :=
  match m.fail with
  | some _ => m
  | none => { m with fail := some msg }

mutual
  /-- Lock-step walk of the tree before `ts_tree_edit` (clean) and after it; `off` is the
  absolute byte offset of the node's padding start in the OLD text; `col` says whether the node
  or an ancestor is column-dependent (the only licence for a mark beyond the edit's old end). -/
  def marksTree (start oldEnd : Nat) (t t' : Tree) (off depth : Nat) (col : Bool) (m : Marks) : Marks :=
    match t, t' with
    | .mk d ks, .mk d' ks' =>
      let col := col || d.dependsOnColumn
      let m := if d.hasChanges then m.bad s!"tree before the edit already has has_changes at offset {off}" else m
      let m := { m with maxDepth := max m.maxDepth depth }
      let m :=
        if d'.hasChanges then
          let m := { m with marked := m.marked + 1 }
          let m := if start ≤ off + (d.padding.bytes + d.size.bytes) + d.lookahead then m
                   else m.bad s!"marked_bound fails: node at offset {off} total {d.padding.bytes + d.size.bytes} lookahead {d.lookahead} is marked but ends before the edit start {start}"
          if off ≤ oldEnd || col then m
          else m.bad s!"node at offset {off} is marked although it starts after the old end {oldEnd} of the edit and is not column-dependent"
        else
          let m := { m with unmarked := m.unmarked + 1 }
          if d'.addr == d.addr && d'.symbol == d.symbol && decide (d'.padding = d.padding) && decide (d'.size = d.size)
              && d'.lookahead == d.lookahead && ks.length == ks'.length then m
          else m.bad s!"unmarked_shared fails: unmarked node at offset {off} is not the same object as before the edit"
      let mk := (ks'.filter (fun k => k.data.hasChanges)).length
      let m := { m with maxMarkedKids := max m.maxMarkedKids mk }
      if d'.hasChanges then marksKids start oldEnd ks ks' off (depth + 1) col m
      else m   -- an unmarked subtree is the same object: nothing below it can differ
  def marksKids (start oldEnd : Nat) (ks ks' : List Tree) (off depth : Nat) (col : Bool) (m : Marks) : Marks :=
    match ks, ks' with
    | k :: rest, k' :: rest' =>
      marksKids start oldEnd rest rest' (off + k.totalBytes) depth col (marksTree start oldEnd k k' off depth col m)
    | _, _ => m
end

def marksOk (start oldEnd : Nat) (before edited : Tree) : Marks :=
  marksTree start oldEnd before edited 0 0 false {}

/-! ## `Balanced`: repeat chains are logarithmically deep

A *repeat chain* is a maximal set of hidden nodes with the same symbol nested directly in each
other (`X_repeat1 → X_repeat1 X_repeat1 | item …`).  The parser builds them left-recursively
(height = number of elements) and `ts_parser__balance_subtree` rotates them before the tree is
returned.  The thresholds of this check (work per edit ∝ depth) rely on it, so it is judged on the
dumps: `height ≤ 2·⌈log₂(elements)⌉ + 4` for every chain. -/

def log2ceil (n : Nat) : Nat := if n ≤ 1 then 0 else Nat.log2 (n - 1) + 1

structure Bal where
  chains : Nat := 0
  maxElems : Nat := 0
  maxHeight : Nat := 0
  worstSlack : Int := 1000        -- min over chains of bound − height
  fail : Option String := none
  deriving Repr

mutual
  /-- (height, elements) of the chain rooted at `t` w.r.t. symbol `sym`; also visits all other
  chains below and records them in `b`. -/
  def chainOf (sym : Nat) (t : Tree) (b : Bal) : Nat × Nat × Bal :=
    match t with
    | .mk d ks =>
      if d.symbol == sym && !d.visible && !ks.isEmpty then
        let (h, e, b) := chainKids sym ks b
        (h + 1, e, b)
      else
        (0, 1, balTree (.mk d ks) b)
  def chainKids (sym : Nat) (ks : List Tree) (b : Bal) : Nat × Nat × Bal :=
    match ks with
    | [] => (0, 0, b)
    | k :: rest =>
      let (h1, e1, b) := chainOf sym k b
      let (h2, e2, b) := chainKids sym rest b
      (max h1 h2, e1 + e2, b)
  /-- Visit a node that is not inside a chain of its own symbol. -/
  def balTree (t : Tree) (b : Bal) : Bal :=
    match t with
    | .mk d ks =>
      if !d.visible && !ks.isEmpty && ks.any (fun k => k.data.symbol == d.symbol && !k.kids.isEmpty) then
        let (h, e, b) := chainKids d.symbol ks b
        let h := h + 1
        let bound := 2 * log2ceil e + 4
        let b := { b with chains := b.chains + 1, maxElems := max b.maxElems e, maxHeight := max b.maxHeight h
                          worstSlack := min b.worstSlack ((bound : Int) - (h : Int)) }
        if h ≤ bound then b
        else match b.fail with
          | some _ => b
          | none => { b with fail := some s!"repeat chain of symbol {d.symbol} with {e} elements has height {h} > 2*ceil(log2 {e})+4 = {bound}" }
      else balKids ks b
  def balKids (ks : List Tree) (b : Bal) : Bal :=
    match ks with
    | [] => b
    | k :: rest => balKids rest (balTree k b)
end

def balanced (root : Tree) : Bal := balTree root {}

structure Thresholds where
  lexed : Nat
  bytes : Nat
  fresh : Nat
  freshVis : Nat
  deriving Repr, Inhabited

structure Measured where
  lexedPpm : Nat
  bytesPpm : Nat
  freshPpm : Nat       -- heap nodes of the new tree that are not nodes of the old tree / heap nodes
  freshVisPpm : Nat    -- the same over VISIBLE heap nodes only (hidden repeat helpers excluded)
  deriving Repr, Inhabited

def judgeCase (thr : Thresholds) (m : Measured) (incrError scratchError sameSexp : Bool) (lexed : Nat := 1) : Option String :=
  if incrError || scratchError then some "document is not error-free"
  -- the edit replaces a token, so at least one token must have been lexed: 0 means the
  -- measurement interface (the `lexed_lookahead` log line) is gone, not that the parser is fast
  else if lexed == 0 then some "no lexed_lookahead event was observed although a token was replaced (logger interface changed?)"
  else if !sameSexp then some "incremental tree differs from the from-scratch tree"
  else if m.lexedPpm > thr.lexed then some s!"lexed fraction {m.lexedPpm} ppm exceeds threshold {thr.lexed} ppm"
  else if m.bytesPpm > thr.bytes then some s!"fraction of bytes requested from the read callback {m.bytesPpm} ppm exceeds threshold {thr.bytes} ppm"
  else if m.freshPpm > thr.fresh then some s!"fraction of new-tree heap nodes NOT shared with the old tree {m.freshPpm} ppm exceeds threshold {thr.fresh} ppm"
  else if m.freshVisPpm > thr.freshVis then some s!"fraction of new-tree VISIBLE heap nodes not shared with the old tree {m.freshVisPpm} ppm exceeds threshold {thr.freshVis} ppm"
  else none

/-- "Does not grow with document size": `big ≤ 1.5 × small + 1 %`. -/
def growthOk (small big : Nat) : Bool := big * 2 ≤ small * 3 + 20000

end TsVerif.C12
