import TsVerif.C12.Props
import TsVerif.C12.Round11
import TsVerif.C12.Round11b
import TsVerif.C12.Round11c
#print axioms TsVerif.C12.editKids_get
#print axioms TsVerif.C12.edit_same_or_marked
#print axioms TsVerif.C12.unmarked_shared
#print axioms TsVerif.C12.marked_bound
#print axioms TsVerif.C12.marked_upper
#print axioms TsVerif.C12.lex_calls_bound
#print axioms TsVerif.C12.countReachKids_le
#print axioms TsVerif.C12.marked_fanout_bound
#print axioms TsVerif.C12.rebuilt_kid_reaches
#print axioms TsVerif.C12.level_reach_bound
#print axioms TsVerif.C12.reach_total_bound
#print axioms TsVerif.C12.rebuilt_in_level
#print axioms TsVerif.C12.marked_total_bound_partial
#print axioms TsVerif.C12.uncovered_split
#print axioms TsVerif.C12.reparse_work_bound_partial
#print axioms TsVerif.C12.front_desc_bound
#print axioms TsVerif.C12.desc_tips_bound
#print axioms TsVerif.C12.reuse_candidates_bound
#print axioms TsVerif.C12.marked_is_rebuilt
#print axioms TsVerif.C12.marked_reaches_window
#print axioms TsVerif.C12.edit_shape
#print axioms TsVerif.C12.edit_candidates_bound
#print axioms TsVerif.C12.gt_bound
#print axioms TsVerif.C12.tips_le_gt
#print axioms TsVerif.C12.tips_bound
#print axioms TsVerif.C12.edit_candidates_total_bound
#print axioms TsVerif.C12.gloop_resume
#print axioms TsVerif.C12.gloop_resume_twice
