import TsVerif.C12.Props
#print axioms TsVerif.C12.editKids_get
#print axioms TsVerif.C12.edit_same_or_marked
#print axioms TsVerif.C12.unmarked_shared
#print axioms TsVerif.C12.marked_bound
#print axioms TsVerif.C12.marked_upper
#print axioms TsVerif.C12.lex_calls_bound
#print axioms TsVerif.C12.countReachKids_le
#print axioms TsVerif.C12.marked_fanout_bound
#print axioms TsVerif.C12.rebuilt_kid_reaches
#print axioms TsVerif.C12.level_reach_bound
#print axioms TsVerif.C12.reach_total_bound
#print axioms TsVerif.C12.rebuilt_in_level
#print axioms TsVerif.C12.marked_total_bound_partial
#print axioms TsVerif.C12.uncovered_split
#print axioms TsVerif.C12.reparse_work_bound_partial
