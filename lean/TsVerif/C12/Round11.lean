import TsVerif.C12.Props
import TsVerif.C12.Shape
/-!
# C12 round 11 — the reuse candidates after an edit: count bounded by the SHAPE of the marked set

The re-parse walks the edited old tree top-down (`reusable_node_descend`): it descends through nodes
that carry `has_changes` and offers every node WITHOUT the mark whose ancestors are all marked to the
reuse gate — these are the maximal unmarked subtrees, the *reuse candidates*.  This file counts, on
any tree `u` (in particular `u = editTree t e`, C10's port of `ts_subtree_edit`):

* `desc u`  — the descended nodes: marked nodes all of whose ancestors are marked;
* `front u` — the reuse candidates: unmarked nodes all of whose ancestors are marked;
* `tips u`  — the ends of the marked paths: descended nodes without a marked child (the leaves
              touched by the edit plus look-ahead, or inner nodes whose children were all skipped);
* `maxFan u` — largest number of children of a node.

Proved (all by mutual structural induction over tree / child list, no hypothesis on the tree):

* `front_desc_bound`      : `front u + desc u ≤ 1 + desc u · F`            for every `F ≥ maxFan u`
* `desc_tips_bound`       : `desc u ≤ tips u · H`                          for every `H > height u`
* `reuse_candidates_bound`: `front u ≤ 1 + tips u · (height u + 1) · maxFan u`
  — "the marked nodes form `tips` root-to-leaf paths; the number of maximal unmarked subtrees is at
  most (number of paths) × (depth) × (fan-out)", no term is the size of the document.
* on the edit (tree before the edit without marks, `clean`): `marked_is_rebuilt`,
  `marked_reaches_window` (every marked node of `editTree t e` reaches the window
  `[start, old_end]`), `edit_candidates_bound` (the bound for `u = editTree t e` together with "every
  candidate IS the old subtree at its path").

The parameter `tips` is bounded in `Round11b.lean` (`tips_bound`: `tips (editTree t e) ≤ (old_end −
start) + λ + 2 + Z` for byte-tiling trees without marks and column-dependent nodes), which gives
`edit_candidates_total_bound`; `height`/`maxFan` of the edited tree are those of the tree before
the edit (`edit_shape`).
-/
namespace TsVerif.C12
open TsGen TsVerif TsVerif.C10

mutual
  theorem front_desc_aux (F : Nat) : ∀ (t : Tree), maxFan t ≤ F → front t + desc t ≤ 1 + desc t * F
    | .mk d ks, h => by
      simp only [maxFan] at h
      have hl := frontL_descL_aux F ks (by omega)
      unfold front desc
      by_cases hc : d.hasChanges = true
      · simp only [hc, if_true]
        rw [Nat.add_mul, Nat.one_mul]
        omega
      · simp only [hc]
        simp
  theorem frontL_descL_aux (F : Nat) : ∀ (ks : List Tree), maxFanL ks ≤ F →
      frontL ks + descL ks ≤ ks.length + descL ks * F
    | [], _ => by simp [frontL, descL]
    | k :: rest, h => by
      simp only [maxFanL] at h
      have h1 := front_desc_aux F k (by omega)
      have h2 := frontL_descL_aux F rest (by omega)
      simp only [frontL, descL, List.length_cons]
      rw [Nat.add_mul]
      omega
end

/-- `front_desc_bound`: the top-down walk visits `front + desc` nodes; apart from the root each of
them is a child of a descended node, and a node has at most `F` children. -/
theorem front_desc_bound (u : Tree) (F : Nat) (hF : maxFan u ≤ F) :
    front u + desc u ≤ 1 + desc u * F := front_desc_aux F u hF

mutual
  theorem desc_tips_aux : ∀ (t : Tree) (H : Nat), height t < H → desc t ≤ tips t * H
    | .mk d ks, H, h => by
      simp only [height] at h
      unfold desc tips
      by_cases hc : d.hasChanges = true
      · simp only [hc, if_true]
        by_cases h0 : descL ks = 0
        · simp only [h0, if_true]; omega
        · simp only [h0, if_false]
          obtain ⟨H', rfl⟩ : ∃ H', H = H' + 1 := ⟨H - 1, by omega⟩
          have hl := descL_tipsL_aux ks H' (by omega)
          have hpos : 1 ≤ tipsL ks := by
            rcases Nat.eq_zero_or_pos (tipsL ks) with hz | hp
            · rw [hz, Nat.zero_mul] at hl; omega
            · exact hp
          rw [Nat.mul_add, Nat.mul_one]
          omega
      · simp only [hc]
        simp
  theorem descL_tipsL_aux : ∀ (ks : List Tree) (H : Nat), heightL ks ≤ H → descL ks ≤ tipsL ks * H
    | [], _, _ => by simp [descL]
    | k :: rest, H, h => by
      simp only [heightL] at h
      have h1 := desc_tips_aux k H (by omega)
      have h2 := descL_tipsL_aux rest H (by omega)
      simp only [descL, tipsL]
      rw [Nat.add_mul]
      omega
end

/-- `desc_tips_bound`: the marked set consists of `tips` root-to-tip paths, each at most
`height + 1` nodes long. -/
theorem desc_tips_bound (u : Tree) (H : Nat) (hH : height u < H) : desc u ≤ tips u * H :=
  desc_tips_aux u H hH

/-- `reuse_candidates_bound`: the number of maximal unmarked subtrees (reuse candidates of the
re-parse) is at most `1 + (marked paths) · (depth + 1) · (fan-out)` — whatever the number of nodes
of the tree. -/
theorem reuse_candidates_bound (u : Tree) :
    front u ≤ 1 + tips u * (height u + 1) * maxFan u := by
  have h1 := front_desc_bound u (maxFan u) (Nat.le_refl _)
  have h2 := desc_tips_bound u (height u + 1) (by omega)
  have h3 : desc u * maxFan u ≤ tips u * (height u + 1) * maxFan u := Nat.mul_le_mul_right _ h2
  omega

/-! ## On the edit: the marks of `editTree t e` for a tree `t` without marks -/

mutual
  theorem clean_sub : ∀ (p : List Nat) (t s : Tree), clean t = true → subtreeAt t p = some s →
      s.data.hasChanges = false
    | [], .mk d ks, s, h, hs => by
      simp only [subtreeAt, Option.some.injEq] at hs
      simp only [clean, Bool.and_eq_true, Bool.not_eq_true'] at h
      rw [← hs]; exact h.1
    | i :: q, .mk d ks, s, h, hs => by
      simp only [clean, Bool.and_eq_true] at h
      simp only [subtreeAt] at hs
      exact cleanL_sub ks i q s h.2 hs
  theorem cleanL_sub : ∀ (ks : List Tree) (i : Nat) (q : List Nat) (s : Tree), cleanL ks = true →
      (match ks[i]? with | some k => subtreeAt k q | none => none) = some s →
      s.data.hasChanges = false
    | [], _, _, _, _, hs => by simp at hs
    | k :: rest, 0, q, s, h, hs => by
      simp only [cleanL, Bool.and_eq_true] at h
      simp only [List.getElem?_cons_zero] at hs
      exact clean_sub q k s h.1 hs
    | k :: rest, i + 1, q, s, h, hs => by
      simp only [cleanL, Bool.and_eq_true] at h
      simp only [List.getElem?_cons_succ] at hs
      exact cleanL_sub rest i q s h.2 hs
end

/-- `marked_is_rebuilt`: in the edit of a tree without marks, a node that carries `has_changes` is
not the old node at its path. -/
theorem marked_is_rebuilt (p : List Nat) (t : Tree) (e : Edit) (s s' : Tree) (hc : clean t = true)
    (hs : subtreeAt t p = some s) (_hs' : subtreeAt (editTree t e) p = some s')
    (hm : s'.data.hasChanges = true) : s' ≠ s := by
  intro heq
  have := clean_sub p t s hc hs
  rw [heq, this] at hm
  contradiction

/-- `marked_reaches_window`: every marked node of the edited tree reaches the edit window — its
padding starts at or before `old_end` and its extended span ends at or after `start`. -/
theorem marked_reaches_window (p : List Nat) (t : Tree) (e : Edit) (s s' : Tree) (o : Nat)
    (hc : clean t = true) (hn : noCol t = true) (hle : e.start.bytes ≤ e.old_end.bytes)
    (hs : subtreeAt t p = some s) (hs' : subtreeAt (editTree t e) p = some s')
    (ho : offsetAt t p = some o) (hm : s'.data.hasChanges = true) :
    reaches s o e.start.bytes e.old_end.bytes = true := by
  have hne := marked_is_rebuilt p t e s s' hc hs hs' hm
  simp only [reaches, Bool.and_eq_true, decide_eq_true_eq]
  exact ⟨marked_upper p t e s s' o hn hle hs hs' ho hne, marked_bound p t e s s' o hs hs' ho hne⟩

mutual
  /-- `ts_subtree_edit` keeps the shape: same height, same fan-out. -/
  theorem edit_shape : ∀ (t : Tree) (e : Edit),
      height (editTree t e) = height t ∧ maxFan (editTree t e) = maxFan t
    | .mk d ks, e => by
      unfold editTree
      simp only
      split
      · exact ⟨rfl, rfl⟩
      · have h := editKids_shape ks
          { parentDependsOnColumn := d.dependsOnColumn
            columnShifted := decide (e.new_end.extent.column ≠ e.old_end.extent.column)
            isPureInsertion := decide (e.old_end.bytes = e.start.bytes)
            padding := (reshape d.padding d.size e).1, oldEnd := e.old_end, start := e.start }
          e.new_end length_zero 0
        simp only [height, maxFan]
        exact ⟨h.2.1, by rw [h.1, h.2.2]⟩
  theorem editKids_shape : ∀ (ks : List Tree) (cx : Ctx) (ne cr : Length) (i : Nat),
      (editKids ks cx ne cr i).length = ks.length ∧
      heightL (editKids ks cx ne cr i) = heightL ks ∧
      maxFanL (editKids ks cx ne cr i) = maxFanL ks
    | [], cx, ne, cr, i => by
      unfold editKids
      exact ⟨rfl, rfl, rfl⟩
    | c :: rest, cx, ne, cr, i => by
      unfold editKids
      simp only
      split
      · have h := editKids_shape rest cx ne (length_add cr c.totalSize) (i + 1)
        simp only [List.length_cons, heightL, maxFanL, h.1, h.2.1, h.2.2]
        exact ⟨trivial, trivial, trivial⟩
      · split
        · exact ⟨rfl, rfl, rfl⟩
        · split
          · have h := editKids_shape rest cx cx.start (length_add cr c.totalSize) (i + 1)
            have hc := edit_shape c
              { start := length_saturating_sub cx.start cr, old_end := length_saturating_sub cx.oldEnd cr,
                new_end := length_saturating_sub ne cr }
            simp only [List.length_cons, heightL, maxFanL, h.1, h.2.1, h.2.2, hc.1, hc.2]
            exact ⟨trivial, trivial, trivial⟩
          · have h := editKids_shape rest cx ne (length_add cr c.totalSize) (i + 1)
            have hc := edit_shape c
              { start := length_saturating_sub cx.start cr, old_end := length_saturating_sub cx.start cr,
                new_end := length_saturating_sub cx.start cr }
            simp only [List.length_cons, heightL, maxFanL, h.1, h.2.1, h.2.2, hc.1, hc.2]
            exact ⟨trivial, trivial, trivial⟩
end

/-- `edit_candidates_bound`: after `ts_subtree_edit` the re-parse has at most
`1 + tips · (height + 1) · fan-out` reuse candidates — `height` and fan-out those of the tree BEFORE
the edit (`edit_shape`), `tips` the number of marked paths of the edited tree — and every unmarked
subtree of the edited tree, in particular every candidate, IS the old subtree at its path. -/
theorem edit_candidates_bound (t : Tree) (e : Edit) :
    front (editTree t e) ≤ 1 + tips (editTree t e) * (height t + 1) * maxFan t ∧
    (∀ (p : List Nat) (s : Tree), subtreeAt (editTree t e) p = some s → s.data.hasChanges = false →
        subtreeAt t p = some s) := by
  have h := reuse_candidates_bound (editTree t e)
  rw [(edit_shape t e).1, (edit_shape t e).2] at h
  exact ⟨h, fun p s hs hu => unmarked_shared p t e s hs hu⟩

/-! ## Non-vacuity -/

/-- `root3`/`edit3` of Props.lean: the tree before the edit is clean; the edited tree has 2 descended
nodes (root, middle leaf), 1 tip, 2 candidates (the outer leaves), height 1, fan-out 3: the bound is
`2 ≤ 1 + 1·2·3`, and `front + desc = 4 ≤ 1 + 2·3`. -/
example : clean root3 = true ∧ noCol root3 = true ∧
    desc (editTree root3 edit3) = 2 ∧ tips (editTree root3 edit3) = 1 ∧
    front (editTree root3 edit3) = 2 ∧ height (editTree root3 edit3) = 1 ∧
    maxFan (editTree root3 edit3) = 3 := by decide

/-- A two-level tree: the inner node `mid` holds the edited leaf; the candidates are the two
siblings of `mid` and the two siblings of the leaf (4), descended 3, one tip. -/
def mid3 : Tree :=
  .mk { (default : NodeData) with symbol := 8, size := { bytes := 6, extent := { row := 0, column := 6 } } }
    [leaf2 1, leaf2 2, leaf2 3]
def root9 : Tree :=
  .mk { (default : NodeData) with symbol := 9, size := { bytes := 18, extent := { row := 0, column := 18 } } }
    [root3, mid3, root3]
def edit9 : Edit :=
  { start := { bytes := 9, extent := { row := 0, column := 9 } }
    old_end := { bytes := 10, extent := { row := 0, column := 10 } }
    new_end := { bytes := 11, extent := { row := 0, column := 11 } } }

example : clean root9 = true ∧ desc (editTree root9 edit9) = 3 ∧ tips (editTree root9 edit9) = 1 ∧
    front (editTree root9 edit9) = 4 ∧ height (editTree root9 edit9) = 2 ∧
    maxFan (editTree root9 edit9) = 3 := by decide

end TsVerif.C12
