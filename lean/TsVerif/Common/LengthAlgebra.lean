import TsVerif.Gen.Basic
/-!
# Algebra of the *generated* `point_*` / `length_*` definitions (lib/src/point.h, length.h)

These lemmas are about the definitions regenerated from /repo on every run: a change to the C
arithmetic that breaks the monoid / cancellation structure breaks these proofs.  `extent` is the
text model: the row/column extent of a byte string obtained by counting newlines.
-/
namespace TsVerif
open TsGen

/-- Row/column extent of a byte string: (number of newlines, bytes after the last newline). -/
def extent : List Nat → TSPoint
  | [] => { row := 0, column := 0 }
  | b :: bs =>
    let p := extent bs
    if b = 10 then
      { row := p.row + 1, column := p.column }
    else if p.row = 0 then { row := 0, column := p.column + 1 } else p

/-- The `Length` of a byte string. -/
def lengthOf (bs : List Nat) : Length := { bytes := bs.length, extent := extent bs }

/-! ## Canonical forms

`pointAddSpec` / `pointSubSpec` are fixed, hand-written forms of the generated `point_add` /
`point_sub`.  The equalities below are proved with `grind`, which case-splits on whatever `if`
structure the regenerated definitions have, so a semantics-preserving rewrite of point.h leaves
them (and everything proved through them) intact, while a semantic change breaks them. -/

def pointAddSpec (a b : TSPoint) : TSPoint :=
  if b.row = 0 then { row := a.row, column := a.column + b.column }
  else { row := a.row + b.row, column := b.column }

def pointSubSpec (a b : TSPoint) : TSPoint :=
  if a.row > b.row then { row := a.row - b.row, column := a.column }
  else { row := 0, column := a.column - b.column }

theorem point_add_eq_spec (a b : TSPoint) : point_add a b = pointAddSpec a b := by
  cases a; cases b
  grind [point_add, point__new, pointAddSpec]

theorem point_sub_eq_spec (a b : TSPoint) : point_sub a b = pointSubSpec a b := by
  cases a; cases b
  grind [point_sub, point__new, pointSubSpec]

theorem point_add_zero (a : TSPoint) : point_add a { row := 0, column := 0 } = a := by
  rw [point_add_eq_spec]; simp [pointAddSpec]

theorem point_zero_add (a : TSPoint) : point_add { row := 0, column := 0 } a = a := by
  rw [point_add_eq_spec]; cases a; grind [pointAddSpec]

theorem point_add_assoc (a b c : TSPoint) :
    point_add (point_add a b) c = point_add a (point_add b c) := by
  simp only [point_add_eq_spec]
  cases a; cases b; cases c
  grind [pointAddSpec]

/-- Cancellation: what `length_sub`/`point_sub` rely on when a position is re-expressed relative to an
earlier one. -/
theorem point_sub_add_cancel (a b : TSPoint) : point_sub (point_add a b) a = b := by
  simp only [point_add_eq_spec, point_sub_eq_spec]
  cases a; cases b
  grind [pointAddSpec, pointSubSpec]

theorem point_lte_refl (a : TSPoint) : point_lte a a = true := by simp [point_lte]

theorem point_lt_irrefl (a : TSPoint) : point_lt a a = false := by simp [point_lt]

theorem point_lte_add (a b : TSPoint) : point_lte a (point_add a b) = true := by
  rw [point_add_eq_spec]
  cases a; cases b
  simp only [point_lte, pointAddSpec]
  split <;> simp <;> omega

theorem length_add_assoc (a b c : Length) :
    length_add (length_add a b) c = length_add a (length_add b c) := by
  simp [length_add, point_add_assoc, Nat.add_assoc]

theorem length_add_zero (a : Length) : length_add a length_zero = a := by
  simp [length_add, length_zero, point_add_zero]

theorem length_zero_add (a : Length) : length_add length_zero a = a := by
  simp [length_add, length_zero, point_zero_add]

theorem length_sub_add_cancel (a b : Length) : length_sub (length_add a b) a = b := by
  simp [length_sub, length_add, point_sub_add_cancel]

/-- The text model is a monoid homomorphism into the generated point arithmetic:
extent (x ++ y) = point_add (extent x) (extent y). -/
theorem extent_append (x y : List Nat) : extent (x ++ y) = point_add (extent x) (extent y) := by
  simp only [point_add_eq_spec]
  induction x with
  | nil =>
    simp only [List.nil_append, extent]
    generalize extent y = p
    cases p; grind [pointAddSpec]
  | cons b bs ih =>
    simp only [List.cons_append, extent, ih]
    generalize extent y = p
    generalize extent bs = q
    cases p; cases q
    grind [pointAddSpec]

theorem lengthOf_append (x y : List Nat) : lengthOf (x ++ y) = length_add (lengthOf x) (lengthOf y) := by
  simp [lengthOf, length_add, extent_append]

/-- Hence the position after a prefix, re-based, is the extent of the suffix. -/
theorem lengthOf_sub_prefix (x y : List Nat) : length_sub (lengthOf (x ++ y)) (lengthOf x) = lengthOf y := by
  rw [lengthOf_append, length_sub_add_cancel]

end TsVerif
