import Lean
/-- Simp set of the tie theorems (regenerated definition = canonical definition), used to rewrite
calls to already-tied helpers inside later tie proofs. -/
register_simp_attr tie_simp
