/-!
Line-protocol helpers for the model drivers (`lake exe tsv-cXX < ops.txt`).
-/
namespace TsVerif

/-- Read every line of stdin (without the trailing newline). -/
partial def readLines (h : IO.FS.Stream) (acc : Array String := #[]) : IO (Array String) := do
  let line ← h.getLine
  if line.isEmpty then return acc
  let line := if line.endsWith "\n" then (line.dropEnd 1).toString else line
  readLines h (acc.push line)

/-- Process stdin one line at a time with a state. -/
partial def foldLines {σ : Type} (h : IO.FS.Stream) (s : σ) (f : σ → String → IO σ) : IO σ := do
  let line ← h.getLine
  if line.isEmpty then return s
  let line := if line.endsWith "\n" then (line.dropEnd 1).toString else line
  let s' ← f s line
  foldLines h s' f

end TsVerif
