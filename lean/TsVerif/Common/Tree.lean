import TsVerif.Gen.Basic
/-!
# The subtree model shared by all properties

`Tree` mirrors `Subtree` / `SubtreeHeapData` of `lib/src/subtree.h`: every cached field the C
code keeps is a field here, children are an ordinary list.  Trees are *read from dumps of real
subtrees* (harness/csrc/shim.c), so the model's inputs are what the runtime actually built.
-/
namespace TsVerif
open TsGen

structure NodeData where
  symbol : Nat
  padding : Length
  size : Length
  lookahead : Nat
  parseState : Nat
  visible : Bool
  named : Bool
  extra : Bool
  hasChanges : Bool
  isMissing : Bool
  isKeyword : Bool
  fragileLeft : Bool
  fragileRight : Bool
  hasExternalTokens : Bool
  extStateChange : Bool
  dependsOnColumn : Bool
  isInline : Bool
  errorCost : Nat
  visibleChildCount : Nat
  namedChildCount : Nat
  visibleDescendantCount : Nat
  dynamicPrecedence : Int
  repeatDepth : Nat
  productionId : Nat
  firstLeafSymbol : Nat
  firstLeafState : Nat
  refCount : Nat
  addr : Nat
  ext : String
  deriving DecidableEq, Repr, Inhabited

inductive Tree where
  | mk (d : NodeData) (kids : List Tree)
  deriving Repr, Inhabited

namespace Tree
def data : Tree → NodeData | .mk d _ => d
def kids : Tree → List Tree | .mk _ k => k
def totalSize (t : Tree) : Length := length_add t.data.padding t.data.size
def totalBytes (t : Tree) : Nat := t.data.padding.bytes + t.data.size.bytes

mutual
  def size : Tree → Nat
    | .mk _ kids => 1 + sizeList kids
  def sizeList : List Tree → Nat
    | [] => 0
    | t :: ts => size t + sizeList ts
end
end Tree

/-! ## Reading dumps -/

def hexVal (c : Char) : Nat :=
  if '0' ≤ c ∧ c ≤ '9' then c.toNat - '0'.toNat
  else if 'a' ≤ c ∧ c ≤ 'f' then c.toNat - 'a'.toNat + 10
  else if 'A' ≤ c ∧ c ≤ 'F' then c.toNat - 'A'.toNat + 10 else 0

def parseHexNat (s : String) : Nat := s.foldl (fun acc c => acc * 16 + hexVal c) 0

def unhexBytes (s : String) : List Nat :=
  let rec go : List Char → List Nat
    | a :: b :: rest => (hexVal a * 16 + hexVal b) :: go rest
    | _ => []
  go s.toList

def bit (n k : Nat) : Bool := (n >>> k) % 2 == 1

def natOf (s : String) : Nat := s.toNat?.getD 0
def intOf (s : String) : Int := s.toInt?.getD 0

/-- Parse one `n …` line of the dump into node data and a child count. -/
def parseNodeLine (line : String) : Option (NodeData × Nat) :=
  match line.splitOn " " with
  | ["n", sym, pb, pr, pc, sb, sr, sc, la, st, fl, ec, cc, vcc, ncc, vdc, dp, rd, pid, fls, flst, rc, addr, ext] =>
    let f := natOf fl
    some ({ symbol := natOf sym
            padding := { bytes := natOf pb, extent := { row := natOf pr, column := natOf pc } }
            size := { bytes := natOf sb, extent := { row := natOf sr, column := natOf sc } }
            lookahead := natOf la, parseState := natOf st
            visible := bit f 0, named := bit f 1, extra := bit f 2, hasChanges := bit f 3
            isMissing := bit f 4, isKeyword := bit f 5, fragileLeft := bit f 6, fragileRight := bit f 7
            hasExternalTokens := bit f 8, extStateChange := bit f 9, dependsOnColumn := bit f 10
            isInline := bit f 11
            errorCost := natOf ec, visibleChildCount := natOf vcc, namedChildCount := natOf ncc
            visibleDescendantCount := natOf vdc, dynamicPrecedence := intOf dp, repeatDepth := natOf rd
            productionId := natOf pid, firstLeafSymbol := natOf fls, firstLeafState := natOf flst
            refCount := natOf rc, addr := parseHexNat addr, ext := ext }, natOf cc)
  | _ => none

/-- Build a tree from preorder (data, childCount) pairs using an explicit stack. -/
structure Frame where
  d : NodeData
  need : Nat
  acc : List Tree   -- reversed children

def closeFrames : List Frame → Tree → (List Frame × Option Tree)
  | [], t => ([], some t)
  | f :: fs, t =>
    let acc := t :: f.acc
    if acc.length == f.need then closeFrames fs (.mk f.d acc.reverse)
    else ({ f with acc := acc } :: fs, none)

def buildTree (nodes : List (NodeData × Nat)) : Option Tree :=
  let rec go (nodes : List (NodeData × Nat)) (stack : List Frame) (done : Option Tree) : Option Tree :=
    match nodes with
    | [] => done
    | (d, cc) :: rest =>
      if cc == 0 then
        let (stack', r) := closeFrames stack (.mk d [])
        go rest stack' (r <|> done)
      else go rest ({ d := d, need := cc, acc := [] } :: stack) done
  go nodes [] none

structure TreeDump where
  ranges : List TSRange
  root : Tree
  deriving Inhabited

def parseRangeLine (line : String) : Option TSRange :=
  match line.splitOn " " with
  | ["r", sb, eb, sr, sc, er, ec] =>
    some { start_byte := natOf sb, end_byte := natOf eb
           start_point := { row := natOf sr, column := natOf sc }
           end_point := { row := natOf er, column := natOf ec } }
  | _ => none

/-- Parse the lines between `tree k` and `end`. -/
def parseDump (lines : List String) : Option TreeDump :=
  let ranges := lines.filterMap parseRangeLine
  let nodes := lines.filterMap parseNodeLine
  (buildTree nodes).map fun t => { ranges := ranges, root := t }

end TsVerif
