import TsVerif.Gen.Consts
/-!
# C07 — object pools, capture-list pool, external scanner state

* `PoolW` — the recycling pools of the runtime: `SubtreePool.free_trees` (`ts_subtree_pool_allocate`
  / `ts_subtree_pool_free`, cap `TS_MAX_TREE_POOL_SIZE`, only when the pool was created with a
  capacity) and the stack's `node_pool` (`stack_node_new` / `stack_node_release`, cap
  `MAX_NODE_POOL_SIZE`).  Objects are numbers; `live` = handed out, `pool` = cached (a stack, head =
  most recently cached = `array_pop`'s result), `released` = given back to the allocator.
* `CapPool` — `CaptureListPool` of query.c: `acquire`, `release`, `is_empty`, `reset`, with the
  limit `max_capture_list_count`.
* `Ess` — `ExternalScannerState`: up to 24 bytes inline, longer states on the heap.
-/
namespace TsVerif.C07
open TsGen

/-! ## recycling pools -/

structure PoolW where
  cap : Nat
  /-- `free_trees.capacity > 0` (always true for the node pool) -/
  enabled : Bool
  pool : List Nat
  live : List Nat
  released : List Nat
  next : Nat
  deriving DecidableEq, Repr, Inhabited

/-- `ts_subtree_pool_allocate` / `stack_node_new`: reuse the most recently cached object, else malloc. -/
def PoolW.alloc (w : PoolW) : PoolW × Nat :=
  match w.pool with
  | x :: rest => ({ w with pool := rest, live := x :: w.live }, x)
  | [] => ({ w with live := w.next :: w.live, next := w.next + 1 }, w.next)

/-- `ts_subtree_pool_free` / `stack_node_release` (count reached zero); contract: `x` is live. -/
def PoolW.free (w : PoolW) (x : Nat) : PoolW :=
  if w.enabled && decide (w.pool.length + 1 ≤ w.cap) then
    { w with pool := x :: w.pool, live := w.live.erase x }
  else
    { w with released := x :: w.released, live := w.live.erase x }

/-- Every object is in exactly one place, and everything that exists was created below `next`. -/
structure PoolW.Ok (w : PoolW) : Prop where
  bounded : w.pool.length ≤ w.cap
  nodupP : w.pool.Nodup
  nodupL : w.live.Nodup
  nodupR : w.released.Nodup
  dPL : ∀ x, x ∈ w.pool → x ∉ w.live
  dPR : ∀ x, x ∈ w.pool → x ∉ w.released
  dLR : ∀ x, x ∈ w.live → x ∉ w.released
  below : ∀ x, x ∈ w.pool ∨ x ∈ w.live ∨ x ∈ w.released → x < w.next

/-! ## capture-list pool -/

structure CapPool where
  /-- per allocated list: is it in use? (`size != UINT32_MAX`) -/
  inUse : List Bool
  max : Nat
  freeCount : Nat
  deriving DecidableEq, Repr, Inhabited

def firstUnused : List Bool → Option Nat
  | [] => none
  | false :: _ => some 0
  | true :: rest => (firstUnused rest).map (· + 1)

/-- `capture_list_pool_acquire`; `none` = `CAPTURE_LIST_NONE`. -/
def CapPool.acquire (p : CapPool) : CapPool × Option Nat :=
  match (if p.freeCount > 0 then firstUnused p.inUse else none) with
  | some i => ({ p with inUse := p.inUse.set i true, freeCount := p.freeCount - 1 }, some i)
  | none =>
    if p.inUse.length ≥ p.max then (p, none)
    else ({ p with inUse := p.inUse ++ [true] }, some p.inUse.length)

/-- `capture_list_pool_release`; contract: `id` is in use (or out of range: no-op). -/
def CapPool.release (p : CapPool) (id : Nat) : CapPool :=
  if id ≥ p.inUse.length then p
  else { p with inUse := p.inUse.set id false, freeCount := p.freeCount + 1 }

def CapPool.isEmpty (p : CapPool) : Bool := p.freeCount == 0 && decide (p.inUse.length ≥ p.max)

/-- `capture_list_pool_reset` (with the limit possibly lowered since the last execution). -/
def CapPool.reset (p : CapPool) : CapPool :=
  let n := min p.inUse.length p.max
  { p with inUse := List.replicate n false, freeCount := n }

def unusedCount (l : List Bool) : Nat := (l.filter (· == false)).length

structure CapPool.Ok (p : CapPool) : Prop where
  count : p.freeCount = unusedCount p.inUse
  limit : p.inUse.length ≤ p.max

/-! ## external scanner state -/

def ESS_INLINE : Nat := 24

structure Ess where
  bytes : List Nat
  onHeap : Bool
  deriving DecidableEq, Repr, Inhabited

/-- `ts_external_scanner_state_init`; second component: number of allocations made. -/
def Ess.init (data : List Nat) : Ess × Nat :=
  if data.length > ESS_INLINE then ({ bytes := data, onHeap := true }, 1) else ({ bytes := data, onHeap := false }, 0)

/-- `ts_external_scanner_state_copy` -/
def Ess.copy (s : Ess) : Ess × Nat := if s.onHeap then (s, 1) else (s, 0)

/-- `ts_external_scanner_state_delete`: number of frees. -/
def Ess.delete (s : Ess) : Nat := if s.onHeap then 1 else 0

def Ess.data (s : Ess) : List Nat := s.bytes

def Ess.eq (s : Ess) (buf : List Nat) : Bool := decide (s.bytes = buf)

/-! ## Capture ids of a query step (`capture_ids[MAX_STEP_CAPTURE_COUNT]`, `query_step__add_capture`) -/

/-- `MAX_STEP_CAPTURE_COUNT` of query.c (measured on the real code by the `bits` probe on every run). -/
def maxStepCaptureCount : Nat := 3

/-- `query_step__add_capture`: the id goes into the first free slot; with all slots taken it is dropped. -/
def addCapture (caps : List Nat) (c : Nat) : List Nat :=
  if caps.length < maxStepCaptureCount then caps ++ [c] else caps

end TsVerif.C07
