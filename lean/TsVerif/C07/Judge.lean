import TsVerif.C07.Model
import TsVerif.Common.Tree
/-!
# C07 — judges evaluated on what the real library produced
-/
namespace TsVerif.C07
open TsVerif TsGen

/-- Allocator balance of one history: every allocation was freed (exactly once: a double free would
make the balance negative or crash the run). -/
def judgeBalance (liveDelta : Int) : Bool := liveDelta == 0

mutual
  /-- Walk a dumped tree: every inline node satisfies the generated `ts_subtree_can_inline` and fits
  the bit-fields; flags that only an external scanner can set are clear in languages without one. -/
  def judgeTree (hasExt : Bool) : Tree → Option String
    | .mk d kids =>
      if d.isInline && !(ts_subtree_can_inline d.padding d.size d.lookahead) then
        some s!"inline-node-violates-can_inline:sym={d.symbol}"
      else if d.isInline && !(decide (fitsInline widths d.padding d.size d.lookahead)) then
        some s!"inline-node-does-not-fit:sym={d.symbol}"
      else if !hasExt && d.extStateChange then
        some s!"uninitialised-flag:has_external_scanner_state_change:sym={d.symbol}:heapleaf={!d.isInline && kids.isEmpty}:changed={d.hasChanges}"
      else if !hasExt && d.hasExternalTokens then
        some s!"uninitialised-flag:has_external_tokens:sym={d.symbol}"
      else judgeTrees hasExt kids
  def judgeTrees (hasExt : Bool) : List Tree → Option String
    | [] => none
    | t :: ts => match judgeTree hasExt t with
      | some e => some e
      | none => judgeTrees hasExt ts
end

/-- Apply one line of the array protocol to the model. -/
def applyArr (a : Arr) : List String → Arr
  | ["P", x] => (a.push (natOf x)).1
  | ["O"] => (a.pop).1
  | ["G", n] => (a.growBy (natOf n)).1
  | "S" :: idx :: old :: _ :: elems => (a.splice (natOf idx) (natOf old) (elems.map natOf)).1
  | ["E", idx] => (a.erase (natOf idx)).1
  | ["I", idx, x] => (a.insert (natOf idx) (natOf x)).1
  | "X" :: _ :: elems => (a.extend (elems.map natOf)).1
  | "A" :: _ :: elems => (a.assign (elems.map natOf)).1
  | _ => a

/-- The accesses of one operation are inside the (new) capacity — `InBounds`, decided. -/
def accessesOf (a : Arr) : List String → Access
  | ["P", x] => (a.push (natOf x)).2
  | ["O"] => (a.pop).2
  | ["G", n] => (a.growBy (natOf n)).2
  | "S" :: idx :: old :: _ :: elems => (a.splice (natOf idx) (natOf old) (elems.map natOf)).2
  | ["E", idx] => (a.erase (natOf idx)).2
  | ["I", idx, x] => (a.insert (natOf idx) (natOf x)).2
  | "X" :: _ :: elems => (a.extend (elems.map natOf)).2
  | "A" :: _ :: elems => (a.assign (elems.map natOf)).2
  | _ => []

def inBoundsB (cap : Nat) (acc : Access) : Bool := acc.all fun r => r.1 ≤ r.2 && r.2 ≤ cap

end TsVerif.C07
