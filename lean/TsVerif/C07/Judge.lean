import TsVerif.C07.Model
import TsVerif.C07.Pools
import TsVerif.Common.Tree
/-!
# C07 — judges evaluated on what the real library produced
-/
namespace TsVerif.C07
open TsVerif TsGen

/-- Allocator balance of one history: every allocation was freed (exactly once: a double free would
make the balance negative or crash the run). -/
def judgeBalance (liveDelta : Int) : Bool := liveDelta == 0

mutual
  /-- Walk a dumped tree: every inline node satisfies the generated `ts_subtree_can_inline` and fits
  the bit-fields; flags that only an external scanner can set are clear in languages without one. -/
  def judgeTree (hasExt : Bool) : Tree → Option String
    | .mk d kids =>
      if d.isInline && !(ts_subtree_can_inline d.padding d.size d.lookahead) then
        some s!"inline-node-violates-can_inline:sym={d.symbol}"
      else if d.isInline && !(decide (fitsInline widths d.padding d.size d.lookahead)) then
        some s!"inline-node-does-not-fit:sym={d.symbol}"
      else if !hasExt && d.extStateChange then
        some s!"uninitialised-flag:has_external_scanner_state_change:sym={d.symbol}:heapleaf={!d.isInline && kids.isEmpty}:changed={d.hasChanges}"
      else if !hasExt && d.hasExternalTokens then
        some s!"uninitialised-flag:has_external_tokens:sym={d.symbol}"
      else judgeTrees hasExt kids
  def judgeTrees (hasExt : Bool) : List Tree → Option String
    | [] => none
    | t :: ts => match judgeTree hasExt t with
      | some e => some e
      | none => judgeTrees hasExt ts
end

/-- Apply one line of the array protocol to the model. -/
def applyArr (a : Arr) : List String → Arr
  | ["P", x] => (a.push (natOf x)).1
  | ["O"] => (a.pop).1
  | ["G", n] => (a.growBy (natOf n)).1
  | "S" :: idx :: old :: _ :: elems => (a.splice (natOf idx) (natOf old) (elems.map natOf)).1
  | ["E", idx] => (a.erase (natOf idx)).1
  | ["I", idx, x] => (a.insert (natOf idx) (natOf x)).1
  | "X" :: _ :: elems => (a.extend (elems.map natOf)).1
  | "A" :: _ :: elems => (a.assign (elems.map natOf)).1
  | _ => a

/-- The accesses of one operation are inside the (new) capacity — `InBounds`, decided. -/
def accessesOf (a : Arr) : List String → Access
  | ["P", x] => (a.push (natOf x)).2
  | ["O"] => (a.pop).2
  | ["G", n] => (a.growBy (natOf n)).2
  | "S" :: idx :: old :: _ :: elems => (a.splice (natOf idx) (natOf old) (elems.map natOf)).2
  | ["E", idx] => (a.erase (natOf idx)).2
  | ["I", idx, x] => (a.insert (natOf idx) (natOf x)).2
  | "X" :: _ :: elems => (a.extend (elems.map natOf)).2
  | "A" :: _ :: elems => (a.assign (elems.map natOf)).2
  | _ => []

def inBoundsB (cap : Nat) (acc : Access) : Bool := acc.all fun r => r.1 ≤ r.2 && r.2 ≤ cap


/-! ## protocol steps of the pool / capture-list / add_link models -/

/-- One `pw` operation on the model: returns the new world and the object it concerns. -/
def applyPw (w : PoolW) : List String → PoolW × String
  | ["A"] => let r := w.alloc; (r.1, toString r.2)
  | ["F", x] => (w.free (natOf x), x)
  | _ => (w, "-")

def poolOkB (w : PoolW) : Bool :=
  decide (w.pool.length ≤ w.cap) && (w.pool ++ w.live ++ w.released).Nodup

def applyCl (p : CapPool) : List String → CapPool × String
  | ["A"] => let r := p.acquire; (r.1, match r.2 with | some i => toString i | none => "NONE")
  | ["R", id] => (p.release (natOf id), id)
  | ["M", m] => ({ p with max := natOf m }, "-")
  | ["X"] => (p.reset, "-")
  | ["N"] => ({ inUse := [], max := 4294967295, freeCount := 0 }, "-")
  | _ => (p, "-")

def capOkB (p : CapPool) : Bool := p.freeCount == unusedCount p.inUse

/-- `al` operations on the graph model (all links carry the same, equivalent, subtree). -/
def applyAl (g : Graph) : List String → Graph
  | ["C"] => []
  | ["N", prev, st] =>
    let links : List Link := match prev.toInt? with
      | some (Int.ofNat p) => if p < g.length then [{ node := p, sub := 0, prec := 0 }] else []
      | _ => []
    let pos := match links with
      | l :: _ => (g.getD l.node default).pos + 1
      | [] => 0
    g ++ [{ links, state := natOf st, pos, cost := 0 }]
  | ["L", a, b] => addLink 64 g (natOf a) { node := natOf b, sub := 0, prec := 0 }
  | _ => g

def showGraph (g : Graph) : String :=
  " ".intercalate (g.zipIdx.map fun (n, i) => s!"{i}:" ++ ",".intercalate (n.links.map fun l => toString l.node))

end TsVerif.C07
