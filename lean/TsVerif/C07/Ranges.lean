/-!
# C07 — which array elements two range loops dereference

Two loops of the runtime index a `TSRange` array with a cursor that may legitimately be equal to the
element count ("exhausted"); memory safety needs that an exhausted cursor is never dereferenced.

* `ts_range_array_get_changed_ranges` (`lib/src/get_changed_ranges.c`): `crStep` / `crRun` are a port
  of the loop that records, for every iteration, WHICH elements of the two arrays are dereferenced.
  `Variant.asis` is the loop as found (at equal boundaries both `in_*_range` flags are toggled
  blindly, also for an exhausted list); `Variant.fixed` toggles a flag only for a list that is not
  exhausted.
* `ts_lexer__advance` (`lib/src/lexer.c`): the lexer state is abstracted to
  `(current_included_range_index, included_range_count, chunk != NULL)`; `advanceReads` are the
  elements of `included_ranges` that `ts_lexer__advance` dereferences from such a state.

Only byte offsets drive the control flow of both loops; points are carried along in C and dropped here.
-/
namespace TsVerif.C07

/-- `UINT32_MAX`: the byte offset of `LENGTH_MAX`, the position of an exhausted list. -/
def U32MAX : Nat := 4294967295

structure BR where
  s : Nat
  e : Nat
  deriving Repr, DecidableEq, Inhabited

inductive Variant | asis | fixed
  deriving Repr, DecidableEq, Inhabited

structure CRState where
  oi : Nat := 0
  ni : Nat := 0
  cur : Nat := 0
  inOld : Bool := false
  inNew : Bool := false
  /-- `differences`, newest first -/
  out : List (Nat × Nat) := []
  deriving Repr, DecidableEq, Inhabited

/-- A dereferenced element: `(is it the new list?, index)`. -/
abbrev Read := Bool × Nat

/-- The elements one iteration dereferences: `old_range->…` is read iff `in_old_range` or
`old_index < old_range_count` (the pointer `&old_ranges[old_index]` itself is only formed). -/
def readsOf (old new : List BR) (st : CRState) : List Read :=
  (if st.inOld || decide (st.oi < old.length) then [(false, st.oi)] else []) ++
  (if st.inNew || decide (st.ni < new.length) then [(true, st.ni)] else [])

def ReadOk (old new : List BR) (r : Read) : Prop :=
  if r.1 then r.2 < new.length else r.2 < old.length

instance (old new : List BR) (r : Read) : Decidable (ReadOk old new r) := by
  unfold ReadOk; split <;> infer_instance

inductive CRRes
  | done
  /-- the iteration dereferences an element that does not exist: the C execution is undefined -/
  | stuck
  | next (st : CRState)
  deriving Repr, DecidableEq

/-- `ts_range_array_add` on byte offsets (`out` newest first). -/
def addDiff (out : List (Nat × Nat)) (a b : Nat) : List (Nat × Nat) :=
  match out with
  | (s, e) :: rest => if a ≤ e then (s, b) :: rest else if a < b then (a, b) :: out else out
  | [] => if a < b then [(a, b)] else []

/-- `next_old_position` / `next_new_position` (byte offset); `none` = the element does not exist. -/
def nextPos (l : List BR) (i : Nat) (inR : Bool) : Option Nat :=
  if inR then (l[i]?).map (·.e)
  else if i < l.length then (l[i]?).map (·.s) else some U32MAX

/-- One iteration of the `while` loop. -/
def crStep (v : Variant) (old new : List BR) (st : CRState) : CRRes :=
  if ¬ (st.oi < old.length ∨ st.ni < new.length) then .done else
  match nextPos old st.oi st.inOld, nextPos new st.ni st.inNew with
  | some po, some pn =>
    let out := if st.inOld != st.inNew then addDiff st.out st.cur (if po < pn then po else pn) else st.out
    if po < pn then
      .next { st with oi := if st.inOld then st.oi + 1 else st.oi, cur := po, inOld := !st.inOld, out := out }
    else if pn < po then
      .next { st with ni := if st.inNew then st.ni + 1 else st.ni, cur := pn, inNew := !st.inNew, out := out }
    else
      let oldDone := !st.inOld && !decide (st.oi < old.length)
      let newDone := !st.inNew && !decide (st.ni < new.length)
      .next { st with
        oi := if st.inOld then st.oi + 1 else st.oi
        ni := if st.inNew then st.ni + 1 else st.ni
        inOld := if v == .fixed && oldDone then st.inOld else !st.inOld
        inNew := if v == .fixed && newDone then st.inNew else !st.inNew
        cur := pn, out := out }
  | _, _ => .stuck

/-- The whole loop: `(elements dereferenced, result)`; the result is `none` when an iteration reads an
element that does not exist (or the fuel runs out: `2 * (|old| + |new|) + 2` iterations suffice). -/
def crRun (v : Variant) (old new : List BR) : Nat → CRState → List Read × Option (List (Nat × Nat))
  | 0, _ => ([], none)
  | fuel + 1, st =>
    match crStep v old new st with
    | .done => ([], some st.out.reverse)
    | .stuck => (readsOf old new st, none)
    | .next st' =>
      let r := crRun v old new fuel st'
      (readsOf old new st ++ r.1, r.2)

def crFuel (old new : List BR) : Nat := 2 * (old.length + new.length) + 2

def changedRanges (v : Variant) (old new : List BR) : List Read × Option (List (Nat × Nat)) :=
  crRun v old new (crFuel old new) {}

/-- All offsets are 32-bit values. -/
def Bounded (l : List BR) : Prop := ∀ r ∈ l, r.s ≤ U32MAX ∧ r.e ≤ U32MAX

/-- The loop invariant that makes every dereference legal. -/
def CRInv (old new : List BR) (st : CRState) : Prop :=
  (st.inOld = true → st.oi < old.length) ∧ (st.inNew = true → st.ni < new.length)

theorem reads_in_bounds_of_inv {old new : List BR} {st : CRState} (h : CRInv old new st) :
    ∀ r ∈ readsOf old new st, ReadOk old new r := by
  intro r hr
  unfold readsOf at hr
  rcases List.mem_append.mp hr with hr | hr
  · split at hr
    · rename_i hc
      simp at hr; subst hr
      simp only [ReadOk]
      rcases Bool.or_eq_true _ _ ▸ hc with hc | hc
      · simpa using h.1 hc
      · simpa using hc
    · simp at hr
  · split at hr
    · rename_i hc
      simp at hr; subst hr
      simp only [ReadOk]
      rcases Bool.or_eq_true _ _ ▸ hc with hc | hc
      · simpa using h.2 hc
      · simpa using hc
    · simp at hr

/-- Under the invariant the position exists, is a 32-bit value, and for an exhausted list it is
`UINT32_MAX`. -/
theorem nextPos_spec {l : List BR} (hb : Bounded l) {i : Nat} {inR : Bool} (h : inR = true → i < l.length) :
    ∃ p, nextPos l i inR = some p ∧ p ≤ U32MAX ∧ (inR = false → ¬ i < l.length → p = U32MAX) := by
  unfold nextPos
  cases inR with
  | true =>
    have hi := h rfl
    refine ⟨l[i].e, by simp [List.getElem?_eq_getElem hi], (hb _ (List.getElem_mem hi)).2, by simp⟩
  | false =>
    by_cases hi : i < l.length
    · refine ⟨l[i].s, by simp [hi], (hb _ (List.getElem_mem hi)).1, fun _ h' => absurd hi h'⟩
    · exact ⟨U32MAX, by simp [hi], Nat.le_refl _, fun _ _ => rfl⟩

/-- The fixed loop keeps the invariant. -/
theorem crStep_fixed_inv {old new : List BR} {st st' : CRState} (hbo : Bounded old) (hbn : Bounded new)
    (h : CRInv old new st) (hs : crStep .fixed old new st = .next st') : CRInv old new st' := by
  obtain ⟨po, hpo, hpoB, hpoX⟩ := nextPos_spec hbo h.1
  obtain ⟨pn, hpn, hpnB, hpnX⟩ := nextPos_spec hbn h.2
  unfold crStep at hs
  split at hs
  · cases hs
  · rw [hpo, hpn] at hs
    simp only at hs
    split at hs
    · -- po < pn
      rename_i hlt
      cases hs
      refine ⟨?_, ?_⟩
      · intro hio
        cases hin : st.inOld with
        | true => simp [hin] at hio
        | false =>
          simp only [hin] at hio ⊢
          by_cases hi : st.oi < old.length
          · simpa using hi
          · have := hpoX hin hi; omega
      · intro hin'; simpa using h.2 hin'
    · split at hs
      · rename_i hlt
        cases hs
        refine ⟨?_, ?_⟩
        · intro hio; simpa using h.1 hio
        · intro hio
          cases hin : st.inNew with
          | true => simp [hin] at hio
          | false =>
            simp only [hin] at hio ⊢
            by_cases hi : st.ni < new.length
            · simpa using hi
            · have := hpnX hin hi; omega
      · cases hs
        refine ⟨?_, ?_⟩
        · intro hio
          cases hin : st.inOld with
          | true => simp [hin] at hio
          | false =>
            by_cases hi : st.oi < old.length
            · simpa [hin] using hi
            · simp [hin, hi] at hio
        · intro hio
          cases hin : st.inNew with
          | true => simp [hin] at hio
          | false =>
            by_cases hi : st.ni < new.length
            · simpa [hin] using hi
            · simp [hin, hi] at hio

/-- Every element the fixed loop dereferences exists. -/
theorem crRun_fixed_reads_in_bounds {old new : List BR} (hbo : Bounded old) (hbn : Bounded new) :
    ∀ (fuel : Nat) (st : CRState), CRInv old new st →
      ∀ r ∈ (crRun .fixed old new fuel st).1, ReadOk old new r := by
  intro fuel
  induction fuel with
  | zero => intro st _ r hr; simp [crRun] at hr
  | succ n ih =>
    intro st hinv r hr
    unfold crRun at hr
    split at hr
    · simp at hr
    · exact reads_in_bounds_of_inv hinv r hr
    · rename_i st' hst
      rcases List.mem_append.mp hr with hr | hr
      · exact reads_in_bounds_of_inv hinv r hr
      · exact ih st' (crStep_fixed_inv hbo hbn hinv hst) r hr

/-- The fixed loop never gets stuck on a missing element. -/
theorem crStep_fixed_not_stuck {old new : List BR} {st : CRState} (hbo : Bounded old) (hbn : Bounded new)
    (h : CRInv old new st) : crStep .fixed old new st ≠ .stuck := by
  obtain ⟨po, hpo, _, _⟩ := nextPos_spec hbo h.1
  obtain ⟨pn, hpn, _, _⟩ := nextPos_spec hbn h.2
  unfold crStep
  split
  · simp
  · rw [hpo, hpn]
    simp only
    split
    · simp
    · split <;> simp

/-!
## The lexer's cursor into `included_ranges`
-/

/-- `(current_included_range_index, included_range_count, chunk != NULL)`. -/
structure LxS where
  idx : Nat
  count : Nat
  chunk : Bool
  deriving Repr, DecidableEq, Inhabited

/-- Does `ts_lexer__advance` get past its entry test?  As found: `if (!self->chunk) return;`.
Fixed: `if (!self->chunk || ts_lexer__eof(_self)) return;`. -/
def advanceEnters (v : Variant) (s : LxS) : Bool :=
  match v with
  | .asis => s.chunk
  | .fixed => s.chunk && s.idx != s.count

/-- The elements of `included_ranges` that `ts_lexer__advance` dereferences when it is entered:
`included_ranges[current_included_range_index].end_byte` (the fast-path test), then — in
`ts_lexer__do_advance` — the same element again and its successors as long as the index stays below
the count (`current_range++` happens only after the test `index < count`). -/
def advanceReads (v : Variant) (s : LxS) : List Nat :=
  if advanceEnters v s then s.idx :: (List.range (s.count - s.idx - 1)).map (· + s.idx + 1) else []

end TsVerif.C07
