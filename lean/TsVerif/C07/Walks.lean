import TsVerif.C07.Model
import TsVerif.C07.Pools
/-!
# C07 — which elements the other ported array walks touch

`Ranges.lean` lists the elements dereferenced by the two `TSRange` loops.  This file does the same for
the remaining fixed-size / growable arrays whose walks are ported: the `links[MAX_LINK_COUNT]` array of
a stack node (`stack_node_add_link`, stack.c) and the list array of the capture-list pool
(`capture_list_pool_*`, query.c), plus the read of a capture list at a state's consumed-capture
cursor.  An *access* is an index into the array; it is in bounds iff it is below the number of
valid elements (`link_count` resp. `list.size`) for a read, below the number of slots for a store.

Status of the real code (see the theorems in Props.lean): every walk here is in bounds AS FOUND; the
unguarded variants that the hand mutations / seeded changes produce are refuted.
-/
namespace TsVerif.C07
open TsGen

/-! ## `stack_node_add_link`: `links[MAX_LINK_COUNT]` -/

/-- The test in front of `self->links[self->link_count++] = link`. -/
inductive LinkGuard
  | eqMax    -- as found: `if (self->link_count == MAX_LINK_COUNT) return;`
  | gtMax    -- hand mutation `mutP3`: `>` instead of `==`
  | none     -- no test
  deriving DecidableEq, Repr

structure LinkAccesses where
  /-- indices `i` of `self->links[i]` read by the scanning loop -/
  reads : List Nat
  /-- indices `j` of `link.node->links[j]` read by the merging loop (of the OTHER node) -/
  mergeReads : List Nat
  /-- index written by `links[link_count++] = link`, if the call gets there -/
  store : Option Nat
  deriving DecidableEq, Repr

/-- One (non-recursive frame of a) call on a node with `count` links; the scanning loop stops at the
first equivalent link `stop` (if any; then the call returns after possibly walking the `otherCount`
links of the node being merged), otherwise the link is appended if the guard lets it. -/
def addLinkAccesses (g : LinkGuard) (count otherCount : Nat) (stop : Option (Nat × Bool)) : LinkAccesses :=
  match stop with
  | some (i, merges) =>
    { reads := List.range (min (i + 1) count), mergeReads := if merges then List.range otherCount else [], store := none }
  | none =>
    let blocked := match g with
      | .eqMax => count == MAX_LINK_COUNT
      | .gtMax => decide (count > MAX_LINK_COUNT)
      | .none => false
    { reads := List.range count, mergeReads := [], store := if blocked then none else some count }

/-! ## `CaptureListPool`: `list.contents[0 .. list.size)` -/

inductive CapOp
  | get (id : Nat)        -- capture_list_pool_get
  | acquire               -- capture_list_pool_acquire
  | release (id : Nat)    -- capture_list_pool_release
  | reset                 -- capture_list_pool_reset
  | setMax (m : Nat)      -- ts_query_cursor_set_match_limit
  deriving DecidableEq, Repr

/-- Indices of `list.contents` touched by one operation on pool `p` (valid elements: `p.inUse.length`).
`acquire`: the scan for an unused list stops at the first one; a new list is *pushed* (`array_push`,
whose own bounds are `push_in_bounds`) — that is not an access to an existing element.
`reset`: `array_back` while the size exceeds a lowered limit, then every remaining element. -/
def capAccesses (p : CapPool) : CapOp → List Nat
  | .get id => if id ≥ p.inUse.length then [] else [id]
  | .acquire =>
    if p.freeCount > 0 then
      match firstUnused p.inUse with
      | some i => List.range (i + 1)
      | none => List.range p.inUse.length
    else []
  | .release id => if id ≥ p.inUse.length then [] else [id]
  | .reset =>
    -- sizes at which `array_back` is taken: size, size-1, …, max+1 → element size-1, …, max
    ((List.range (p.inUse.length - p.max)).map fun k => p.inUse.length - 1 - k) ++ List.range (min p.inUse.length p.max)
  | .setMax _ => []

def CapPool.applyOp (p : CapPool) : CapOp → CapPool
  | .get _ => p
  | .acquire => p.acquire.1
  | .release id => p.release id
  | .reset => p.reset
  | .setMax m => { p with max := m }

/-- All accesses of a whole history of operations, each relative to the size at that moment:
`(index, size when accessed)`. -/
def capHistory : CapPool → List CapOp → List (Nat × Nat)
  | _, [] => []
  | p, op :: ops => (capAccesses p op).map (fun i => (i, p.inUse.length)) ++ capHistory (p.applyOp op) ops

/-- `captures->contents[state->consumed_capture_count]` in `ts_query_cursor_next_capture` /
`finished_state_precedes`, behind the test `consumed_capture_count >= captures->size`. -/
def consumedRead (guarded : Bool) (consumed size : Nat) : Option Nat :=
  if guarded && decide (consumed ≥ size) then none else some consumed

end TsVerif.C07
