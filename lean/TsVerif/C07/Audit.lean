import TsVerif.C07.Props
#print axioms TsVerif.C07.can_inline_fits
#print axioms TsVerif.C07.push_in_bounds
#print axioms TsVerif.C07.growBy_in_bounds
#print axioms TsVerif.C07.pop_in_bounds
#print axioms TsVerif.C07.splice_in_bounds
#print axioms TsVerif.C07.insert_in_bounds
#print axioms TsVerif.C07.extend_in_bounds
#print axioms TsVerif.C07.erase_in_bounds
#print axioms TsVerif.C07.assign_in_bounds
#print axioms TsVerif.C07.stack_links_bounded
#print axioms TsVerif.C07.pool_alloc_ok
#print axioms TsVerif.C07.pool_free_ok
#print axioms TsVerif.C07.capture_acquire_ok
#print axioms TsVerif.C07.capture_release_ok
#print axioms TsVerif.C07.capture_reset_ok
#print axioms TsVerif.C07.ess_roundtrip
