import TsVerif.C07.Model
/-!
# C07 — No memory-unsafe behaviour, assertion failure or leak for any conforming use

> For any sequence of API calls that respects the documented contracts […] the library performs no
> out-of-bounds or use-after-free access, no undefined behaviour and trips no internal assertion.
> Once every handle has been released, every allocation made through the library's allocator has
> been freed exactly once.

**What is and is not proved.**  Memory safety and absence of undefined behaviour are properties of
the *C execution*; no Lean model here exhibits an out-of-bounds pointer, a stale `TSNode`, a
misaligned or uninitialised read or a signed overflow, so no theorem below (or anywhere in this
technique) establishes them.  What is proved is the *bounds and ownership logic* the C code relies
on, on models tied to the code; the property itself is decided on real executions by the judge
(allocator balance) and searched with sanitizers (thorough tier) — reported as such.

| clause (logic behind it) | theorem |
|---|---|
| inline subtrees never truncate what they store | `can_inline_fits` (over the *generated* `ts_subtree_can_inline`, widths of `SubtreeInlineData`) |
| `Array(T)` operations stay inside the allocation | `array_ops_in_bounds` = `push_in_bounds`, `growBy_in_bounds`, `pop_in_bounds`, `splice_in_bounds`, `erase_in_bounds`, `assign_in_bounds` (+ `insert`/`extend` as instances) |
| `links[link_count++]` never overruns `links[MAX_LINK_COUNT]` | `stack_links_bounded` |
| reference counts = owners after every history of tree copy/edit/delete (incl. the release cascade), no dangling link, no cell without owner, copy-on-write writes only exclusively owned cells, freed ids never reused | proved in `TsVerif/C08/Props.lean` (`rc_invariant`, `no_dangling_no_garbage`, `writes_exclusive`, `freed_never_reused_*`) |
| every allocation freed exactly once (leak freedom) | OPEN `no_leak_no_double_free` for full API histories (the tree-handle part is C08's `rc_invariant`; missing: the parser-held references — token cache, `finished_tree`, `old_tree`, reusable node, stack heads —, query/cursor objects, and acyclicity): **judged** on every history by the counting allocator |
| `iterators_bounded`, `children_before_header` | OPEN (not ported) |
-/
namespace TsVerif.C07
open TsGen

/-- `can_inline_fits`: whenever the generated `ts_subtree_can_inline` says yes, every value that
`ts_subtree_new_leaf` / `ts_subtree_edit` then stores into `SubtreeInlineData` is below
`2^width` of its bit-field: no silent truncation. -/
theorem can_inline_fits (padding size : Length) (lookahead : Nat)
    (h : ts_subtree_can_inline padding size lookahead = true) : fitsInline widths padding size lookahead := by
  simp [ts_subtree_can_inline, TS_MAX_INLINE_TREE_LENGTH] at h
  have h := of_decide_eq_true h
  unfold fitsInline widths
  simp only
  omega

example : ts_subtree_can_inline ⟨3, ⟨1, 2⟩⟩ ⟨7, ⟨0, 7⟩⟩ 1 = true := by decide
/-- The bound is tight: 255 bytes of padding are refused (255 is the all-ones pattern). -/
example : ts_subtree_can_inline ⟨255, ⟨0, 0⟩⟩ ⟨7, ⟨0, 7⟩⟩ 1 = false := by decide

/-! ## array.h -/

theorem reserve_ok (a : Arr) (n : Nat) (h : a.Ok) : (a.reserve n).Ok ∧ n ≤ (a.reserve n).capacity ∧
    a.capacity ≤ (a.reserve n).capacity ∧ (a.reserve n).contents = a.contents := by
  unfold Arr.reserve Arr.Ok Arr.size at *
  split <;> simp <;> omega

theorem grow_ok (a : Arr) (count : Nat) (h : a.Ok) : (a.grow count).Ok ∧ a.size + count ≤ (a.grow count).capacity ∧
    (a.grow count).contents = a.contents := by
  unfold Arr.grow
  simp only
  split
  · generalize hc : (if (if a.capacity * 2 < 8 then 8 else a.capacity * 2) < a.size + count then a.size + count
        else if a.capacity * 2 < 8 then 8 else a.capacity * 2) = c
    have hle : a.size + count ≤ c := by
      subst hc
      split <;> (try split) <;> omega
    have := reserve_ok a c h
    exact ⟨this.1, by omega, this.2.2.2⟩
  · exact ⟨h, by omega, rfl⟩

theorem push_in_bounds (a : Arr) (x : Nat) (h : a.Ok) :
    (a.push x).1.Ok ∧ InBounds (a.push x).1.capacity (a.push x).2 ∧ (a.push x).1.contents = a.contents ++ [x] := by
  have g := grow_ok a 1 h
  unfold Arr.push
  refine ⟨?_, ?_, ?_⟩
  · simp only [Arr.Ok, Arr.size, List.length_append, List.length_singleton, g.2.2]
    simpa [Arr.size] using g.2.1
  · intro r hr
    simp at hr; subst hr
    simp only [Arr.size] at g ⊢
    omega
  · simp only [g.2.2]

theorem growBy_in_bounds (a : Arr) (count : Nat) (h : a.Ok) :
    (a.growBy count).1.Ok ∧ InBounds (a.growBy count).1.capacity (a.growBy count).2 := by
  unfold Arr.growBy
  split
  · exact ⟨h, by intro r hr; cases hr⟩
  · have g := grow_ok a count h
    refine ⟨?_, ?_⟩
    · simp only [Arr.Ok, Arr.size, List.length_append, List.length_replicate, g.2.2]
      simpa [Arr.size] using g.2.1
    · intro r hr
      simp at hr; subst hr
      simp only [Arr.size] at g ⊢
      omega

theorem pop_in_bounds (a : Arr) (h : a.Ok) (hne : 0 < a.size) :
    (a.pop).1.Ok ∧ InBounds (a.pop).1.capacity (a.pop).2 ∧ (a.pop).1.size + 1 = a.size := by
  unfold Arr.pop Arr.Ok Arr.size InBounds at *
  simp only [List.length_dropLast]
  refine ⟨by omega, ?_, by omega⟩
  intro r hr
  simp at hr; subst hr
  simp only; omega

/-- `_array__splice` under its asserted contract `index + old_count ≤ size`. -/
theorem splice_in_bounds (a : Arr) (index oldCount : Nat) (elems : List Nat) (h : a.Ok)
    (hpre : index + oldCount ≤ a.size) :
    (a.splice index oldCount elems).1.Ok ∧
    InBounds (a.splice index oldCount elems).1.capacity (a.splice index oldCount elems).2 ∧
    (a.splice index oldCount elems).1.size + oldCount = a.size + elems.length := by
  have r := reserve_ok a (a.size + elems.length - oldCount) h
  unfold Arr.splice
  simp only [Arr.Ok, Arr.size] at *
  have hlen : (a.contents.take index ++ elems ++ a.contents.drop (index + oldCount)).length + oldCount
      = a.contents.length + elems.length := by
    simp only [List.length_append, List.length_take, List.length_drop]
    omega
  refine ⟨by omega, ?_, hlen⟩
  intro rg hr
  simp only [List.mem_append] at hr
  rcases hr with hr | hr
  · by_cases hgt : a.contents.length > index + oldCount
    · simp only [hgt, if_true] at hr
      simp at hr
      rcases hr with hr | hr <;> subst hr <;> simp only <;> omega
    · simp only [hgt, if_false] at hr; cases hr
  · by_cases hgt : elems.length > 0
    · simp only [hgt, if_true] at hr
      simp at hr; subst hr; simp only; omega
    · simp only [hgt, if_false] at hr; cases hr

theorem insert_in_bounds (a : Arr) (index x : Nat) (h : a.Ok) (hpre : index ≤ a.size) :
    (a.insert index x).1.Ok ∧ InBounds (a.insert index x).1.capacity (a.insert index x).2 := by
  have := splice_in_bounds a index 0 [x] h (by omega)
  exact ⟨this.1, this.2.1⟩

theorem extend_in_bounds (a : Arr) (elems : List Nat) (h : a.Ok) :
    (a.extend elems).1.Ok ∧ InBounds (a.extend elems).1.capacity (a.extend elems).2 := by
  have := splice_in_bounds a a.size 0 elems h (by omega)
  exact ⟨this.1, this.2.1⟩

/-- `_array__erase` under its asserted contract `index < size`. -/
theorem erase_in_bounds (a : Arr) (index : Nat) (h : a.Ok) (hpre : index < a.size) :
    (a.erase index).1.Ok ∧ InBounds (a.erase index).1.capacity (a.erase index).2 ∧
    (a.erase index).1.size + 1 = a.size := by
  unfold Arr.erase
  simp only [Arr.Ok, Arr.size] at *
  have hlen : (a.contents.take index ++ a.contents.drop (index + 1)).length + 1 = a.contents.length := by
    simp only [List.length_append, List.length_take, List.length_drop]; omega
  refine ⟨by omega, ?_, hlen⟩
  intro rg hr
  simp at hr
  rcases hr with hr | hr <;> subst hr <;> simp only <;> omega

theorem assign_in_bounds (a : Arr) (other : List Nat) (h : a.Ok) :
    (a.assign other).1.Ok ∧ InBounds (a.assign other).1.capacity (a.assign other).2 := by
  have r := reserve_ok a other.length h
  unfold Arr.assign
  simp only [Arr.Ok, Arr.size] at *
  refine ⟨by omega, ?_⟩
  intro rg hr
  simp at hr; subst hr; simp only; omega

/-- The contracts are necessary: splicing past the end touches memory beyond the buffer. -/
example : ¬ InBounds (({ contents := [1, 2], capacity := 2 } : Arr).splice 1 0 [7]).1.capacity
    [(5, 6)] := by
  intro h; have := h (5, 6) (by simp); simp [Arr.splice, Arr.reserve, Arr.size] at this

example : ({ contents := [1, 2, 3], capacity := 4 } : Arr).Ok := by simp [Arr.Ok, Arr.size]

/-! ## stack_node_add_link -/

theorem bounded_set {g : Graph} {i : Nat} {n : SNode} (hg : g.Bounded) (hn : n.links.length ≤ MAX_LINK_COUNT) :
    Graph.Bounded (g.set i n) := by
  intro m hm
  rcases List.mem_or_eq_of_mem_set hm with h | h
  · exact hg m h
  · subst h; exact hn

theorem foldl_bounded {α : Type} (f : Graph → α → Graph) (hf : ∀ g x, g.Bounded → (f g x).Bounded) :
    ∀ (l : List α) (g : Graph), g.Bounded → (l.foldl f g).Bounded := by
  intro l
  induction l with
  | nil => intro g hg; exact hg
  | cons x xs ih => intro g hg; exact ih _ (hf g x hg)

/-- `stack_links_bounded`: `stack_node_add_link` (with all its recursive merging) never makes any
node's `link_count` exceed `MAX_LINK_COUNT` — the index written by `links[link_count++]` is below
the array length. -/
theorem stack_links_bounded : ∀ (fuel : Nat) (g : Graph) (self : Nat) (link : Link),
    g.Bounded → (addLink fuel g self link).Bounded
  | 0, g, _, _, hg => hg
  | fuel + 1, g, self, link, hg => by
    unfold addLink
    split
    · exact hg
    · split
      · exact hg
      · rename_i s hs
        have hsb : s.links.length ≤ MAX_LINK_COUNT := hg s (List.mem_of_getElem? hs)
        split
        · split
          · exact bounded_set hg (by simpa using hsb)
          · exact hg
        · split
          · exact foldl_bounded _ (fun g l hg => stack_links_bounded fuel g _ l hg) _ g hg
          · exact hg
        · split
          · exact hg
          · rename_i hne
            exact bounded_set hg (by simp only [List.length_append, List.length_singleton]; omega)

example : Graph.Bounded [{ links := [], state := 0, pos := 0, cost := 0 }] := by
  intro n hn; simp at hn; subst hn; simp

end TsVerif.C07
