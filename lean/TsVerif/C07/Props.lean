import TsVerif.C07.Model
import TsVerif.C07.Pools
import TsVerif.C07.Ranges
import TsVerif.C07.Walks
/-!
# C07 — No memory-unsafe behaviour, assertion failure or leak for any conforming use

> For any sequence of API calls that respects the documented contracts […] the library performs no
> out-of-bounds or use-after-free access, no undefined behaviour and trips no internal assertion.
> Once every handle has been released, every allocation made through the library's allocator has
> been freed exactly once.

## Clause map (phrase of the property text → theorems)

Marks: **proved** = kernel-checked statement about a Lean model of the bounds / ownership LOGIC, tied
to the real static functions by correspondence through the unity build; **judged only** = decided on
real executions by the Lean judge; **searched** = a dynamic detector that can only find violations;
**not expressible** = a behaviour no Lean model of this technique can exhibit.  C07 is PARTIAL by nature.

| # | phrase | theorems | mark |
|---|---|---|---|
| 1 | "for any sequence of API calls that respects the documented contracts (any source bytes, any query source, any edit with start ≤ old end, any ranges accepted by the setter, any interleaving of parse, edit, copy, query, cursor, cancel, reset and delete)" | none over API histories | **judged only / searched**: ~1000 adversarial histories per quick run (11 kinds × 8–10 languages), range lists only if `ts_lexer_set_included_ranges` accepts them |
| 2 | "performs no out-of-bounds … access" | per ported array walk: `changed_ranges_reads_in_bounds`, `lexer_advance_reads_in_bounds` (both were violated as found: `…_asis_reads_out_of_bounds`), `add_link_accesses_in_bounds(_graph)`, `stack_links_bounded`, `cap_accesses_in_bounds`, `cap_history_in_bounds`, `cap_acquired_id_in_bounds`, `consumed_read_in_bounds`, `step_captures_bounded`, `array_ops_in_bounds` family, `can_inline_fits` | **proved for these walks only**; every other index computation (children-before-header layout, iterators, serialization/debug buffers, lexer chunk decoding) is **searched**: guard-page allocator (quick, `cr`/`lx`), ASan (thorough) |
| 3 | "… or use-after-free access" | ownership logic: C08 (`persistence`, `rc_invariant`, `heap_empty_after_last_delete`), `pool_alloc_ok`, `pool_free_ok`, `capture_acquire_ok/release_ok/reset_ok` | **not expressible** as such (a model has no dangling pointers); **searched**: poisoning always-moving allocator in both explorers (quick), guard allocator keeps freed blocks inaccessible (`cr`/`lx`), ASan (thorough) |
| 4 | "no undefined behaviour" | none | **not expressible**; **searched**: fresh memory poisoned + dump judge for flags only a scanner may set (uninitialised reads), UBSan (thorough); data races: not modelled, C08's 16-thread probes and threaded-vs-sequential runs (no TSan) |
| 5 | "and trips no internal assertion" | none | **judged only**: the runtime is built with assertions on; any abort/signal of an explorer is a violation with the history as replay |
| 6 | "once every handle has been released, every allocation made through the library's allocator has been freed exactly once" | parts: `pool_alloc_ok`, `pool_free_ok`, `capture_*_ok`, `ess_roundtrip`, C08 `heap_empty_after_last_delete`; OPEN `no_leak_no_double_free` for full API histories | **judged only** for histories: counting allocator balance = 0 per history, free of a non-live block aborts (double free), external-scanner instance counter; LSan (thorough) |

## What the models cannot exhibit, and which dynamic search covers it

| runtime behaviour | why no theorem | quick tier | thorough tier |
|---|---|---|---|
| use after free through a pointer into a REALLOCATED array (`capture_list_pool`, `Array` growth) | models have values, not addresses | realloc always moves + freed memory poisoned 0xA5 ⇒ crash or garbage (`qcursor`, all histories) | ASan |
| use after free / double free of a subtree or stack node | same | poison + size header: free of a non-live block aborts; C08 `ref_count = owners` judge on dumps | ASan |
| out-of-bounds read/write outside the ported walks | not ported | guard pages for `cr`/`lx` only | ASan (unity build + `fuzz`, corpus lines) |
| in-struct overflow (`links[8]`, `capture_ids[3]`) | invisible to sanitizers too | `bits` probe + correspondence (`al`, 4-capture patterns) | — |
| uninitialised read | no indeterminate values in Lean | 0xA5-filled fresh memory + dump judge | UBSan (bool loads), ASan does not see it |
| data race | no memory model | 16-thread probes (`cunit_c08`), threaded vs sequential | — (no TSan) |
| signed overflow, misalignment, invalid shifts | no C semantics | — | UBSan |
| leak | histories not modelled | allocator balance per history, scanner instance counter | LSan |
| non-termination (not a C07 clause) | — | explorer timeout ⇒ "died or hung" with the history | — |

## Theorem index by clause (older table)

**What is and is not proved.**  Memory safety and absence of undefined behaviour are properties of
the *C execution*; no Lean model here exhibits an out-of-bounds pointer, a stale `TSNode`, a
misaligned or uninitialised read or a signed overflow, so no theorem below (or anywhere in this
technique) establishes them.  What is proved is the *bounds and ownership logic* the C code relies
on, on models tied to the code; the property itself is decided on real executions by the judge
(allocator balance) and searched with sanitizers (thorough tier) — reported as such.

| clause (logic behind it) | theorem |
|---|---|
| inline subtrees never truncate what they store | `can_inline_fits` (over the *generated* `ts_subtree_can_inline`, widths of `SubtreeInlineData`) |
| `Array(T)` operations stay inside the allocation | `array_ops_in_bounds` = `push_in_bounds`, `growBy_in_bounds`, `pop_in_bounds`, `splice_in_bounds`, `erase_in_bounds`, `assign_in_bounds` (+ `insert`/`extend` as instances) |
| `links[link_count++]` never overruns `links[MAX_LINK_COUNT]` | `stack_links_bounded` |
| reference counts = owners after every history of tree copy/edit/delete (incl. the release cascade), no dangling link, no cell without owner, copy-on-write writes only exclusively owned cells, freed ids never reused | proved in `TsVerif/C08/Props.lean` (`rc_invariant`, `no_dangling_no_garbage`, `writes_exclusive`, `freed_never_reused_*`) |
| every allocation freed exactly once (leak freedom) | OPEN `no_leak_no_double_free` for full API histories (the tree-handle part is C08's `rc_invariant`; missing: the parser-held references — token cache, `finished_tree`, `old_tree`, reusable node, stack heads —, query/cursor objects, and acyclicity): **judged** on every history by the counting allocator |
| the recycling pools never hand out a live object, never cache more than their cap, never free twice | `pool_alloc_ok`, `pool_free_ok` (subtree pool `TS_MAX_TREE_POOL_SIZE`, stack node pool `MAX_NODE_POOL_SIZE`) |
| capture lists are never shared between query states, the pool respects its limit | `capture_acquire_ok`, `capture_release_ok`, `capture_reset_ok` |
| external scanner states: inline ≤ 24 bytes, heap otherwise; allocations = frees | `ess_roundtrip` |
| an exhausted cursor into a `TSRange` array is never dereferenced: `ts_range_array_get_changed_ranges` (after the fix; the loop as found reads `ranges[count]`, see `changed_ranges_asis_reads_out_of_bounds`) and `ts_lexer__advance` (after the fix; as found: `lexer_advance_asis_reads_out_of_bounds`) | `changed_ranges_reads_in_bounds`, `lexer_advance_reads_in_bounds` |
| `links[i]` / `links[link_count++]` of a stack node, `list.contents[i]` of the capture-list pool, `captures->contents[consumed]`: every touched element exists — all in bounds AS FOUND; unguarded variants refuted | `add_link_accesses_in_bounds` (+ `_graph`, from `stack_links_bounded`), `add_link_unguarded_stores_out_of_bounds`; `cap_accesses_in_bounds`, `cap_history_in_bounds`, `cap_acquired_id_in_bounds`; `consumed_read_in_bounds`, `consumed_read_unguarded_out_of_bounds` (Walks.lean) |
| `capture_ids[MAX_STEP_CAPTURE_COUNT]` of a query step is never overrun | `step_captures_bounded` (tied by the `bits` probe: slots, surplus captures dropped, `depth` untouched) |
| `iterators_bounded`, `children_before_header` | OPEN (not ported) |
-/
namespace TsVerif.C07
open TsGen

/-- `can_inline_fits`: whenever the generated `ts_subtree_can_inline` says yes, every value that
`ts_subtree_new_leaf` / `ts_subtree_edit` then stores into `SubtreeInlineData` is below
`2^width` of its bit-field: no silent truncation. -/
theorem can_inline_fits (padding size : Length) (lookahead : Nat)
    (h : ts_subtree_can_inline padding size lookahead = true) : fitsInline widths padding size lookahead := by
  simp [ts_subtree_can_inline, TS_MAX_INLINE_TREE_LENGTH] at h
  have h := of_decide_eq_true h
  unfold fitsInline widths
  simp only
  omega

example : ts_subtree_can_inline ⟨3, ⟨1, 2⟩⟩ ⟨7, ⟨0, 7⟩⟩ 1 = true := by decide
/-- The bound is tight: 255 bytes of padding are refused (255 is the all-ones pattern). -/
example : ts_subtree_can_inline ⟨255, ⟨0, 0⟩⟩ ⟨7, ⟨0, 7⟩⟩ 1 = false := by decide

/-! ## array.h -/

theorem reserve_ok (a : Arr) (n : Nat) (h : a.Ok) : (a.reserve n).Ok ∧ n ≤ (a.reserve n).capacity ∧
    a.capacity ≤ (a.reserve n).capacity ∧ (a.reserve n).contents = a.contents := by
  unfold Arr.reserve Arr.Ok Arr.size at *
  split <;> simp <;> omega

theorem grow_ok (a : Arr) (count : Nat) (h : a.Ok) : (a.grow count).Ok ∧ a.size + count ≤ (a.grow count).capacity ∧
    (a.grow count).contents = a.contents := by
  unfold Arr.grow
  simp only
  split
  · generalize hc : (if (if a.capacity * 2 < 8 then 8 else a.capacity * 2) < a.size + count then a.size + count
        else if a.capacity * 2 < 8 then 8 else a.capacity * 2) = c
    have hle : a.size + count ≤ c := by
      subst hc
      split <;> (try split) <;> omega
    have := reserve_ok a c h
    exact ⟨this.1, by omega, this.2.2.2⟩
  · exact ⟨h, by omega, rfl⟩

theorem push_in_bounds (a : Arr) (x : Nat) (h : a.Ok) :
    (a.push x).1.Ok ∧ InBounds (a.push x).1.capacity (a.push x).2 ∧ (a.push x).1.contents = a.contents ++ [x] := by
  have g := grow_ok a 1 h
  unfold Arr.push
  refine ⟨?_, ?_, ?_⟩
  · simp only [Arr.Ok, Arr.size, List.length_append, List.length_singleton, g.2.2]
    simpa [Arr.size] using g.2.1
  · intro r hr
    simp at hr; subst hr
    simp only [Arr.size] at g ⊢
    omega
  · simp only [g.2.2]

theorem growBy_in_bounds (a : Arr) (count : Nat) (h : a.Ok) :
    (a.growBy count).1.Ok ∧ InBounds (a.growBy count).1.capacity (a.growBy count).2 := by
  unfold Arr.growBy
  split
  · exact ⟨h, by intro r hr; cases hr⟩
  · have g := grow_ok a count h
    refine ⟨?_, ?_⟩
    · simp only [Arr.Ok, Arr.size, List.length_append, List.length_replicate, g.2.2]
      simpa [Arr.size] using g.2.1
    · intro r hr
      simp at hr; subst hr
      simp only [Arr.size] at g ⊢
      omega

theorem pop_in_bounds (a : Arr) (h : a.Ok) (hne : 0 < a.size) :
    (a.pop).1.Ok ∧ InBounds (a.pop).1.capacity (a.pop).2 ∧ (a.pop).1.size + 1 = a.size := by
  unfold Arr.pop Arr.Ok Arr.size InBounds at *
  simp only [List.length_dropLast]
  refine ⟨by omega, ?_, by omega⟩
  intro r hr
  simp at hr; subst hr
  simp only; omega

/-- `_array__splice` under its asserted contract `index + old_count ≤ size`. -/
theorem splice_in_bounds (a : Arr) (index oldCount : Nat) (elems : List Nat) (h : a.Ok)
    (hpre : index + oldCount ≤ a.size) :
    (a.splice index oldCount elems).1.Ok ∧
    InBounds (a.splice index oldCount elems).1.capacity (a.splice index oldCount elems).2 ∧
    (a.splice index oldCount elems).1.size + oldCount = a.size + elems.length := by
  have r := reserve_ok a (a.size + elems.length - oldCount) h
  unfold Arr.splice
  simp only [Arr.Ok, Arr.size] at *
  have hlen : (a.contents.take index ++ elems ++ a.contents.drop (index + oldCount)).length + oldCount
      = a.contents.length + elems.length := by
    simp only [List.length_append, List.length_take, List.length_drop]
    omega
  refine ⟨by omega, ?_, hlen⟩
  intro rg hr
  simp only [List.mem_append] at hr
  rcases hr with hr | hr
  · by_cases hgt : a.contents.length > index + oldCount
    · simp only [hgt, if_true] at hr
      simp at hr
      rcases hr with hr | hr <;> subst hr <;> simp only <;> omega
    · simp only [hgt, if_false] at hr; cases hr
  · by_cases hgt : elems.length > 0
    · simp only [hgt, if_true] at hr
      simp at hr; subst hr; simp only; omega
    · simp only [hgt, if_false] at hr; cases hr

theorem insert_in_bounds (a : Arr) (index x : Nat) (h : a.Ok) (hpre : index ≤ a.size) :
    (a.insert index x).1.Ok ∧ InBounds (a.insert index x).1.capacity (a.insert index x).2 := by
  have := splice_in_bounds a index 0 [x] h (by omega)
  exact ⟨this.1, this.2.1⟩

theorem extend_in_bounds (a : Arr) (elems : List Nat) (h : a.Ok) :
    (a.extend elems).1.Ok ∧ InBounds (a.extend elems).1.capacity (a.extend elems).2 := by
  have := splice_in_bounds a a.size 0 elems h (by omega)
  exact ⟨this.1, this.2.1⟩

/-- `_array__erase` under its asserted contract `index < size`. -/
theorem erase_in_bounds (a : Arr) (index : Nat) (h : a.Ok) (hpre : index < a.size) :
    (a.erase index).1.Ok ∧ InBounds (a.erase index).1.capacity (a.erase index).2 ∧
    (a.erase index).1.size + 1 = a.size := by
  unfold Arr.erase
  simp only [Arr.Ok, Arr.size] at *
  have hlen : (a.contents.take index ++ a.contents.drop (index + 1)).length + 1 = a.contents.length := by
    simp only [List.length_append, List.length_take, List.length_drop]; omega
  refine ⟨by omega, ?_, hlen⟩
  intro rg hr
  simp at hr
  rcases hr with hr | hr <;> subst hr <;> simp only <;> omega

theorem assign_in_bounds (a : Arr) (other : List Nat) (h : a.Ok) :
    (a.assign other).1.Ok ∧ InBounds (a.assign other).1.capacity (a.assign other).2 := by
  have r := reserve_ok a other.length h
  unfold Arr.assign
  simp only [Arr.Ok, Arr.size] at *
  refine ⟨by omega, ?_⟩
  intro rg hr
  simp at hr; subst hr; simp only; omega

/-- The contracts are necessary: splicing past the end touches memory beyond the buffer. -/
example : ¬ InBounds (({ contents := [1, 2], capacity := 2 } : Arr).splice 1 0 [7]).1.capacity
    [(5, 6)] := by
  intro h; have := h (5, 6) (by simp); simp [Arr.splice, Arr.reserve, Arr.size] at this

example : ({ contents := [1, 2, 3], capacity := 4 } : Arr).Ok := by simp [Arr.Ok, Arr.size]

/-! ## stack_node_add_link -/

theorem bounded_set {g : Graph} {i : Nat} {n : SNode} (hg : g.Bounded) (hn : n.links.length ≤ MAX_LINK_COUNT) :
    Graph.Bounded (g.set i n) := by
  intro m hm
  rcases List.mem_or_eq_of_mem_set hm with h | h
  · exact hg m h
  · subst h; exact hn

theorem foldl_bounded {α : Type} (f : Graph → α → Graph) (hf : ∀ g x, g.Bounded → (f g x).Bounded) :
    ∀ (l : List α) (g : Graph), g.Bounded → (l.foldl f g).Bounded := by
  intro l
  induction l with
  | nil => intro g hg; exact hg
  | cons x xs ih => intro g hg; exact ih _ (hf g x hg)

/-- `stack_links_bounded`: `stack_node_add_link` (with all its recursive merging) never makes any
node's `link_count` exceed `MAX_LINK_COUNT` — the index written by `links[link_count++]` is below
the array length. -/
theorem stack_links_bounded : ∀ (fuel : Nat) (g : Graph) (self : Nat) (link : Link),
    g.Bounded → (addLink fuel g self link).Bounded
  | 0, g, _, _, hg => hg
  | fuel + 1, g, self, link, hg => by
    unfold addLink
    split
    · exact hg
    · split
      · exact hg
      · rename_i s hs
        have hsb : s.links.length ≤ MAX_LINK_COUNT := hg s (List.mem_of_getElem? hs)
        split
        · split
          · exact bounded_set hg (by simpa using hsb)
          · exact hg
        · split
          · exact foldl_bounded _ (fun g l hg => stack_links_bounded fuel g _ l hg) _ g hg
          · exact hg
        · split
          · exact hg
          · rename_i hne
            exact bounded_set hg (by simp only [List.length_append, List.length_singleton]; omega)

example : Graph.Bounded [{ links := [], state := 0, pos := 0, cost := 0 }] := by
  intro n hn; simp at hn; subst hn; simp


/-! ## recycling pools (subtree pool, stack node pool) -/

/-- `pool_alloc_ok`: allocation keeps "every object is in exactly one place", the cache bound, and
never hands out an object that is live or that was already returned to the allocator. -/
theorem pool_alloc_ok (w : PoolW) (h : w.Ok) :
    (w.alloc).1.Ok ∧ (w.alloc).2 ∉ w.live ∧ (w.alloc).2 ∉ w.released ∧ (w.alloc).2 ∈ (w.alloc).1.live := by
  unfold PoolW.alloc
  cases hp : w.pool with
  | nil =>
    simp only
    have hfresh : ∀ l : List Nat, (∀ x, x ∈ l → x < w.next) → w.next ∉ l := fun l hl hm => Nat.lt_irrefl _ (hl _ hm)
    have hnl := hfresh w.live (fun x hx => h.below x (Or.inr (Or.inl hx)))
    have hnr := hfresh w.released (fun x hx => h.below x (Or.inr (Or.inr hx)))
    refine ⟨⟨by simp, by simp, List.nodup_cons.mpr ⟨hnl, h.nodupL⟩, h.nodupR, by simp, by simp, ?_, ?_⟩, hnl, hnr, by simp⟩
    · intro x hx
      rcases List.mem_cons.mp hx with hx | hx
      · subst hx; exact hnr
      · exact h.dLR x hx
    · intro x hx
      show x < w.next + 1
      simp only [List.not_mem_nil, false_or, List.mem_cons] at hx
      rcases hx with (hx | hx) | hx
      · omega
      · have := h.below x (Or.inr (Or.inl hx)); omega
      · have := h.below x (Or.inr (Or.inr hx)); omega
  | cons x rest =>
    simp only
    have hxp : x ∈ w.pool := by rw [hp]; exact List.mem_cons_self
    have hnd := h.nodupP; rw [hp] at hnd
    have hnd' := List.nodup_cons.mp hnd
    have hb := h.bounded; rw [hp] at hb
    refine ⟨⟨by simp at hb ⊢; omega, hnd'.2, List.nodup_cons.mpr ⟨h.dPL x hxp, h.nodupL⟩, h.nodupR, ?_, ?_, ?_, ?_⟩,
      h.dPL x hxp, h.dPR x hxp, by simp⟩
    · intro y hy hm
      rcases List.mem_cons.mp hm with hm | hm
      · subst hm; exact hnd'.1 hy
      · exact h.dPL y (by rw [hp]; exact List.mem_cons_of_mem _ hy) hm
    · intro y hy; exact h.dPR y (by rw [hp]; exact List.mem_cons_of_mem _ hy)
    · intro y hy
      rcases List.mem_cons.mp hy with hy | hy
      · subst hy; exact h.dPR y hxp
      · exact h.dLR y hy
    · intro y hy
      apply h.below
      rcases hy with hy | hy | hy
      · exact Or.inl (by rw [hp]; exact List.mem_cons_of_mem _ hy)
      · rcases List.mem_cons.mp hy with hy | hy
        · subst hy; exact Or.inl hxp
        · exact Or.inr (Or.inl hy)
      · exact Or.inr (Or.inr hy)

/-- `pool_free_ok`: freeing a live object keeps the invariant: the object goes to the cache (never
beyond its capacity) or back to the allocator — where it was not before: **no double free**. -/
theorem pool_free_ok (w : PoolW) (x : Nat) (h : w.Ok) (hx : x ∈ w.live) :
    (w.free x).Ok ∧ x ∉ (w.free x).live ∧ x ∉ w.released := by
  have hnotR := h.dLR x hx
  have hnotP : x ∉ w.pool := fun hp => h.dPL x hp hx
  have herase : x ∉ w.live.erase x := by
    intro hm
    exact (List.Nodup.mem_erase_iff h.nodupL).mp hm |>.1 rfl
  have hsub : ∀ y, y ∈ w.live.erase x → y ∈ w.live := fun y hy => List.mem_of_mem_erase hy
  unfold PoolW.free
  split
  · rename_i hc
    simp only [Bool.and_eq_true, decide_eq_true_eq] at hc
    refine ⟨⟨by simp; omega, List.nodup_cons.mpr ⟨hnotP, h.nodupP⟩, h.nodupL.erase x, h.nodupR, ?_, ?_, ?_, ?_⟩, herase, hnotR⟩
    · intro y hy hm
      rcases List.mem_cons.mp hy with hy | hy
      · subst hy; exact herase hm
      · exact h.dPL y hy (hsub y hm)
    · intro y hy
      rcases List.mem_cons.mp hy with hy | hy
      · subst hy; exact hnotR
      · exact h.dPR y hy
    · intro y hy; exact h.dLR y (hsub y hy)
    · intro y hy
      apply h.below
      rcases hy with hy | hy | hy
      · rcases List.mem_cons.mp hy with hy | hy
        · subst hy; exact Or.inr (Or.inl hx)
        · exact Or.inl hy
      · exact Or.inr (Or.inl (hsub y hy))
      · exact Or.inr (Or.inr hy)
  · refine ⟨⟨h.bounded, h.nodupP, h.nodupL.erase x, List.nodup_cons.mpr ⟨hnotR, h.nodupR⟩, ?_, ?_, ?_, ?_⟩, herase, hnotR⟩
    · intro y hy hm; exact h.dPL y hy (hsub y hm)
    · intro y hy hm
      rcases List.mem_cons.mp hm with hm | hm
      · subst hm; exact hnotP hy
      · exact h.dPR y hy hm
    · intro y hy hm
      rcases List.mem_cons.mp hm with hm | hm
      · subst hm; exact herase hy
      · exact h.dLR y (hsub y hy) hm
    · intro y hy
      apply h.below
      rcases hy with hy | hy | hy
      · exact Or.inl hy
      · exact Or.inr (Or.inl (hsub y hy))
      · rcases List.mem_cons.mp hy with hy | hy
        · subst hy; exact Or.inr (Or.inl hx)
        · exact Or.inr (Or.inr hy)

example : PoolW.Ok { cap := TS_MAX_TREE_POOL_SIZE, enabled := true, pool := [], live := [], released := [], next := 0 } :=
  ⟨by simp, by simp, by simp, by simp, by simp, by simp, by simp, by simp⟩

/-! ## capture-list pool -/

theorem firstUnused_spec : ∀ (l : List Bool) (i : Nat), firstUnused l = some i → l[i]? = some false
  | [], i, h => by simp [firstUnused] at h
  | false :: rest, i, h => by simp [firstUnused] at h; subst h; rfl
  | true :: rest, i, h => by
    simp only [firstUnused, Option.map_eq_some_iff] at h
    obtain ⟨j, hj, hij⟩ := h
    subst hij
    simpa using firstUnused_spec rest j hj

theorem firstUnused_none : ∀ (l : List Bool), firstUnused l = none → unusedCount l = 0
  | [], _ => rfl
  | false :: rest, h => by simp [firstUnused] at h
  | true :: rest, h => by
    simp only [firstUnused, Option.map_eq_none_iff] at h
    have := firstUnused_none rest h
    simpa [unusedCount] using this

theorem unusedCount_set_true : ∀ (l : List Bool) (i : Nat), l[i]? = some false →
    unusedCount (l.set i true) + 1 = unusedCount l
  | [], i, h => by simp at h
  | b :: rest, 0, h => by simp at h; subst h; simp [unusedCount]
  | b :: rest, i + 1, h => by
    have := unusedCount_set_true rest i (by simpa using h)
    cases b <;> simp [unusedCount] at this ⊢ <;> omega

theorem unusedCount_set_false : ∀ (l : List Bool) (i : Nat), l[i]? = some true →
    unusedCount (l.set i false) = unusedCount l + 1
  | [], i, h => by simp at h
  | b :: rest, 0, h => by simp at h; subst h; simp [unusedCount]
  | b :: rest, i + 1, h => by
    have := unusedCount_set_false rest i (by simpa using h)
    cases b <;> simp [unusedCount] at this ⊢ <;> omega

theorem unusedCount_append_true (l : List Bool) : unusedCount (l ++ [true]) = unusedCount l := by
  simp [unusedCount, List.filter_append]

/-- `capture_acquire_ok`: acquire keeps "free count = number of unused lists" and the limit; the id
it returns is inside the pool and was **not in use** (no two query states ever share a capture
list); it returns NONE exactly when the pool is empty in the sense of `capture_list_pool_is_empty`. -/
theorem capture_acquire_ok (p : CapPool) (h : p.Ok) :
    (p.acquire).1.Ok ∧
    (match (p.acquire).2 with
     | some i => i < (p.acquire).1.inUse.length ∧ p.inUse[i]? ≠ some true ∧ (p.acquire).1.inUse[i]? = some true
     | none => p.isEmpty = true ∧ (p.acquire).1 = p) := by
  unfold CapPool.acquire
  by_cases hf : p.freeCount > 0
  · simp only [hf, if_true]
    cases hu : firstUnused p.inUse with
    | none => have := firstUnused_none _ hu; have := h.count; omega
    | some i =>
      simp only
      have hi := firstUnused_spec _ _ hu
      have hlt : i < p.inUse.length := by
        rcases Nat.lt_or_ge i p.inUse.length with h1 | h1
        · exact h1
        · rw [List.getElem?_eq_none h1] at hi; cases hi
      refine ⟨⟨?_, by simpa using h.limit⟩, by simpa using hlt, by rw [hi]; simp, by simp [hlt]⟩
      have := unusedCount_set_true _ _ hi
      have := h.count
      simp only; omega
  · simp only [hf, if_false]
    have hz : unusedCount p.inUse = 0 := by have := h.count; omega
    by_cases hm : p.inUse.length ≥ p.max
    · simp only [hm, if_true]
      refine ⟨h, ?_, trivial⟩
      unfold CapPool.isEmpty
      have : p.freeCount = 0 := by omega
      simp [this, hm]
    · simp only [hm, if_false]
      refine ⟨⟨?_, by simp; omega⟩, by simp, by simp, by simp⟩
      simp only [unusedCount_append_true]; exact h.count

/-- `capture_release_ok`: releasing a list that is in use keeps the invariant and makes it available again. -/
theorem capture_release_ok (p : CapPool) (id : Nat) (h : p.Ok) (hu : p.inUse[id]? = some true) :
    (p.release id).Ok ∧ (p.release id).inUse[id]? = some false := by
  have hlt : id < p.inUse.length := by
    rcases Nat.lt_or_ge id p.inUse.length with h1 | h1
    · exact h1
    · rw [List.getElem?_eq_none h1] at hu; cases hu
  unfold CapPool.release
  have : ¬ id ≥ p.inUse.length := by omega
  simp only [this, if_false]
  refine ⟨⟨?_, by simpa using h.limit⟩, by simp [hlt]⟩
  have := unusedCount_set_false _ _ hu
  have := h.count
  simp only; omega

/-- `capture_reset_ok`: after a reset (even with a lowered limit) everything is free and within the limit. -/
theorem capture_reset_ok (p : CapPool) : (p.reset).Ok ∧ (p.reset).inUse.length ≤ p.max := by
  unfold CapPool.reset
  refine ⟨⟨?_, ?_⟩, ?_⟩
  · simp [unusedCount]
  · simp; exact Nat.min_le_right _ _
  · simp; exact Nat.min_le_right _ _

/-! ## external scanner state -/

/-- `ess_roundtrip`: what is stored is read back unchanged, inline (≤ 24 bytes) or on the heap, and
`init`/`copy` allocate exactly what `delete` frees: no leak, no free of inline storage. -/
theorem ess_roundtrip (data : List Nat) :
    (Ess.init data).1.data = data ∧ (Ess.init data).1.eq data = true ∧
    ((Ess.init data).1.onHeap = true ↔ data.length > ESS_INLINE) ∧
    (Ess.init data).2 = (Ess.init data).1.delete ∧
    ((Ess.init data).1.copy).2 = ((Ess.init data).1.copy).1.delete ∧
    ((Ess.init data).1.copy).1.data = data := by
  unfold Ess.init
  by_cases h : data.length > ESS_INLINE <;> simp [h, Ess.data, Ess.eq, Ess.delete, Ess.copy]

/-- A query step never holds more capture ids than its array has slots, whatever is added. -/
theorem step_captures_bounded (cs : List Nat) :
    (cs.foldl addCapture []).length ≤ maxStepCaptureCount := by
  suffices h : ∀ (acc : List Nat), acc.length ≤ maxStepCaptureCount →
      (cs.foldl addCapture acc).length ≤ maxStepCaptureCount from h [] (by simp)
  induction cs with
  | nil => intro acc h; simpa using h
  | cons c cs ih =>
    intro acc h
    apply ih
    unfold addCapture
    split
    · simp; omega
    · exact h

example : [1, 2, 3, 4, 5, 6].foldl addCapture [] = [1, 2, 3] := by decide

/-! ## The other ported array walks: which elements they touch -/

/-- **`stack_node_add_link` (as found)**: on a node whose `link_count` is within the array, every
`links[i]` the scanning loop reads is a valid element, every `links[j]` of the node being merged is
valid, and the store `links[link_count++]` hits a slot of the array. -/
theorem add_link_accesses_in_bounds (count otherCount : Nat) (stop : Option (Nat × Bool))
    (hc : count ≤ MAX_LINK_COUNT) :
    let a := addLinkAccesses .eqMax count otherCount stop
    (∀ i ∈ a.reads, i < count) ∧ (∀ j ∈ a.mergeReads, j < otherCount) ∧ (∀ k, a.store = some k → k < MAX_LINK_COUNT) := by
  cases stop with
  | some st =>
    obtain ⟨i, m⟩ := st
    refine ⟨?_, ?_, ?_⟩
    · intro x hx; simp [addLinkAccesses] at hx; omega
    · intro x hx; simp only [addLinkAccesses] at hx; split at hx <;> simp at hx; exact hx
    · intro k hk; simp [addLinkAccesses] at hk
  | none =>
    refine ⟨?_, ?_, ?_⟩
    · intro x hx; simpa [addLinkAccesses] using hx
    · intro x hx; simp [addLinkAccesses] at hx
    · intro k hk
      simp only [addLinkAccesses] at hk
      split at hk
      · cases hk
      · rename_i hb
        cases hk
        simp at hb
        omega

/-- … and the precondition `link_count ≤ MAX_LINK_COUNT` is an invariant of every graph under every
call, recursion included (`stack_links_bounded`), so it holds for every node the next call sees. -/
theorem add_link_accesses_in_bounds_graph (fuel : Nat) (g : Graph) (self : Nat) (link : Link) (hg : g.Bounded)
    (n : SNode) (hn : n ∈ addLink fuel g self link) (otherCount : Nat) (stop : Option (Nat × Bool)) :
    ∀ k, (addLinkAccesses .eqMax n.links.length otherCount stop).store = some k → k < MAX_LINK_COUNT :=
  (add_link_accesses_in_bounds n.links.length otherCount stop (stack_links_bounded fuel g self link hg n hn)).2.2

/-- Refuted without the guard, and with `>` for `==` (hand mutation `mutP3`): a full node stores at
index `MAX_LINK_COUNT`, one past the array (inside the struct: no sanitizer sees it). -/
theorem add_link_unguarded_stores_out_of_bounds :
    (addLinkAccesses .none MAX_LINK_COUNT 0 none).store = some MAX_LINK_COUNT ∧
    (addLinkAccesses .gtMax MAX_LINK_COUNT 0 none).store = some MAX_LINK_COUNT := by decide

/-- **Capture-list pool (as found)**: every element of `list.contents` that `get`, `acquire`,
`release` or `reset` touches exists at that moment — for ANY id (stale ids of lists dropped by a
lowered limit included: `get` answers with the empty list, `release` does nothing). -/
theorem cap_accesses_in_bounds (p : CapPool) (op : CapOp) : ∀ i ∈ capAccesses p op, i < p.inUse.length := by
  intro i hi
  cases op with
  | get id => simp only [capAccesses] at hi; split at hi <;> simp at hi; omega
  | release id => simp only [capAccesses] at hi; split at hi <;> simp at hi; omega
  | setMax m => simp [capAccesses] at hi
  | acquire =>
    simp only [capAccesses] at hi
    split at hi
    · cases hu : firstUnused p.inUse with
      | none => rw [hu] at hi; simpa using hi
      | some k =>
        rw [hu] at hi
        have hk := firstUnused_spec _ _ hu
        have hlt : k < p.inUse.length := by
          rcases Nat.lt_or_ge k p.inUse.length with h | h
          · exact h
          · rw [List.getElem?_eq_none h] at hk; cases hk
        simp at hi; omega
    · simp at hi
  | reset =>
    simp only [capAccesses, List.mem_append, List.mem_map, List.mem_range] at hi
    rcases hi with ⟨k, hk, rfl⟩ | hi
    · omega
    · omega

/-- Over whole histories: every access of every operation is below the size the array has at that
moment. -/
theorem cap_history_in_bounds : ∀ (ops : List CapOp) (p : CapPool), ∀ a ∈ capHistory p ops, a.1 < a.2
  | [], _, a, ha => by simp [capHistory] at ha
  | op :: ops, p, a, ha => by
    simp only [capHistory, List.mem_append, List.mem_map] at ha
    rcases ha with ⟨i, hi, rfl⟩ | ha
    · exact cap_accesses_in_bounds p op i hi
    · exact cap_history_in_bounds ops _ a ha

/-- The id `acquire` hands out is a valid element afterwards (the `ts_assert(id < list.size)` of
`capture_list_pool_get_mut` holds for it). -/
theorem cap_acquired_id_in_bounds (p : CapPool) (h : p.Ok) (i : Nat) (hi : p.acquire.2 = some i) :
    i < p.acquire.1.inUse.length := by
  have := (capture_acquire_ok p h).2
  rw [hi] at this
  exact this.1

/-- The read at a state's consumed-capture cursor: in bounds behind the size test (as found), refuted
without it. -/
theorem consumed_read_in_bounds (consumed size : Nat) : ∀ i, consumedRead true consumed size = some i → i < size := by
  intro i h
  simp only [consumedRead] at h
  split at h
  · cases h
  · rename_i hc; cases h; simp at hc; omega

theorem consumed_read_unguarded_out_of_bounds : ∃ i, consumedRead false 3 3 = some i ∧ ¬ i < 3 := ⟨3, by decide, by decide⟩

/-- Non-vacuity: a history that grows the pool to three lists, lowers the limit to one, resets
(elements 2 and 1 are dropped through `array_back`, element 0 is cleared) and then uses a stale id. -/
example : capHistory { inUse := [], max := 4294967295, freeCount := 0 }
    [.acquire, .acquire, .acquire, .release 1, .acquire, .setMax 1, .reset, .get 2, .release 2, .get 0]
    = [(1, 3), (0, 3), (1, 3), (2, 3), (1, 3), (0, 3), (0, 1)] := by decide

/-! ## Range cursors (wave 5: two out-of-bounds reads found by other properties' sanitizer runs) -/

/-- **`ts_range_array_get_changed_ranges`, fixed loop**: for any two lists of 32-bit ranges, every
element of either array that the loop dereferences exists, and the loop never needs a missing
element.  (No ordering or non-overlap assumption: the statement covers every list the setter accepts
and more.) -/
theorem changed_ranges_reads_in_bounds (old new : List BR) (hbo : Bounded old) (hbn : Bounded new) :
    ∀ r ∈ (changedRanges .fixed old new).1, ReadOk old new r :=
  crRun_fixed_reads_in_bounds hbo hbn _ _ ⟨by simp, by simp⟩

/-- The loop as found dereferences `new_ranges[new_range_count]` on two lists that
`ts_lexer_set_included_ranges` accepts: old = `[0,MAX) [MAX,MAX)`, new = `[0,5)` (the finding). -/
theorem changed_ranges_asis_reads_out_of_bounds :
    ∃ r ∈ (changedRanges .asis [⟨0, U32MAX⟩, ⟨U32MAX, U32MAX⟩] [⟨0, 5⟩]).1,
      ¬ ReadOk [⟨0, U32MAX⟩, ⟨U32MAX, U32MAX⟩] [⟨0, 5⟩] r :=
  ⟨(true, 1), by decide, by decide⟩

/-- Non-vacuity: on the same input the fixed loop terminates with the expected difference. -/
example : (changedRanges .fixed [⟨0, U32MAX⟩, ⟨U32MAX, U32MAX⟩] [⟨0, 5⟩]).2 = some [(5, U32MAX)] := by decide
example : (changedRanges .fixed [⟨0, 3⟩, ⟨7, 9⟩] [⟨2, 8⟩]).2 = some [(0, 2), (3, 7), (8, 9)] := by decide
example : Bounded [⟨0, U32MAX⟩, ⟨U32MAX, U32MAX⟩] := by
  intro r hr; simp at hr; rcases hr with rfl | rfl <;> simp [U32MAX]

/-- **`ts_lexer__advance`, fixed entry test**: from any lexer state whose range cursor is at most
the count, every element of `included_ranges` it dereferences exists. -/
theorem lexer_advance_reads_in_bounds (s : LxS) (h : s.idx ≤ s.count) :
    ∀ i ∈ advanceReads .fixed s, i < s.count := by
  intro i hi
  unfold advanceReads at hi
  by_cases hc : advanceEnters .fixed s = true
  · rw [if_pos hc] at hi
    simp [advanceEnters] at hc
    have hne : s.idx ≠ s.count := hc.2
    simp at hi
    rcases hi with rfl | ⟨a, ha, rfl⟩
    · omega
    · omega
  · rw [if_neg hc] at hi
    simp at hi

/-- As found, a lexer at the end of its ranges that still holds a chunk (reachable: `get_column`
re-fetches a chunk at the line start after `ts_lexer_goto` has reached the end) reads
`included_ranges[count]`. -/
theorem lexer_advance_asis_reads_out_of_bounds :
    ∃ s : LxS, s.idx ≤ s.count ∧ ∃ i ∈ advanceReads .asis s, ¬ i < s.count :=
  ⟨⟨1, 1, true⟩, by decide, 1, by decide, by decide⟩

end TsVerif.C07
