import TsVerif.Gen.Basic
import TsVerif.Gen.Consts
/-!
# C07 — bounds logic of the runtime's containers

* `Arr` — `lib/src/array.h` (`_array__reserve`, `_array__grow`, `_array__splice`, `_array__erase`,
  `_array__assign`, `array_push/pop/grow_by/insert/extend`) as list operations with an explicit
  `capacity`; every operation also returns the element ranges `[lo, hi)` of the (re)allocated buffer
  that its `memmove`/`memcpy`/`memset`/store touches, so "in bounds" is a statement about them.
* `addLink` — the control flow of `stack_node_add_link` (`lib/src/stack.c`) that decides whether
  `links[link_count++]` is written, on a graph of stack nodes.
* inline subtrees: the bit-field widths of `SubtreeInlineData` (`lib/src/subtree.h`, tied
  syntactically by the check) against the *generated* `ts_subtree_can_inline`.
Arithmetic is in `Nat`: sizes stay below 2³² (documents < 4 GiB) is the standing assumption.
-/
namespace TsVerif.C07
open TsGen

/-! ## array.h -/

structure Arr where
  contents : List Nat
  capacity : Nat
  deriving DecidableEq, Repr, Inhabited

def Arr.size (a : Arr) : Nat := a.contents.length

abbrev Access := List (Nat × Nat)

/-- `_array__reserve` -/
def Arr.reserve (a : Arr) (newCapacity : Nat) : Arr :=
  if newCapacity > a.capacity then { a with capacity := newCapacity } else a

/-- `_array__grow` -/
def Arr.grow (a : Arr) (count : Nat) : Arr :=
  let newSize := a.size + count
  if newSize > a.capacity then
    let c := a.capacity * 2
    let c := if c < 8 then 8 else c
    let c := if c < newSize then newSize else c
    a.reserve c
  else a

/-- `array_push` -/
def Arr.push (a : Arr) (x : Nat) : Arr × Access :=
  let g := a.grow 1
  ({ g with contents := g.contents ++ [x] }, [(a.size, a.size + 1)])

/-- `array_grow_by` (zero-filled) -/
def Arr.growBy (a : Arr) (count : Nat) : Arr × Access :=
  if count = 0 then (a, [])
  else
    let g := a.grow count
    ({ g with contents := g.contents ++ List.replicate count 0 }, [(a.size, a.size + count)])

/-- `array_pop`; contract: `size > 0` -/
def Arr.pop (a : Arr) : Arr × Access :=
  ({ a with contents := a.contents.dropLast }, [(a.size - 1, a.size)])

/-- `_array__splice`; contract (`ts_assert`): `index + oldCount ≤ size`; `elems.length = newCount` -/
def Arr.splice (a : Arr) (index oldCount : Nat) (elems : List Nat) : Arr × Access :=
  let newCount := elems.length
  let newSize := a.size + newCount - oldCount
  let oldEnd := index + oldCount
  let newEnd := index + newCount
  let r := a.reserve newSize
  let move : Access := if a.size > oldEnd then [(newEnd, newEnd + (a.size - oldEnd)), (oldEnd, a.size)] else []
  let copy : Access := if newCount > 0 then [(index, index + newCount)] else []
  ({ r with contents := a.contents.take index ++ elems ++ a.contents.drop oldEnd }, move ++ copy)

/-- `_array__erase`; contract: `index < size` -/
def Arr.erase (a : Arr) (index : Nat) : Arr × Access :=
  ({ a with contents := a.contents.take index ++ a.contents.drop (index + 1) },
   [(index, index + (a.size - index - 1)), (index + 1, index + 1 + (a.size - index - 1))])

/-- `_array__assign` -/
def Arr.assign (a : Arr) (other : List Nat) : Arr × Access :=
  let r := a.reserve other.length
  ({ r with contents := other }, [(0, other.length)])

def Arr.insert (a : Arr) (index : Nat) (x : Nat) : Arr × Access := a.splice index 0 [x]
def Arr.extend (a : Arr) (elems : List Nat) : Arr × Access := a.splice a.size 0 elems

/-- The representation invariant of `Array(T)`. -/
def Arr.Ok (a : Arr) : Prop := a.size ≤ a.capacity

/-- Every touched range is a proper range inside the buffer. -/
def InBounds (cap : Nat) (acc : Access) : Prop := ∀ r ∈ acc, r.1 ≤ r.2 ∧ r.2 ≤ cap

/-! ## stack_node_add_link -/

structure Link where
  node : Nat
  /-- equivalence class of the link's subtree under `stack__subtree_is_equivalent` -/
  sub : Nat
  prec : Int
  deriving DecidableEq, Repr, Inhabited

structure SNode where
  links : List Link
  state : Nat
  pos : Nat
  cost : Nat
  deriving DecidableEq, Repr, Inhabited

abbrev Graph := List SNode

def mergeable (g : Graph) (a b : Nat) : Bool :=
  match g[a]?, g[b]? with
  | some x, some y => x.state == y.state && x.pos == y.pos && x.cost == y.cost
  | _, _ => false

/-- First existing link of `self` that is equivalent to `link`'s subtree and either goes to the same
node or to a mergeable one (the two early-return arms of the `for` loop). -/
def findArm (g : Graph) (links : List Link) (link : Link) : Option (Nat × Link × Bool) :=
  (links.zipIdx.findSome? fun (e, i) =>
    if e.sub == link.sub then
      if e.node == link.node then some (i, e, true)
      else if mergeable g e.node link.node then some (i, e, false)
      else none
    else none)

/-- `stack_node_add_link(self, link)`; `fuel` bounds the recursive merging. Reference counts and
dynamic precedence bookkeeping do not influence `link_count` and are left out. -/
def addLink : Nat → Graph → Nat → Link → Graph
  | 0, g, _, _ => g
  | fuel + 1, g, self, link =>
    if link.node = self then g
    else match g[self]? with
      | none => g
      | some s =>
        match findArm g s.links link with
        | some (i, e, true) =>
          -- same pair of nodes: keep the link with the higher dynamic precedence
          if link.prec > e.prec then g.set self { s with links := s.links.set i { e with prec := link.prec } } else g
        | some (_, e, false) =>
          -- merge the previous nodes recursively
          match g[link.node]? with
          | some ln => ln.links.foldl (fun g l => addLink fuel g e.node l) g
          | none => g
        | none =>
          if s.links.length = MAX_LINK_COUNT then g
          else g.set self { s with links := s.links ++ [link] }

def Graph.Bounded (g : Graph) : Prop := ∀ n ∈ g, n.links.length ≤ MAX_LINK_COUNT

/-! ## inline subtrees -/

/-- Bit widths of the fields of `SubtreeInlineData` that `ts_subtree_new_leaf` / `ts_subtree_edit`
store a `Length`/look-ahead into (checked against subtree.h on every run). -/
structure InlineWidths where
  padding_columns : Nat := 8
  padding_rows : Nat := 4
  lookahead_bytes : Nat := 4
  padding_bytes : Nat := 8
  size_bytes : Nat := 8

def widths : InlineWidths := {}

/-- The values stored into the inline representation fit their fields. -/
def fitsInline (w : InlineWidths) (padding size : Length) (lookahead : Nat) : Prop :=
  padding.bytes < 2 ^ w.padding_bytes ∧ padding.extent.row < 2 ^ w.padding_rows ∧
  padding.extent.column < 2 ^ w.padding_columns ∧ size.bytes < 2 ^ w.size_bytes ∧
  lookahead < 2 ^ w.lookahead_bytes

instance (w : InlineWidths) (p s : Length) (la : Nat) : Decidable (fitsInline w p s la) := by
  unfold fitsInline; infer_instance

end TsVerif.C07
