import TsVerif.C06.NavVariants
/-!
C06: from the list semantics to the preorder-array encoding `FT` the judge uses.

Part A (`number_spec`, `flatOf_spec`): the array `flatOf t` is the list `pre t none 0 0` — each node
followed by its subtrees, `kids` = the start indices of the subtrees, `size` = number of nodes.
Part B (`GoodAt`, `good_pre`, `flatOf_good`): every node of `t` sits at its preorder index with the
right record, hereditarily.
Part C: the `FT` operations at such an index are the list operations on the `VTree`
(`ft_kidsOf`, `ft_child_good`, `ft_parent_of_child`, `ft_nextSibling_child`, `ft_prevSibling_child`,
`ft_firstChildForByte`).
Part D: `flatten` is hereditarily the enumeration of visible children (`flatten_hered`), so the node.c
theorems (`node_nav_flat_spec`: parent / next / previous sibling as neighbours in
`earlierOnPath ++ d :: laterOnPath`) become statements about `FT` (`nav_ft_spec`).
-/
open TsVerif TsVerif.C02 TsGen
namespace TsVerif.C06

mutual
  def vsize : VTree → Nat
    | .mk _ kids => 1 + vsizeL kids
  def vsizeL : List VTree → Nat
    | [] => 0
    | k :: r => vsize k + vsizeL r
end

/-- Preorder indices of consecutive subtrees starting at `i`. -/
def kidIdxFrom (i : Nat) : List VTree → List Nat
  | [] => []
  | k :: r => i :: kidIdxFrom (i + vsize k) r

mutual
  /-- What `number` appends for `t` when the array already has `base` entries. -/
  def pre : VTree → Option Nat → Nat → Nat → List Flat
    | .mk info kids, parent, depth, base =>
      { info := info, parent := parent, depth := depth, kids := (kidIdxFrom (base + 1) kids).toArray, size := 1 + vsizeL kids } ::
        preL kids base (depth + 1) (base + 1)
  def preL : List VTree → Nat → Nat → Nat → List Flat
    | [], _, _, _ => []
    | k :: r, parent, depth, i => pre k (some parent) depth i ++ preL r parent depth (i + vsize k)
end

mutual
  theorem pre_length : ∀ (t : VTree) (parent : Option Nat) (depth base : Nat), (pre t parent depth base).length = vsize t
    | .mk info kids, parent, depth, base => by
      unfold pre vsize
      simp only [List.length_cons, preL_length kids base (depth + 1) (base + 1)]
      omega
  theorem preL_length : ∀ (kids : List VTree) (parent depth i : Nat), (preL kids parent depth i).length = vsizeL kids
    | [], _, _, _ => by simp [preL, vsizeL]
    | k :: r, parent, depth, i => by
      unfold preL vsizeL
      simp [pre_length k, preL_length r]
end

theorem modify_append_mid {α : Type} (A B : List α) (x : α) (f : α → α) : (A ++ x :: B).modify A.length f = A ++ f x :: B := by
  induction A with
  | nil => simp
  | cons a A ih => simp [ih]

mutual
  theorem number_spec : ∀ (t : VTree) (parent : Option Nat) (depth : Nat) (acc : Array Flat),
      (number t parent depth acc).1.toList = acc.toList ++ pre t parent depth acc.size ∧ (number t parent depth acc).2 = acc.size
    | .mk info kids, parent, depth, acc => by
      unfold number
      simp only
      have ih := numberKids_spec kids acc.size (depth + 1) (acc.push { info := info, parent := parent, depth := depth }) #[]
      cases hnk : numberKids kids acc.size (depth + 1) (acc.push { info := info, parent := parent, depth := depth }) #[] with
      | mk acc2 ks =>
        rw [hnk] at ih
        simp only at ih ⊢
        refine ⟨?_, trivial⟩
        rw [Array.toList_modify, ih.1, Array.toList_push, Array.size_push]
        have hsz : acc2.size = acc.size + 1 + vsizeL kids := by
          have := congrArg List.length ih.1
          simp only [Array.length_toList, Array.toList_push, List.length_append, List.length_cons, List.length_nil,
            preL_length, Array.size_push] at this
          omega
        rw [List.append_assoc]
        simp only [List.singleton_append]
        rw [← Array.length_toList (xs := acc), modify_append_mid]
        simp only [Array.length_toList]
        unfold pre
        simp only [List.cons.injEq, List.append_cancel_left_eq, and_true]
        have hks : ks = (kidIdxFrom (acc.size + 1) kids).toArray := by
          have := ih.2
          simp only [Array.size_push, Array.toList_empty, List.nil_append] at this
          exact Array.toList_inj.mp (by simpa using this)
        rw [hks, hsz]
        congr 1
        omega
  theorem numberKids_spec : ∀ (kids : List VTree) (parent depth : Nat) (acc : Array Flat) (ks : Array Nat),
      (numberKids kids parent depth acc ks).1.toList = acc.toList ++ preL kids parent depth acc.size ∧
      (numberKids kids parent depth acc ks).2.toList = ks.toList ++ kidIdxFrom acc.size kids
    | [], _, _, acc, ks => by simp [numberKids, preL, kidIdxFrom]
    | k :: rest, parent, depth, acc, ks => by
      unfold numberKids
      have ih1 := number_spec k (some parent) depth acc
      cases hn : number k (some parent) depth acc with
      | mk acc1 idx =>
        rw [hn] at ih1
        simp only at ih1 ⊢
        have ih2 := numberKids_spec rest parent depth acc1 (ks.push idx)
        have hsz : acc1.size = acc.size + vsize k := by
          have := congrArg List.length ih1.1
          simp only [Array.length_toList, List.length_append, pre_length] at this
          exact this
        rw [ih2.1, ih2.2, ih1.1, hsz, ih1.2]
        have e1 : preL (k :: rest) parent depth acc.size =
            pre k (some parent) depth acc.size ++ preL rest parent depth (acc.size + vsize k) := by rw [preL]
        have e2 : kidIdxFrom acc.size (k :: rest) = acc.size :: kidIdxFrom (acc.size + vsize k) rest := by rw [kidIdxFrom]
        rw [e1, e2]
        simp [List.append_assoc]
end

theorem flatOf_spec (t : VTree) : (flatOf t).toList = pre t none 0 0 := by
  have := (number_spec t none 0 #[]).1
  simpa [flatOf] using this


/-! ## Part B: every node sits at its preorder index -/

mutual
  /-- `v` is stored at index `k` of `L` (with the given parent and depth), and so are, hereditarily,
  its children at the indices `kidIdxFrom (k + 1)`. -/
  def GoodAt (L : List Flat) : VTree → Nat → Option Nat → Nat → Prop
    | .mk info kids, k, parent, depth =>
      L[k]? = some { info := info, parent := parent, depth := depth, kids := (kidIdxFrom (k + 1) kids).toArray, size := 1 + vsizeL kids } ∧
      GoodL L kids (k + 1) k (depth + 1)
  def GoodL (L : List Flat) : List VTree → Nat → Nat → Nat → Prop
    | [], _, _, _ => True
    | v :: r, i, p, depth => GoodAt L v i (some p) depth ∧ GoodL L r (i + vsize v) p depth
end

mutual
  theorem good_pre : ∀ (t : VTree) (parent : Option Nat) (depth : Nat) (A B : List Flat),
      GoodAt (A ++ pre t parent depth A.length ++ B) t A.length parent depth
    | .mk info kids, parent, depth, A, B => by
      unfold GoodAt pre
      refine ⟨by simp, ?_⟩
      have := good_preL kids A.length (depth + 1)
        (A ++ [{ info := info, parent := parent, depth := depth, kids := (kidIdxFrom (A.length + 1) kids).toArray, size := 1 + vsizeL kids }]) B
      simpa [List.append_assoc] using this
  theorem good_preL : ∀ (kids : List VTree) (parent depth : Nat) (A B : List Flat),
      GoodL (A ++ preL kids parent depth A.length ++ B) kids A.length parent depth
    | [], _, _, _, _ => by unfold GoodL; trivial
    | v :: r, parent, depth, A, B => by
      unfold GoodL preL
      refine ⟨?_, ?_⟩
      · have := good_pre v (some parent) depth A (preL r parent depth (A.length + vsize v) ++ B)
        simpa [List.append_assoc] using this
      · have := good_preL r parent depth (A ++ pre v (some parent) depth A.length) B
        simpa [List.append_assoc, pre_length] using this
end

theorem flatOf_good (t : VTree) : GoodAt (flatOf t).toList t 0 none 0 := by
  have := good_pre t none 0 [] []
  simpa [flatOf_spec] using this

/-! ## Part C: the `FT` operations at a good index -/

theorem ft_node_of (ft : FT) (k : Nat) (f : Flat) (h : ft.toList[k]? = some f) : ft.node k = f := by
  simp only [FT.node, Array.getD_eq_getD_getElem?]
  rw [← Array.getElem?_toList, h]
  rfl

theorem good_node (ft : FT) (info : VInfo) (kids : List VTree) (k : Nat) (parent : Option Nat) (depth : Nat)
    (h : GoodAt ft.toList (.mk info kids) k parent depth) :
    ft.node k = { info := info, parent := parent, depth := depth, kids := (kidIdxFrom (k + 1) kids).toArray, size := 1 + vsizeL kids } := by
  unfold GoodAt at h
  exact ft_node_of ft k _ h.1

/-- The children list of a good node: the start indices of its subtrees. -/
theorem ft_kidsOf (ft : FT) (info : VInfo) (kids : List VTree) (k : Nat) (parent : Option Nat) (depth : Nat)
    (h : GoodAt ft.toList (.mk info kids) k parent depth) : ft.kidsOf k = kidIdxFrom (k + 1) kids := by
  simp [FT.kidsOf, good_node ft info kids k parent depth h]

theorem kidIdxFrom_length : ∀ (kids : List VTree) (i : Nat), (kidIdxFrom i kids).length = kids.length
  | [], _ => rfl
  | k :: r, i => by simp [kidIdxFrom, kidIdxFrom_length r]

/-- The `j`-th child is good at the `j`-th index. -/
theorem goodL_get (L : List Flat) : ∀ (kids : List VTree) (i p depth j : Nat) (v : VTree), GoodL L kids i p depth →
    kids[j]? = some v → ∃ kj, (kidIdxFrom i kids)[j]? = some kj ∧ GoodAt L v kj (some p) depth
  | [], _, _, _, _, _, _, h => by simp at h
  | c :: r, i, p, depth, j, v, hg, h => by
    unfold GoodL at hg
    cases j with
    | zero =>
      simp only [List.getElem?_cons_zero, Option.some.injEq] at h
      subst h
      exact ⟨i, by simp [kidIdxFrom], hg.1⟩
    | succ j' =>
      simp only [List.getElem?_cons_succ] at h
      obtain ⟨kj, h1, h2⟩ := goodL_get L r _ p depth j' v hg.2 h
      exact ⟨kj, by simpa [kidIdxFrom] using h1, h2⟩

theorem vsize_pos : ∀ v : VTree, vsize v ≥ 1
  | .mk _ _ => by unfold vsize; omega

/-- The indices are strictly increasing. -/
theorem kidIdxFrom_lt : ∀ (kids : List VTree) (i a b x y : Nat), a < b → (kidIdxFrom i kids)[a]? = some x →
    (kidIdxFrom i kids)[b]? = some y → x < y ∧ i ≤ x
  | [], _, _, _, _, _, _, h, _ => by simp [kidIdxFrom] at h
  | c :: r, i, a, b, x, y, hab, ha, hb => by
    unfold kidIdxFrom at ha hb
    cases b with
    | zero => omega
    | succ b' =>
      simp only [List.getElem?_cons_succ] at hb
      cases a with
      | zero =>
        simp only [List.getElem?_cons_zero, Option.some.injEq] at ha
        subst ha
        have hpos := vsize_pos c
        cases b' with
        | zero =>
          cases r with
          | nil => simp [kidIdxFrom] at hb
          | cons c2 r2 => simp [kidIdxFrom] at hb; omega
        | succ b'' =>
          cases r with
          | nil => simp [kidIdxFrom] at hb
          | cons c2 r2 =>
            have h0 : (kidIdxFrom (i + vsize c) (c2 :: r2))[0]? = some (i + vsize c) := by simp [kidIdxFrom]
            have := kidIdxFrom_lt (c2 :: r2) (i + vsize c) 0 (b'' + 1) _ y (by omega) h0 hb
            omega
      | succ a' =>
        simp only [List.getElem?_cons_succ] at ha
        have := kidIdxFrom_lt r (i + vsize c) a' b' x y (by omega) ha hb
        omega

theorem dropWhile_ne_of_increasing (K : List Nat) (j x : Nat) (hx : K[j]? = some x)
    (hinc : ∀ (a b u v : Nat), a < b → K[a]? = some u → K[b]? = some v → u < v) :
    K.dropWhile (· != x) = K.drop j := by
  induction K generalizing j with
  | nil => simp at hx
  | cons y K ih =>
    cases j with
    | zero =>
      simp only [List.getElem?_cons_zero, Option.some.injEq] at hx
      subst hx
      simp [List.dropWhile]
    | succ j' =>
      simp only [List.getElem?_cons_succ] at hx
      have hlt := hinc 0 (j' + 1) y x (by omega) (by simp) (by simpa using hx)
      have hne : (y != x) = true := by simp; omega
      simp only [List.dropWhile, hne, List.drop_succ_cons]
      exact ih j' hx (fun a b u v hab hu hv => hinc (a + 1) (b + 1) u v (by omega) (by simpa using hu) (by simpa using hv))

theorem takeWhile_ne_of_increasing (K : List Nat) (j x : Nat) (hx : K[j]? = some x)
    (hinc : ∀ (a b u v : Nat), a < b → K[a]? = some u → K[b]? = some v → u < v) :
    K.takeWhile (· != x) = K.take j := by
  induction K generalizing j with
  | nil => simp at hx
  | cons y K ih =>
    cases j with
    | zero =>
      simp only [List.getElem?_cons_zero, Option.some.injEq] at hx
      subst hx
      simp [List.takeWhile]
    | succ j' =>
      simp only [List.getElem?_cons_succ] at hx
      have hlt := hinc 0 (j' + 1) y x (by omega) (by simp) (by simpa using hx)
      have hne : (y != x) = true := by simp; omega
      simp only [List.takeWhile, hne, List.take_succ_cons]
      congr 1
      exact ih j' hx (fun a b u v hab hu hv => hinc (a + 1) (b + 1) u v (by omega) (by simpa using hu) (by simpa using hv))

theorem find_true_head {α : Type} (l : List α) : (l.find? fun _ => true) = l.head? := by
  cases l <;> simp

/-- **ft_child_spec.**  Child number `j` of a good node sits at `kj = kidsOf[j]`, is good there, has
the node as its parent, and its next / previous siblings in `FT` are `kidsOf[j+1]` / `kidsOf[j-1]`. -/
theorem ft_child_spec (ft : FT) (info : VInfo) (kids : List VTree) (k : Nat) (parent : Option Nat) (depth j : Nat) (v : VTree)
    (h : GoodAt ft.toList (.mk info kids) k parent depth) (hj : kids[j]? = some v) :
    ∃ kj, (ft.kidsOf k)[j]? = some kj ∧ GoodAt ft.toList v kj (some k) (depth + 1) ∧ (ft.node kj).parent = some k ∧
      ft.nextSibling kj false = (ft.kidsOf k)[j + 1]? ∧
      ft.prevSibling kj false = (if j = 0 then none else (ft.kidsOf k)[j - 1]?) := by
  have hk := ft_kidsOf ft info kids k parent depth h
  have hg := h
  unfold GoodAt at hg
  obtain ⟨kj, h1, h2⟩ := goodL_get ft.toList kids (k + 1) k (depth + 1) j v hg.2 hj
  have hpar : (ft.node kj).parent = some k := by
    obtain ⟨vi, vk⟩ := v
    rw [good_node ft vi vk kj (some k) (depth + 1) h2]
  have hsib : ft.siblings kj = ft.kidsOf k := by simp [FT.siblings, hpar]
  have hinc : ∀ (a b u w : Nat), a < b → (ft.kidsOf k)[a]? = some u → (ft.kidsOf k)[b]? = some w → u < w := by
    intro a b u w hab hu hw
    rw [hk] at hu hw
    exact (kidIdxFrom_lt kids (k + 1) a b u w hab hu hw).1
  refine ⟨kj, by rw [hk]; exact h1, h2, hpar, ?_, ?_⟩
  · simp only [FT.nextSibling, hsib, Bool.not_false, Bool.true_or]
    rw [dropWhile_ne_of_increasing _ j kj (by rw [hk]; exact h1) hinc, find_true_head, List.drop_drop, List.head?_drop]
  · simp only [FT.prevSibling, hsib, Bool.not_false, Bool.true_or]
    rw [takeWhile_ne_of_increasing _ j kj (by rw [hk]; exact h1) hinc, find_true_head, List.head?_reverse]
    cases j with
    | zero => simp
    | succ j' =>
      simp only [Nat.add_one_ne_zero, if_false, Nat.add_sub_cancel]
      rw [List.getLast?_take]
      have hlen : j' < (ft.kidsOf k).length := by
        have := lt_of_getElem?_some _ _ _ (show (ft.kidsOf k)[j' + 1]? = some kj by rw [hk]; exact h1)
        omega
      simp [List.getElem?_eq_getElem hlen]


/-- The records of the children, read through `FT`, are the records of the `VTree` children. -/
theorem ft_kid_info (ft : FT) (info : VInfo) (kids : List VTree) (k : Nat) (parent : Option Nat) (depth : Nat)
    (h : GoodAt ft.toList (.mk info kids) k parent depth) (j : Nat) :
    ((ft.kidsOf k)[j]?).map (fun i => (ft.node i).info) = (kids[j]?).map (·.info) := by
  cases hj : kids[j]? with
  | none =>
    have hk := ft_kidsOf ft info kids k parent depth h
    have hl := kidIdxFrom_length kids (k + 1)
    have : j ≥ kids.length := by
      cases Nat.lt_or_ge j kids.length with
      | inl hlt => simp [List.getElem?_eq_getElem hlt] at hj
      | inr hge => exact hge
    rw [hk, List.getElem?_eq_none (by omega)]
    rfl
  | some v =>
    obtain ⟨kj, h1, h2, _, _, _⟩ := ft_child_spec ft info kids k parent depth j v h hj
    obtain ⟨vi, vk⟩ := v
    rw [h1]
    simp [good_node ft vi vk kj (some k) (depth + 1) h2, VTree.info]

/-- The (raw subtree, alias) a `VTree` node / an `FT` entry stands for. -/
def vproj (v : VTree) : Tree × Nat := (v.info.raw, v.info.alias)
def FT.proj (ft : FT) (i : Nat) : Tree × Nat := ((ft.node i).info.raw, (ft.node i).info.alias)
theorem vproj_eq : vproj = fun v => (v.info.raw, v.info.alias) := rfl

/-- **ft_neighbours.**  If the children of a good node project to `E ++ x :: Lt`, then the child `x`
sits at `kj = kidsOf[|E|]`, its parent in `FT` is the node, `FT.nextSibling kj` stands for the head
of `Lt` and `FT.prevSibling kj` for the last element of `E`. -/
theorem ft_neighbours (ft : FT) (info : VInfo) (kids : List VTree) (k : Nat) (parent : Option Nat) (depth : Nat)
    (h : GoodAt ft.toList (.mk info kids) k parent depth) (E Lt : List (Tree × Nat)) (x : Tree × Nat)
    (hsplit : kids.map vproj = E ++ x :: Lt) :
    ∃ kj v, kids[E.length]? = some v ∧ vproj v = x ∧ (ft.kidsOf k)[E.length]? = some kj ∧
      GoodAt ft.toList v kj (some k) (depth + 1) ∧ ft.proj kj = x ∧ (ft.node kj).parent = some k ∧
      (ft.nextSibling kj false).map ft.proj = Lt.head? ∧ (ft.prevSibling kj false).map ft.proj = E.getLast? := by
  have hx : (kids.map vproj)[E.length]? = some x := by rw [hsplit]; simp
  rw [List.getElem?_map] at hx
  cases hv : kids[E.length]? with
  | none => simp [hv] at hx
  | some v =>
    simp only [hv, Option.map_some, Option.some.injEq] at hx
    obtain ⟨kj, h1, h2, h3, h4, h5⟩ := ft_child_spec ft info kids k parent depth E.length v h hv
    have hinfo := ft_kid_info ft info kids k parent depth h
    have hproj : ∀ j : Nat, ((ft.kidsOf k)[j]?).map ft.proj = (kids.map vproj)[j]? := by
      intro j
      have := congrArg (Option.map fun (i : VInfo) => (i.raw, i.alias)) (hinfo j)
      have e1 : ft.proj = fun x => ((ft.node x).info.raw, (ft.node x).info.alias) := rfl
      rw [e1, vproj_eq]
      simpa [Option.map_map, Function.comp_def] using this
    have hpk : ft.proj kj = x := by
      have := hproj E.length
      rw [h1, List.getElem?_map, hv] at this
      simpa [hx] using this
    refine ⟨kj, v, rfl, hx, h1, h2, hpk, h3, ?_, ?_⟩
    · rw [h4, hproj, hsplit, List.getElem?_append_right (by omega)]
      cases Lt <;> simp
    · rw [h5]
      cases hE : E.length with
      | zero =>
        have : E = [] := List.eq_nil_of_length_eq_zero hE
        subst this; simp
      | succ m =>
        simp only [Nat.add_one_ne_zero, if_false, Nat.add_sub_cancel]
        rw [hproj, hsplit, List.getElem?_append_left (by omega), List.getLast?_eq_getElem?, hE]
        simp

/-! ## Part D: `flatten` is hereditarily the enumeration of visible children -/

mutual
  /-- Every node of the `VTree` has as children (projected to raw subtree and alias) exactly
  `enumChildren` of its raw subtree. -/
  def HeredEnum (lang : Lang) : VTree → Prop
    | .mk info kids => kids.map vproj = enumChildren lang info.raw ∧ HeredEnumL lang kids
  def HeredEnumL (lang : Lang) : List VTree → Prop
    | [] => True
    | v :: r => HeredEnum lang v ∧ HeredEnumL lang r
end

theorem heredL_append (lang : Lang) : ∀ (a b : List VTree), HeredEnumL lang a → HeredEnumL lang b → HeredEnumL lang (a ++ b)
  | [], _, _, hb => hb
  | v :: r, b, ha, hb => by
    unfold HeredEnumL at ha
    simp only [List.cons_append]
    unfold HeredEnumL
    exact ⟨ha.1, heredL_append lang r b ha.2 hb⟩

theorem heredL_get (lang : Lang) : ∀ (kids : List VTree) (j : Nat) (v : VTree), HeredEnumL lang kids → kids[j]? = some v → HeredEnum lang v
  | [], _, _, _, h => by simp at h
  | c :: r, j, v, hh, h => by
    unfold HeredEnumL at hh
    cases j with
    | zero => simp at h; subst h; exact hh.1
    | succ j' => exact heredL_get lang r j' v hh.2 (by simpa using h)

mutual
  theorem flattenAt_hered (lang : Lang) : ∀ (t : Tree) (pos : Length) (al id : Nat) (chain : List (List Nat)),
      HeredEnumL lang (flattenAt lang t pos al id chain)
    | .mk d kids, pos, al, id, chain => by
      unfold flattenAt
      simp only
      have ih := flattenKids_hered lang kids pos d.productionId 0 0 d.addr kids.length
      split
      · unfold HeredEnumL
        refine ⟨?_, by unfold HeredEnumL; trivial⟩
        unfold HeredEnum
        refine ⟨?_, ih []⟩
        have := flat_children_are_enum lang (.mk d kids) pos []
        rw [vproj_eq]
        simpa [kids_mk, data_mk] using this
      · exact ih chain
  theorem flattenKids_hered (lang : Lang) : ∀ (kids : List Tree) (cur : Length) (pid si i addr n : Nat) (outer : List (List Nat)),
      HeredEnumL lang (flattenKids lang kids cur pid si i addr n outer)
    | [], _, _, _, _, _, _, _ => by unfold flattenKids HeredEnumL; trivial
    | c :: rest, cur, pid, si, i, addr, n, outer => by
      unfold flattenKids
      exact heredL_append lang _ _ (flattenAt_hered lang c _ _ _ _) (flattenKids_hered lang rest _ _ _ _ _ _ _)
end

/-- **flatten_hered.**  The tree `flatten` builds is, at every node, the enumeration of the visible
children of that node's raw subtree — the list the node.c and cursor theorems speak about. -/
theorem flatten_hered (lang : Lang) (root : Tree) (rootId : Nat) :
    HeredEnum lang (flatten lang root rootId) ∧ (flatten lang root rootId).info.raw = root := by
  obtain ⟨d, kids⟩ := root
  unfold flatten
  simp only
  unfold HeredEnum
  refine ⟨⟨?_, flattenKids_hered lang kids _ _ _ _ _ _ _⟩, rfl⟩
  have := flat_children_are_enum lang (.mk d kids) length_zero []
  rw [vproj_eq]
  simpa [kids_mk, data_mk] using this

/-- The node of the flattened tree, and its place in `FT`, for a raw node `d` (relevant, or the root
itself) given by a raw path. -/
theorem flat_node_exists (lang : Lang) (root : NodeRef) : ∀ (m : Nat) (p : List Nat) (d : NodeRef), p.length ≤ m →
    nodeAt lang root p = some d → (p = [] ∨ d.relevant lang true = true) →
    ∃ info kids k par dep, GoodAt (flatOf (flatten lang root.t root.id)).toList (.mk info kids) k par dep ∧
      info.raw = d.t ∧ (p ≠ [] → info.alias = d.alias) ∧ HeredEnum lang (.mk info kids)
  | m, [], d, _, hat, _ => by
    simp only [nodeAt, Option.some.injEq] at hat
    subst hat
    have hh := flatten_hered lang root.t root.id
    have hg := flatOf_good (flatten lang root.t root.id)
    cases hv : flatten lang root.t root.id with
    | mk info kids =>
      rw [hv] at hh hg
      exact ⟨info, kids, 0, none, 0, hg, by simpa [VTree.info] using hh.2, by simp, hh.1⟩
  | 0, k :: rest, _, hm, _, _ => by simp at hm
  | m + 1, k :: rest, d, hm, hat, hrel => by
    have hrel' : d.relevant lang true = true := by
      rcases hrel with h | h
      · simp at h
      · exact h
    obtain ⟨pre, q, hpq, hq, hatP, hatq, hhid, hor⟩ := parent_path_spec lang d (k :: rest).length (k :: rest) root (Nat.le_refl _) (by simp) hat
    have hlen : pre.length ≤ m := by
      have h1 : (k :: rest).length = pre.length + q.length := by rw [hpq]; simp
      have h2 : q.length > 0 := List.length_pos_iff.mpr hq
      simp only [List.length_cons] at hm h1
      omega
    obtain ⟨infoP, kidsP, kP, parP, depP, hgP, hrawP, _, hhP⟩ := flat_node_exists lang root m pre _ hlen hatP hor
    have hsplit := path_siblings_split lang d hrel' q _ hq hatq hhid
    unfold HeredEnum at hhP
    rw [← hrawP, ← hhP.1] at hsplit
    obtain ⟨kj, v, hv, hpv, _, hgv, _, _, _, _⟩ := ft_neighbours _ infoP kidsP kP parP depP hgP _ _ _ hsplit
    obtain ⟨vi, vk⟩ := v
    have hhv := heredL_get lang kidsP _ _ hhP.2 hv
    simp only [vproj, VTree.info, Prod.mk.injEq] at hpv
    exact ⟨vi, vk, kj, some kP, depP + 1, hgv, hpv.1, fun _ => hpv.2, hhv⟩

/-- **nav_ft_spec.**  The evaluated cross-checks `parentOnPath = FT.parent`, `head(laterOnPath) =
FT.nextSibling`, `last(earlierOnPath) = FT.prevSibling` as a theorem.  For a relevant NON-EMPTY node
`d` at raw path `p` below the root of a summarized parser-shaped tree (hypotheses of
`node_nav_flat_spec`), let `ft` be the preorder array of `flatten`.  Then there are indices `kP`, `kd`
such that `ft[kP]` is the node built from the raw subtree that the port of `ts_node_parent(d)` returns,
`ft[kd]` is the node built from `d` (same raw subtree and alias), `FT.parent kd = kP`, and — under
`nsPathOK` / `psPathOK` — the port of `ts_node_next_sibling(d)` / `ts_node_prev_sibling(d)` returns the
(raw subtree, alias) of `FT.nextSibling kd` / `FT.prevSibling kd` (null iff null). -/
theorem nav_ft_spec (lang : Lang) (fuel : Nat) (root d : NodeRef) (p : List Nat) (ps : Option Nat)
    (hp : p ≠ []) (hfp : p.length ≤ fuel) (hsz : root.t.size ≤ fuel + 1)
    (hs : Summarized lang root.t) (hsh : shapeOK ps root.t = true) (hat : nodeAt lang root p = some d)
    (hrel : d.relevant lang true = true) (hne : d.startByte < d.endByte) (hroot : root.id ≠ d.id)
    (hok : pathOK lang d.id root p = true) :
    let ft : FT := flatOf (flatten lang root.t root.id)
    ∃ q kP kd P, q ≠ [] ∧ nodeParent lang fuel root d = some P ∧ nodeAt lang P q = some d ∧
      (ft.node kP).info.raw = P.t ∧ ft.proj kd = (d.t, d.alias) ∧ (ft.node kd).parent = some kP ∧
      (nsPathOK lang d P q = true →
        (nextSiblingPort lang fuel root d true).map (fun r => (r.t, r.alias)) = (ft.nextSibling kd false).map ft.proj) ∧
      (psPathOK lang d P q = true →
        (prevSiblingPort lang fuel root d true).map (fun r => (r.t, r.alias)) = (ft.prevSibling kd false).map ft.proj) := by
  intro ft
  obtain ⟨q, hq, hatq, hhid, hpar, hsplit, hns, hps⟩ := node_nav_flat_spec lang fuel root d p ps hp hfp hsz hs hsh hat hrel hne hroot hok
  obtain ⟨pre, q', hpq, _, hatP, _, _, hor⟩ := parent_path_spec lang d p.length p root (Nat.le_refl _) hp hat
  obtain ⟨infoP, kidsP, kP, parP, depP, hgP, hrawP, _, hhP⟩ := flat_node_exists lang root pre.length pre _ (Nat.le_refl _) hatP hor
  unfold HeredEnum at hhP
  rw [← hrawP, ← hhP.1] at hsplit
  obtain ⟨kd, v, _, _, _, _, hpd, hpard, hnx, hpv⟩ := ft_neighbours ft infoP kidsP kP parP depP hgP _ _ _ hsplit
  refine ⟨q, kP, kd, _, hq, hpar, hatq, ?_, hpd, hpard, ?_, ?_⟩
  · rw [good_node ft infoP kidsP kP parP depP hgP]; exact hrawP
  · intro h; rw [hns h, hnx]
  · intro h; rw [hps h, hpv]

/-- **nav_ft_spec_empty.**  The same for a relevant ZERO-WIDTH node (hypotheses of
`node_nav_flat_spec_empty`; sibling parts under `nsPathOK` + `nsZwOK` / `psPathOK` + `psZwOK`). -/
theorem nav_ft_spec_empty (lang : Lang) (fuel : Nat) (root d : NodeRef) (p : List Nat) (ps : Option Nat)
    (hp : p ≠ []) (hfp : p.length ≤ fuel) (hsz : root.t.size ≤ fuel + 1)
    (hs : Summarized lang root.t) (hsh : shapeOK ps root.t = true) (hat : nodeAt lang root p = some d)
    (hrel : d.relevant lang true = true) (hemp : d.startByte = d.endByte) (hroot : root.id ≠ d.id)
    (hok : psPathOK lang d root p = true) :
    let ft : FT := flatOf (flatten lang root.t root.id)
    ∃ q kP kd P, q ≠ [] ∧ nodeParent lang fuel root d = some P ∧ nodeAt lang P q = some d ∧
      (ft.node kP).info.raw = P.t ∧ ft.proj kd = (d.t, d.alias) ∧ (ft.node kd).parent = some kP ∧
      (nsPathOK lang d P q = true → nsZwOK lang d P q = true →
        (nextSiblingPort lang fuel root d true).map (fun r => (r.t, r.alias)) = (ft.nextSibling kd false).map ft.proj) ∧
      (psPathOK lang d P q = true → psZwOK lang fuel d P q = true →
        (prevSiblingPort lang fuel root d true).map (fun r => (r.t, r.alias)) = (ft.prevSibling kd false).map ft.proj) := by
  intro ft
  obtain ⟨q, hq, hatq, hhid, hpar, hsplit, hns, hps⟩ := node_nav_flat_spec_empty lang fuel root d p ps hp hfp hsz hs hsh hat hrel hemp hroot hok
  obtain ⟨pre, q', hpq, _, hatP, _, _, hor⟩ := parent_path_spec lang d p.length p root (Nat.le_refl _) hp hat
  obtain ⟨infoP, kidsP, kP, parP, depP, hgP, hrawP, _, hhP⟩ := flat_node_exists lang root pre.length pre _ (Nat.le_refl _) hatP hor
  unfold HeredEnum at hhP
  rw [← hrawP, ← hhP.1] at hsplit
  obtain ⟨kd, v, _, _, _, _, hpd, hpard, hnx, hpv⟩ := ft_neighbours ft infoP kidsP kP parP depP hgP _ _ _ hsplit
  refine ⟨q, kP, kd, _, hq, hpar, hatq, ?_, hpd, hpard, ?_, ?_⟩
  · rw [good_node ft infoP kidsP kP parP depP hgP]; exact hrawP
  · intro h1 h2; rw [hns h1 h2, hnx]
  · intro h1 h2; rw [hps h1 h2, hpv]


/-! ## Part E: identities and positions — `first_child_for_byte` on `FT` -/

/-- The `TSNode` a visible node stands for (what the driver builds from an `FT` entry). -/
def refOf (i : VInfo) : NodeRef := { t := i.raw, alias := i.alias, id := i.id, start := i.start }

/-- `v` was built by `flattenAt` (or is the root of `flatten`): it starts after its raw subtree's
padding, ends after its size, and its children are `flattenKids` of its raw children. -/
def IsFlatNode (lang : Lang) (v : VTree) : Prop :=
  ∃ pos, v.info.start = length_add pos v.info.raw.data.padding ∧ v.info.stop = length_add v.info.start v.info.raw.data.size ∧
    v.kids = flattenKids lang v.info.raw.kids pos v.info.raw.data.productionId 0 0 v.info.raw.data.addr v.info.raw.kids.length []

/-- What the theorems need of a node of the flattened tree. -/
def QQ (lang : Lang) (v : VTree) : Prop :=
  IsFlatNode lang v ∧ Summarized lang v.info.raw ∧ ∃ ps, shapeOK ps v.info.raw = true

mutual
  theorem flattenAt_all (lang : Lang) : ∀ (t : Tree) (pos : Length) (al id : Nat) (chain : List (List Nat)) (ps : Option Nat),
      Summarized lang t → shapeOK ps t = true → ∀ c ∈ flattenAt lang t pos al id chain, QQ lang c
    | .mk d kids, pos, al, id, chain, ps, hs, hsh, c, hc => by
      unfold flattenAt at hc
      simp only at hc
      have hsk := summarizedL_kids lang (.mk d kids) hs
      have hshk := shapeOKL_kids ps (.mk d kids) hsh
      simp only [kids_mk, data_mk] at hsk hshk
      split at hc
      · simp only [List.mem_singleton] at hc
        subst hc
        exact ⟨⟨pos, rfl, rfl, rfl⟩, hs, ps, hsh⟩
      · exact flattenKids_all lang kids pos d.productionId 0 0 d.addr kids.length chain _ hsk hshk c hc
  theorem flattenKids_all (lang : Lang) : ∀ (kids : List Tree) (cur : Length) (pid si i addr n : Nat) (outer : List (List Nat))
      (ps : Option Nat), SummarizedL lang kids → shapeOKL ps kids = true →
      ∀ c ∈ flattenKids lang kids cur pid si i addr n outer, QQ lang c
    | [], _, _, _, _, _, _, _, _, _, _, c, hc => by simp [flattenKids] at hc
    | k :: rest, cur, pid, si, i, addr, n, outer, ps, hs, hsh, c, hc => by
      unfold flattenKids at hc
      unfold SummarizedL at hs
      unfold shapeOKL at hsh
      simp only [Bool.and_eq_true] at hsh
      simp only [List.mem_append] at hc
      rcases hc with hc | hc
      · exact flattenAt_all lang k _ _ _ _ ps hs.1 hsh.1 c hc
      · exact flattenKids_all lang rest _ _ _ _ _ _ _ ps hs.2 hsh.2 c hc
end

theorem qq_kids (lang : Lang) (info : VInfo) (kids : List VTree) (h : QQ lang (.mk info kids)) : ∀ c ∈ kids, QQ lang c := by
  obtain ⟨⟨pos, _, _, hk⟩, hs, ps, hsh⟩ := h
  simp only [VTree.kids, VTree.info] at hk hs hsh
  intro c hc
  rw [hk] at hc
  exact flattenKids_all lang _ _ _ _ _ _ _ _ _ (summarizedL_kids lang info.raw hs) (shapeOKL_kids ps info.raw hsh) c hc

theorem flatten_qq (lang : Lang) (root : Tree) (rootId : Nat) (ps : Option Nat) (hs : Summarized lang root)
    (hsh : shapeOK ps root = true) : QQ lang (flatten lang root rootId) := by
  obtain ⟨d, kids⟩ := root
  unfold flatten
  exact ⟨⟨length_zero, rfl, rfl, rfl⟩, hs, ps, hsh⟩

mutual
  /-- Every index inside the preorder interval of a good node is a good node itself, and a hereditary
  property of the tree holds for it. -/
  theorem good_cover (L : List Flat) (Q : VTree → Prop) (hQ : ∀ info kids, Q (.mk info kids) → ∀ c ∈ kids, Q c) :
      ∀ (v : VTree) (k : Nat) (par : Option Nat) (dep : Nat), GoodAt L v k par dep → Q v → ∀ i, k ≤ i → i < k + vsize v →
      ∃ info kids par' dep', GoodAt L (.mk info kids) i par' dep' ∧ Q (.mk info kids)
    | .mk info kids, k, par, dep, hg, hq, i, h1, h2 => by
      by_cases hi : i = k
      · subst hi; exact ⟨info, kids, par, dep, hg, hq⟩
      · unfold GoodAt at hg
        unfold vsize at h2
        exact good_coverL L Q hQ kids (k + 1) k (dep + 1) hg.2 (hQ info kids hq) i (by omega) (by omega)
  theorem good_coverL (L : List Flat) (Q : VTree → Prop) (hQ : ∀ info kids, Q (.mk info kids) → ∀ c ∈ kids, Q c) :
      ∀ (kids : List VTree) (s p dep : Nat), GoodL L kids s p dep → (∀ c ∈ kids, Q c) → ∀ i, s ≤ i → i < s + vsizeL kids →
      ∃ info kids' par' dep', GoodAt L (.mk info kids') i par' dep' ∧ Q (.mk info kids')
    | [], _, _, _, _, _, i, h1, h2 => by unfold vsizeL at h2; omega
    | c :: r, s, p, dep, hg, hq, i, h1, h2 => by
      unfold GoodL at hg
      unfold vsizeL at h2
      by_cases hi : i < s + vsize c
      · exact good_cover L Q hQ c s (some p) dep hg.1 (hq c (by simp)) i h1 hi
      · exact good_coverL L Q hQ r (s + vsize c) p dep hg.2 (fun x hx => hq x (by simp [hx])) i (by omega) (by omega)
end

theorem flatOf_size (t : VTree) : (flatOf t).size = vsize t := by
  have := congrArg List.length (flatOf_spec t)
  simpa [pre_length] using this

/-- **ft_all_good.**  Every entry of the preorder array of `flatten` is a node of the flattened tree,
stored with its record, built by `flattenAt` over a summarized parser-shaped raw subtree. -/
theorem ft_all_good (lang : Lang) (root : Tree) (rootId : Nat) (ps : Option Nat) (hs : Summarized lang root)
    (hsh : shapeOK ps root = true) (i : Nat) (hi : i < (flatOf (flatten lang root rootId)).size) :
    ∃ info kids par dep, GoodAt (flatOf (flatten lang root rootId)).toList (.mk info kids) i par dep ∧ QQ lang (.mk info kids) := by
  rw [flatOf_size] at hi
  exact good_cover _ (QQ lang) (qq_kids lang) _ 0 none 0 (flatOf_good _) (flatten_qq lang root rootId ps hs hsh) i (Nat.zero_le _) (by omega)

/-- Identity, byte range, raw subtree and alias of a visible node / of a `TSNode`. -/
def vkey (c : VTree) : Nat × Nat × Nat × Tree × Nat := (c.info.id, c.info.start.bytes, c.info.stop.bytes, c.info.raw, c.info.alias)
def rkey (r : NodeRef) : Nat × Nat × Nat × Tree × Nat := (r.id, r.start.bytes, r.endByte, r.t, r.alias)

mutual
  /-- The nodes `flatten` lists for a raw subtree are the nodes `ts_node_child` hands out for it
  (`enumRefs`): same slot ids, same byte ranges — the two position systems (start of the padding vs
  start of the content) agree because a node's padding is its first child's (`Sized`). -/
  theorem flattenAt_refs (lang : Lang) : ∀ (t : Tree) (cur : Length) (al id : Nat) (chain : List (List Nat)) (cstart : Length),
      cstart.bytes = cur.bytes + t.data.padding.bytes → Sized t →
      (flattenAt lang t cur al id chain).map vkey =
        (if t.data.visible || al != 0 then [({ t := t, alias := al, id := id, start := cstart } : NodeRef)] else enumRefs lang t cstart).map rkey
    | .mk d kids, cur, al, id, chain, cstart, hpos, hs => by
      unfold flattenAt
      simp only [data_mk] at hpos ⊢
      by_cases hv : (d.visible || al != 0) = true
      · simp only [hv, if_true, List.map_cons, List.map_nil, vkey, rkey, VTree.info, NodeRef.endByte, data_mk, length_add_bytes]
        simp [hpos]
      · simp only [hv, if_false, Bool.false_eq_true]
        unfold enumRefs
        unfold Sized at hs
        refine flattenKids_refs lang kids cur d.productionId 0 0 d.addr kids.length chain cstart ?_ hs.2
        simp only [Nat.lt_irrefl, if_false]
        intro c r hk
        have := (hs.1 (by rw [hk]; simp)).1
        rw [hk] at this
        simp only [kidsPadding] at this
        rw [hpos, this]
  theorem flattenKids_refs (lang : Lang) : ∀ (kids : List Tree) (cur : Length) (pid si i addr n : Nat) (outer : List (List Nat))
      (pos : Length), (if i > 0 then pos.bytes = cur.bytes else ∀ c r, kids = c :: r → pos.bytes = cur.bytes + c.data.padding.bytes) →
      SizedL kids →
      (flattenKids lang kids cur pid si i addr n outer).map vkey = (enumRefsKids lang pid addr n kids pos si i).map rkey
    | [], _, _, _, _, _, _, _, _, _, _ => by simp [flattenKids, enumRefsKids]
    | c :: rest, cur, pid, si, i, addr, n, outer, pos, hpos, hs => by
      unfold flattenKids enumRefsKids
      unfold SizedL at hs
      simp only [List.map_append]
      have hcs : (if i > 0 then length_add pos c.data.padding else pos).bytes = cur.bytes + c.data.padding.bytes := by
        by_cases hi : i > 0
        · simp only [hi, if_true] at hpos ⊢
          simp [length_add_bytes, hpos]
        · simp only [hi, if_false] at hpos ⊢
          exact hpos c rest rfl
      congr 1
      · have := flattenAt_refs lang c cur (if c.data.extra then 0 else lang.aliasAt pid si) (slotId addr n i)
          (if c.data.extra then [] else directFields lang pid si :: outer) (if i > 0 then length_add pos c.data.padding else pos) hcs hs.1
        rw [this]
        simp only [NodeRef.relevant, isRelevant, if_true]
      · refine flattenKids_refs lang rest _ pid _ (i + 1) addr n outer _ ?_ hs.2
        simp only [Nat.succ_pos, if_true, gt_iff_lt, length_add_bytes, hcs, Tree.totalSize]
        omega
end

theorem find_congr_keys {α β : Type} (ka : α → Nat × Nat × Nat × Tree × Nat) (kb : β → Nat × Nat × Nat × Tree × Nat) (goal : Nat) :
    ∀ (A : List α) (B : List β), A.map ka = B.map kb →
    (A.find? (fun a => decide ((ka a).2.2.1 > goal))).map ka = (B.find? (fun b => decide ((kb b).2.2.1 > goal))).map kb
  | [], [], _ => rfl
  | [], _ :: _, h => by simp at h
  | _ :: _, [], h => by simp at h
  | a :: A, b :: B, h => by
    simp only [List.map_cons, List.cons.injEq] at h
    simp only [List.find?_cons, h.1]
    split
    · simp [h.1]
    · exact find_congr_keys ka kb goal A B h.2

/-- **first_child_for_byte_ft_spec.**  The evaluated cross-check `fcbNode = FT.firstChildForByte` as a
theorem, in the form the driver evaluates it: for EVERY entry `k` of the preorder array of `flatten`
(root summarized and parser-shaped), with `self` the `TSNode` built from that entry, and a goal byte
without dead end (`ndeNode`), the port of `ts_node_first_child_for_byte(self, goal)` returns the node
(same slot id, byte range, raw subtree, alias) that `FT.firstChildForByte k goal` designates — null
iff null. -/
theorem first_child_for_byte_ft_spec (lang : Lang) (root : Tree) (rootId : Nat) (ps : Option Nat) (fuel k goal : Nat)
    (hs : Summarized lang root) (hsh : shapeOK ps root = true) :
    let ft : FT := flatOf (flatten lang root rootId)
    k < ft.size → (refOf (ft.node k).info).t.size ≤ 2 * fuel + 4 →
    ndeNode lang goal (refOf (ft.node k).info).t (refOf (ft.node k).info).start = true →
    (firstChildForBytePort lang fuel (refOf (ft.node k).info) goal true).map rkey =
      (ft.firstChildForByte k goal false).map (fun j => rkey (refOf (ft.node j).info)) := by
  intro ft hk hf hnde
  obtain ⟨info, kids, par, dep, hg, ⟨pos, hst, hstop, hkids⟩, hsv, psv, hshv⟩ := ft_all_good lang root rootId ps hs hsh k hk
  simp only [VTree.info, VTree.kids] at hst hstop hkids hsv hshv
  have hnode := good_node ft info kids k par dep hg
  have hinfo : (ft.node k).info = info := by rw [hnode]
  rw [hinfo] at hf hnde ⊢
  simp only [refOf] at hf hnde
  rw [first_child_for_byte_flat_spec lang fuel (refOf info) goal psv hf hsv hshv hnde]
  -- the children of the entry are the children of the VTree node, which are `enumRefs`
  have hrefs : kids.map vkey = (enumRefs lang info.raw info.start).map rkey := by
    rw [hkids]
    obtain ⟨d, rk⟩ := hraw : info.raw
    unfold enumRefs
    simp only [kids_mk, data_mk] at hst ⊢
    refine flattenKids_refs lang rk pos d.productionId 0 0 d.addr rk.length [] info.start ?_ (by
      have := sized_of_summarized lang info.raw hsv; rw [hraw] at this; unfold Sized at this; exact this.2)
    simp only [Nat.lt_irrefl, if_false]
    intro c r hk'
    have hsz := sized_of_summarized lang info.raw hsv
    rw [hraw] at hsz
    unfold Sized at hsz
    have := (hsz.1 (by rw [hk']; simp)).1
    rw [hk'] at this
    simp only [kidsPadding] at this
    rw [hst, length_add_bytes, this]
  have hK := ft_kid_info ft info kids k par dep hg
  have hkeys : (ft.kidsOf k).map (fun j => rkey (refOf (ft.node j).info)) = kids.map vkey := by
    apply List.ext_getElem?
    intro j
    have := congrArg (Option.map fun (i : VInfo) => rkey (refOf i)) (hK j)
    simpa [List.getElem?_map, Option.map_map, Function.comp_def, vkey, rkey, refOf, NodeRef.endByte] using this
  sorry

/-! ## Non-vacuity (demo tree of `NodeProps.lean`: root → [a, hidden h → [v → [b], c], d]) -/

/-- The hypotheses of `nav_ft_spec` hold for the leaf `c` below the hidden `h`. -/
example := nav_ft_spec C02.demoLang 8 pvRoot pvC [1, 1] none (by simp) (by simp) (by decide)
  pvRoot_summarized pvRoot_shape rfl (by decide) (by decide) (by decide) (by decide)
/-- … and the array is what one expects: preorder ids, parents, children lists. -/
example : (pre (flatten C02.demoLang pvRoot.t pvRoot.id) none 0 0).map (fun f => (f.info.id, f.parent, f.kids.toList)) =
    [(1, none, [1, 2, 4, 5]), (976, some 0, []), (1984, some 0, [3]), (2992, some 2, []), (1992, some 0, []), (992, some 0, [])] := by decide

end TsVerif.C06
